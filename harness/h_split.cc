// Correspondence harness + oracles for C03 (text InputSplit), C04 (RecordIO InputSplit) and C05
// (BeforeFirst / ResetPartition equal a fresh split).  Runs the REAL LineSplitter / RecordIOSplitter /
// SingleThreadedInputSplit over the in-memory filesystem (common/memfs.h) and InputSplit::Create on
// real files inside the --out directory.  Internal state is read directly: the dmlc io headers are
// included with private/protected opened (this TU only; /repo is untouched).
//
// Line protocol (one result line per op):
//   file <i> <hex>                      raw file i                              -> ok
//   recfile <i> <hexrec>*               file i := RecordIOWriter image          -> file <hex>
//   put <hexname> <hex> / putrec <hexname> <hexrec>*   named file (any '/'-separated name) in the file system -> ok / file <hex>
//   newuri <text|recordio> <hexuri> <recurse> <k> <n> <w> <st> <kBufferSize>   construct from a URI string (';'-list, directories)
//                                         -> ok files <hexname>:<size>* offs <file_offset_>* | <state>  / err:check
//   new <text|recordio> <k> <n> <w> <st> <kBufferSize>  construct over files 0..; buffer_size_ := w words; st=1 wraps the
//                                         base in SingleThreadedInputSplit      -> ok | <state>  / err:check
//   rec / chunk                         NextRecord / NextChunk                  -> rec|chunk <hex> | <state>  / false | <state>
//   hint <bytes> / bf / reset <k> <n>   HintChunkSize / BeforeFirst / ResetPartition -> ok | <state>
//   drain rec|chunk|mix <s>|chunkrd <q> consume to the end                      -> blobs <hex>* end [recs <hex>* end] | <state>
//   create <text|recordio> <k> <n> <defw>  InputSplit::Create on real files, NextRecord to the end -> recs <hex>* end
//   shnew <text|recordio> <k> <n> <m> <defw> <perm> <seed>   InputSplitShuffle::Create on real files (m shuffle parts); <perm> =
//                                         the order the generator predicts for shuffle_indexes_ (own mt19937 + std::shuffle)
//                                         -> ok / perm-differs <actual> / err:check
//   shrec / shdrain                     NextRecord / NextRecord to the end          -> rec <hex> | false / recs <hex>* end
//   shdrainc                            NextChunk to the end, chunks cut into records -> recs <hex>* end
//   shbf <perm> / shreset <k> <n>       BeforeFirst (predicted new order) / ResetPartition -> ok / perm-differs <actual> / err:check
//   <state> = offBegin offEnd offCurr filePtr fpos overflowLen chunkBegin chunkRemaining dataWords bufWords
//             [w wrapperChunkNull wBegin wRemaining wDataWords wBufWords]
//   after a dmlc::Error the object is poisoned: every further op answers "poisoned" until the next new.
#include <dmlc/base.h>
#include <dmlc/filesystem.h>
#include <dmlc/io.h>
#include <dmlc/logging.h>
#include <dmlc/memory_io.h>
#include <dmlc/recordio.h>
#include <dmlc/threadediter.h>
#include <algorithm>
#include <fstream>
#include <memory>
#include <random>
#include <set>
#include <sstream>
#include "common/memfs.h"
#include "common/proto.h"
#define private public
#define protected public
#include <io/input_split_base.h>
#include <io/line_split.h>
#include <io/recordio_split.h>
#include <io/single_threaded_input_split.h>
#include <dmlc/input_split_shuffle.h>
#undef private
#undef protected

using dmlc::InputSplit;
using dmlc::io::InputSplitBase;
using vh::Case;

static const uint32_t kMagic = dmlc::RecordIOWriter::kMagic;
static bool is_eol(char c) { return c == '\n' || c == '\r'; }

// ---- independent references ---------------------------------------------------------------------
// non-empty lines of a text file
static void ref_lines(const std::string &f, std::vector<std::string> *out) {
  size_t i = 0;
  while (i < f.size()) {
    size_t j = f.find_first_of("\n\r", i);
    if (j == std::string::npos) j = f.size();
    if (j > i) out->push_back(f.substr(i, j - i));
    i = j + 1;
  }
}
// what a consumer sees in a delivered text blob: split on \n \r \0, drop empties
static void canon_text(const std::string &b, std::vector<std::string> *out) {
  size_t i = 0;
  while (i < b.size()) {
    size_t j = i;
    while (j < b.size() && b[j] != '\n' && b[j] != '\r' && b[j] != '\0') ++j;
    if (j > i) out->push_back(b.substr(i, j - i));
    i = j + 1;
  }
}
// independent walk of a RecordIO byte string (whole records only); false if malformed
static bool parse_recordio(const std::string &s, std::vector<std::string> *out) {
  size_t o = 0;
  std::string cur;
  bool open = false;
  while (o < s.size()) {
    if (o + 8 > s.size()) return false;
    uint32_t m, l;
    memcpy(&m, s.data() + o, 4);
    memcpy(&l, s.data() + o + 4, 4);
    if (m != kMagic) return false;
    uint32_t flag = l >> 29, len = l & ((1u << 29) - 1);
    size_t pad = (len + 3u) / 4u * 4u;
    if (o + 8 + pad > s.size()) return false;
    if (flag == 0 || flag == 1) {
      if (open) return false;
      cur.assign(s, o + 8, len);
    } else {
      if (!open) return false;
      cur.append(reinterpret_cast<const char *>(&kMagic), 4);
      cur.append(s, o + 8, len);
    }
    open = (flag == 1 || flag == 2);
    if (!open) out->push_back(cur);
    o += 8 + pad;
  }
  return !open;
}

struct SplitHarness : vh::Harness {
  std::string prop, out_dir;
  vh::MemFS fs;
  std::vector<std::string> files;                    // file table
  std::vector<std::vector<std::string>> file_recs;   // records per file (recordio)
  std::vector<bool> is_recfile;
  std::map<std::string, std::vector<std::string>> named_recs;   // records of files made by putrec
  InputSplitBase *base = nullptr;
  std::unique_ptr<InputSplit> owner;                 // the object ops go to (base itself or the wrapper)
  dmlc::io::SingleThreadedInputSplit *wrap = nullptr;
  bool text = true, poisoned = false;
  std::map<std::string, uint64_t> *extra = nullptr;

  ~SplitHarness() override { owner.reset(); }

  void drop() {
    owner.reset();
    base = nullptr;
    wrap = nullptr;
    poisoned = false;
  }
  void begin_case(const Case &) override {
    drop();
    shuffle.reset();
    files.clear();
    file_recs.clear();
    is_recfile.clear();
    named_recs.clear();
    fs.Clear();
  }

  std::string uri() const {
    std::vector<std::string> names;
    for (size_t i = 0; i < files.size(); ++i) names.push_back("/m/f" + std::to_string(i));
    return vh::MemFS::JoinUri(names);
  }

  static std::string num(size_t v) { return std::to_string(v); }
  static std::string chunk_state(InputSplitBase::Chunk *c) {
    size_t rem = c->end - c->begin;
    size_t cb = rem == 0 ? 0 : c->begin - reinterpret_cast<char *>(dmlc::BeginPtr(c->data));
    return num(cb) + " " + num(rem) + " " + num(c->data.size());
  }
  std::string state() {
    InputSplitBase *b = base;
    std::string s = num(b->offset_begin_) + " " + num(b->offset_end_) + " " + num(b->offset_curr_) + " ";
    if (b->fs_ != NULL) s += num(b->file_ptr_) + " " + num(b->fs_->Tell());
    else s += "- -";
    s += " " + num(b->overflow_.size()) + " " + chunk_state(&b->tmp_chunk_) + " " + num(b->buffer_size_);
    if (wrap != nullptr) {
      s += " w ";
      if (wrap->tmp_chunk_ == NULL) s += "1 0 0 0";
      else s += "0 " + chunk_state(wrap->tmp_chunk_);
      s += " " + num(wrap->buffer_size_);
    }
    return s;
  }

  InputSplitBase *make(bool is_text, unsigned k, unsigned n) {
    std::string u = uri();
    if (is_text) return new dmlc::io::LineSplitter(&fs, u.c_str(), k, n);
    return new dmlc::io::RecordIOSplitter(&fs, u.c_str(), k, n, false);
  }

  // the file table as real files (InputSplit::Create / InputSplitShuffle go through the local file system)
  std::string real_uri() {
    std::string dir = out_dir + "/cfiles";
    mkdir(dir.c_str(), 0777);
    std::string u;
    for (size_t i = 0; i < files.size(); ++i) {
      std::string p = dir + "/f" + std::to_string(i);
      std::ofstream of(p, std::ios::binary | std::ios::trunc);
      of.write(files[i].data(), files[i].size());
      of.close();
      u += (i ? ";" : "") + p;
    }
    return u;
  }
  std::unique_ptr<InputSplit> shuffle;   // the InputSplitShuffle under test (ops sh*)
  bool sh_text = true;
  // does shuffle_indexes_ hold the order the generator predicted?
  std::string perm_check(const std::string &want) {
    auto *o = static_cast<dmlc::InputSplitShuffle *>(shuffle.get());
    std::string got;
    for (size_t i = 0; i < o->shuffle_indexes_.size(); ++i) got += (i ? "," : "") + std::to_string(o->shuffle_indexes_[i]);
    if (got.empty()) got = "-";
    return got == want ? "ok" : "perm-differs " + got;
  }

  // one NextRecord / NextChunk on the object under test; 1 = blob, 0 = false
  int next(bool want_rec, std::string *blob) {
    InputSplit::Blob b;
    bool ok = want_rec ? owner->NextRecord(&b) : owner->NextChunk(&b);
    if (!ok) return 0;
    blob->assign(static_cast<const char *>(b.dptr), b.size);
    return 1;
  }

  static std::string chunk_records(const std::string &chunk, unsigned q, std::vector<std::string> *recs) {
    std::vector<uint32_t> mem(chunk.size() / 4 + 1);
    memcpy(mem.data(), chunk.data(), chunk.size());
    InputSplit::Blob blob;
    blob.dptr = mem.data();
    blob.size = chunk.size();
    try {
      for (unsigned j = 0; j < q; ++j) {
        dmlc::RecordIOChunkReader cr(blob, j, q);
        InputSplit::Blob r;
        while (cr.NextRecord(&r)) recs->push_back(std::string(static_cast<char *>(r.dptr), r.size));
      }
    } catch (const dmlc::Error &) {
      return "invalid";
    }
    return "";
  }

  std::string exec(const std::vector<std::string> &w) override {
    if (w.empty()) return "bad-op";
    const std::string &op = w[0];
    if (op == "file" && w.size() == 3) {
      size_t i = strtoull(w[1].c_str(), nullptr, 10);
      if (i > files.size()) return "bad-op";
      if (i == files.size()) { files.push_back(""); file_recs.emplace_back(); is_recfile.push_back(false); }
      files[i] = vh::unhex(w[2]);
      file_recs[i].clear();
      is_recfile[i] = false;
      fs.Put("/m/f" + std::to_string(i), files[i]);
      return "ok";
    }
    if (op == "recfile" && w.size() >= 2) {
      size_t i = strtoull(w[1].c_str(), nullptr, 10);
      if (i > files.size()) return "bad-op";
      if (i == files.size()) { files.push_back(""); file_recs.emplace_back(); is_recfile.push_back(true); }
      std::string img;
      std::vector<std::string> recs;
      {
        dmlc::MemoryStringStream ms(&img);
        dmlc::RecordIOWriter wr(&ms);
        for (size_t j = 2; j < w.size(); ++j) {
          recs.push_back(vh::unhex(w[j]));
          wr.WriteRecord(recs.back());
        }
      }
      files[i] = img;
      file_recs[i] = recs;
      is_recfile[i] = true;
      fs.Put("/m/f" + std::to_string(i), img);
      return "file " + vh::hex(img);
    }
    if (op == "put" && w.size() == 3) {
      std::string nm = vh::unhex(w[1]);
      fs.Put(nm, vh::unhex(w[2]));
      named_recs.erase(nm);
      return "ok";
    }
    if (op == "putrec" && w.size() >= 2) {
      std::string nm = vh::unhex(w[1]), img;
      std::vector<std::string> recs;
      {
        dmlc::MemoryStringStream ms(&img);
        dmlc::RecordIOWriter wr(&ms);
        for (size_t j = 2; j < w.size(); ++j) {
          recs.push_back(vh::unhex(w[j]));
          wr.WriteRecord(recs.back());
        }
      }
      fs.Put(nm, img);
      named_recs[nm] = recs;
      return "file " + vh::hex(img);
    }
    if (op == "newuri" && w.size() == 9) {
      drop();
      text = w[1] == "text";
      std::string u = vh::unhex(w[2]);
      bool rc = w[3] == "1";
      unsigned k = strtoul(w[4].c_str(), nullptr, 10), n = strtoul(w[5].c_str(), nullptr, 10);
      size_t bw = strtoull(w[6].c_str(), nullptr, 10);
      bool st = w[7] == "1";
      if (n == 0 || bw == 0 || strtoull(w[8].c_str(), nullptr, 10) != InputSplitBase::kBufferSize) return "bad-op";
      try {
        if (text) base = new dmlc::io::LineSplitter(&fs, u.c_str(), k, n);
        else base = new dmlc::io::RecordIOSplitter(&fs, u.c_str(), k, n, rc);
      } catch (const dmlc::Error &) {
        base = nullptr;
        return "err:check";
      }
      base->buffer_size_ = bw;
      if (st) {
        wrap = new dmlc::io::SingleThreadedInputSplit(base, 1);
        owner.reset(wrap);
      } else {
        owner.reset(base);
      }
      std::string res = "ok files";
      for (auto &f : base->files_) res += " " + vh::hex(f.path.name) + ":" + num(f.size);
      res += " offs";
      for (size_t o : base->file_offset_) res += " " + num(o);
      return res + " | " + state();
    }
    if (op == "new" && w.size() == 7) {
      drop();
      text = w[1] == "text";
      unsigned k = strtoul(w[2].c_str(), nullptr, 10), n = strtoul(w[3].c_str(), nullptr, 10);
      size_t bw = strtoull(w[4].c_str(), nullptr, 10);
      bool st = w[5] == "1";
      if (n == 0 || bw == 0 || strtoull(w[6].c_str(), nullptr, 10) != InputSplitBase::kBufferSize) return "bad-op";
      try {
        base = make(text, k, n);
      } catch (const dmlc::Error &) {
        base = nullptr;   // the constructor threw: the partially built object is already destroyed
        return "err:check";
      }
      base->buffer_size_ = bw;
      if (st) {
        wrap = new dmlc::io::SingleThreadedInputSplit(base, 1);
        owner.reset(wrap);
      } else {
        owner.reset(base);
      }
      return "ok | " + state();
    }
    if (op == "shnew" && w.size() == 8) {
      shuffle.reset();
      unsigned k = strtoul(w[2].c_str(), nullptr, 10), n = strtoul(w[3].c_str(), nullptr, 10), m = strtoul(w[4].c_str(), nullptr, 10);
      try {
        sh_text = w[1] == "text";
        shuffle.reset(dmlc::InputSplitShuffle::Create(real_uri().c_str(), k, n, w[1].c_str(), m, atoi(w[7].c_str())));
      } catch (const dmlc::Error &) {
        return "err:check";
      }
      return perm_check(w[6]);
    }
    if (op == "shrec" || op == "shdrain" || op == "shdrainc" || op == "shbf" || op == "shreset") {
      if (!shuffle) return "no-object";
      try {
        if (op == "shrec") {
          InputSplit::Blob b;
          if (!shuffle->NextRecord(&b)) return "false";
          return "rec " + vh::hex(std::string(static_cast<const char *>(b.dptr), b.size));
        }
        if (op == "shdrain") {
          std::string res = "recs";
          InputSplit::Blob b;
          size_t cnt = 0;
          while (shuffle->NextRecord(&b)) {
            res += " " + vh::hex(std::string(static_cast<const char *>(b.dptr), b.size));
            if (++cnt > 20000) return "runaway";
          }
          return res + " end";
        }
        if (op == "shdrainc") {
          // the same drain through NextChunk (InputSplitShuffle::NextChunk moves through the shuffle parts itself); the
          // chunks are cut into records here: lines for text, RecordIOChunkReader(chunk, 0, 1) for recordio
          std::string res = "recs";
          InputSplit::Blob b;
          size_t cnt = 0;
          bool is_text = sh_text;
          while (shuffle->NextChunk(&b)) {
            if (is_text) {
              // the byte ranges NextRecord hands out for this chunk: a line with the end-of-line run after it, the last
              // byte overwritten with NUL unless the range ends the chunk (LineSplitter writes its terminator there)
              std::string ck(static_cast<const char *>(b.dptr), b.size);
              size_t i = 0;
              while (i < ck.size()) {
                size_t j = i;
                while (j < ck.size() && !is_eol(ck[j])) ++j;
                while (j < ck.size() && is_eol(ck[j])) ++j;
                std::string r = ck.substr(i, j - i);
                if (j != ck.size()) r[r.size() - 1] = '\0';
                res += " " + vh::hex(r);
                i = j;
              }
            } else {
              dmlc::RecordIOChunkReader cr(b, 0, 1);
              InputSplit::Blob r;
              while (cr.NextRecord(&r)) res += " " + vh::hex(std::string(static_cast<const char *>(r.dptr), r.size));
            }
            if (++cnt > 20000) return "runaway";
          }
          return res + " end";
        }
        if (op == "shbf" && w.size() == 2) {
          shuffle->BeforeFirst();
          return perm_check(w[1]);
        }
        if (op == "shreset" && w.size() == 3) {
          shuffle->ResetPartition(strtoul(w[1].c_str(), nullptr, 10), strtoul(w[2].c_str(), nullptr, 10));
          return "ok";
        }
      } catch (const dmlc::Error &) {
        shuffle.reset();
        return "err:check";
      }
      return "bad-op";
    }
    if (op == "createreset" && w.size() == 6) {
      // all parts 0..n-1 read from ONE object made by InputSplit::Create(uri, k0, n0), moved from part to part with
      // ResetPartition(k, n) (the other way of "reading parts 0..num_parts-1")
      unsigned k0 = strtoul(w[2].c_str(), nullptr, 10), n0 = strtoul(w[3].c_str(), nullptr, 10), n = strtoul(w[4].c_str(), nullptr, 10);
      std::string res = "recs";
      try {
        std::unique_ptr<InputSplit> s(InputSplit::Create(real_uri().c_str(), k0, n0, w[1].c_str()));
        InputSplit::Blob b;
        size_t cnt = 0;
        for (unsigned k = 0; k < n; ++k) {
          s->ResetPartition(k, n);
          while (s->NextRecord(&b)) {
            res += " " + vh::hex(std::string(static_cast<const char *>(b.dptr), b.size));
            if (++cnt > 20000) return "runaway";
          }
        }
      } catch (const dmlc::Error &) {
        return "err:check";
      }
      return res + " end";
    }
    if (op == "create" && w.size() == 5) {
      unsigned k = strtoul(w[2].c_str(), nullptr, 10), n = strtoul(w[3].c_str(), nullptr, 10);
      std::string dir = out_dir + "/cfiles";
      mkdir(dir.c_str(), 0777);
      std::string u;
      for (size_t i = 0; i < files.size(); ++i) {
        std::string p = dir + "/f" + std::to_string(i);
        std::ofstream of(p, std::ios::binary | std::ios::trunc);
        of.write(files[i].data(), files[i].size());
        of.close();
        u += (i ? ";" : "") + p;
      }
      std::string res = "recs";
      try {
        std::unique_ptr<InputSplit> s(InputSplit::Create(u.c_str(), k, n, w[1].c_str()));
        InputSplit::Blob b;
        size_t cnt = 0;
        while (s->NextRecord(&b)) {
          res += " " + vh::hex(std::string(static_cast<const char *>(b.dptr), b.size));
          if (++cnt > 20000) return "runaway";
        }
      } catch (const dmlc::Error &) {
        return "err:check";
      }
      return res + " end";
    }
    if (base == nullptr) return "no-object";
    if (poisoned) return "poisoned";
    try {
      if (op == "rec" || op == "chunk") {
        std::string b;
        int r = next(op == "rec", &b);
        if (r == 0) return "false | " + state();
        return op + " " + vh::hex(b) + " | " + state();
      }
      if (op == "hint" && w.size() == 2) {
        owner->HintChunkSize(strtoull(w[1].c_str(), nullptr, 10));
        return "ok | " + state();
      }
      if (op == "bf") {
        owner->BeforeFirst();
        return "ok | " + state();
      }
      if (op == "reset" && w.size() == 3) {
        unsigned k = strtoul(w[1].c_str(), nullptr, 10), n = strtoul(w[2].c_str(), nullptr, 10);
        if (n == 0) return "bad-op";
        owner->ResetPartition(k, n);
        return "ok | " + state();
      }
      if (op == "drain" && w.size() >= 2) {
        const std::string &mode = w[1];
        uint64_t arg = w.size() > 2 ? strtoull(w[2].c_str(), nullptr, 10) : 0;
        std::string res = "blobs";
        std::vector<std::string> recs;
        std::string bad;
        size_t cnt = 0;
        while (true) {
          bool want_rec = mode == "rec" || (mode == "mix" && ((arg >> (cnt % 16)) & 1));
          std::string b;
          if (!next(want_rec, &b)) break;
          res += " " + vh::hex(b);
          if (mode == "chunkrd" && bad.empty()) bad = chunk_records(b, static_cast<unsigned>(arg), &recs);
          if (++cnt > 20000) return "runaway";
        }
        res += " end";
        if (mode == "chunkrd") {
          if (!bad.empty()) res += " recs invalid";
          else {
            res += " recs";
            for (auto &r : recs) res += " " + vh::hex(r);
            res += " end";
          }
        }
        return res + " | " + state();
      }
    } catch (const dmlc::Error &) {
      poisoned = true;
      return "err:check";
    } catch (const std::exception &) {  // e.g. a Blob whose size wrapped around (begin > end)
      poisoned = true;
      return "ub:blob";
    }
    return "bad-op";
  }

  // ---------------------------------------------------------------------------------------------
  // oracles
  // ---------------------------------------------------------------------------------------------
  struct Sim {  // what the oracle reconstructs from the op list (inputs only, never results of the model)
    std::vector<std::string> files;
    std::vector<std::vector<std::string>> recs;
    std::vector<bool> isrec;
  };

  // blobs delivered by result line `r` of op `w`; chunk=true for whole-chunk blobs
  static void delivered(const std::vector<std::string> &w, const std::string &r,
                        std::vector<std::pair<std::string, bool>> *out) {
    auto t = vh::split_ws(r);
    if (t.empty()) return;
    if ((t[0] == "rec" || t[0] == "chunk") && t.size() >= 2) {
      out->push_back(std::make_pair(vh::unhex(t[1]), t[0] == "chunk"));
    } else if (t[0] == "blobs") {
      uint64_t arg = w.size() > 2 ? strtoull(w[2].c_str(), nullptr, 10) : 0;
      for (size_t i = 1; i < t.size() && t[i] != "end"; ++i) {
        bool isrec = w[1] == "rec" || (w[1] == "mix" && ((arg >> ((i - 1) % 16)) & 1));
        out->push_back(std::make_pair(vh::unhex(t[i]), !isrec));
      }
    }
  }

  // canonical record list of delivered blobs; false if a chunk is not made of whole records
  static bool canon(bool is_text, const std::vector<std::pair<std::string, bool>> &blobs,
                    std::vector<std::string> *out, std::string *why) {
    for (auto &b : blobs) {
      if (is_text) {
        canon_text(b.first, out);
      } else if (b.second) {
        if (!parse_recordio(b.first, out)) { *why = "chunk is not a sequence of whole records"; return false; }
      } else {
        out->push_back(b.first);
      }
    }
    return true;
  }

  std::map<std::string, std::vector<std::string>> fresh_cache;
  // stream of a freshly constructed bare split for (k,n): the reference object of C05
  bool fresh_stream(bool is_text, unsigned k, unsigned n, std::vector<std::string> *out) {
    uint64_t fh = 1469598103934665603ULL;
    for (auto &f : files) fh = vh::Runner::fnv(f, fh * 31 + f.size());
    std::string key = std::string(is_text ? "t" : "r") + " " + std::to_string(k) + " " + std::to_string(n) + " " + std::to_string(fh);
    if (fresh_cache.size() > 200000) fresh_cache.clear();
    auto it = fresh_cache.find(key);
    if (it != fresh_cache.end()) { *out = it->second; return true; }
    try {
      std::unique_ptr<InputSplitBase> s(make(is_text, k, n));
      s->buffer_size_ = 64;
      InputSplit::Blob b;
      std::vector<std::pair<std::string, bool>> blobs;
      size_t cnt = 0;
      while (s->NextRecord(&b) && ++cnt < 20000)
        blobs.push_back(std::make_pair(std::string(static_cast<const char *>(b.dptr), b.size), false));
      std::string why;
      canon(is_text, blobs, out, &why);
    } catch (const dmlc::Error &) {
      return false;
    }
    fresh_cache[key] = *out;
    return true;
  }

  static std::string show(const std::vector<std::string> &v, size_t lim = 8) {
    std::string s = "[";
    for (size_t i = 0; i < v.size() && i < lim; ++i) s += (i ? "," : "") + vh::hex(v[i]);
    if (v.size() > lim) s += ",...";
    return s + "]";
  }

  // independent expansion of a URI list over the current file system, for canonical pieces only
  // ("/a/b" style: absolute, no "://", no "//", no trailing '/', no NUL); false = not canonical, no verdict
  bool ref_expand(const std::string &uri, bool recurse, std::vector<std::string> *names) {
    std::vector<std::string> keys = fs.Names();   // sorted
    std::vector<std::string> pieces;
    {
      std::string cur;
      for (char ch : uri) {
        if (ch == ';') { pieces.push_back(cur); cur.clear(); }
        else cur.push_back(ch);
      }
      if (!cur.empty()) pieces.push_back(cur);
    }
    for (auto &p : pieces) {
      if (p.size() < 2 || p[0] != '/' || p[p.size() - 1] == '/' || p.find("//") != std::string::npos ||
          p.find('\0') != std::string::npos) return false;
      const std::string *content = fs.Get(p);
      if (content != nullptr) {
        if (!content->empty()) names->push_back(p);
        continue;
      }
      // a directory: breadth first, each directory's own files in name order
      std::vector<std::string> queue{p};
      for (size_t qi = 0; qi < queue.size(); ++qi) {
        std::string pre = queue[qi] + "/";
        std::set<std::string> subs;
        for (auto &k : keys) {
          if (k.size() <= pre.size() || k.compare(0, pre.size(), pre) != 0) continue;
          size_t slash = k.find('/', pre.size());
          if (slash == std::string::npos) {
            if (!fs.Get(k)->empty()) names->push_back(k);
          } else if (recurse) {
            subs.insert(k.substr(0, slash));
          }
        }
        for (auto &sd : subs) queue.push_back(sd);
      }
      // a name that is neither a file nor a directory contributes nothing (the code drops it silently)
    }
    return true;
  }

  void uri_oracle(const Case &c, const std::vector<std::string> &res, std::vector<std::string> *fail) {
    size_t i = 0;
    while (i < c.ops.size()) {
      auto w = vh::split_ws(c.ops[i]);
      if (w[0] != "newuri" || w.size() != 9) { ++i; continue; }
      bool is_text = w[1] == "text";
      std::string pr = is_text ? "C03" : "C04";
      std::string uri = vh::unhex(w[2]);
      bool rc = !is_text && w[3] == "1";
      std::vector<std::string> names;
      bool canonical = ref_expand(uri, rc, &names);
      // recordio needs files written by the writer
      if (!is_text)
        for (auto &nm : names)
          if (!named_recs.count(nm)) canonical = false;
      if (is_text)
        for (auto &nm : names)
          if (fs.Get(nm)->find('\0') != std::string::npos) canonical = false;
      std::string tag = "class=none prop=" + pr + " uri=" + w[2] + " ";
      if (canonical) {
        // 1. the file list
        std::string want = "files";
        size_t off = 0;
        std::string offs = " offs 0";
        for (auto &nm : names) {
          want += " " + vh::hex(nm) + ":" + num(fs.Get(nm)->size());
          off += fs.Get(nm)->size();
          offs += " " + num(off);
        }
        want += offs;
        if (names.empty()) {
          if (res[i] != "err:check") fail->push_back(tag + "no non-empty file is named but construction gives " + res[i].substr(0, 120));
        } else if (res[i].compare(0, 3, "ok ") != 0 || res[i].compare(3, want.size(), want) != 0 ||
                   res[i].compare(3 + want.size(), 3, " | ") != 0) {
          fail->push_back(tag + "file list differs: got " + res[i].substr(0, 160) + " expected " + want.substr(0, 160));
        }
      }
      // 2. cover group k = 0..n-1 over the same URI
      unsigned n = strtoul(w[5].c_str(), nullptr, 10);
      if (w[4] != "0" || !canonical || names.empty()) { ++i; continue; }
      std::vector<std::pair<std::string, bool>> blobs;
      bool complete = true, errored = false;
      size_t j = i;
      for (unsigned k = 0; k < n; ++k) {
        if (j >= c.ops.size()) { complete = false; break; }
        auto wk = vh::split_ws(c.ops[j]);
        if (wk[0] != "newuri" || wk.size() != 9 || wk[1] != w[1] || wk[2] != w[2] || wk[3] != w[3] || wk[5] != w[5] ||
            wk[6] != w[6] || strtoul(wk[4].c_str(), nullptr, 10) != k) { complete = false; break; }
        if (res[j].compare(0, 2, "ok") != 0) errored = true;
        ++j;
        while (j < c.ops.size()) {
          auto wo = vh::split_ws(c.ops[j]);
          if (wo[0] == "newuri" || wo[0] == "new") break;
          if (res[j].compare(0, 4, "err:") == 0 || res[j].compare(0, 3, "ub:") == 0 || res[j] == "poisoned" || res[j] == "runaway") errored = true;
          delivered(wo, res[j], &blobs);
          ++j;
        }
      }
      if (!complete) { ++i; continue; }
      bool legal = is_text || strtoull(w[6].c_str(), nullptr, 10) >= 2;
      if (legal) {
        std::vector<std::string> want, got;
        for (auto &nm : names) {
          if (is_text) ref_lines(*fs.Get(nm), &want);
          else for (auto &r : named_recs[nm]) want.push_back(r);
        }
        std::string why;
        if (errored) fail->push_back(tag + "an operation failed on a well-formed input");
        else if (!canon(is_text, blobs, &got, &why)) fail->push_back(tag + why);
        else if (got != want) fail->push_back(tag + "parts deliver " + show(got) + " expected " + show(want));
      }
      i = j;
    }
  }

  void shuffle_oracle(const Case &c, const std::vector<std::string> &res, std::vector<std::string> *fail) {
    std::string type;
    unsigned k0 = 0, k = 0, n = 1, m = 1;
    bool have = false, complete = false, reset_elsewhere = false;
    std::multiset<std::string> seg;
    std::string seg_what;
    std::string uri;
    auto reference = [&](std::multiset<std::string> *out) {
      try {
        for (unsigned j = 0; j < m; ++j) {
          std::unique_ptr<InputSplit> s(InputSplit::Create(uri.c_str(), k * m + j, n * m, type.c_str()));
          InputSplit::Blob b;
          while (s->NextRecord(&b)) out->insert(std::string(static_cast<const char *>(b.dptr), b.size));
        }
      } catch (const dmlc::Error &) {
        return false;
      }
      return true;
    };
    auto close_seg = [&]() {
      if (!have) return;
      std::multiset<std::string> want;
      if (!reference(&want)) return;
      bool ok = complete ? seg == want : std::includes(want.begin(), want.end(), seg.begin(), seg.end());
      if (!ok) {
        std::string cls = (m > 1 && reset_elsewhere) ? "shuffle-reset-old-part" : "none";
        std::string got, exp;
        for (auto &x : seg) got += " " + vh::hex(x);
        for (auto &x : want) exp += " " + vh::hex(x);
        fail->push_back("class=" + cls + " prop=C05 InputSplitShuffle after " + seg_what + " delivers {" + got.substr(0, 300) + " }" +
                        (complete ? " but part " : " which is not part of part ") + std::to_string(k) + " of " + std::to_string(n) +
                        " (" + std::to_string(m) + " shuffle parts) holds {" + exp.substr(0, 300) + " }");
      }
    };
    for (size_t i = 0; i < c.ops.size(); ++i) {
      auto w = vh::split_ws(c.ops[i]);
      const std::string &r = res[i];
      if (w[0] == "shnew" && w.size() == 8) {
        close_seg();
        have = r == "ok";
        type = w[1];
        k0 = k = strtoul(w[2].c_str(), nullptr, 10);
        n = strtoul(w[3].c_str(), nullptr, 10);
        m = strtoul(w[4].c_str(), nullptr, 10);
        uri = real_uri();
        seg.clear();
        complete = false;
        reset_elsewhere = false;
        seg_what = "construction";
        if (r.compare(0, 12, "perm-differs") == 0)
          fail->push_back("class=none prop=C05 InputSplitShuffle: shuffle order differs from std::shuffle over mt19937(666+k+n+m+seed): " + r);
        else if (!have && k < n && m > 0)
          fail->push_back("class=none prop=C05 InputSplitShuffle::Create failed on a well-formed input: " + r);
        continue;
      }
      if (!have) continue;
      if (r.compare(0, 4, "err:") == 0 || r == "runaway" || r == "no-object") {
        bool legal = !(w[0] == "shreset" && strtoul(w[2].c_str(), nullptr, 10) != n);
        if (legal) fail->push_back("class=none prop=C05 InputSplitShuffle operation " + c.ops[i] + " failed: " + r);
        have = false;
        continue;
      }
      if (w[0] == "shrec") {
        if (r == "false") complete = true;
        else seg.insert(vh::unhex(r.substr(4)));
      } else if (w[0] == "shdrain" || w[0] == "shdrainc") {
        auto t = vh::split_ws(r);
        for (size_t j = 1; j + 1 < t.size(); ++j) seg.insert(t[j] == "-" ? std::string() : vh::unhex(t[j]));
        complete = true;
      } else if (w[0] == "shbf" || w[0] == "shreset") {
        close_seg();
        seg.clear();
        complete = false;
        seg_what = c.ops[i];
        if (w[0] == "shreset") {
          k = strtoul(w[1].c_str(), nullptr, 10);
          if (k != k0) reset_elsewhere = true;
        }
        if (r.compare(0, 12, "perm-differs") == 0)
          fail->push_back("class=none prop=C05 InputSplitShuffle::BeforeFirst: shuffle order differs from the predicted one: " + r);
      }
    }
    close_seg();
  }

  void end_case(const Case &c, const std::vector<std::string> &res, std::vector<std::string> *fail) override {
    bool cover = c.kind.compare(0, 5, "cover") == 0;
    bool hist = c.kind.compare(0, 4, "hist") == 0;
    bool malformed = c.kind.compare(0, 9, "malformed") == 0;
    if (malformed) return;  // correspondence of the error paths only
    // the file table as set by the ops (all file ops come first in every generated case)
    bool any_nul = false;
    for (auto &f : files)
      if (f.find('\0') != std::string::npos) any_nul = true;
    std::vector<std::string> want_text, want_rec;
    for (size_t i = 0; i < files.size(); ++i) {
      ref_lines(files[i], &want_text);
      for (auto &r : file_recs[i]) want_rec.push_back(r);
    }
    // ---- all parts through ResetPartition on one InputSplit::Create object (createreset): every line / record once
    for (size_t i = 0; i < c.ops.size(); ++i) {
      auto w = vh::split_ws(c.ops[i]);
      if (w.empty() || w[0] != "createreset" || w.size() != 6) continue;
      bool is_text = w[1] == "text";
      if (is_text && any_nul) continue;
      std::string pr = is_text ? "C03" : "C04";
      auto t = vh::split_ws(res[i]);
      std::vector<std::string> got;
      if (t.empty() || t[0] != "recs" || t.back() != "end") {
        fail->push_back("class=none prop=" + pr + " reading all parts through ResetPartition on one created split failed: " + res[i].substr(0, 100));
        continue;
      }
      for (size_t j = 1; j + 1 < t.size(); ++j) {
        std::string b = t[j] == "-" ? std::string() : vh::unhex(t[j]);
        if (is_text) canon_text(b, &got); else got.push_back(b);
      }
      const std::vector<std::string> &want = is_text ? want_text : want_rec;
      if (got != want)
        fail->push_back("class=none prop=" + pr + " parts 0.." + w[4] + "-1 read through ResetPartition on a split created as (" + w[2] + "," +
                        w[3] + ") deliver " + show(got).substr(0, 300) + " expected " + show(want).substr(0, 300));
    }
    // ---- cover groups: runs of `new .. k n ..` with k = 0..n-1, each followed by its consumption ops
    if (cover) {
      size_t i = 0;
      while (i < c.ops.size()) {
        auto w = vh::split_ws(c.ops[i]);
        if (w[0] != "new" || w.size() != 7 || w[2] != "0") { ++i; continue; }
        bool is_text = w[1] == "text";
        unsigned n = strtoul(w[3].c_str(), nullptr, 10);
        std::string pr = is_text ? "C03" : "C04";
        std::vector<std::pair<std::string, bool>> blobs;
        std::vector<std::string> rd_recs;   // records via RecordIOChunkReader (chunkrd mode)
        bool used_chunkrd = false, other_delivery = false, complete = true, errored = false;
        size_t j = i;
        for (unsigned k = 0; k < n; ++k) {
          if (j >= c.ops.size()) { complete = false; break; }
          auto wk = vh::split_ws(c.ops[j]);
          if (wk[0] != "new" || wk.size() != 7 || wk[1] != w[1] || wk[3] != w[3] || wk[4] != w[4] ||
              strtoul(wk[2].c_str(), nullptr, 10) != k) { complete = false; break; }
          if (res[j].compare(0, 2, "ok") != 0) errored = true;
          ++j;
          while (j < c.ops.size()) {
            auto wo = vh::split_ws(c.ops[j]);
            if (wo[0] == "new") break;
            if (res[j].compare(0, 4, "err:") == 0 || res[j].compare(0, 3, "ub:") == 0 || res[j] == "poisoned" || res[j] == "runaway") errored = true;
            delivered(wo, res[j], &blobs);
            if (wo[0] == "rec" || wo[0] == "chunk" || (wo[0] == "drain" && wo[1] != "chunkrd")) other_delivery = true;
            if (wo[0] == "drain" && wo[1] == "chunkrd") {
              used_chunkrd = true;
              auto t = vh::split_ws(res[j]);
              size_t p = 0;
              while (p < t.size() && t[p] != "recs") ++p;
              if (p + 1 < t.size() && t[p + 1] == "invalid") errored = true;
              for (size_t q = p + 1; q < t.size() && t[q] != "end"; ++q) rd_recs.push_back(vh::unhex(t[q]));
            }
            ++j;
          }
        }
        if (!complete) { ++i; continue; }
        std::string tag = "class=none prop=" + pr + " n=" + w[3] + " w=" + w[4] + " ";
        bool legal = is_text ? !any_nul : (strtoull(w[4].c_str(), nullptr, 10) >= 2);
        for (size_t f = 0; f < files.size(); ++f)
          if (is_text == static_cast<bool>(is_recfile[f])) legal = false;
        if (legal) {
          if (errored) {
            fail->push_back(tag + "an operation failed (dmlc::Error / invalid chunk) on a well-formed input");
          } else {
            std::vector<std::string> got;
            std::string why;
            if (!canon(is_text, blobs, &got, &why)) {
              fail->push_back(tag + why);
            } else if (got != (is_text ? want_text : want_rec)) {
              fail->push_back(tag + "parts deliver " + show(got) + " expected " + show(is_text ? want_text : want_rec));
            }
            if (used_chunkrd && !other_delivery && rd_recs != want_rec)
              fail->push_back(tag + "RecordIOChunkReader over the chunks delivers " + show(rd_recs) + " expected " + show(want_rec));
            for (auto &b : blobs) {
              if (!b.second) continue;
              if (b.first.empty()) fail->push_back(tag + "empty chunk delivered");
              else if (is_text && !is_eol(b.first[b.first.size() - 1]))
                fail->push_back(tag + "chunk ends in the middle of a line: " + vh::hex(b.first).substr(0, 80));
            }
          }
        }
        i = j;
      }
    }
    // ---- InputSplitShuffle histories: after construction / BeforeFirst / ResetPartition(k, n) the records delivered are
    // (a sub-multiset of, and once the pass has ended exactly) the records of the m sub-parts k*m .. k*m+m-1 of n*m,
    // each read here through a plain InputSplit::Create (independent of the wrapper)
    if (c.kind.compare(0, 7, "shuffle") == 0) shuffle_oracle(c, res, fail);
    // ---- URI cases: file list (names, sizes, offsets) against an independent expansion of the URI, then cover
    if (c.kind.compare(0, 3, "uri") == 0) uri_oracle(c, res, fail);
    // ---- histories: after every bf / reset the delivered stream is (a prefix of) the fresh stream
    if (hist) {
      bool is_text = true, have = false, seg_open = false, full = false, dead = false;
      unsigned k = 0, n = 1;
      std::vector<std::pair<std::string, bool>> seg;
      std::string seg_what;
      auto close_seg = [&](bool drained) {
        if (!seg_open || dead) return;
        std::vector<std::string> got, fresh;
        std::string why;
        std::string pr = "prop=C05 ";
        if (!fresh_stream(is_text, k, n, &fresh)) return;
        if (!canon(is_text, seg, &got, &why)) {
          fail->push_back("class=none " + pr + "after " + seg_what + ": " + why);
          return;
        }
        bool ok = drained ? got == fresh
                          : (got.size() <= fresh.size() && std::equal(got.begin(), got.end(), fresh.begin()));
        if (!ok) {
          std::string cls = (fresh.empty() && !got.empty()) ? "stale-after-empty-reset" : "none";
          fail->push_back("class=" + cls + " " + pr + "after " + seg_what + " the split delivers " + show(got) +
                          (drained ? " but a fresh split for the same part delivers " : " which is not a prefix of the fresh stream ") +
                          show(fresh));
        }
      };
      for (size_t i = 0; i < c.ops.size(); ++i) {
        auto w = vh::split_ws(c.ops[i]);
        const std::string &r = res[i];
        if (w[0] == "new" && w.size() == 7) {
          close_seg(full);
          have = r.compare(0, 2, "ok") == 0;
          is_text = w[1] == "text";
          k = strtoul(w[2].c_str(), nullptr, 10);
          n = strtoul(w[3].c_str(), nullptr, 10);
          seg.clear();
          seg_open = have;
          seg_what = "construction (" + w[2] + "," + w[3] + ")";
          full = false;
          dead = false;
          continue;
        }
        if (!have) continue;
        if (r.compare(0, 4, "err:") == 0 || r.compare(0, 3, "ub:") == 0 || r == "poisoned" || r == "runaway") {
          // a well-formed input must never raise
          bool legal = is_text ? !any_nul : base != nullptr && base->buffer_size_ >= 2;
          if (legal && !dead) fail->push_back("class=none prop=C05 operation " + c.ops[i] + " failed: " + r);
          dead = true;
          continue;
        }
        if (w[0] == "bf" || w[0] == "reset") {
          close_seg(full);
          if (w[0] == "reset") {
            k = strtoul(w[1].c_str(), nullptr, 10);
            n = strtoul(w[2].c_str(), nullptr, 10);
          }
          seg.clear();
          seg_open = true;
          full = false;
          seg_what = c.ops[i];
          continue;
        }
        if (w[0] == "rec" || w[0] == "chunk") {
          if (r.compare(0, 5, "false") == 0) full = true;
          delivered(w, r, &seg);
        } else if (w[0] == "drain") {
          delivered(w, r, &seg);
          full = true;
        }
      }
      close_seg(full);
    }
  }

  std::string shape(const Case &c, const std::vector<std::string> &res) override {
    // features seen in the state tuples: carry-over (overflow != 0), buffer growth (dataWords > bufWords + 1),
    // empty parts (offBegin == offEnd), wrapper
    bool carry = false, grow = false, empty = false, any = false, err = false;
    for (size_t i = 0; i < res.size(); ++i) {
      size_t bar = res[i].find(" | ");
      if (res[i].compare(0, 4, "err:") == 0) err = true;
      if (bar == std::string::npos) continue;
      auto t = vh::split_ws(res[i].substr(bar + 3));
      if (t.size() < 10) continue;
      any = true;
      if (t[5] != "0") carry = true;
      if (strtoull(t[8].c_str(), nullptr, 10) > strtoull(t[9].c_str(), nullptr, 10) + 1) grow = true;
      if (t[0] == t[1]) empty = true;
    }
    if (!any) return "";
    std::string s = c.kind.substr(0, c.kind.find(' '));
    if (carry) s += "+carry-over";
    if (grow) s += "+buffer-doubling";
    if (empty) s += "+empty-part";
    if (files.size() > 1) s += "+multi-file";
    if (err) s += "+error";
    return s;
  }
};

// ------------------------------------------------------------------------------------------------
// generators
// ------------------------------------------------------------------------------------------------
static std::string word_bytes(uint32_t w) { return std::string(reinterpret_cast<char *>(&w), 4); }

static void all_strings(const std::string &alpha, size_t len, std::vector<std::string> *out) {
  std::vector<std::string> cur{""};
  for (size_t d = 0; d < len; ++d) {
    std::vector<std::string> nxt;
    for (auto &p : cur)
      for (char ch : alpha) nxt.push_back(p + ch);
    cur.swap(nxt);
  }
  for (auto &s : cur) out->push_back(s);
}

// all lists of `nf` non-empty files with total length `total`
static void file_lists(const std::string &alpha, size_t nf, size_t total, std::vector<std::vector<std::string>> *out) {
  if (nf == 1) {
    std::vector<std::string> v;
    all_strings(alpha, total, &v);
    for (auto &s : v) out->push_back({s});
    return;
  }
  for (size_t first = 1; first + (nf - 1) <= total; ++first) {
    std::vector<std::string> heads;
    all_strings(alpha, first, &heads);
    std::vector<std::vector<std::string>> tails;
    file_lists(alpha, nf - 1, total - first, &tails);
    for (auto &h : heads)
      for (auto &t : tails) {
        std::vector<std::string> l{h};
        l.insert(l.end(), t.begin(), t.end());
        out->push_back(l);
      }
  }
}

static void add_cover_group(Case *c, const char *fmt, unsigned n, size_t w, int st, const std::string &drain,
                            vh::Rng *rng, int presteps) {
  for (unsigned k = 0; k < n; ++k) {
    c->ops.push_back(std::string("new ") + fmt + " " + std::to_string(k) + " " + std::to_string(n) + " " +
                     std::to_string(w) + " " + std::to_string(st) + " " + std::to_string(InputSplitBase::kBufferSize));
    for (int s = 0; s < presteps; ++s) c->ops.push_back(rng && rng->chance(1, 2) ? "chunk" : "rec");
    c->ops.push_back("drain " + drain);
  }
}

static std::string random_text(vh::Rng &rng, size_t maxlen) {
  size_t len = 1 + rng.below(maxlen);
  std::string s;
  int style = static_cast<int>(rng.below(4));  // 0: \n  1: \r\n  2: \r  3: mixed
  while (s.size() < len) {
    size_t ll = rng.chance(1, 8) ? rng.below(60) : rng.below(7);
    for (size_t i = 0; i < ll; ++i) s.push_back(static_cast<char>('a' + rng.below(26)));
    size_t ne = rng.chance(1, 5) ? 1 + rng.below(3) : 1;
    for (size_t i = 0; i < ne; ++i) {
      switch (style == 3 ? rng.below(3) : style) {
        case 0: s += "\n"; break;
        case 1: s += "\r\n"; break;
        default: s += "\r";
      }
    }
  }
  if (rng.chance(1, 3)) {  // no final newline
    while (!s.empty() && is_eol(s[s.size() - 1])) s.resize(s.size() - 1);
    if (s.empty()) s = "x";
  }
  return s;
}

static std::vector<std::string> rec_alphabet() {
  std::vector<std::string> a;
  a.push_back(word_bytes(kMagic));
  a.push_back(word_bytes(0));
  a.push_back(word_bytes(0x61626364));
  a.push_back(word_bytes((kMagic << 8) | (kMagic >> 24)));
  a.push_back(word_bytes((kMagic << 16) | (kMagic >> 16)));
  a.push_back(word_bytes((kMagic << 24) | (kMagic >> 8)));
  a.push_back(word_bytes(kMagic ^ 1u));
  a.push_back(word_bytes((1u << 29) | 4));   // looks like an lrec word (flag 1)
  a.push_back(word_bytes(4));                // looks like an lrec word (flag 0)
  return a;
}

static std::string random_record(vh::Rng &rng, const std::vector<std::string> &alpha) {
  std::string r;
  size_t nw = rng.below(rng.chance(1, 10) ? 30 : 6);
  for (size_t k = 0; k < nw; ++k) r += alpha[rng.below(rng.chance(1, 2) ? 3 : alpha.size())];
  size_t t = rng.below(4);
  const char tail[3] = {'\x0a', '\x23', '\xd7'};
  for (size_t k = 0; k < t; ++k) r.push_back(rng.chance(1, 2) ? tail[k] : static_cast<char>(rng.below(256)));
  return r;
}

static std::string recfile_op(size_t i, const std::vector<std::string> &recs) {
  std::string s = "recfile " + std::to_string(i);
  for (auto &r : recs) s += " " + vh::hex(r);
  return s;
}

struct Gen {
  vh::Runner &R;
  SplitHarness &H;
  vh::Rng rng;
  Gen(vh::Runner &r, SplitHarness &h) : R(r), H(h), rng(r.seed) {}
  bool thorough() const { return R.thorough(); }

  // ---------------- C03 ----------------
  void c03() {
    // (0) corpus: the layouts named in the property text
    {
      std::vector<std::vector<std::string>> corpus = {
          {"ab", "\r\ncd\r", "\n\nef"}, {"aaa\nbbb\nccc\n"}, {"a"}, {"\n"}, {"a\r\nb\r\nc"}, {"abc", "def"},
          {"\n\n\n", "x"}, {"abcdefghijklmnopqrstuvwxyz"}, {"a\n", "b\n", "c\n", "d"}};
      for (auto &fl : corpus) {
        Case c;
        c.kind = "cover corpus";
        size_t total = 0;
        for (size_t i = 0; i < fl.size(); ++i) { c.ops.push_back("file " + std::to_string(i) + " " + vh::hex(fl[i])); total += fl[i].size(); }
        for (unsigned n = 1; n <= total + 2 && n <= 12; ++n)
          for (size_t w = 1; w <= 3; ++w)
            for (int st = 0; st < 2; ++st) {
              add_cover_group(&c, "text", n, w, st, "rec", nullptr, 0);
              add_cover_group(&c, "text", n, w, st, "chunk", nullptr, 0);
            }
        R.run_case(c);
      }
    }
    // (1) exhaustive small inputs
    size_t max_total = thorough() ? 6 : 5, max_files = thorough() ? 3 : 2, max_w = thorough() ? 4 : 2;
    for (size_t nf = 1; nf <= max_files; ++nf)
      for (size_t total = nf; total <= max_total; ++total) {
        std::vector<std::vector<std::string>> lists;
        file_lists("a\n\r", nf, total, &lists);
        for (auto &fl : lists) {
          Case c;
          c.kind = "cover exhaustive";
          for (size_t i = 0; i < fl.size(); ++i) c.ops.push_back("file " + std::to_string(i) + " " + vh::hex(fl[i]));
          for (unsigned n = 1; n <= total + 2; ++n)
            for (size_t w = 1; w <= max_w; ++w) {
              add_cover_group(&c, "text", n, w, 0, "rec", nullptr, 0);
              add_cover_group(&c, "text", n, w, 0, "chunk", nullptr, 0);
            }
          R.run_case(c);
        }
      }
    // (2) random larger: up to 8 files, long lines, larger buffers, mixed consumption, wrapper
    size_t nrand = thorough() ? 12000 : 1500;
    for (size_t it = 0; it < nrand; ++it) {
      Case c;
      c.kind = "cover random";
      size_t nf = 1 + rng.below(rng.chance(1, 4) ? 8 : 3);
      size_t total = 0;
      for (size_t i = 0; i < nf; ++i) {
        std::string f = random_text(rng, rng.chance(1, 6) ? 400 : 40);
        total += f.size();
        c.ops.push_back("file " + std::to_string(i) + " " + vh::hex(f));
      }
      for (int g = 0; g < 3; ++g) {
        unsigned n = 1 + static_cast<unsigned>(rng.below(rng.chance(1, 5) ? total + 3 : 9));
        size_t w = rng.chance(1, 3) ? 1 + rng.below(4) : 1 + rng.below(40);
        int st = rng.chance(1, 4) ? 1 : 0;
        std::string mode = rng.chance(1, 3) ? "rec" : rng.chance(1, 2) ? "chunk" : "mix " + std::to_string(rng.below(65536));
        add_cover_group(&c, "text", n, w, st, mode, &rng, static_cast<int>(rng.below(3)));
      }
      R.run_case(c);
    }
    // (3) default-size buffer (what the hook shrinks) and the InputSplit::Create path on real files
    for (int it = 0; it < 12; ++it) {
      Case c;
      c.kind = "cover default-buffer";
      size_t nf = 1 + rng.below(3);
      for (size_t i = 0; i < nf; ++i) c.ops.push_back("file " + std::to_string(i) + " " + vh::hex(random_text(rng, 200)));
      unsigned n = 1 + static_cast<unsigned>(rng.below(4));
      add_cover_group(&c, "text", n, 2UL << 20UL, it % 3 == 2 ? 1 : 0, it % 3 == 1 ? "chunk" : "rec", nullptr, 0);
      for (unsigned k = 0; k < n; ++k)
        c.ops.push_back("create text " + std::to_string(k) + " " + std::to_string(n) + " " + std::to_string(InputSplitBase::kBufferSize));
      for (int g = 0; g < 4; ++g) {
        unsigned n0 = 1 + static_cast<unsigned>(rng.below(3)), k0 = static_cast<unsigned>(rng.below(n0)), nn = 1 + static_cast<unsigned>(rng.below(4));
        c.ops.push_back("createreset text " + std::to_string(k0) + " " + std::to_string(n0) + " " + std::to_string(nn) + " " +
                        std::to_string(InputSplitBase::kBufferSize));
      }
      R.run_case(c);
    }
    // (4) splits constructed from URI strings over directory trees
    uri_cases(true, thorough() ? 8000 : 1200);
  }

  // ---------------- URI expansion (both formats) ----------------
  // random small directory trees under /r (depth <= 3), URI lists mixing files, directories (with and without trailing '/'),
  // nested directories, empty files, missing names, duplicates, empty pieces, a scheme prefix
  void uri_cases(bool is_text, size_t count) {
    auto alpha = rec_alphabet();
    const char *comps[] = {"a", "b", "c", "d1", "d2", "e_f", "x-1"};
    for (size_t it = 0; it < count; ++it) {
      Case c;
      c.kind = "uri random";
      std::vector<std::string> fnames, dnames{"/r"};
      size_t nfiles = 1 + rng.below(6);
      for (size_t f = 0; f < nfiles; ++f) {
        std::string nm = "/r";
        size_t depth = 1 + rng.below(3);
        for (size_t d = 0; d < depth; ++d) {
          nm += std::string("/") + comps[rng.below(7)];
          if (d + 1 < depth) dnames.push_back(nm);
        }
        bool clash = false;   // a name may not be both a file and a directory prefix of another file
        for (auto &o : fnames)
          if (o == nm || o.compare(0, nm.size() + 1, nm + "/") == 0 || nm.compare(0, o.size() + 1, o + "/") == 0) clash = true;
        if (clash) continue;
        fnames.push_back(nm);
        bool empty = rng.chance(1, 6);
        if (is_text) {
          c.ops.push_back("put " + vh::hex(nm) + " " + vh::hex(empty ? std::string() : random_text(rng, 12)));
        } else {
          std::string op = "putrec " + vh::hex(nm);
          size_t nr = empty ? 0 : 1 + rng.below(3);
          for (size_t j = 0; j < nr; ++j) op += " " + vh::hex(random_record(rng, alpha));
          c.ops.push_back(op);
        }
      }
      if (fnames.empty()) continue;
      for (int g = 0; g < 3; ++g) {
        std::string uri;
        size_t np = 1 + rng.below(4);
        for (size_t p = 0; p < np; ++p) {
          std::string piece;
          switch (rng.below(18)) {
            case 0: case 1: case 2: case 3: case 4: case 5: case 6: piece = fnames[rng.below(fnames.size())]; break;
            case 7: case 8: case 9: case 10: piece = dnames[rng.below(dnames.size())]; break;
            case 11: piece = dnames[rng.below(dnames.size())] + "/"; break;
            case 12: case 13: piece = dnames[rng.below(dnames.size())] + "/zz"; break;   // missing, in an existing directory
            case 14: piece = rng.chance(1, 2) ? "nowhere" : "/q/none"; break;            // missing (no slash: fatal; unknown dir: dropped)
            case 15: piece = rng.chance(1, 2) ? "" : "mem://h" + fnames[rng.below(fnames.size())]; break;
            case 16: piece = "mem://h" + dnames[rng.below(dnames.size())]; break;
            default: piece = fnames[rng.below(fnames.size())] + (rng.chance(1, 2) ? "/" : "//");
          }
          uri += (p ? ";" : "") + piece;
        }
        if (rng.chance(1, 8)) uri += ";";
        unsigned n = 1 + static_cast<unsigned>(rng.below(3));
        size_t w = (is_text ? 1 : 2) + rng.below(4);
        int rc = (!is_text && rng.chance(1, 2)) ? 1 : 0;
        std::string mode = rng.chance(1, 2) ? "rec" : "chunk";
        for (unsigned k = 0; k < n; ++k) {
          c.ops.push_back(std::string("newuri ") + (is_text ? "text " : "recordio ") + vh::hex(uri) + " " + std::to_string(rc) + " " +
                          std::to_string(k) + " " + std::to_string(n) + " " + std::to_string(w) + " " + (rng.chance(1, 6) ? "1" : "0") + " " +
                          std::to_string(InputSplitBase::kBufferSize));
          c.ops.push_back("drain " + mode);
        }
      }
      R.run_case(c);
    }
  }

  // ---------------- C04 ----------------
  void c04() {
    auto alpha = rec_alphabet();
    std::vector<std::string> small = {"", std::string("\x01", 1), word_bytes(kMagic), word_bytes(kMagic) + word_bytes(kMagic),
                                      word_bytes(0x61626364) + word_bytes(kMagic) + "z", "abcde",
                                      word_bytes(kMagic) + "q"};
    size_t ns = small.size();
    // (1) exhaustive: files holding 1..2 records from the small set, 1..2 files
    std::vector<std::vector<std::string>> one_file;
    for (size_t a = 0; a < ns; ++a) {
      one_file.push_back({small[a]});
      for (size_t b = 0; b < ns; ++b) one_file.push_back({small[a], small[b]});
    }
    std::vector<std::vector<std::vector<std::string>>> inputs;
    for (auto &f : one_file) inputs.push_back({f});
    size_t stride = thorough() ? 1 : 5;
    for (size_t a = 0; a < one_file.size(); ++a)
      for (size_t b = (a * 3) % stride; b < one_file.size(); b += stride) inputs.push_back({one_file[a], one_file[b]});
    for (auto &in : inputs) {
      Case c;
      c.kind = "cover exhaustive";
      size_t words = 0;
      for (size_t i = 0; i < in.size(); ++i) {
        c.ops.push_back(recfile_op(i, in[i]));
        for (auto &r : in[i]) words += 2 + (r.size() + 3) / 4 + 2 * (r.size() / 4);
      }
      unsigned maxn = static_cast<unsigned>(std::min<size_t>(words + 2, thorough() ? 14 : 9));
      for (unsigned n = 1; n <= maxn; ++n)
        for (size_t w = 2; w <= (thorough() ? 4u : 3u); ++w) {
          add_cover_group(&c, "recordio", n, w, 0, "rec", nullptr, 0);
          add_cover_group(&c, "recordio", n, w, 0, "chunkrd " + std::to_string(1 + (n + w) % 3), nullptr, 0);
        }
      R.run_case(c);
    }
    // (2) random: more files, longer magic-laden records, larger buffers, wrapper, mixed consumption
    size_t nrand = thorough() ? 8000 : 1200;
    for (size_t it = 0; it < nrand; ++it) {
      Case c;
      c.kind = "cover random";
      size_t nf = 1 + rng.below(rng.chance(1, 4) ? 6 : 3);
      size_t words = 0;
      for (size_t i = 0; i < nf; ++i) {
        std::vector<std::string> recs;
        size_t nr = 1 + rng.below(5);
        for (size_t j = 0; j < nr; ++j) {
          recs.push_back(random_record(rng, alpha));
          words += 4 + recs.back().size() / 2;
        }
        c.ops.push_back(recfile_op(i, recs));
      }
      for (int g = 0; g < 3; ++g) {
        unsigned n = 1 + static_cast<unsigned>(rng.below(rng.chance(1, 4) ? words + 3 : 8));
        size_t w = rng.chance(1, 2) ? 2 + rng.below(4) : 2 + rng.below(60);
        int st = rng.chance(1, 4) ? 1 : 0;
        std::string mode = rng.chance(1, 3) ? "rec" : rng.chance(1, 2) ? "chunkrd " + std::to_string(1 + rng.below(words / 2 + 2))
                                                                    : "mix " + std::to_string(rng.below(65536));
        add_cover_group(&c, "recordio", n, w, st, mode, &rng, static_cast<int>(rng.below(3)));
      }
      R.run_case(c);
    }
    // (3) default-size buffer + Create on real files
    for (int it = 0; it < 12; ++it) {
      Case c;
      c.kind = "cover default-buffer";
      size_t nf = 1 + rng.below(3);
      for (size_t i = 0; i < nf; ++i) {
        std::vector<std::string> recs;
        for (size_t j = 0; j < 4; ++j) recs.push_back(random_record(rng, alpha));
        c.ops.push_back(recfile_op(i, recs));
      }
      unsigned n = 1 + static_cast<unsigned>(rng.below(4));
      add_cover_group(&c, "recordio", n, 2UL << 20UL, it == 2 ? 1 : 0, it == 1 ? "chunkrd 2" : "rec", nullptr, 0);
      for (unsigned k = 0; k < n; ++k)
        c.ops.push_back("create recordio " + std::to_string(k) + " " + std::to_string(n) + " " + std::to_string(InputSplitBase::kBufferSize));
      for (int g = 0; g < 4; ++g) {
        unsigned n0 = 1 + static_cast<unsigned>(rng.below(3)), k0 = static_cast<unsigned>(rng.below(n0)), nn = 1 + static_cast<unsigned>(rng.below(4));
        c.ops.push_back("createreset recordio " + std::to_string(k0) + " " + std::to_string(n0) + " " + std::to_string(nn) + " " +
                        std::to_string(InputSplitBase::kBufferSize));
      }
      R.run_case(c);
    }
    // (4) malformed inputs: correspondence of the CHECK paths (no flag-1 headers: the reassembly loop of
    // ExtractNextRecord copies before it checks, which would read outside the chunk)
    size_t nbad = thorough() ? 1500 : 300;
    for (size_t it = 0; it < nbad; ++it) {
      Case c;
      c.kind = "malformed";
      std::string f;
      size_t nw = 1 + rng.below(10);
      for (size_t k = 0; k < nw; ++k) {
        switch (rng.below(4)) {
          case 0: f += word_bytes(kMagic); break;
          case 1: f += word_bytes(static_cast<uint32_t>(((rng.chance(1, 2) ? 0u : 2u + static_cast<uint32_t>(rng.below(6))) << 29) | rng.below(9))); break;
          case 2: f += word_bytes(0); break;
          default: f += word_bytes(0x61626364);
        }
      }
      if (rng.chance(1, 6)) f += "x";  // not a multiple of 4: Init's CHECK
      c.ops.push_back("file 0 " + vh::hex(f));
      unsigned n = 1 + static_cast<unsigned>(rng.below(4));
      size_t w = 1 + rng.below(5);
      add_cover_group(&c, "recordio", n, w, 0, rng.chance(1, 2) ? "rec" : "chunk", nullptr, 0);
      R.run_case(c);
    }
    // (5) splits constructed from URI strings over directory trees (recursive listing included)
    uri_cases(false, thorough() ? 6000 : 1000);
  }

  // ---------------- C05 ----------------
  struct Input {
    bool text;
    std::vector<std::string> ops;          // file / recfile ops
    std::vector<std::pair<unsigned, unsigned>> parts;  // (k,n) alphabet for reset, first = construction
    size_t w;
  };

  void run_history(const Input &in, int st, const std::vector<std::string> &h, const char *kind) {
    Case c;
    c.kind = kind;
    c.ops = in.ops;
    c.ops.push_back(std::string("new ") + (in.text ? "text " : "recordio ") + std::to_string(in.parts[0].first) + " " +
                    std::to_string(in.parts[0].second) + " " + std::to_string(in.w) + " " + std::to_string(st) + " " +
                    std::to_string(InputSplitBase::kBufferSize));
    for (auto &o : h) c.ops.push_back(o);
    c.ops.push_back("drain rec");
    R.run_case(c);
  }

  // InputSplitShuffle histories (real files; the generator predicts every shuffle order with its own engine)
  void c05_shuffle() {
    auto alpha = rec_alphabet();
    size_t ncase = thorough() ? 3000 : 300;
    for (size_t it = 0; it < ncase; ++it) {
      Case c;
      bool text = rng.chance(1, 2);
      size_t nf = 1 + rng.below(3);
      for (size_t i = 0; i < nf; ++i) {
        if (text) {
          std::string f = random_text(rng, 60);
          if (f.empty()) f = "x\n";
          c.ops.push_back("file " + std::to_string(i) + " " + vh::hex(f));
        } else {
          std::vector<std::string> recs;
          size_t nr = 1 + rng.below(6);
          for (size_t j = 0; j < nr; ++j) recs.push_back(random_record(rng, alpha));
          c.ops.push_back(recfile_op(i, recs));
        }
      }
      unsigned n = 1 + static_cast<unsigned>(rng.below(3)), m = 1 + static_cast<unsigned>(rng.below(4));
      unsigned k = static_cast<unsigned>(rng.below(n));
      int seed = static_cast<int>(rng.below(1000));
      std::mt19937 eng;
      eng.seed(666 + k + n + m + seed);
      std::vector<int> order;
      for (unsigned i = 0; i < m; ++i) order.push_back(static_cast<int>(i));
      std::shuffle(order.begin(), order.end(), eng);
      auto show_order = [&]() {
        std::string o;
        for (size_t i = 0; i < order.size(); ++i) o += (i ? "," : "") + std::to_string(order[i]);
        return o;
      };
      c.kind = std::string("shuffle ") + (text ? "text" : "recordio") + " m=" + std::to_string(m);
      c.ops.push_back(std::string("shnew ") + (text ? "text " : "recordio ") + std::to_string(k) + " " + std::to_string(n) + " " +
                      std::to_string(m) + " " + std::to_string(InputSplitBase::kBufferSize) + " " + show_order() + " " + std::to_string(seed));
      size_t len = rng.below(10);
      for (size_t j = 0; j < len; ++j) {
        switch (rng.below(8)) {
          case 0: case 1: case 2: case 3: c.ops.push_back("shrec"); break;
          case 4: c.ops.push_back(rng.chance(1, 2) ? "shdrain" : "shdrainc"); break;
          case 5:
            if (m > 1) std::shuffle(order.begin(), order.end(), eng);
            c.ops.push_back("shbf " + show_order());
            break;
          default: c.ops.push_back("shreset " + std::to_string(rng.below(n)) + " " + std::to_string(n));
        }
      }
      c.ops.push_back(rng.chance(1, 3) ? "shdrainc" : "shdrain");
      R.run_case(c);
    }
  }

  void c05() {
    c05_shuffle();
    std::vector<Input> inputs;
    {
      Input a;
      a.text = true;
      a.ops = {"file 0 " + vh::hex("aaa\nbbb\nccc\n")};
      // (0,1) whole; (20,24) receives no bytes; (1,12) empty only after snapping; (1,2) second half; (0,3)
      a.parts = {{0, 1}, {20, 24}, {1, 12}, {1, 2}, {0, 3}};
      a.w = 2;
      inputs.push_back(a);
      Input b;
      b.text = true;
      b.ops = {"file 0 " + vh::hex("ab"), "file 1 " + vh::hex("\r\ncd\r"), "file 2 " + vh::hex("\n\nef")};
      b.parts = {{1, 3}, {0, 1}, {7, 8}, {2, 5}, {9, 9}};
      b.w = 1;
      inputs.push_back(b);
      Input r;
      r.text = false;
      r.ops = {recfile_op(0, {"abcde", word_bytes(kMagic) + "q", ""}), recfile_op(1, {std::string("\x01", 1), "xyzw"})};
      r.parts = {{0, 1}, {30, 31}, {1, 2}, {3, 9}, {0, 3}};
      r.w = 3;
      inputs.push_back(r);
    }
    // (1) exhaustive histories
    size_t maxlen = thorough() ? 5 : 4;
    for (auto &in : inputs) {
      std::vector<std::string> alphabet = {"rec", "chunk", "hint 24", "bf"};
      for (auto &p : in.parts) alphabet.push_back("reset " + std::to_string(p.first) + " " + std::to_string(p.second));
      for (int st = 0; st < 2; ++st) {
        std::vector<size_t> idx;
        std::function<void(size_t)> rec = [&](size_t depth) {
          if (depth > 0) {
            std::vector<std::string> h;
            for (size_t i : idx) h.push_back(alphabet[i]);
            // histories without any bf/reset say nothing about C05: skip them beyond length 2
            bool has = false;
            for (auto &o : h) if (o[0] == 'b' || o.compare(0, 5, "reset") == 0) has = true;
            if (has || depth <= 2) run_history(in, st, h, "hist exhaustive");
          }
          if (depth == maxlen) return;
          for (size_t a = 0; a < alphabet.size(); ++a) {
            idx.push_back(a);
            rec(depth + 1);
            idx.pop_back();
          }
        };
        rec(0);
      }
    }
    // (2) random long histories on random inputs
    auto alpha = rec_alphabet();
    size_t nrand = thorough() ? 20000 : 2500;
    for (size_t it = 0; it < nrand; ++it) {
      Input in;
      in.text = rng.chance(1, 2);
      size_t nf = 1 + rng.below(3);
      size_t total = 0;
      for (size_t i = 0; i < nf; ++i) {
        if (in.text) {
          std::string f = random_text(rng, 30);
          total += f.size();
          in.ops.push_back("file " + std::to_string(i) + " " + vh::hex(f));
        } else {
          std::vector<std::string> recs;
          size_t nr = 1 + rng.below(4);
          for (size_t j = 0; j < nr; ++j) { recs.push_back(random_record(rng, alpha)); total += 12 + recs.back().size(); }
          in.ops.push_back(recfile_op(i, recs));
        }
      }
      auto rand_part = [&]() {
        unsigned n = 1 + static_cast<unsigned>(rng.below(rng.chance(1, 3) ? total + 4 : 6));
        unsigned k = static_cast<unsigned>(rng.chance(1, 8) ? n + rng.below(5) : rng.below(n));
        return std::make_pair(k, n);
      };
      in.parts = {rand_part()};
      in.w = (in.text ? 1 : 2) + rng.below(rng.chance(1, 2) ? 3 : 20);
      std::vector<std::string> h;
      size_t len = 1 + rng.below(40);
      for (size_t j = 0; j < len; ++j) {
        switch (rng.below(8)) {
          case 0: case 1: case 2: h.push_back("rec"); break;
          case 3: case 4: h.push_back("chunk"); break;
          case 5: h.push_back("hint " + std::to_string(rng.below(200))); break;
          case 6: h.push_back("bf"); break;
          default: { auto p = rand_part(); h.push_back("reset " + std::to_string(p.first) + " " + std::to_string(p.second)); }
        }
      }
      run_history(in, rng.chance(1, 3) ? 1 : 0, h, "hist random");
    }
  }
};

// a mutated / defective doubling loop must end in a sanitizer abort, not in exhausting the machine
extern "C" const char *__asan_default_options() {
  return "detect_leaks=0:max_allocation_size_mb=1024:hard_rss_limit_mb=8000:allocator_may_return_null=0";
}

int main(int argc, char **argv) {
  vh::Runner R;
  R.parse(argc, argv);
  SplitHarness H;
  R.h = &H;
  H.out_dir = R.out_dir;
  H.extra = &R.extra;
  for (int i = 1; i < argc; ++i)
    if (std::string(argv[i]) == "--prop" && i + 1 < argc) H.prop = argv[i + 1];
  if (getenv("VERIF_UNBUF")) {  // debugging aid: keep the protocol files complete up to a crash
    setvbuf(R.f_ops, nullptr, _IOLBF, 0);
    setvbuf(R.f_impl, nullptr, _IOLBF, 0);
  }
  if (R.run_replay()) { R.finish(); return 0; }
  Gen G(R, H);
  if (H.prop == "C03") G.c03();
  else if (H.prop == "C04") G.c04();
  else if (H.prop == "C05") G.c05();
  else { G.c03(); G.c04(); G.c05(); }
  R.finish();
  return 0;
}
