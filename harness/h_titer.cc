// Correspondence + oracle harness for dmlc::ThreadedIter (properties C07, C08, C09) on the controlled
// scheduler harness/common/vsched.h.  The UNMODIFIED include/dmlc/threadediter.h is compiled with
// std::mutex / lock_guard / unique_lock / condition_variable / atomic / thread renamed to the scheduler's
// shim classes, and `private` opened so that the snapshot can read the internals.
//
// A case = (program, producer script, schedule):
//   case <n> macro cap=<c> src=<pass>,<pass>.. rew=<o|t>.. exk=<d|s> A=<op>,.. [B=<op>,..]
//     <pass> = <k>e : k items then end            <k>t : k items, the (k+1)-th produce call throws
//     rew    = one letter per rewind: o = ok, t = the rewind callback throws (default o)
//     exk    = what the callbacks throw: d = dmlc::Error, s = std::runtime_error
//     ops    : n = Next(&p) and hold the cell, r<i> = Recycle the i-th held cell, nv = Next(), v = Value(),
//              bf = BeforeFirst, d = Destroy, sp = start consumer thread B, jn = join it.
//              (main = T0 runs A; the producer thread is T1; B is T2.  A final Destroy is implicit.)
//   one op line per MODEL transition ("macro step"): `<choice> [<op the thread starts>]`, choice = t<tid> |
//   w<tid> (spurious wake-up).  A macro step = one scheduling decision; while the chosen thread holds
//   mutex_ / mutex_exception_ it is continued without a decision (the critical section is one transition).
//   result line: `T<tid> <first shim op>:<obj> <res> [events] | q= f= nc= np= end= sig= proc=`.
//   case <n> fine <spec> sched=<choices>   -- every shim operation is a scheduling decision; oracle only.
// Oracles (independent of the Lean model) are evaluated on the event log of every execution; see oracle().
#include <algorithm>
#include <atomic>
#include <condition_variable>
#include <cstdio>
#include <cstdlib>
#include <cstring>
#include <deque>
#include <exception>
#include <functional>
#include <iostream>
#include <map>
#include <memory>
#include <mutex>
#include <queue>
#include <set>
#include <sstream>
#include <stdexcept>
#include <string>
#include <thread>
#include <utility>
#include <vector>

#include <dmlc/base.h>
#include <dmlc/data.h>
#include <dmlc/logging.h>

#include "common/proto.h"
#include "common/vsched.h"
#define VSCHED_SUBSTITUTE_BEGIN
#include "common/vsched.h"
#define private public
#include <dmlc/threadediter.h>
#undef private
// the same header once more with DCHECK live (as in builds where DMLC_LOG_DEBUG is 0), as class ThreadedIterDchk
#undef DMLC_THREADEDITER_H_
#undef DCHECK
#define DCHECK(x) CHECK(x)
#define ThreadedIter ThreadedIterDchk
#define ScopedThread ScopedThreadDchk
#define private public
#include <dmlc/threadediter.h>
#undef private
#undef ThreadedIter
#undef ScopedThread
#define VSCHED_SUBSTITUTE_END
#include "common/vsched.h"
// the same header a third time with the REAL std primitives, as class ThreadedIterReal: used only for the life-cycle
// cases (Init again after Destroy on one object), whose outcome does not depend on the schedule
#undef DMLC_THREADEDITER_H_
#define ThreadedIter ThreadedIterReal
#define ScopedThread ScopedThreadReal
#include <dmlc/threadediter.h>
#undef ThreadedIter
#undef ScopedThread
#include <sys/wait.h>
#include <unistd.h>

namespace {

struct Cell {
  int v = -1;
  int id = -1;
};
typedef dmlc::ThreadedIter<Cell> Iter;
typedef dmlc::ThreadedIterDchk<Cell> IterD;
// member access on whichever of the two iterator objects the execution uses
#define IT(X, e) ((X)->iterd ? (X)->iterd->e : (X)->iter->e)

// ------------------------------------------------------------------------------------------------
// program specification
// ------------------------------------------------------------------------------------------------
struct PassSpec {
  int n = 0;
  char term = 'e';
};
struct Spec {
  int cap = 1;
  std::vector<PassSpec> passes;
  std::string rew;
  char exk = 'd';
  bool dchk = false;   // run on the DCHECK-live instantiation (oracle only)
  std::vector<std::string> A, B;

  static std::string join(const std::vector<std::string> &v) {
    std::string o;
    for (size_t i = 0; i < v.size(); ++i) o += (i ? "," : "") + v[i];
    return o.empty() ? "-" : o;
  }
  static std::vector<std::string> splitc(const std::string &s) {
    std::vector<std::string> o;
    if (s == "-") return o;
    std::string cur;
    for (char c : s) {
      if (c == ',') { o.push_back(cur); cur.clear(); } else cur.push_back(c);
    }
    if (!cur.empty()) o.push_back(cur);
    return o;
  }
  std::string text() const {
    std::string s = "cap=" + std::to_string(cap) + " src=";
    for (size_t i = 0; i < passes.size(); ++i)
      s += (i ? "," : "") + std::to_string(passes[i].n) + std::string(1, passes[i].term);
    s += " rew=" + (rew.empty() ? std::string("-") : rew) + " exk=" + std::string(1, exk) + " A=" + join(A);
    if (!B.empty()) s += " B=" + join(B);
    if (dchk) s += " dchk=1";
    return s;
  }
  static bool parse(const std::vector<std::string> &w, Spec *sp, std::string *sched) {
    *sp = Spec();
    bool ok = false;
    for (const std::string &t : w) {
      size_t e = t.find('=');
      if (e == std::string::npos) continue;
      std::string k = t.substr(0, e), v = t.substr(e + 1);
      if (k == "cap") sp->cap = atoi(v.c_str());
      else if (k == "src") {
        for (const std::string &p : splitc(v)) {
          PassSpec ps;
          ps.n = atoi(p.c_str());
          ps.term = p.empty() ? 'e' : p[p.size() - 1];
          sp->passes.push_back(ps);
        }
        ok = !sp->passes.empty();
      } else if (k == "rew") sp->rew = v == "-" ? "" : v;
      else if (k == "exk") sp->exk = v.empty() ? 'd' : v[0];
      else if (k == "dchk") sp->dchk = v == "1";
      else if (k == "A") sp->A = splitc(v);
      else if (k == "B") sp->B = splitc(v);
      else if (k == "sched" && sched) { *sched = v; std::replace(sched->begin(), sched->end(), ',', ' '); }
    }
    return ok;
  }
  PassSpec pass(int p) const { return passes[std::min<size_t>(p, passes.size() - 1)]; }
  bool rew_throws(int p) const { return static_cast<size_t>(p) < rew.size() && rew[p] == 't'; }
  bool has_destroy() const {
    for (auto &o : A) if (o == "d") return true;
    return false;
  }
  bool has_failure() const {
    for (auto &p : passes) if (p.term == 't') return true;
    return rew.find('t') != std::string::npos;
  }
};

// ------------------------------------------------------------------------------------------------
// one execution
// ------------------------------------------------------------------------------------------------
enum EvKind {
  E_CB_ITEM, E_CB_END, E_CB_THROW, E_REW_OK, E_REW_THROW,
  E_START, E_NEXT_ITEM, E_NEXT_HANDED, E_NEXT_END, E_CALL_ERR, E_CALL_OK, E_BF_OK, E_DESTROY_OK
};
struct OEv {
  EvKind k;
  int slot;   // consumer slot (0 = A, 1 = B), -1 = producer
  int pass, idx;
  char op;    // n r v b d  (consumer events)
};

// Attribution of an oracle failure: by the FEATURES of the execution, not by the clause that fired and not by the
// property being run.  C09 if the producer script throws or the consumer script calls Destroy explicitly; else C08 if
// a BeforeFirst was started at or before the failing observation; else C07.  The clause's home property is kept in
// the text.  A run of property X therefore reports exactly the failing executions that exercise X's feature.
inline std::string clause_note(const std::string &attributed, const char *clause) {
  return attributed == clause ? std::string() : std::string(" [clause of ") + clause + "]";
}

struct Exec {
  Spec spec;
  std::unique_ptr<Iter> iter;
  std::unique_ptr<IterD> iterd;
  bool init_done = false;
  // producer script
  int pass = 0, idx = 0, nalloc = 0;
  bool in_cb = false, in_rew = false;
  Cell *cb_cell = nullptr;
  // consumers
  std::vector<Cell *> held[2];
  Cell **cur_out[2] = {nullptr, nullptr};
  std::string announce[2];   // per consumer slot
  std::unique_ptr<std::vs_thread> bthread;
  // logs
  std::vector<std::string> pending;   // events of the running shim step
  std::vector<OEv> olog;
  std::vector<std::string> fails;     // "class=<c> prop=<Cxx> text"
  int max_lent = 0;
  bool destroyed = false;
  bool bf_started = false;
  std::string attribute(bool bf_seen) const {
    if (spec.has_failure() || spec.has_destroy()) return "C09";
    return bf_seen ? "C08" : "C07";
  }

  ~Exec() {
    for (int s = 0; s < 2; ++s)
      for (Cell *c : held[s]) delete c;
  }
  void ev(const std::string &s) { pending.push_back(s); }
  void fail(const char *prop, const char *cls, const std::string &msg) {
    std::string at = attribute(bf_started);
    if (fails.size() < 8) fails.push_back(std::string("class=") + cls + " prop=" + at + " " + msg + clause_note(at, prop));
  }
  int lent_now() const {
    int n = 0;
    std::set<const Cell *> seen;
    for (int s = 0; s < 2; ++s) {
      for (Cell *c : held[s]) seen.insert(c);
      if (cur_out[s] && *cur_out[s]) seen.insert(*cur_out[s]);
    }
    if ((iter || iterd) && IT(this, out_data_)) seen.insert(IT(this, out_data_));
    n = static_cast<int>(seen.size());
    return n;
  }
  bool is_lent(const Cell *c) const {
    if (!c) return false;
    for (int s = 0; s < 2; ++s) {
      for (Cell *h : held[s]) if (h == c) return true;
      if (cur_out[s] && *cur_out[s] == c) return true;
    }
    return (iter || iterd) && IT(this, out_data_) == c;
  }
  std::string snapshot() const {
    char b[160];
    snprintf(b, sizeof b, "q=%zu f=%zu nc=%u np=%u end=%d sig=%d proc=%d", IT(this, queue_.size()), IT(this, free_cells_.size()),
             IT(this, nwait_consumer_), IT(this, nwait_producer_), IT(this, produce_end_.raw()) ? 1 : 0,
             (iterd ? static_cast<int>(iterd->producer_sig_.raw()) : static_cast<int>(iter->producer_sig_.raw())), IT(this, producer_sig_processed_.raw()) ? 1 : 0);
    return b;
  }
};

Exec *g_cur = nullptr;

[[noreturn]] void throw_script(const Spec &sp, const char *what) {
  if (sp.exk == 's') throw std::runtime_error(what);
  throw dmlc::Error(what);
}

bool cb_next(Exec *X, Cell **d) {
  if (X->in_cb || X->in_rew) X->fail("C08", "none", "producer callbacks overlap");
  X->in_cb = true;
  X->cb_cell = *d;
  if (X->is_lent(*d)) X->fail("C07", "none", "the produce callback was handed a cell a consumer holds");
  vs::yield_point("cb");
  PassSpec ps = X->spec.pass(X->pass);
  std::string tag = "cb=next:" + std::to_string(X->pass) + ":" + std::to_string(X->idx);
  if (X->idx >= ps.n) {
    X->in_cb = false;
    X->cb_cell = nullptr;
    if (ps.term == 't') {
      X->olog.push_back(OEv{E_CB_THROW, -1, X->pass, X->idx, 'p'});
      X->ev(tag + ":throw");
      throw_script(X->spec, "produce failed");
    }
    X->olog.push_back(OEv{E_CB_END, -1, X->pass, X->idx, 'p'});
    X->ev(tag + ":end");
    return false;
  }
  if (*d == nullptr) {
    *d = new Cell;
    (*d)->id = X->nalloc++;
    int lent = X->lent_now();
    if (lent > X->max_lent) X->max_lent = lent;
    if (X->nalloc > X->spec.cap + X->max_lent)
      X->fail("C07", "none", "allocated " + std::to_string(X->nalloc) + " cells > max_capacity " +
              std::to_string(X->spec.cap) + " + max lent " + std::to_string(X->max_lent));
    X->cb_cell = *d;
  }
  if (X->is_lent(*d)) X->fail("C07", "none", "the produce callback writes a cell a consumer holds");
  (*d)->v = X->pass * 100 + X->idx;
  X->olog.push_back(OEv{E_CB_ITEM, -1, X->pass, X->idx, 'p'});
  X->ev(tag + ":item:c" + std::to_string((*d)->id));
  ++X->idx;
  X->in_cb = false;
  X->cb_cell = nullptr;
  return true;
}

void cb_rew(Exec *X) {
  if (X->in_cb || X->in_rew) X->fail("C08", "none", "producer callbacks overlap");
  X->in_rew = true;
  std::string tag = "cb=rew:" + std::to_string(X->pass);
  bool th = X->spec.rew_throws(X->pass);
  X->in_rew = false;
  if (th) {
    X->olog.push_back(OEv{E_REW_THROW, -1, X->pass, 0, 'p'});
    X->ev(tag + ":throw");
    throw_script(X->spec, "rewind failed");
  }
  X->olog.push_back(OEv{E_REW_OK, -1, X->pass, 0, 'p'});
  X->ev(tag + ":ok");
  ++X->pass;
  X->idx = 0;
}

// classify an exception that left a ThreadedIter call
std::string classify(Exec *X) {
  try {
    throw;
  } catch (const dmlc::Error &e) {
    return strstr(e.what(), "Check failed") ? "errcheck" : "err";
  } catch (const std::exception &e) {
    X->fail("C09", "none", std::string("a consumer call threw something that is not dmlc::Error: ") + e.what());
    return "err";
  } catch (...) {
    X->fail("C09", "none", "a consumer call threw a non-std exception");
    return "err";
  }
}

void do_op(Exec *X, int slot, const std::string &op) {
  char k = op[0];
  if (op == "n") {
    X->ev("start=n");
    X->olog.push_back(OEv{E_START, slot, 0, 0, 'n'});
    Cell *p = nullptr;
    X->cur_out[slot] = &p;
    std::string r;
    try {
      bool got = IT(X, Next(&p));
      if (got) {
        if (p == nullptr) { X->fail("C07", "none", "Next returned true with a null cell"); r = "ret=n:item:null"; }
        else {
          for (int s = 0; s < 2; ++s)
            for (Cell *h : X->held[s]) if (h == p) X->fail("C07", "none", "Next lent a cell that is already lent");
          if (IT(X, out_data_) == p) X->fail("C07", "none", "Next lent the cell held in out_data_");
          if (X->in_cb && X->cb_cell == p) X->fail("C07", "none", "Next lent the cell the produce callback is writing");
          r = "ret=n:item:" + std::to_string(p->v) + ":c" + std::to_string(p->id);
          X->olog.push_back(OEv{E_NEXT_ITEM, slot, p->v / 100, p->v % 100, 'n'});
          X->held[slot].push_back(p);
        }
      } else {
        r = "ret=n:end";
        X->olog.push_back(OEv{E_NEXT_END, slot, 0, 0, 'n'});
      }
    } catch (...) {
      r = "ret=n:" + classify(X);
      X->olog.push_back(OEv{E_CALL_ERR, slot, 0, 0, 'n'});
      if (p != nullptr) {  // the item was popped and handed over (*out_dptr set) before the final check threw:
        X->held[slot].push_back(p);  // it counts as delivered for the exactly-once / prefix accounting
        X->olog.push_back(OEv{E_NEXT_HANDED, slot, p->v / 100, p->v % 100, 'n'});
      }
    }
    X->cur_out[slot] = nullptr;
    X->ev(r);
  } else if (k == 'r') {
    size_t i = static_cast<size_t>(atoi(op.c_str() + 1));
    if (i >= X->held[slot].size()) { X->ev("start=r:none"); X->ev("ret=r:skip"); return; }
    Cell *p = X->held[slot][i];
    X->ev("start=r:c" + std::to_string(p->id));
    X->olog.push_back(OEv{E_START, slot, 0, 0, 'r'});
    std::string r;
    // while the call runs the cell is the consumer's exactly as long as `p` still points to it
    X->held[slot].erase(X->held[slot].begin() + static_cast<long>(i));
    X->cur_out[slot] = &p;
    try {
      IT(X, Recycle(&p));
      if (p != nullptr) X->fail("C07", "none", "Recycle did not clear the pointer");
      r = "ret=r:ok";
      X->olog.push_back(OEv{E_CALL_OK, slot, 0, 0, 'r'});
    } catch (...) {
      r = "ret=r:" + classify(X);
      X->olog.push_back(OEv{E_CALL_ERR, slot, 0, 0, 'r'});
    }
    X->cur_out[slot] = nullptr;
    if (p != nullptr) X->held[slot].insert(X->held[slot].begin() + static_cast<long>(i), p);
    X->ev(r);
  } else if (op == "nv") {
    X->ev("start=nv");
    X->olog.push_back(OEv{E_START, slot, 0, 0, 'n'});
    std::string r;
    const Cell *before = IT(X, out_data_);
    int before_v = before ? before->v : -1;
    try {
      bool got = IT(X, Next());
      if (got) {
        const Cell *p = IT(X, out_data_);
        if (!p) { X->fail("C07", "none", "Next() returned true with out_data_ null"); r = "ret=nv:true:null"; }
        else {
          if (X->in_cb && X->cb_cell == p) X->fail("C07", "none", "Next() holds the cell the produce callback is writing");
          for (int s = 0; s < 2; ++s)
            for (Cell *h : X->held[s]) if (h == p) X->fail("C07", "none", "Next() took a cell that is already lent");
          r = "ret=nv:true:" + std::to_string(p->v);
          X->olog.push_back(OEv{E_NEXT_ITEM, slot, p->v / 100, p->v % 100, 'n'});
        }
      } else {
        r = "ret=nv:false";
        X->olog.push_back(OEv{E_NEXT_END, slot, 0, 0, 'n'});
      }
    } catch (...) {
      r = "ret=nv:" + classify(X);
      X->olog.push_back(OEv{E_CALL_ERR, slot, 0, 0, 'n'});
      const Cell *now = IT(X, out_data_);
      if (now != nullptr && now->v != before_v)  // popped into out_data_ before the final check threw
        X->olog.push_back(OEv{E_NEXT_HANDED, slot, now->v / 100, now->v % 100, 'n'});
    }
    X->ev(r);
  } else if (op == "v") {
    X->ev("start=v");
    std::string r;
    try {
      const Cell &c = IT(X, Value());
      r = "ret=v:" + std::to_string(c.v);
    } catch (...) {
      r = "ret=v:" + classify(X);
    }
    X->ev(r);
  } else if (op == "bf") {
    X->ev("start=bf");
    X->bf_started = true;
    X->olog.push_back(OEv{E_START, slot, 0, 0, 'b'});
    std::string r;
    try {
      IT(X, BeforeFirst());
      r = "ret=bf:ok";
      X->olog.push_back(OEv{X->destroyed ? E_CALL_OK : E_BF_OK, slot, 0, 0, 'b'});
    } catch (...) {
      r = "ret=bf:" + classify(X);
      X->olog.push_back(OEv{E_CALL_ERR, slot, 0, 0, 'b'});
    }
    X->ev(r);
  } else if (op == "d") {
    X->ev("start=d");
    X->olog.push_back(OEv{E_START, slot, 0, 0, 'd'});
    std::string r;
    try {
      X->destroyed = true;
      IT(X, Destroy());
      r = "ret=d:ok";
      if (IT(X, producer_thread_ != nullptr)) X->fail("C09", "none", "Destroy returned without joining the producer thread");
      if (IT(X, queue_.size()) || IT(X, free_cells_.size()) || IT(X, out_data_))
        X->fail("C09", "none", "Destroy left cells behind");
      X->olog.push_back(OEv{E_DESTROY_OK, slot, 0, 0, 'd'});
    } catch (...) {
      r = "ret=d:" + classify(X);
      X->fail("C09", "none", "Destroy threw");
    }
    X->ev(r);
  } else if (op == "sp") {
    X->ev("start=sp");
    X->bthread.reset(new std::vs_thread([X]() {
      for (const std::string &o : X->spec.B) {
        X->announce[1] = o;
        vs::yield_point("op");
        do_op(X, 1, o);
      }
    }));
    X->ev("ret=sp:ok");
  } else if (op == "jn") {
    X->ev("start=jn");
    if (X->bthread) { X->bthread->join(); X->bthread.reset(); }
    X->ev("ret=jn:ok");
  } else {
    X->ev("start=?");
  }
}

void main_body(Exec *X) {
  if (X->iterd) X->iterd->Init([X](Cell **d) { return cb_next(X, d); }, [X]() { cb_rew(X); });
  else X->iter->Init([X](Cell **d) { return cb_next(X, d); }, [X]() { cb_rew(X); });
  X->init_done = true;
  std::vector<std::string> ops = X->spec.A;
  if (ops.empty() || ops.back() != "d") ops.push_back("d");
  for (const std::string &o : ops) {
    X->announce[0] = o;
    vs::yield_point("op");
    do_op(X, 0, o);
  }
}

template <typename I>
void label_all(I *it) {
  vs::set_label(&it->mutex_, "m");
  vs::set_label(&it->mutex_exception_, "x");
  vs::set_label(&it->producer_cond_, "cp");
  vs::set_label(&it->consumer_cond_, "cc");
  vs::set_label(&it->producer_sig_, "sig");
  vs::set_label(&it->producer_sig_processed_, "proc");
  vs::set_label(&it->produce_end_, "end");
}

vs::Program make_program(const Spec &sp) {
  std::shared_ptr<Exec> X(new Exec);
  X->spec = sp;
  if (sp.dchk) X->iterd.reset(new IterD(static_cast<size_t>(sp.cap)));
  else X->iter.reset(new Iter(static_cast<size_t>(sp.cap)));
  if (X->iterd) label_all(X->iterd.get()); else label_all(X->iter.get());
  g_cur = X.get();
  vs::Program p;
  Exec *raw = X.get();
  p.threads.push_back([raw]() { main_body(raw); });
  p.snapshot = [raw]() { return raw->snapshot(); };
  p.state = X;
  return p;
}

// ------------------------------------------------------------------------------------------------
// macro-step chooser: a thread that holds mutex_ / mutex_exception_ is continued without a decision
// ------------------------------------------------------------------------------------------------
struct MacroChooser : vs::Chooser {
  vs::Chooser *inner;
  bool fine;
  std::vector<char> kind;  // per shim step: 0 decision, 1 forced continuation, 2 init
  std::string ann;         // the op the chosen thread had announced when it was chosen
  MacroChooser(vs::Chooser *in, bool f) : inner(in), fine(f) {}
  void begin() override { inner->begin(); kind.clear(); inner->diverged_at = -1; }
  static size_t first_plain(const std::vector<vs::Alt> &alts) {
    for (size_t i = 0; i < alts.size(); ++i) if (!alts[i].c.spurious) return i;
    return 0;
  }
  size_t choose(const std::vector<vs::Alt> &alts, const vs::ChooseCtx &ctx) override {
    Exec *X = g_cur;
    if (!X->init_done) { kind.push_back(2); return first_plain(alts); }
    if (!fine && ctx.last_tid >= 0 &&
        (IT(X, mutex_.owner) == ctx.last_tid || IT(X, mutex_exception_.owner) == ctx.last_tid)) {
      for (size_t i = 0; i < alts.size(); ++i)
        if (!alts[i].c.spurious && alts[i].c.tid == ctx.last_tid) { kind.push_back(1); return i; }
    }
    kind.push_back(0);
    size_t k = inner->choose(alts, ctx);
    diverged_at = inner->diverged_at;
    if (k >= alts.size()) k = 0;
    int tid = alts[k].c.tid;
    ann = (!alts[k].c.spurious && tid != 1 && tid >= 0) ? X->announce[tid == 0 ? 0 : 1] : std::string();
    return k;
  }
};

struct Line {
  std::string op;   // "<choice> [<announce>]"
  std::string res;
};

struct RunOut {
  vs::Result res;
  std::vector<Line> lines;       // macro steps
  std::vector<std::string> fails;
  std::string shape;
};

void oracle(Exec *X, const vs::Result &r, std::vector<std::string> *fails);

RunOut run_one(const Spec &sp, vs::Chooser *inner, bool fine, int spurious_budget) {
  RunOut out;
  MacroChooser mc(inner, fine);
  vs::RunOptions ro;
  ro.spurious_budget = spurious_budget;
  ro.max_steps = 4000;
  ro.stuck_ms = 8000;
  std::shared_ptr<Exec> keep;
  ro.on_step = [&](const vs::Step &st) {
    Exec *X = g_cur;
    int lent = X->lent_now();
    if (lent > X->max_lent) X->max_lent = lent;
    char k = mc.kind.empty() ? 0 : mc.kind.back();
    if (k == 2) { X->pending.clear(); return; }
    if (k == 0 || fine) {
      Line l;
      l.op = st.choice.str();
      if (st.op == vs::OP_YIELD && st.obj == "op") l.op += " " + mc.ann;
      l.res = "T" + std::to_string(st.tid) + " " + vs::op_name(st.op) + ":" + st.obj + " " + st.res;
      out.lines.push_back(l);
    }
    if (out.lines.empty()) { X->pending.clear(); return; }
    Line &cur = out.lines.back();
    size_t bar = cur.res.find(" | ");
    if (bar != std::string::npos) cur.res.erase(bar);
    for (const std::string &e : X->pending) cur.res += " " + e;
    X->pending.clear();
    cur.res += " | " + st.note;
  };
  vs::Factory f = [&]() {
    vs::Program p = make_program(sp);
    keep = std::static_pointer_cast<Exec>(p.state);
    return p;
  };
  out.res = vs::run(f, mc, ro);
  Exec *X = keep.get();
  oracle(X, out.res, &out.fails);
  out.shape = out.res.status == vs::COMPLETED ? "completed" : vs::status_name(out.res.status);
  if (out.res.status != vs::COMPLETED) (void)new std::shared_ptr<Exec>(keep);  // abandoned: never destroyed
  g_cur = nullptr;
  return out;
}

// ------------------------------------------------------------------------------------------------
// the oracles (the properties themselves, computed from the event log only)
// ------------------------------------------------------------------------------------------------
void oracle(Exec *X, const vs::Result &r, std::vector<std::string> *fails) {
  *fails = X->fails;
  bool seen_bf = X->bf_started;  // status / whole-run clauses: was a BeforeFirst started at all; refined while walking the log
  auto fail = [&](const char *prop, const char *cls, const std::string &m) {
    std::string at = X->attribute(seen_bf);
    if (fails->size() < 12) fails->push_back(std::string("class=") + cls + " prop=" + at + " " + m + clause_note(at, prop));
  };
  const Spec &sp = X->spec;
  bool failing = sp.has_failure();
  bool has_bf = false;
  for (auto &o : sp.A) has_bf = has_bf || o == "bf";
  const char *lp = failing ? "C09" : (has_bf ? "C08" : "C07");  // liveness is reported under the family's property
  if (r.status != vs::COMPLETED) {
    std::string b;
    for (auto &s : r.blocked) b += (b.empty() ? "" : "; ") + s;
    bool thrown = false;
    for (auto &e : X->olog) thrown = thrown || e.k == E_CB_THROW || e.k == E_REW_THROW;
    bool in_bf = false;
    for (auto &s : r.blocked) in_bf = in_bf || (s.find("T0 relock m") == 0 && s.find("in wait set of cc") != std::string::npos);
    // class bf-misses-failure: the producer failed and exited, BeforeFirst waits for an answer for ever
    const char *cls = (r.status == vs::DEADLOCK && thrown && in_bf && X->announce[0] == "bf") ? "bf-misses-failure" : "none";
    fail(thrown ? "C09" : lp, cls, std::string(vs::status_name(r.status)) + ": " + b);
    if (thrown) return;
  }
  // class dcheck-in-catch: the producer failed while Destroy's command was pending and the DCHECK in its
  // catch block threw out of the thread function (std::terminate in a real run)
  for (auto &u : r.uncaught)
    fail("C09", (u.find("T1:") == 0 && u.find("!= kDestroy") != std::string::npos) ? "dcheck-in-catch" : "none",
         "exception left a thread (std::terminate): " + u.substr(0, 3) + u.substr(u.find("] ") == std::string::npos ? 3 : u.find("] ") + 1));
  for (auto &e : r.errors) fail("C07", "none", "synchronisation misuse: " + e);
  if (r.status != vs::COMPLETED) return;

  // walk the log
  seen_bf = false;
  int rewinds_ok = 0, rew_calls = 0, bf_ok = 0;
  bool thrown = false, destroyed = false, any_err = false;
  std::map<int, std::vector<int>> delivered;       // pass -> production positions, in log order
  std::map<int, int> produced;                     // pass -> number of items produced
  std::map<int, bool> ended, end_seen;             // pass -> producer reported end / a consumer got `false`
  int last_idx[2] = {-1, -1}, last_pass[2] = {-1, -1};
  int cur_pass = 0, throw_pass = -1;
  std::vector<bool> started_after_err;
  bool err_before_start[2] = {false, false};
  for (const OEv &e : X->olog) {
    switch (e.k) {
      case E_CB_ITEM:
        if (thrown) fail("C09", "none", "an item was produced after the producer failed");
        if (e.idx != produced[e.pass]) fail("C07", "none", "harness: production out of order");
        produced[e.pass] = e.idx + 1;
        break;
      case E_CB_END: ended[e.pass] = true; break;
      case E_CB_THROW: thrown = true; throw_pass = e.pass; break;
      case E_REW_OK: ++rewinds_ok; ++rew_calls; cur_pass = e.pass + 1; break;
      case E_REW_THROW: ++rew_calls; thrown = true; throw_pass = e.pass; break;
      case E_START:
        if (e.op == 'd') destroyed = true;
        if (e.op == 'b') seen_bf = true;
        if (e.slot >= 0 && e.slot < 2) err_before_start[e.slot] = any_err;
        break;
      case E_NEXT_ITEM: {
        if (destroyed) fail("C09", "none", "Next delivered an item after Destroy");
        if (e.pass != cur_pass) fail("C08", "none", "item of pass " + std::to_string(e.pass) + " delivered while the producer is in pass " +
                                     std::to_string(cur_pass) + " (stale or premature)");
        if (e.pass != bf_ok && !destroyed) fail("C08", "none", "item of pass " + std::to_string(e.pass) + " delivered after " +
                                                std::to_string(bf_ok) + " completed BeforeFirst calls");
        if (e.idx >= produced[e.pass]) fail("C07", "none", "delivered an item that was never produced");
        if (last_pass[e.slot] == e.pass && e.idx <= last_idx[e.slot])
          fail("C07", "none", "consumer received position " + std::to_string(e.idx) + " after " + std::to_string(last_idx[e.slot]));
        last_pass[e.slot] = e.pass;
        last_idx[e.slot] = e.idx;
        delivered[e.pass].push_back(e.idx);
        if (err_before_start[e.slot]) fail("C09", "none", "a call started after an error was reported delivered an item");
        break;
      }
      case E_NEXT_HANDED:
        if (e.idx >= produced[e.pass]) fail("C07", "none", "handed over an item that was never produced");
        delivered[e.pass].push_back(e.idx);
        break;
      case E_NEXT_END:
        if (!destroyed) {
          if (thrown) fail("C09", "none", "Next reported a normal end after the producer failed");
          else if (!ended[cur_pass]) fail("C07", "none", "Next returned false before the producer reported the end");
          end_seen[cur_pass] = true;
          if (err_before_start[e.slot]) fail("C09", "none", "a call started after an error was reported returned end");
        }
        break;
      case E_CALL_ERR:
        if (!thrown) fail(lp, "none", "a call failed although the producer did not");
        any_err = true;
        break;
      case E_CALL_OK:
        if (e.op != 'd' && err_before_start[e.slot] && !destroyed)
          fail("C09", "none", "a call started after an error was reported returned normally");
        break;
      case E_BF_OK:
        ++bf_ok;
        if (thrown && throw_pass < bf_ok) fail("C09", "none", "BeforeFirst returned normally although the producer failed before the rewind");
        if (bf_ok != rewinds_ok) fail("C08", "none", "BeforeFirst returned after " + std::to_string(rewinds_ok) + " rewinds, expected " +
                                      std::to_string(bf_ok));
        break;
      case E_DESTROY_OK: break;
    }
  }
  // exactly once, in order, no gaps: the positions delivered in a pass are 0..k-1
  for (auto &kv : delivered) {
    seen_bf = kv.first >= 1;  // items of pass >= 1 were delivered after a BeforeFirst
    std::vector<int> v = kv.second;
    std::sort(v.begin(), v.end());
    for (size_t i = 0; i < v.size(); ++i)
      if (v[i] != static_cast<int>(i)) {
        fail(kv.first == 0 ? "C07" : "C08", "none", "pass " + std::to_string(kv.first) + ": delivered positions are not 0..k-1 (duplicate or gap at " +
             std::to_string(i) + ")");
        break;
      }
    if (end_seen[kv.first] && static_cast<int>(v.size()) != produced[kv.first])
      fail("C07", "none", "pass " + std::to_string(kv.first) + ": end reported but only " + std::to_string(v.size()) + " of " +
           std::to_string(produced[kv.first]) + " items delivered");
  }
  for (auto &kv : end_seen) {
    seen_bf = kv.first >= 1;
    if (kv.second && delivered[kv.first].size() != static_cast<size_t>(produced[kv.first]))
      fail("C07", "none", "pass " + std::to_string(kv.first) + ": end reported with undelivered items");
  }
  seen_bf = X->bf_started;
  if (!thrown && rew_calls != bf_ok + 0 && !failing) {
    // a BeforeFirst after Destroy returns without a rewind; those are E_CALL_OK, not E_BF_OK
    fail("C08", "none", "rewind callback ran " + std::to_string(rew_calls) + " times for " + std::to_string(bf_ok) + " BeforeFirst calls");
  }
  if (X->nalloc > sp.cap + X->max_lent)
    fail("C07", "none", "allocated " + std::to_string(X->nalloc) + " cells > max_capacity + max lent " + std::to_string(X->max_lent));
  if (IT(X, producer_thread_ != nullptr)) fail("C09", "none", "producer thread not joined at the end");
}

// ------------------------------------------------------------------------------------------------
// life cycle: Init -> use -> Destroy -> Init again on ONE object (what unittest_threaditer_exc_handling does after a
// producer failure; lean: TIter/Lifecycle.lean `reinit_eq_init`).  Real threads; the outcome is schedule independent:
// the second life must deliver exactly its own items, in order, then the end, on the first pass and after a rewind.
//   case <n> fine life2 cap=<c> n1=<items of life 1> k=<items consumed> end=<n|e|x> n2=<items of life 2>
//   end: n = Destroy right after the k items, e = drain life 1 to its end first, x = the producer of life 1 throws after
//   its n1 items and the consumer runs into the error first
// ------------------------------------------------------------------------------------------------
struct LCell { int v = -1; };
static std::string life2_body(int cap, int n1, int k, char end1, int n2) {
  dmlc::ThreadedIterReal<LCell> it(static_cast<size_t>(cap));
  int c1 = 0, c2 = 0;
  auto mk = [](int n, int base, int *cnt, bool thr) {
    return [=](LCell **d) {
      if (*cnt >= n) { if (thr) throw dmlc::Error("life 1 fails"); return false; }
      if (*d == nullptr) *d = new LCell;
      (*d)->v = base + *cnt;
      ++*cnt;
      return true;
    };
  };
  it.Init(mk(n1, 0, &c1, end1 == 'x'), [&c1]() { c1 = 0; });
  try {
    for (int i = 0; i < k; ++i) {
      LCell *p = nullptr;
      if (!it.Next(&p)) return "life 1: Next returned false at item " + std::to_string(i);
      if (p->v != i) return "life 1: item " + std::to_string(i) + " has value " + std::to_string(p->v);
      it.Recycle(&p);
    }
    if (end1 != 'n') {
      LCell *p = nullptr;
      while (it.Next(&p)) it.Recycle(&p);
      if (end1 == 'x') return "life 1: the producer's failure was reported as the end of the stream";
    }
  } catch (const dmlc::Error &) {
    if (end1 != 'x') return "life 1: dmlc::Error without a failing producer";
  }
  it.Destroy();
  it.Init(mk(n2, 100, &c2, false), [&c2]() { c2 = 0; });
  for (int pass = 0; pass < 2; ++pass) {
    try {
      if (pass == 1) it.BeforeFirst();
      for (int i = 0; i < n2; ++i) {
        LCell *p = nullptr;
        if (!it.Next(&p))
          return "life 2 (Init after Destroy), pass " + std::to_string(pass) + ": Next returned false at item " + std::to_string(i) +
                 " of " + std::to_string(n2) + " although the producer never reported the end";
        if (p->v != 100 + i)
          return "life 2, pass " + std::to_string(pass) + ": item " + std::to_string(i) + " has value " + std::to_string(p->v) +
                 " (expected " + std::to_string(100 + i) + ")";
        it.Recycle(&p);
      }
      LCell *p = nullptr;
      if (it.Next(&p)) return "life 2, pass " + std::to_string(pass) + ": an item after the producer's end: " + std::to_string(p->v);
    } catch (const dmlc::Error &e) {
      return std::string("life 2, pass ") + std::to_string(pass) + ": dmlc::Error (the failure of life 1 must not survive Init): " +
             std::string(e.what()).substr(0, 80);
    }
  }
  it.Destroy();
  return "";
}
// in a child process with a time limit: a hang is a result, not the end of the run
static std::string life2_run(int cap, int n1, int k, char end1, int n2) {
  int fd[2];
  if (pipe(fd) != 0) return "";
  fflush(nullptr);
  pid_t pid = fork();
  if (pid == 0) {
    close(fd[0]);
    alarm(20);
    std::string r = life2_body(cap, n1, k, end1, n2);
    if (!r.empty()) { ssize_t w = write(fd[1], r.data(), r.size()); (void)w; }
    _exit(0);
  }
  close(fd[1]);
  std::string r;
  char buf[512];
  ssize_t n;
  while ((n = read(fd[0], buf, sizeof buf)) > 0) r.append(buf, static_cast<size_t>(n));
  close(fd[0]);
  int st = 0;
  waitpid(pid, &st, 0);
  if (WIFSIGNALED(st)) return WTERMSIG(st) == SIGALRM ? "life cycle case did not finish within 20 s (a call never returns)"
                                                      : "life cycle case died with signal " + std::to_string(WTERMSIG(st));
  if (WIFEXITED(st) && WEXITSTATUS(st) != 0) return "life cycle case exited with status " + std::to_string(WEXITSTATUS(st));
  return r;
}
static bool life2_parse(const std::vector<std::string> &w, int *cap, int *n1, int *k, char *e, int *n2) {
  if (w.size() < 7 || w[0] != "fine" || w[1] != "life2") return false;
  for (size_t i = 2; i < w.size(); ++i) {
    size_t q = w[i].find('=');
    if (q == std::string::npos) continue;
    std::string key = w[i].substr(0, q), v = w[i].substr(q + 1);
    if (key == "cap") *cap = atoi(v.c_str());
    else if (key == "n1") *n1 = atoi(v.c_str());
    else if (key == "k") *k = atoi(v.c_str());
    else if (key == "end" && !v.empty()) *e = v[0];
    else if (key == "n2") *n2 = atoi(v.c_str());
  }
  return *cap >= 1 && *k <= *n1;
}

// ------------------------------------------------------------------------------------------------
// harness object (replay path) and generators
// ------------------------------------------------------------------------------------------------
struct TIterHarness : vh::Harness {
  std::vector<std::string> results, fails;
  size_t pos = 0;
  std::string shape_;
  void begin_case(const vh::Case &c) override {
    results.clear(); fails.clear(); pos = 0; shape_ = "replay";
    std::vector<std::string> w = vh::split_ws(c.kind);
    {
      int cap = 1, n1 = 0, k = 0, n2 = 0;
      char e = 'n';
      if (life2_parse(w, &cap, &n1, &k, &e, &n2)) {
        std::string r = life2_run(cap, n1, k, e, n2);
        if (!r.empty()) fails.push_back("class=none prop=C07 " + r);
        shape_ = "life2";
        return;
      }
    }
    Spec sp;
    std::string sched;
    if (!Spec::parse(w, &sp, &sched)) { fails.push_back("class=none prop=C07 harness: cannot parse the case header"); return; }
    bool fine = !w.empty() && w[0] == "fine";
    std::vector<vs::Choice> ch;
    if (fine) ch = vs::parse_schedule(sched);
    else
      for (const std::string &o : c.ops) {
        std::vector<std::string> ow = vh::split_ws(o);
        vs::Choice x;
        if (!ow.empty() && vs::Choice::parse(ow[0], &x)) ch.push_back(x);
      }
    vs::ReplayChooser rc(ch);
    RunOut out = run_one(sp, &rc, fine, 1000);
    fails = out.fails;
    shape_ = out.shape;
    if (!fine) for (auto &l : out.lines) results.push_back(l.res);
  }
  std::string exec(const std::vector<std::string> &) override {
    return pos < results.size() ? results[pos++] : std::string("n/a");
  }
  void end_case(const vh::Case &, const std::vector<std::string> &, std::vector<std::string> *f) override { *f = fails; }
  std::string shape(const vh::Case &, const std::vector<std::string> &) override { return shape_; }
};

struct Gen {
  vh::Runner &R;
  std::string prop;
  uint64_t n_exec = 0, n_dead = 0;
  explicit Gen(vh::Runner &r) : R(r) {}

  void emit(const std::string &kind, const RunOut &o, bool fine) {
    ++R.n_cases;
    fprintf(R.f_ops, "case %llu %s\n", (unsigned long long)R.n_cases, kind.c_str());
    fprintf(R.f_impl, "case %llu %s\n", (unsigned long long)R.n_cases, kind.c_str());
    uint64_t hh = vh::Runner::fnv(kind);
    if (!fine)
      for (auto &l : o.lines) {
        ++R.n_ops;
        fputs(l.op.c_str(), R.f_ops); fputc('\n', R.f_ops);
        fputs(l.res.c_str(), R.f_impl); fputc('\n', R.f_impl);
        hh = vh::Runner::fnv(l.op, hh);
      }
    else
      R.n_ops += o.res.trace.size();
    for (auto &f : o.fails) {
      ++R.n_fail;
      fprintf(R.f_or, "ORACLE-FAIL case=%llu %s\n", (unsigned long long)R.n_cases, f.c_str());
    }
    ++R.hist[(fine ? "fine-" : "macro-") + o.shape];
    R.distinct.insert(hh);
    if (R.samples.size() < 5 && R.n_cases % 97 == 1) R.samples.push_back(kind + " | " + o.res.schedule().substr(0, 160));
  }

  // exhaustive DFS with a preemption bound (macro granularity, with correspondence lines)
  void dfs(const Spec &sp, int bound, long max_exec, int spurious, bool fine) {
    vs::DfsChooser ch(bound);
    long n = 0;
    int dead = 0;
    for (;;) {
      RunOut o = run_one(sp, &ch, fine, spurious);
      ++n; ++n_exec;
      std::string kind = std::string(fine ? "fine " : "macro ") + sp.text();
      if (fine) { std::string s = o.res.schedule(); std::replace(s.begin(), s.end(), ' ', ','); kind += " sched=" + s; }
      emit(kind, o, fine);
      if (o.res.status != vs::COMPLETED) { ++dead; ++n_dead; }
      if (dead >= 2) break;  // abandoned executions leak their threads: stop exploring this program
      if (max_exec >= 0 && n >= max_exec) break;
      if (!ch.next()) break;
    }
    R.extra["dfs_programs"] += 1;
  }
  void pct(const Spec &sp, uint64_t seed, int depth, int spurious, bool fine, int est) {
    vs::PctChooser ch(seed, depth, est);
    RunOut o = run_one(sp, &ch, fine, spurious);
    ++n_exec;
    std::string kind = std::string(fine ? "fine " : "macro ") + sp.text();
    if (fine) { std::string s = o.res.schedule(); std::replace(s.begin(), s.end(), ' ', ','); kind += " sched=" + s; }
    emit(kind, o, fine);
    if (o.res.status != vs::COMPLETED) ++n_dead;
  }
  void rnd(const Spec &sp, uint64_t seed, int spurious, bool fine) {
    vs::RandomChooser ch(seed, 5);
    RunOut o = run_one(sp, &ch, fine, spurious);
    ++n_exec;
    std::string kind = std::string(fine ? "fine " : "macro ") + sp.text();
    if (fine) { std::string s = o.res.schedule(); std::replace(s.begin(), s.end(), ' ', ','); kind += " sched=" + s; }
    emit(kind, o, fine);
    if (o.res.status != vs::COMPLETED) ++n_dead;
  }
};

Spec mk(int cap, const std::string &src, const std::string &rew, char exk, const std::string &A, const std::string &B = "-") {
  Spec s;
  std::vector<std::string> w = {"cap=" + std::to_string(cap), "src=" + src, "rew=" + (rew.empty() ? std::string("-") : rew),
                                std::string("exk=") + exk, "A=" + A, "B=" + B};
  Spec::parse(w, &s, nullptr);
  return s;
}

std::vector<Spec> programs(const std::string &prop, bool thorough, vh::Rng *rng) {
  std::vector<Spec> ps;
  std::vector<int> caps = {1, 2, 3};
  if (prop == "C07") {
    const char *single[] = {"n,r0,n,r0", "n,n,r0,r0", "nv,nv,v,nv", "n,n,n", "nv,v,n,r0", "n,r0,n,r0,n,r0,n", "n,n,n,r1,r0,n,n",
                            "nv,nv,nv,nv,nv,v"};
    const char *two[][2] = {{"sp,n,r0,jn", "n,r0"}, {"sp,n,n,jn", "n,n"}, {"sp,n,r0,n,jn", "n,n,r0"}, {"n,sp,r0,n,jn", "n,r0,n"},
                            {"sp,n,r0,n,r0,jn", "n,r0,n,r0"}, {"sp,n,n,r1,jn,n", "n,n,n"}};
    size_t ns = thorough ? 8 : 5, nt = thorough ? 6 : 4;
    for (int cap : caps)
      for (int len = 0; len <= 4; ++len) {
        std::string src = std::to_string(len) + "e";
        for (size_t i = 0; i < ns; ++i) ps.push_back(mk(cap, src, "", 'd', single[i]));
        for (size_t i = 0; i < nt; ++i) ps.push_back(mk(cap, src, "", 'd', two[i][0], two[i][1]));
      }
  } else if (prop == "C08") {
    const char *single[] = {"bf,n,r0,n", "n,bf,n,r0", "n,r0,bf,bf,n", "n,n,bf,n,r0,r0", "nv,bf,nv,v", "n,n,n,bf", "bf,bf,n",
                            "nv,nv,bf,nv,nv,bf,nv", "n,r0,n,bf,n,r0,n,r0,bf,n", "n,n,r0,bf,r0,n,bf,n,n"};
    const char *two[][2] = {{"sp,n,jn,bf,n", "n,r0"}, {"n,sp,n,r0,jn,bf,sp,n,jn", "n"}, {"bf,sp,n,r0,jn,bf,n", "n,n"}};
    size_t ns = thorough ? 10 : 7, nt = thorough ? 3 : 2;
    for (int cap : caps)
      for (int len = 0; len <= 4; ++len) {
        std::string src = std::to_string(len) + "e";
        for (size_t i = 0; i < ns; ++i) ps.push_back(mk(cap, src, "", 'd', single[i]));
        for (size_t i = 0; i < nt; ++i) ps.push_back(mk(cap, src, "", 'd', two[i][0], two[i][1]));
        if (len >= 1) ps.push_back(mk(cap, src + "," + std::to_string(len - 1) + "e," + std::to_string(len) + "e", "", 'd', "n,bf,n,n,bf,n"));
      }
  } else {  // C09
    const char *single[] = {"n,n,n", "n,r0,n,r0,n", "bf,n", "n,bf,n", "nv,nv,v,nv", "n,d,n", "d,d", "n,r0,d,bf,n", "n,n,bf,bf",
                            "n,bf,d,n,r0", "nv,bf,nv,d,nv,v", "n,n,r0,bf,r0,n"};
    const char *two[][2] = {{"sp,n,r0,jn,bf", "n,r0"}, {"sp,n,n,jn,d,n", "n,n"}, {"sp,n,jn,bf,n", "n,r0,n"}};
    size_t ns = thorough ? 12 : 9, nt = thorough ? 3 : 2;
    for (int cap : caps)
      for (int len = 0; len <= (thorough ? 4 : 3); ++len)
        for (int variant = 0; variant < 4; ++variant) {
          // 0: produce throws at position len (first pass)   1: same, std::exception
          // 2: first pass ends normally, rewind throws        3: second pass throws at len-1 / 0
          std::string src, rew;
          char exk = variant == 1 ? 's' : 'd';
          if (variant <= 1) src = std::to_string(len) + "t";
          else if (variant == 2) { src = std::to_string(len) + "e"; rew = "t"; exk = (len & 1) ? 's' : 'd'; }
          else { src = std::to_string(len) + "e," + std::to_string(len ? len - 1 : 0) + "t"; }
          for (size_t i = 0; i < ns; ++i) ps.push_back(mk(cap, src, rew, exk, single[i]));
          if (variant != 1)
            for (size_t i = 0; i < nt; ++i) ps.push_back(mk(cap, src, rew, exk, two[i][0], two[i][1]));
        }
    // no failure at all: Destroy at any point
    for (int cap : caps)
      for (const char *a : {"d", "n,d", "n,n,d,r0", "nv,d,v", "bf,d,bf", "n,r0,n,d,d"}) ps.push_back(mk(cap, "3e", "", 'd', a));
  }
  (void)rng;
  return ps;
}

}  // namespace

int main(int argc, char **argv) {
  vh::Runner R;
  R.parse(argc, argv);
  std::string prop = "C07";
  long budget = -1;
  for (int i = 1; i < argc; ++i) {
    if (!strcmp(argv[i], "--prop") && i + 1 < argc) prop = argv[++i];
    if (!strcmp(argv[i], "--budget") && i + 1 < argc) budget = atol(argv[++i]);
  }
  TIterHarness h;
  R.h = &h;
  if (R.run_replay()) { R.finish(); return 0; }
  vh::Rng rng(R.seed * 1000003ULL + (prop == "C07" ? 7 : prop == "C08" ? 8 : 9));
  Gen G(R);
  G.prop = prop;
  // life-cycle cases first (no other thread exists yet: they run in forked children)
  if (prop == "C07") {
    for (int cap = 1; cap <= (R.thorough() ? 3 : 2); ++cap)
      for (int n1 = 0; n1 <= 3; ++n1)
        for (int k = 0; k <= n1; ++k)
          for (char e : {'n', 'e', 'x'})
            for (int n2 : {0, 1, 3}) {
              if (!R.thorough() && (n1 == 2 || (cap == 2 && n2 == 1))) continue;
              char kind[160];
              snprintf(kind, sizeof kind, "fine life2 cap=%d n1=%d k=%d end=%c n2=%d", cap, n1, k, e, n2);
              std::string r = life2_run(cap, n1, k, e, n2);
              ++R.n_cases;
              fprintf(R.f_ops, "case %llu %s\n", (unsigned long long)R.n_cases, kind);
              fprintf(R.f_impl, "case %llu %s\n", (unsigned long long)R.n_cases, kind);
              if (!r.empty()) {
                ++R.n_fail;
                fprintf(R.f_or, "ORACLE-FAIL case=%llu class=none prop=C07 %s\n", (unsigned long long)R.n_cases, r.c_str());
              }
              ++R.hist["life2"];
              R.distinct.insert(vh::Runner::fnv(kind));
            }
  }
  std::vector<Spec> ps = programs(prop, R.thorough(), &rng);
  // every program: a few PCT schedules (macro, with correspondence) incl. spurious wake-ups;
  // a seeded selection of programs: exhaustive DFS with <=2 (quick) / <=3 (thorough) preemptions;
  // fine-grained (every shim operation) PCT + bounded DFS for the oracles alone.
  long per_prog_dfs = budget >= 0 ? budget : (R.thorough() ? 1500 : 250);
  size_t n_dfs = std::min<size_t>(ps.size(), R.thorough() ? 40 : 8);
  std::set<size_t> pick;
  while (pick.size() < n_dfs) pick.insert(static_cast<size_t>(rng.below(ps.size())));
  if (prop == "C09") {
    // focus programs, explored exhaustively in every run: a failure racing with BeforeFirst / Destroy
    for (const char *src : {"0t", "1t"})
      for (const char *a : {"bf", "n,bf", "bf,n", "d"}) {
        G.dfs(mk(1, src, "", 'd', a), 2, R.thorough() ? 4000 : 400, 0, false);
      }
    G.dfs(mk(1, "1e", "t", 's', "n,bf,n"), 2, R.thorough() ? 4000 : 300, 0, false);
    // the DCHECK-live instantiation (what a build with DMLC_LOG_DEBUG == 0 compiles): a failure racing with Destroy;
    // every shim operation is a decision, oracle only (the model describes the configuration without DCHECKs)
    for (const char *src : {"0t", "1t", "2t"})
      for (const char *a : {"d", "n,d", "n,r0,d"}) {
        Spec sp = mk(src[0] == '2' ? 2 : 1, src, "", src[0] == '1' ? 's' : 'd', a);
        sp.dchk = true;
        G.dfs(sp, 2, R.thorough() ? 3000 : 250, 0, true);
        for (int k = 0; k < (R.thorough() ? 40 : 4); ++k) G.pct(sp, rng.next(), 1 + static_cast<int>(rng.below(3)), 0, true, 120);
      }
  }
  for (size_t i = 0; i < ps.size(); ++i) {
    const Spec &sp = ps[i];
    int npct = R.thorough() ? 20 : 4;
    for (int k = 0; k < npct; ++k) G.pct(sp, rng.next(), 1 + static_cast<int>(rng.below(4)), k % 3 == 0 ? 2 : 0, false, 60);
    int nfine = R.thorough() ? 10 : 2;
    for (int k = 0; k < nfine; ++k) G.pct(sp, rng.next(), 1 + static_cast<int>(rng.below(4)), k % 3 == 1 ? 1 : 0, true, 200);
    G.rnd(sp, rng.next(), 2, false);
    if (pick.count(i)) {
      G.dfs(sp, R.thorough() ? 3 : 2, per_prog_dfs, 0, false);
      G.dfs(sp, 1, R.thorough() ? 400 : 80, 1, false);
      G.dfs(sp, R.thorough() ? 2 : 1, R.thorough() ? 600 : 120, 0, true);
    }
  }
  R.extra["executions"] = G.n_exec;
  R.extra["abandoned"] = G.n_dead;
  R.extra["programs"] = ps.size();
  R.finish();
  return 0;
}
