// Correspondence harness + oracle for C17 (dmlc::Parameter Init / Update follow the declared schema).
//
// Runs the REAL dmlc::Parameter machinery on two structs (PA: all eleven field kinds, with and without
// ranges, aliases, all with defaults; PB: required fields).  The schema descriptor sent to the model
// driver is read out of the library's own ParamManager (entry_, entry_map_, has_begin_, enum_map_, …:
// private/protected members opened for this TU only).  The oracle is a reference interpreter of the
// DECLARED schema (the table `decl_A` / `decl_B` below, written by hand from the declarations and the
// property text), independent of the Lean model.
#include <algorithm>
#include <cerrno>
#include <cmath>
#include <cstddef>
#include <cstdlib>
#include <iomanip>
#include <iostream>
#include <limits>
#include <map>
#include <memory>
#include <set>
#include <sstream>
#include <stdexcept>
#include <string>
#include <typeinfo>
#include <utility>
#include <vector>
// same order as parameter.h itself includes them (the unqualified isspace calls bind accordingly)
#include <dmlc/base.h>
#include <dmlc/json.h>
#include <dmlc/logging.h>
#include <dmlc/optional.h>
#include <dmlc/strtonum.h>
#include <dmlc/type_traits.h>
#define private public
#define protected public
#include <dmlc/parameter.h>
#undef private
#undef protected
#include "common/proto.h"

using vh::Case;
typedef std::vector<std::pair<std::string, std::string>> KW;

// ------------------------------------------------------------------------------------------------
// the parameter structs under test
// ------------------------------------------------------------------------------------------------
struct PA : public dmlc::Parameter<PA> {
  int i; int lb; int ub; unsigned u; int64_t l; float f; float g; double d; double h; bool b;
  std::string s; int e; dmlc::optional<int> oi; dmlc::optional<int> oj; dmlc::optional<int> oe;
  dmlc::optional<bool> ob; dmlc::optional<bool> oc;
  DMLC_DECLARE_PARAMETER(PA) {
    DMLC_DECLARE_FIELD(i).set_default(3).set_range(-5, 100);
    DMLC_DECLARE_FIELD(lb).set_default(0).set_lower_bound(0);
    {
      auto &en = DMLC_DECLARE_FIELD(ub).set_default(0);
      en.has_end_ = true;   // upper bound only: the third branch of FieldEntryNumeric::Check
      en.end_ = 10;
    }
    DMLC_DECLARE_FIELD(u).set_default(7).set_range(1, 4000000000U);
    DMLC_DECLARE_FIELD(l).set_default(-1);
    DMLC_DECLARE_FIELD(f).set_default(0.5f).set_range(-1.0f, 1.0f);
    DMLC_DECLARE_FIELD(g).set_default(0.1f);
    DMLC_DECLARE_FIELD(d).set_default(0.25).set_lower_bound(-1e10);
    DMLC_DECLARE_FIELD(h).set_default(0.001);
    DMLC_DECLARE_FIELD(b).set_default(false);
    DMLC_DECLARE_FIELD(s).set_default("dflt");
    DMLC_DECLARE_FIELD(e).add_enum("red", 0).add_enum("green", 1).add_enum("blue", 5).set_default(1);
    DMLC_DECLARE_FIELD(oi).set_default(dmlc::optional<int>());
    DMLC_DECLARE_FIELD(oj).set_default(dmlc::optional<int>(42));
    DMLC_DECLARE_FIELD(oe).add_enum("first", 1).add_enum("second", -2).set_default(dmlc::optional<int>());
    DMLC_DECLARE_FIELD(ob).set_default(dmlc::optional<bool>());
    DMLC_DECLARE_FIELD(oc).set_default(dmlc::optional<bool>(true));
    DMLC_DECLARE_ALIAS(i, ii);
    DMLC_DECLARE_ALIAS(l, long_field);
    DMLC_DECLARE_ALIAS(b, flag);
    DMLC_DECLARE_ALIAS(s, str);
    DMLC_DECLARE_ALIAS(f, Fx);
    DMLC_DECLARE_ALIAS(oe, zz_mode);
  }
  template <typename V> void each(V &v) {  // NOLINT(*)
    v(i); v(lb); v(ub); v(u); v(l); v(f); v(g); v(d); v(h); v(b); v(s); v(e); v(oi); v(oj); v(oe); v(ob); v(oc);
  }
};
DMLC_REGISTER_PARAMETER(PA);

struct PB : public dmlc::Parameter<PB> {
  int r; std::string rs; float rf; int q; int re; dmlc::optional<int> ro;
  DMLC_DECLARE_PARAMETER(PB) {
    DMLC_DECLARE_FIELD(r).set_range(0, 10);
    DMLC_DECLARE_FIELD(rs);
    DMLC_DECLARE_FIELD(rf);
    DMLC_DECLARE_FIELD(q).set_default(1);
    DMLC_DECLARE_FIELD(re).add_enum("x", 1).add_enum("y", 2);
    DMLC_DECLARE_FIELD(ro).set_default(dmlc::optional<int>(-7));
    DMLC_DECLARE_ALIAS(r, req);
    DMLC_DECLARE_ALIAS(rs, a_name);
  }
  template <typename V> void each(V &v) { v(r); v(rs); v(rf); v(q); v(re); v(ro); }  // NOLINT(*)
};
DMLC_REGISTER_PARAMETER(PB);

// ------------------------------------------------------------------------------------------------
// the DECLARED schema, by hand (oracle side)
// ------------------------------------------------------------------------------------------------
enum Kind { kInt, kUInt, kInt64, kFloat, kDouble, kBool, kString, kEnumInt, kOptInt, kOptEnum, kOptBool };
static const char *kind_name[] = {"int", "uint", "int64", "float", "double", "bool", "string", "enumInt",
                                  "optInt", "optEnum", "optBool"};

struct RV {  // a reference value
  bool none = false;        // optional: None
  long long n = 0;          // integers, bool (0/1), enum value
  double x = 0;             // float / double
  uint64_t bits = 0;        // float / double bit pattern (struct snapshots only)
  std::string s;
};

struct Decl {
  std::string name;
  std::vector<std::string> aliases;
  Kind kind;
  bool has_default;
  RV dflt;
  bool has_lo, has_hi;
  double lo, hi;            // numeric bounds (exact for the values used)
  std::vector<std::pair<std::string, int>> enums;
};

static RV rvi(long long n) { RV r; r.n = n; return r; }
static RV rvx(double x) { RV r; r.x = x; return r; }
static RV rvs(const std::string &s) { RV r; r.s = s; return r; }
static RV rvnone() { RV r; r.none = true; return r; }

static std::vector<Decl> decl_A() {
  std::vector<Decl> d;
  d.push_back({"i", {"ii"}, kInt, true, rvi(3), true, true, -5, 100, {}});
  d.push_back({"lb", {}, kInt, true, rvi(0), true, false, 0, 0, {}});
  d.push_back({"ub", {}, kInt, true, rvi(0), false, true, 0, 10, {}});
  d.push_back({"u", {}, kUInt, true, rvi(7), true, true, 1, 4000000000.0, {}});
  d.push_back({"l", {"long_field"}, kInt64, true, rvi(-1), false, false, 0, 0, {}});
  d.push_back({"f", {"Fx"}, kFloat, true, rvx(0.5), true, true, -1.0, 1.0, {}});
  d.push_back({"g", {}, kFloat, true, rvx(0.1f), false, false, 0, 0, {}});
  d.push_back({"d", {}, kDouble, true, rvx(0.25), true, false, -1e10, 0, {}});
  d.push_back({"h", {}, kDouble, true, rvx(0.001), false, false, 0, 0, {}});
  d.push_back({"b", {"flag"}, kBool, true, rvi(0), false, false, 0, 0, {}});
  d.push_back({"s", {"str"}, kString, true, rvs("dflt"), false, false, 0, 0, {}});
  d.push_back({"e", {}, kEnumInt, true, rvi(1), false, false, 0, 0, {{"red", 0}, {"green", 1}, {"blue", 5}}});
  d.push_back({"oi", {}, kOptInt, true, rvnone(), false, false, 0, 0, {}});
  d.push_back({"oj", {}, kOptInt, true, rvi(42), false, false, 0, 0, {}});
  d.push_back({"oe", {"zz_mode"}, kOptEnum, true, rvnone(), false, false, 0, 0, {{"first", 1}, {"second", -2}}});
  d.push_back({"ob", {}, kOptBool, true, rvnone(), false, false, 0, 0, {}});
  d.push_back({"oc", {}, kOptBool, true, rvi(1), false, false, 0, 0, {}});
  return d;
}
static std::vector<Decl> decl_B() {
  std::vector<Decl> d;
  d.push_back({"r", {"req"}, kInt, false, RV(), true, true, 0, 10, {}});
  d.push_back({"rs", {"a_name"}, kString, false, RV(), false, false, 0, 0, {}});
  d.push_back({"rf", {}, kFloat, false, RV(), false, false, 0, 0, {}});
  d.push_back({"q", {}, kInt, true, rvi(1), false, false, 0, 0, {}});
  d.push_back({"re", {}, kEnumInt, false, RV(), false, false, 0, 0, {{"x", 1}, {"y", 2}}});
  d.push_back({"ro", {}, kOptInt, true, rvi(-7), false, false, 0, 0, {}});
  return d;
}

// ------------------------------------------------------------------------------------------------
// reading / printing struct fields
// ------------------------------------------------------------------------------------------------
static std::string hexbits(uint64_t b) {
  char buf[32];
  snprintf(buf, sizeof buf, "x%llx", (unsigned long long)b);
  return buf;
}
struct Printer {
  std::vector<std::string> out;
  std::vector<RV> snap;
  void operator()(int &v) { out.push_back(std::to_string(v)); snap.push_back(rvi(v)); }
  void operator()(unsigned &v) { out.push_back(std::to_string(v)); snap.push_back(rvi(v)); }
  void operator()(int64_t &v) { out.push_back(std::to_string((long long)v)); snap.push_back(rvi(v)); }
  void operator()(float &v) {
    uint32_t b; memcpy(&b, &v, 4); out.push_back(hexbits(b));
    RV r; r.x = v; r.bits = b; snap.push_back(r);
  }
  void operator()(double &v) {
    uint64_t b; memcpy(&b, &v, 8); out.push_back(hexbits(b));
    RV r; r.x = v; r.bits = b; snap.push_back(r);
  }
  void operator()(bool &v) { out.push_back(v ? "1" : "0"); snap.push_back(rvi(v ? 1 : 0)); }
  void operator()(std::string &v) { out.push_back(vh::hex(v)); snap.push_back(rvs(v)); }
  void operator()(dmlc::optional<int> &v) {
    if (v) { out.push_back(std::to_string(v.value())); snap.push_back(rvi(v.value())); }
    else { out.push_back("N"); snap.push_back(rvnone()); }
  }
  void operator()(dmlc::optional<bool> &v) {
    if (v) { out.push_back(v.value() ? "1" : "0"); snap.push_back(rvi(v.value() ? 1 : 0)); }
    else { out.push_back("N"); snap.push_back(rvnone()); }
  }
};

// ------------------------------------------------------------------------------------------------
// schema descriptor from the library's ParamManager
// ------------------------------------------------------------------------------------------------
namespace dp = dmlc::parameter;
static std::string fbits32(float v) { uint32_t b; memcpy(&b, &v, 4); return std::to_string(b); }
static std::string fbits64(double v) { uint64_t b; memcpy(&b, &v, 8); return std::to_string(b); }

static std::string descriptor(dp::ParamManager *m, std::vector<std::string> *names, std::vector<Kind> *kinds) {
  std::ostringstream os;
  os << "schema " << m->entry_.size();
  for (dp::FieldAccessEntry *e : m->entry_) {
    std::string ty, d = "_", lo = "_", hi = "_";
    std::vector<std::pair<std::string, int>> ens;
    Kind k = kInt;
    if (auto *p = dynamic_cast<dp::FieldEntry<int> *>(e)) {
      k = p->is_enum_ ? kEnumInt : kInt;
      if (p->has_default_) d = "i" + std::to_string(p->default_value_);
      if (p->has_begin_) lo = "i" + std::to_string(p->begin_);
      if (p->has_end_) hi = "i" + std::to_string(p->end_);
      for (auto &kv : p->enum_map_) ens.push_back(kv);
    } else if (auto *p = dynamic_cast<dp::FieldEntry<unsigned> *>(e)) {
      k = kUInt;
      if (p->has_default_) d = "i" + std::to_string(p->default_value_);
      if (p->has_begin_) lo = "i" + std::to_string(p->begin_);
      if (p->has_end_) hi = "i" + std::to_string(p->end_);
    } else if (auto *p = dynamic_cast<dp::FieldEntry<int64_t> *>(e)) {
      k = kInt64;
      if (p->has_default_) d = "i" + std::to_string((long long)p->default_value_);
      if (p->has_begin_) lo = "i" + std::to_string((long long)p->begin_);
      if (p->has_end_) hi = "i" + std::to_string((long long)p->end_);
    } else if (auto *p = dynamic_cast<dp::FieldEntry<float> *>(e)) {
      k = kFloat;
      if (p->has_default_) d = "x" + fbits32(p->default_value_);
      if (p->has_begin_) lo = "x" + fbits32(p->begin_);
      if (p->has_end_) hi = "x" + fbits32(p->end_);
    } else if (auto *p = dynamic_cast<dp::FieldEntry<double> *>(e)) {
      k = kDouble;
      if (p->has_default_) d = "x" + fbits64(p->default_value_);
      if (p->has_begin_) lo = "x" + fbits64(p->begin_);
      if (p->has_end_) hi = "x" + fbits64(p->end_);
    } else if (auto *p = dynamic_cast<dp::FieldEntry<bool> *>(e)) {
      k = kBool;
      if (p->has_default_) d = std::string("b") + (p->default_value_ ? "1" : "0");
    } else if (auto *p = dynamic_cast<dp::FieldEntry<std::string> *>(e)) {
      k = kString;
      if (p->has_default_) d = "s" + vh::hex(p->default_value_);
    } else if (auto *p = dynamic_cast<dp::FieldEntry<dmlc::optional<int>> *>(e)) {
      k = p->is_enum_ ? kOptEnum : kOptInt;
      if (p->has_default_) d = p->default_value_ ? "o" + std::to_string(p->default_value_.value()) : std::string("oN");
      for (auto &kv : p->enum_map_) ens.push_back(kv);
    } else if (auto *p = dynamic_cast<dp::FieldEntry<dmlc::optional<bool>> *>(e)) {
      k = kOptBool;
      if (p->has_default_) d = p->default_value_ ? (p->default_value_.value() ? "p1" : "p0") : std::string("pN");
    } else {
      fprintf(stderr, "descriptor: unsupported entry type for %s\n", e->key_.c_str());
      exit(3);
    }
    std::vector<std::string> als;
    for (auto &kv : m->entry_map_)
      if (kv.second == e && kv.first != e->key_) als.push_back(kv.first);
    os << " f " << vh::hex(e->key_) << " " << kind_name[k] << " " << d << " " << lo << " " << hi << " " << als.size();
    for (auto &a : als) os << " " << vh::hex(a);
    os << " " << ens.size();
    for (auto &kv : ens) os << " " << vh::hex(kv.first) << " " << kv.second;
    names->push_back(e->key_);
    kinds->push_back(k);
  }
  return os.str();
}

// ------------------------------------------------------------------------------------------------
// the object under test, type-erased over PA / PB
// ------------------------------------------------------------------------------------------------
struct Outcome {
  std::string status;   // ok | err:param <kind> | err:check
  KW unknown;
};

static std::string classify(const std::string &msg) {
  auto starts = [&](const char *p) { return msg.compare(0, strlen(p), p) == 0; };
  if (starts("Cannot find argument")) return "unknown";
  if (starts("Invalid Parameter format for")) return "format";
  if (starts("Invalid Input:")) return "enum";
  if (starts("Some trailing characters")) return "trailing";
  if (starts("Out of range value for")) return "oor";
  if (starts("value ")) return "range";
  if (starts("Required parameter")) return "required";
  return "other";
}

static dp::ParamInitOption option_of(const std::string &w) {
  if (w == "allowunknown") return dp::kAllowUnknown;
  if (w == "allmatch") return dp::kAllMatch;
  return dp::kAllowHidden;
}

struct Obj {
  virtual ~Obj() {}
  virtual void reset() = 0;
  virtual Printer print() = 0;
  virtual Outcome call(const std::string &op, const std::string &opt, const KW &kw, bool stale) = 0;
  virtual std::string dict(std::map<std::string, std::string> *out) = 0;
  virtual std::string update_dict(std::map<std::string, std::string> *io) = 0;
  virtual std::string save(std::string *json) = 0;
  // load JSON text into a fresh struct; on success the fresh struct replaces the current one if `adopt`
  virtual Outcome load(const std::string &json, bool stale, bool adopt, Printer *after) = 0;
  // re-initialise a fresh struct from a dictionary; returns status and the fresh struct's snapshot
  virtual Outcome reinit(const std::map<std::string, std::string> &d, Printer *after) = 0;
};

template <typename F>
static Outcome guarded(F f, bool stale) {
  Outcome o;
  errno = stale ? ERANGE : 0;
  try {
    o.unknown = f();
    o.status = "ok";
  } catch (const dmlc::ParamError &e) {
    o.status = "err:param " + classify(e.what());
  } catch (const dmlc::Error &e) {
    o.status = "err:check";
  }
  errno = 0;
  return o;
}

template <typename P>
struct ObjT : Obj {
  P p = P();
  void reset() override { p = P(); }
  Printer print() override { Printer pr; p.each(pr); return pr; }
  Outcome call(const std::string &op, const std::string &opt, const KW &kw, bool stale) override {
    return guarded([&]() -> KW {
      if (op == "init") { p.Init(kw, option_of(opt)); return KW(); }
      if (op == "update") {
        P::__MANAGER__()->RunUpdate(static_cast<void *>(&p), kw.begin(), kw.end(), option_of(opt), nullptr);
        return KW();
      }
      if (op == "initallow") return p.InitAllowUnknown(kw);
      return p.UpdateAllowUnknown(kw);
    }, stale);
  }
  std::string dict(std::map<std::string, std::string> *out) override {
    try { *out = p.__DICT__(); } catch (const dmlc::Error &) { return "err:check"; }
    return "ok";
  }
  std::string update_dict(std::map<std::string, std::string> *io) override {
    try { p.UpdateDict(io); } catch (const dmlc::Error &) { return "err:check"; }
    return "ok";
  }
  std::string save(std::string *json) override {
    std::ostringstream os;
    try {
      dmlc::JSONWriter w(&os);
      p.Save(&w);
    } catch (const dmlc::Error &) { return "err:check"; }
    *json = os.str();
    return "ok";
  }
  Outcome load(const std::string &json, bool stale, bool adopt, Printer *after) override {
    P q = P();
    Outcome o = guarded([&]() -> KW {
      std::istringstream is(json);
      dmlc::JSONReader rd(&is);
      q.Load(&rd);
      return KW();
    }, stale);
    q.each(*after);
    if (adopt && o.status == "ok") p = q;
    return o;
  }
  Outcome reinit(const std::map<std::string, std::string> &d, Printer *after) override {
    P q = P();
    Outcome o = guarded([&]() -> KW { q.Init(d, dp::kAllMatch); return KW(); }, false);
    q.each(*after);
    return o;
  }
};

// ------------------------------------------------------------------------------------------------
// reference recognisers: "entirely a valid literal of the field's type"
//   VALID  : the property demands acceptance with this value
//   INVALID: the property demands ParamError
//   EITHER : the property is silent (surrounding blanks, suffixes, "-1" for unsigned, numeric enum value,
//            nan against a range, …): rejection is fine, acceptance must give this value
// ------------------------------------------------------------------------------------------------
enum Verdict { VALID, INVALID, EITHER };
struct Lit { Verdict v; RV val; };

static bool is_blank(char c) { return c == ' ' || c == '\t' || c == '\n' || c == '\v' || c == '\f' || c == '\r'; }
static std::string trim(const std::string &s, bool *had) {
  size_t a = 0, b = s.size();
  while (a < b && is_blank(s[a])) ++a;
  while (b > a && is_blank(s[b - 1])) --b;
  *had = (a != 0 || b != s.size());
  return s.substr(a, b - a);
}
static bool all_digits(const std::string &s) {
  if (s.empty()) return false;
  for (char c : s) if (c < '0' || c > '9') return false;
  return true;
}
static std::string lower(std::string s) {
  for (auto &c : s) if (c >= 'A' && c <= 'Z') c = static_cast<char>(c + 32);
  return s;
}

// decimal integer literal [+-]?digits within [lo, hi] (as long double to cover the uint32/int64 ranges)
static Lit int_literal(const std::string &text, long double lo, long double hi, bool is_unsigned) {
  bool ws;
  std::string t = trim(text, &ws);
  Lit r{ws ? EITHER : VALID, RV()};
  bool neg = false;
  size_t k = 0;
  if (!t.empty() && (t[0] == '+' || t[0] == '-')) { neg = t[0] == '-'; k = 1; }
  std::string ds = t.substr(k);
  if (!all_digits(ds)) return {INVALID, RV()};
  // value with saturation
  long double v = 0;
  for (char c : ds) { v = v * 10 + (c - '0'); if (v > 4e19L) v = 4e19L; }
  if (is_unsigned && neg) {
    // libstdc++ wraps "-n" into the unsigned range; the property does not speak about it
    if (v > hi) return {INVALID, RV()};
    unsigned long long m = static_cast<unsigned long long>(v);
    r.v = EITHER;
    r.val = rvi(static_cast<long long>((4294967296ULL - m) % 4294967296ULL));
    return r;
  }
  if (neg) v = -v;
  if (v < lo || v > hi) return {INVALID, RV()};
  r.val = rvi(static_cast<long long>(v));
  return r;
}

static bool strict_float_syntax(const std::string &t, size_t *mant_digits) {
  size_t k = 0, n = t.size();
  if (k < n && (t[k] == '+' || t[k] == '-')) ++k;
  size_t d1 = 0, d2 = 0;
  while (k < n && isdigit(static_cast<unsigned char>(t[k]))) { ++k; ++d1; }
  if (k < n && t[k] == '.') { ++k; while (k < n && isdigit(static_cast<unsigned char>(t[k]))) { ++k; ++d2; } }
  *mant_digits = d1 + d2;
  if (d1 + d2 == 0) return false;
  if (k < n && (t[k] == 'e' || t[k] == 'E')) {
    ++k;
    if (k < n && (t[k] == '+' || t[k] == '-')) ++k;
    size_t d3 = 0;
    while (k < n && isdigit(static_cast<unsigned char>(t[k]))) { ++k; ++d3; }
    if (d3 == 0) return false;
  }
  return k == n;
}
// loose grammar: like the strict one but every digit group may be missing ("-", ".", "1e", "e5", "")
static bool loose_float_syntax(const std::string &t0) {
  std::string t = t0;
  if (!t.empty() && (t.back() == 'f' || t.back() == 'F')) t.pop_back();
  size_t k = 0, n = t.size();
  if (k < n && (t[k] == '+' || t[k] == '-')) ++k;
  while (k < n && isdigit(static_cast<unsigned char>(t[k]))) ++k;
  if (k < n && t[k] == '.') { ++k; while (k < n && isdigit(static_cast<unsigned char>(t[k]))) ++k; }
  if (k < n && (t[k] == 'e' || t[k] == 'E')) {
    ++k;
    if (k < n && (t[k] == '+' || t[k] == '-')) ++k;
    while (k < n && isdigit(static_cast<unsigned char>(t[k]))) ++k;
  }
  return k == n;
}

static Lit float_literal(const std::string &text, bool is_double) {
  bool ws;
  std::string t = trim(text, &ws);
  if (text.find('\0') != std::string::npos) return {INVALID, RV()};
  Lit r{ws ? EITHER : VALID, RV()};
  std::string body = t;
  if (!body.empty() && (body.back() == 'f' || body.back() == 'F')) {
    // "1.5f": a C float literal; the property does not speak about suffixes
    std::string l = lower(body);
    if (l.size() >= 3 && (l.substr(l.size() - 3) == "inf")) {
      // "inf" ends with f: not a suffix
    } else {
      body.pop_back();
      r.v = EITHER;
    }
  }
  std::string l = lower(body);
  std::string u = l;
  bool neg = false;
  if (!u.empty() && (u[0] == '+' || u[0] == '-')) { neg = u[0] == '-'; u = u.substr(1); }
  if (u == "inf" || u == "infinity") {
    r.val = rvx(neg ? -INFINITY : INFINITY);
    return r;
  }
  if (u == "nan") { r.val = rvx(NAN); return r; }
  if (u.compare(0, 4, "nan(") == 0 && u.back() == ')') { r.v = EITHER; r.val = rvx(NAN); return r; }
  size_t md;
  if (!strict_float_syntax(body, &md)) return {INVALID, RV()};
  errno = 0;
  double v = is_double ? strtod(body.c_str(), nullptr) : static_cast<double>(strtof(body.c_str(), nullptr));
  int er = errno;
  errno = 0;
  if (std::isinf(v)) return {INVALID, RV()};            // outside the range of the type
  if (er == ERANGE) r.v = EITHER;                       // underflow: silent
  double smallest_normal = is_double ? 2.3e-308 : 1.2e-38;
  if (v != 0 && std::fabs(v) < smallest_normal) r.v = EITHER;
  if (md > 17) r.v = EITHER;                            // beyond what any 64-bit significand can hold
  r.val = rvx(v);
  return r;
}

static Lit parse_literal(const Decl &f, const std::string &text) {
  switch (f.kind) {
    case kInt: return int_literal(text, -2147483648.0L, 2147483647.0L, false);
    case kUInt: return int_literal(text, 0, 4294967295.0L, true);
    case kInt64: return int_literal(text, -9223372036854775808.0L, 9223372036854775807.0L, false);
    case kFloat: return float_literal(text, false);
    case kDouble: return float_literal(text, true);
    case kString: return {VALID, rvs(text)};
    case kBool: {
      bool ws;
      std::string t = lower(trim(text, &ws));
      Lit r{ws ? EITHER : VALID, RV()};
      if (t == "true" || t == "1") r.val = rvi(1);
      else if (t == "false" || t == "0") r.val = rvi(0);
      else return {INVALID, RV()};
      return r;
    }
    case kOptBool: {
      bool ws;
      std::string t0 = trim(text, &ws);
      std::string t = lower(t0);
      Lit r{ws ? EITHER : VALID, RV()};
      if (t == "true" || t == "1") r.val = rvi(1);
      else if (t == "false" || t == "0") r.val = rvi(0);
      else if (t0 == "None") r.val = rvnone();
      else if (t == "none") { r.v = EITHER; r.val = rvnone(); }
      else return {INVALID, RV()};
      return r;
    }
    case kEnumInt:
    case kOptEnum: {
      for (auto &kv : f.enums)
        if (kv.first == text) return {VALID, rvi(kv.second)};
      if (f.kind == kOptEnum && text == "None") return {VALID, rvnone()};
      bool ws;
      std::string t = trim(text, &ws);
      for (auto &kv : f.enums)
        if (kv.first == t) return {EITHER, rvi(kv.second)};
      if (f.kind == kOptEnum && t == "None") return {EITHER, rvnone()};
      // the numeric value of an enumerator: the library rejects it, the property is silent
      Lit n = int_literal(text, -2147483648.0L, 2147483647.0L, false);
      if (n.v != INVALID)
        for (auto &kv : f.enums)
          if (kv.second == n.val.n) return {EITHER, rvi(kv.second)};
      return {INVALID, RV()};
    }
    case kOptInt: {
      bool ws;
      std::string t = trim(text, &ws);
      if (t == "None") { return {ws ? EITHER : VALID, rvnone()}; }
      if (!t.empty() && t.back() == 'L') {  // "5L": silent
        // blanks between the number and the suffix are not a literal
        Lit n = int_literal(t.substr(0, t.size() - 1), -2147483648.0L, 2147483647.0L, false);
        bool inner;
        trim(t.substr(0, t.size() - 1), &inner);
        if (n.v == INVALID || inner) return {INVALID, RV()};
        n.v = EITHER;
        return n;
      }
      return int_literal(text, -2147483648.0L, 2147483647.0L, false);
    }
  }
  return {INVALID, RV()};
}

// declared range / enum membership; EITHER when the value is NaN
static Verdict range_verdict(const Decl &f, const RV &v) {
  if (!(f.kind == kInt || f.kind == kUInt || f.kind == kInt64 || f.kind == kFloat || f.kind == kDouble)) return VALID;
  if (!f.has_lo && !f.has_hi) return VALID;
  if (f.kind == kFloat || f.kind == kDouble) {
    if (std::isnan(v.x)) return EITHER;
    if (f.has_lo && v.x < f.lo) return INVALID;
    if (f.has_hi && v.x > f.hi) return INVALID;
    return VALID;
  }
  if (f.has_lo && static_cast<long double>(v.n) < f.lo) return INVALID;
  if (f.has_hi && static_cast<long double>(v.n) > f.hi) return INVALID;
  return VALID;
}

// hidden keys "__*__": VALID = must be ignored under kAllowHidden, INVALID = ordinary unknown key
static Verdict hidden_verdict(const std::string &k) {
  bool both = k.size() >= 4 && k.compare(0, 2, "__") == 0 && k.compare(k.size() - 2, 2, "__") == 0;
  if (!both) return INVALID;
  return k.size() > 4 ? VALID : EITHER;   // "____": the glob matches with an empty middle; the library says no
}

static bool float_close(double a, double b, bool is_double) {
  if (std::isnan(a) || std::isnan(b)) return std::isnan(a) && std::isnan(b);
  if (a == b) return true;
  if (std::isinf(a) || std::isinf(b)) return false;
  double tol = is_double ? 1e-14 : 1e-6;
  return std::fabs(a - b) <= tol * std::max(std::fabs(a), std::fabs(b));
}
static bool rv_equal(Kind k, const RV &a, const RV &b) {
  switch (k) {
    case kFloat: return float_close(a.x, b.x, false);
    case kDouble: return float_close(a.x, b.x, true);
    case kString: return a.s == b.s;
    case kOptInt: case kOptEnum: case kOptBool: return a.none == b.none && (a.none || a.n == b.n);
    default: return a.n == b.n;
  }
}

// ------------------------------------------------------------------------------------------------
// the reference interpreter: set of outcomes the property allows
// ------------------------------------------------------------------------------------------------
struct RefOutcome {
  bool error;
  std::vector<RV> st;
  KW unknown;
};

struct RefRun {
  const std::vector<Decl> *S;
  bool is_init, collect;
  int policy;  // 0 allowunknown, 1 allmatch, 2 allowhidden
  std::vector<RefOutcome> outs;
  bool may_error = false;

  int lookup(const std::string &k) const {
    for (size_t i = 0; i < S->size(); ++i) {
      if ((*S)[i].name == k) return static_cast<int>(i);
      for (auto &a : (*S)[i].aliases) if (a == k) return static_cast<int>(i);
    }
    return -1;
  }
  void finish(std::vector<RV> st, const std::vector<bool> &sel, const KW &unk) {
    if (is_init) {
      for (size_t i = 0; i < S->size(); ++i) {
        if (sel[i]) continue;
        if (!(*S)[i].has_default) { may_error = true; return; }   // required field missing
        st[i] = (*S)[i].dflt;
      }
    }
    outs.push_back({false, st, unk});
  }
  void go(const KW &kw, size_t at, std::vector<RV> st, std::vector<bool> sel, KW unk) {
    if (outs.size() > 600) return;
    if (at == kw.size()) { finish(st, sel, unk); return; }
    const std::string &k = kw[at].first, &v = kw[at].second;
    int i = lookup(k);
    if (i < 0) {
      if (collect) { unk.push_back(kw[at]); go(kw, at + 1, st, sel, unk); return; }
      if (policy == 0) { go(kw, at + 1, st, sel, unk); return; }
      Verdict h = policy == 2 ? hidden_verdict(k) : INVALID;
      if (h != VALID) may_error = true;
      if (h != INVALID) go(kw, at + 1, st, sel, unk);
      return;
    }
    const Decl &f = (*S)[i];
    Lit lit = parse_literal(f, v);
    if (lit.v == INVALID) { may_error = true; return; }
    Verdict rg = range_verdict(f, lit.val);
    if (rg == INVALID) { may_error = true; return; }
    if (lit.v == EITHER || rg == EITHER) may_error = true;
    st[i] = lit.val;
    sel[i] = true;
    go(kw, at + 1, st, sel, unk);
  }
};

// ------------------------------------------------------------------------------------------------
// finding classes (C14 defects of dmlc::stof / stod seen through float and double fields)
// ------------------------------------------------------------------------------------------------
static bool is_posinf_literal(const std::string &text) {
  bool ws;
  std::string t = lower(trim(text, &ws));
  if (!t.empty() && t[0] == '+') t = t.substr(1);
  return t == "inf" || t == "infinity";
}
static bool is_partial_float(const std::string &text) {
  // digits missing where the grammar wants some: "", " ", "-", "+", ".", "1e", "1e+", "e5", "f", "-.e"
  size_t a = 0;
  while (a < text.size() && (text[a] == ' ' || text[a] == '\t' || text[a] == '\r' || text[a] == '\n' || text[a] == '\f')) ++a;
  std::string t = text.substr(a);
  size_t md;
  std::string body = t;
  if (!body.empty() && (body.back() == 'f' || body.back() == 'F')) body.pop_back();
  if (strict_float_syntax(body, &md)) return false;
  return loose_float_syntax(t);
}
static bool is_overflowing_decimal(const std::string &text, bool is_double) {
  bool ws;
  std::string t = trim(text, &ws);
  size_t md;
  if (!strict_float_syntax(t, &md)) return false;
  double v = is_double ? strtod(t.c_str(), nullptr) : static_cast<double>(strtof(t.c_str(), nullptr));
  errno = 0;
  return std::isinf(v);
}
static bool has_open_nan(const std::string &text) {
  std::string l = lower(text);
  size_t p = l.find("nan(");
  return p != std::string::npos && l.find(')', p) == std::string::npos;
}

// ------------------------------------------------------------------------------------------------
// the harness
// ------------------------------------------------------------------------------------------------
struct OpRecord {
  std::string op, opt;
  KW kw;
  bool stale = false;
  std::vector<RV> pre, post;
  std::string status;
  KW unknown;
  bool pre_tainted = false;
};

struct ParamHarness : vh::Harness {
  std::unique_ptr<Obj> obj;
  std::vector<Decl> S;
  std::vector<std::string> names;
  std::vector<Kind> kinds;
  KW pend;
  bool stale = false;
  std::set<int> taint;
  std::vector<std::string> fails;   // oracle failures of the running case
  std::map<std::string, uint64_t> *extra = nullptr;
  std::string shape_s;

  std::string descA, descB;
  std::vector<std::string> namesA, namesB;
  std::vector<Kind> kindsA, kindsB;

  ParamHarness() {
    descA = descriptor(PA::__MANAGER__(), &namesA, &kindsA);
    descB = descriptor(PB::__MANAGER__(), &namesB, &kindsB);
    // the hand-written declaration tables must agree with what the library registered
    auto chk = [](const std::vector<Decl> &d, const std::vector<std::string> &n, const std::vector<Kind> &k) {
      if (d.size() != n.size()) { fprintf(stderr, "declared schema size mismatch\n"); exit(3); }
      for (size_t i = 0; i < d.size(); ++i)
        if (d[i].name != n[i] || d[i].kind != k[i]) { fprintf(stderr, "declared schema mismatch at %s\n", n[i].c_str()); exit(3); }
    };
    chk(decl_A(), namesA, kindsA);
    chk(decl_B(), namesB, kindsB);
  }

  void begin_case(const Case &) override {
    obj.reset();
    S.clear();
    pend.clear();
    stale = false;
    taint.clear();
    fails.clear();
    shape_s.clear();
  }

  int lookup(const std::string &k) const {
    for (size_t i = 0; i < S.size(); ++i) {
      if (S[i].name == k) return static_cast<int>(i);
      for (auto &a : S[i].aliases) if (a == k) return static_cast<int>(i);
    }
    return -1;
  }
  static bool all_c_space(const std::string &v) {
    for (char c : v) if (!is_blank(c)) return false;
    return true;
  }

  std::string fields_line(const Printer &pr, const std::set<int> &t) {
    std::string o;
    for (size_t i = 0; i < pr.out.size(); ++i) {
      if (i) o += " ";
      o += t.count(static_cast<int>(i)) ? "?" : pr.out[i];
    }
    return o;
  }
  static std::string kvs_line(const KW &kw) {
    std::string o;
    for (size_t i = 0; i < kw.size(); ++i) {
      if (i) o += " ";
      o += vh::hex(kw[i].first) + "=" + vh::hex(kw[i].second);
    }
    return o;
  }
  template <typename M>
  static std::string map_line(const M &m) {
    KW kw(m.begin(), m.end());
    return kvs_line(kw);
  }

  bool struct_valid(const std::vector<RV> &st) {
    for (size_t i = 0; i < S.size(); ++i) {
      if (taint.count(static_cast<int>(i))) return false;
      if (S[i].kind == kEnumInt || S[i].kind == kOptEnum) {
        if (S[i].kind == kOptEnum && st[i].none) continue;
        bool ok = false;
        for (auto &kv : S[i].enums) if (kv.second == st[i].n) ok = true;
        if (!ok) return false;
      }
      if (range_verdict(S[i], st[i]) == INVALID) return false;
    }
    return true;
  }

  void fail(const std::string &cls, const std::string &msg) { fails.push_back("class=" + cls + " prop=C17 " + msg); }

  static std::string vis(const std::string &s) {
    std::string o;
    for (unsigned char c : s) {
      if (c >= 0x20 && c < 0x7f && c != '\\') o.push_back(static_cast<char>(c));
      else { char b[8]; snprintf(b, sizeof b, "\\x%02x", c); o += b; }
    }
    return o;
  }
  std::string describe(const OpRecord &r) {
    std::string o = r.op + (r.opt.empty() ? "" : " " + r.opt) + (r.stale ? " [errno=ERANGE]" : "") + " {";
    for (size_t i = 0; i < r.kw.size(); ++i) o += (i ? ", '" : "'") + vis(r.kw[i].first) + "'='" + vis(r.kw[i].second) + "'";
    return o + "}";
  }

  // the oracle for init / update / initallow / updateallow
  void judge(const OpRecord &r) {
    RefRun run;
    run.S = &S;
    run.is_init = r.op == "init" || r.op == "initallow";
    run.collect = r.op == "initallow" || r.op == "updateallow";
    run.policy = run.collect ? 0 : (r.opt == "allowunknown" ? 0 : r.opt == "allmatch" ? 1 : 2);
    run.go(r.kw, 0, r.pre, std::vector<bool>(S.size(), false), KW());
    // finding classes present in this argument list
    bool c_inf = false, c_partial = false, c_overflow = false, c_nan = false;
    for (auto &kv : r.kw) {
      int i = lookup(kv.first);
      if (i < 0 || !(S[i].kind == kFloat || S[i].kind == kDouble)) continue;
      if (r.stale && is_posinf_literal(kv.second)) c_inf = true;
      if (is_partial_float(kv.second)) c_partial = true;
      if (is_overflowing_decimal(kv.second, S[i].kind == kDouble)) c_overflow = true;
      if (has_open_nan(kv.second)) c_nan = true;
    }
    std::string what = describe(r);
    if (r.status == "err:check") {
      fail(c_nan ? "nan-unterminated" : "none", "an exception that is not a ParamError escaped from " + what);
      return;
    }
    // Update changes only the mentioned fields (also when it throws)
    if (!run.is_init) {
      std::set<int> ment;
      for (auto &kv : r.kw) { int i = lookup(kv.first); if (i >= 0) ment.insert(i); }
      for (size_t i = 0; i < S.size(); ++i)
        if (!ment.count(static_cast<int>(i))) {
          bool same = (S[i].kind == kFloat || S[i].kind == kDouble) ? r.pre[i].bits == r.post[i].bits
                                                                    : rv_equal(S[i].kind, r.pre[i], r.post[i]);
          if (!same) fail("none", "field " + S[i].name + " not mentioned but changed by " + what);
        }
    }
    if (r.status != "ok") {
      if (!run.may_error) {
        std::string cls = c_inf ? "stale-errno" : "none";
        fail(cls, "ParamError (" + r.status + ") although every argument is valid under the schema: " + what);
      }
      return;
    }
    // success: must equal one of the allowed outcomes
    bool matched = false;
    std::string why = "no allowed successful outcome";
    for (auto &o : run.outs) {
      bool same = true;
      for (size_t i = 0; i < S.size() && same; ++i)
        if (!rv_equal(S[i].kind, o.st[i], r.post[i])) { same = false; why = "field " + S[i].name + " differs"; }
      if (same && o.unknown != r.unknown) { same = false; why = "unknown-argument list differs"; }
      if (same) { matched = true; break; }
    }
    if (!matched) {
      std::string cls = "none";
      if (run.outs.empty()) {
        if (c_partial) cls = "float-partial-literal";
        else if (c_overflow) cls = "float-overflow-accepted";
        why = "the schema demands ParamError";
      }
      fail(cls, "accepted with a result the schema does not allow (" + why + "): " + what);
    }
  }

  // dict: every value must be a literal of the field's type denoting the field's value; re-init gives an equal struct
  void judge_dict(const std::map<std::string, std::string> &d, const std::vector<RV> &st, const std::string &from) {
    for (size_t i = 0; i < S.size(); ++i) {
      auto it = d.find(S[i].name);
      if (it == d.end()) { fail("none", from + ": no entry for field " + S[i].name); continue; }
      Lit lit = parse_literal(S[i], it->second);
      if (lit.v == INVALID || !rv_equal(S[i].kind, lit.val, st[i]))
        fail("none", from + ": entry '" + vis(it->second) + "' of field " + S[i].name + " does not denote the field's value");
    }
    Printer after;
    Outcome o = obj->reinit(d, &after);
    if (o.status != "ok") { fail("none", from + ": Init from the dictionary form fails with " + o.status); return; }
    for (size_t i = 0; i < S.size(); ++i)
      if (!rv_equal(S[i].kind, after.snap[i], st[i]))
        fail("none", from + ": Init from the dictionary form changes field " + S[i].name);
  }

  std::string exec(const std::vector<std::string> &w) override {
    if (w.empty()) return "bad-op";
    if (w[0] == "schema") {
      // the descriptor itself is produced from the library (see main); the harness selects by size
      size_t n = w.size() > 1 ? strtoul(w[1].c_str(), nullptr, 10) : 0;
      if (n == namesA.size()) { obj.reset(new ObjT<PA>()); S = decl_A(); names = namesA; kinds = kindsA; }
      else if (n == namesB.size()) { obj.reset(new ObjT<PB>()); S = decl_B(); names = namesB; kinds = kindsB; }
      else return "bad-schema";
      pend.clear(); stale = false; taint.clear();
      return "ok";
    }
    if (w[0] == "ext" && w.size() == 3) return exec_ext(w[1], vh::unhex(w[2]));
    if (!obj) return "bad-op";
    if (w[0] == "a" && w.size() == 3) { pend.push_back({vh::unhex(w[1]), vh::unhex(w[2])}); return "ok"; }
    if (w[0] == "errno" && w.size() == 1) { stale = true; return "ok"; }
    bool is_call = w[0] == "init" || w[0] == "update" || w[0] == "initallow" || w[0] == "updateallow";
    if (is_call) {
      OpRecord r;
      r.op = w[0];
      size_t first = 1;
      if (w[0] == "init" || w[0] == "update") {
        if (w.size() < 2) return "bad-op";
        r.opt = w[1];
        first = 2;
      }
      r.kw = pend;
      for (size_t i = first; i < w.size(); ++i) {
        size_t eq = w[i].find('=');
        if (eq == std::string::npos) return "bad-op";
        r.kw.push_back({vh::unhex(w[i].substr(0, eq)), vh::unhex(w[i].substr(eq + 1))});
      }
      r.stale = stale;
      r.pre = obj->print().snap;
      r.pre_tainted = !taint.empty();
      Outcome o = obj->call(r.op, r.opt, r.kw, stale);
      Printer pr = obj->print();
      r.post = pr.snap;
      r.status = o.status;
      r.unknown = o.unknown;
      // indeterminate fields: optional<int> given an all-blank value, when the call failed
      if (o.status != "ok") {
        for (auto &kv : r.kw) {
          int i = lookup(kv.first);
          if (i >= 0 && S[i].kind == kOptInt && all_c_space(kv.second)) taint.insert(i);
        }
      } else if (r.op == "init" || r.op == "initallow") {
        taint.clear();
      } else {
        for (auto &kv : r.kw) { int i = lookup(kv.first); if (i >= 0) taint.erase(i); }
      }
      pend.clear();
      stale = false;
      judge(r);
      if (extra) {
        ++(*extra)["op:" + r.op];
        ++(*extra)["status:" + o.status];
        ++(*extra)["arglist-len:" + std::to_string(r.kw.size())];
        if (r.stale) ++(*extra)["errno-preset-calls"];
      }
      if (o.status != "ok") shape_s = "with-error";
      else if (shape_s.empty()) shape_s = "all-ok";
      return o.status + " | " + fields_line(pr, taint) + " | " + kvs_line(o.unknown);
    }
    if (w[0] == "dict" || w[0] == "updatedict" || w[0] == "saveload") {
      KW pend0 = pend;
      bool stale0 = stale;
      pend.clear();
      stale = false;
      if (!taint.empty()) return "skip-tainted";
      Printer pr = obj->print();
      bool valid = struct_valid(pr.snap);
      if (extra) ++(*extra)["op:" + w[0]];
      if (w[0] == "dict") {
        std::map<std::string, std::string> d;
        std::string st = obj->dict(&d);
        if (st != "ok") {
          if (valid) fail("none", "__DICT__ throws on a struct whose fields are all within the schema");
          return st;
        }
        if (valid) judge_dict(d, pr.snap, "__DICT__");
        return "ok " + map_line(d);
      }
      if (w[0] == "updatedict") {
        std::map<std::string, std::string> d(pend0.begin(), pend0.end());
        // std::map construction keeps the FIRST of duplicate keys; the protocol means assignment in order
        d.clear();
        for (auto &kv : pend0) d[kv.first] = kv.second;
        std::map<std::string, std::string> before = d;
        std::string st = obj->update_dict(&d);
        if (st != "ok") {
          if (valid) fail("none", "UpdateDict throws on a struct whose fields are all within the schema");
          return st;
        }
        if (valid) {
          std::map<std::string, std::string> own;
          for (auto &kv : d) if (lookup(kv.first) >= 0) own[kv.first] = kv.second;
          judge_dict(own, pr.snap, "UpdateDict");
          for (auto &kv : before)
            if (lookup(kv.first) < 0 && (!d.count(kv.first) || d[kv.first] != kv.second))
              fail("none", "UpdateDict touched the foreign entry '" + vis(kv.first) + "'");
        }
        return "ok " + map_line(d);
      }
      std::string js;
      std::string st = obj->save(&js);
      if (st != "ok") {
        if (valid) fail("none", "Save throws on a struct whose fields are all within the schema");
        return st;
      }
      Printer after;
      Outcome o = obj->load(js, stale0, true, &after);
      if (valid) {
        if (o.status != "ok") {
          // stale errno: the saved form of a +inf float/double field is the literal "inf"
          bool posinf = false;
          for (size_t i = 0; i < S.size(); ++i)
            if ((S[i].kind == kFloat || S[i].kind == kDouble) && std::isinf(pr.snap[i].x) && pr.snap[i].x > 0) posinf = true;
          fail(stale0 && posinf ? "stale-errno" : "none", "Load of the saved JSON form fails with " + o.status +
               (stale0 ? " [errno=ERANGE before Load]" : ""));
        }
        else
          for (size_t i = 0; i < S.size(); ++i)
            if (!rv_equal(S[i].kind, after.snap[i], pr.snap[i]))
              fail("none", "Save + Load changes field " + S[i].name);
      }
      return "json=" + vh::hex(js) + " " + o.status + " | " + fields_line(after, std::set<int>()) + " |";
    }
    if (w[0] == "load" && w.size() == 2) {
      Printer after;
      Outcome o = obj->load(vh::unhex(w[1]), stale, true, &after);
      if (o.status == "ok") taint.clear();
      pend.clear();
      stale = false;
      return o.status + " | " + fields_line(after, std::set<int>()) + " |";
    }
    return "bad-op";
  }

  // `istringstream >> v` alone (ties Param/IStream.lean to libstdc++)
  template <typename T>
  static std::string ext_one(const std::string &text) {
    std::istringstream is(text);
    T v = 77;
    is >> v;
    bool fail = is.fail();
    std::string rest;
    if (fail && v == 77 && (is.rdstate() & std::ios::eofbit)) {
      // sentry failure leaves v untouched; distinguish from a parsed 77 by re-checking for blanks only
      bool blank = true;
      for (char c : text) if (!is_blank(c)) blank = false;
      if (blank) return "sentry-fail";
    }
    is.clear();
    std::getline(is, rest, '\0');
    // getline stops at NUL; the generators do not put NUL into extraction texts
    return "v=" + std::to_string(v) + " fail=" + (fail ? "1" : "0") + " rest=" + vh::hex(rest);
  }
  std::string exec_ext(const std::string &k, const std::string &text) {
    if (k == "i32") return ext_one<int>(text);
    if (k == "u32") return ext_one<unsigned>(text);
    if (k == "i64") return ext_one<long>(text);
    return "bad-op";
  }

  void end_case(const Case &, const std::vector<std::string> &, std::vector<std::string> *failures) override {
    for (auto &f : fails) failures->push_back(f);
  }
  std::string shape(const Case &c, const std::vector<std::string> &) override {
    if (c.kind.compare(0, 3, "ext") == 0) return "extract";
    return shape_s;
  }
};

// ------------------------------------------------------------------------------------------------
// generators
// ------------------------------------------------------------------------------------------------
struct Gen {
  vh::Rng &rng;
  const std::vector<Decl> &S;
  explicit Gen(vh::Rng &r, const std::vector<Decl> &s) : rng(r), S(s) {}

  template <typename T> const T &pick(const std::vector<T> &v) { return v[rng.below(v.size())]; }

  std::string rand_name() {
    std::string s;
    size_t n = 1 + rng.below(6);
    for (size_t i = 0; i < n; ++i) s.push_back(static_cast<char>('a' + rng.below(26)));
    return s;
  }
  std::string key(int *field) {
    *field = -1;
    unsigned t = rng.below(100);
    if (t < 62) {  // declared name or alias
      int i = static_cast<int>(rng.below(S.size()));
      *field = i;
      if (!S[i].aliases.empty() && rng.chance(1, 3)) return pick(S[i].aliases);
      return S[i].name;
    }
    if (t < 76) {  // hidden-style
      static const std::vector<std::string> h = {"__x__", "____", "__ab", "__", "___", "__hidden__", "__a_", "_x__",
                                                 "__i__", "_____", "__ __", "ab__", "__x__ "};
      return pick(h);
    }
    if (t < 90) {  // near miss
      int i = static_cast<int>(rng.below(S.size()));
      std::string n = S[i].name;
      switch (rng.below(6)) {
        case 0: return n + "x";
        case 1: return n.substr(0, n.size() - 1);
        case 2: { std::string u = n; for (auto &c : u) c = static_cast<char>(toupper(c)); return u; }
        case 3: return " " + n;
        case 4: return n + " ";
        default: return n + "_";
      }
    }
    if (t < 93) return "";
    return rand_name();
  }

  std::string ws_wrap(const std::string &v) {
    static const std::vector<std::string> w = {" ", "\t", "\n", "  ", "\v", "\f", "\r"};
    switch (rng.below(3)) {
      case 0: return pick(w) + v;
      case 1: return v + pick(w);
      default: return pick(w) + v + pick(w);
    }
  }

  std::string int_value(long long lo, long long hi, bool has_lo, bool has_hi) {
    switch (rng.below(12)) {
      case 0: return std::to_string(has_lo ? lo : -3);
      case 1: return std::to_string(has_hi ? hi : 9);
      case 2: return std::to_string((has_lo ? lo : -3) - 1);
      case 3: return std::to_string((has_hi ? hi : 9) + 1);
      case 4: return "+" + std::to_string(rng.below(50));
      case 5: return "00" + std::to_string(rng.below(50));
      case 6: return "-" + std::to_string(rng.below(9));
      default: return std::to_string(static_cast<long long>(rng.below(120)) - 10);
    }
  }
  std::string float_value(bool is_double) {
    static const std::vector<std::string> dy = {"0", "1", "-1", "0.5", "-0.5", "0.25", "1.5", "-2.75", "100", "1000.5",
                                                "0.125", "3", "1e3", "2.5e2", "1E2", "5e-1", "25e-2", "-0", "+1.5",
                                                ".5", "5.", "1.0", "-1.0", "1.0000", "0.75", "1e0", "1e+2", "16777216",
                                                "0.1", "0.2", "0.3", "1e-1", "3.14159", "2.718281828", "-1e-3", "1e10",
                                                "123456.789", "1e-5", "6.02e23", "1.25e-7", "-1.5e-7", "0.001", "1e20"};
    static const std::vector<std::string> sp = {"inf", "-inf", "+inf", "INF", "Infinity", "infinity", "-INFINITY", "nan",
                                                "NaN", "-nan", "NAN", "nan(abc)", "nan(1_2)"};
    static const std::vector<std::string> bad = {"-", ".", "+", "e5", "1e", "1e+", "f", "abc", "1.5x", "--1", "1..5",
                                                 "1e5.5", "0x10", "infx", "in", "na", "1,5", "1 5", "nan(", "nan(ab",
                                                 "infinit", "1.5ff", "-.e", "+."};
    static const std::vector<std::string> big32 = {"1e39", "4e38", "3.5e38", "-1e39", "100e37", "1e38", "3e38", "1e40"};
    static const std::vector<std::string> big64 = {"1e309", "2e308", "-1e309", "100e307", "1e308", "1.7e308", "1e400"};
    unsigned t = rng.below(100);
    if (t < 50) return pick(dy);
    if (t < 62) return pick(sp);
    if (t < 78) return pick(bad);
    if (t < 84) return is_double ? pick(big64) : pick(big32);
    if (t < 90) return pick(dy) + (rng.chance(1, 2) ? "f" : "F");
    return pick(dy);
  }
  std::string value_for(const Decl &f) {
    unsigned t = rng.below(100);
    if (t < 6) return "";
    if (t < 10) return pick(std::vector<std::string>{" ", "  ", "\t", "\n"});
    std::string v;
    switch (f.kind) {
      case kInt: case kInt64:
        if (t < 20) v = pick(std::vector<std::string>{"2147483647", "2147483648", "-2147483648", "-2147483649",
                                                      "9223372036854775807", "9223372036854775808", "-9223372036854775808",
                                                      "-9223372036854775809", "99999999999999999999999", "-", "+", "5e3",
                                                      "5.0", "abc", "1x", "0x10", "- 5", "5L", "None", "true", "--5", "+-5"});
        else v = int_value(static_cast<long long>(f.lo), static_cast<long long>(f.hi), f.has_lo, f.has_hi);
        break;
      case kUInt:
        if (t < 25) v = pick(std::vector<std::string>{"-1", "-0", "4294967295", "4294967296", "-4294967295", "-4294967296",
                                                      "4000000000", "4000000001", "0", "1", "-5", "abc", "1.5", "+7",
                                                      "99999999999999999999"});
        else v = int_value(1, 4000000000LL, true, true);
        break;
      case kFloat: v = float_value(false); break;
      case kDouble: v = float_value(true); break;
      case kBool:
        v = pick(std::vector<std::string>{"true", "false", "1", "0", "TRUE", "False", "tRuE", "yes", "no", "2", "01", "t",
                                          "None", "truee", "-1", "10"});
        break;
      case kString:
        v = pick(std::vector<std::string>{"hello", "a b", "  x  ", "None", "5", "q\"uo\\te", "line\nbreak", "tab\there",
                                          "cr\rx", "{}", "\"", "\\", "ünï", "a,b:c", "\\n"});
        break;
      case kEnumInt: case kOptEnum: {
        unsigned u = rng.below(10);
        if (u < 5 && !f.enums.empty()) v = pick(f.enums).first;
        else if (u < 6 && !f.enums.empty()) v = std::to_string(pick(f.enums).second);
        else if (u < 7) v = "None";
        else if (u < 8 && !f.enums.empty()) { v = pick(f.enums).first; v[0] = static_cast<char>(toupper(v[0])); }
        else v = pick(std::vector<std::string>{"purple", "none", "7", "red ", "firstx", "Nonex", "0", "1", "-2"});
        break;
      }
      case kOptInt:
        v = pick(std::vector<std::string>{"None", "5", "-3", "5L", "5LL", "12345L", "None ", " None", "Nonex", "none", "Non",
                                          "NoneL", "L", "5 L", "0", "2147483647", "2147483648", "1000", "+4", "abc", "1.5",
                                          "-0L", "None5", "Nonee", "1234", "-123", "Nonx", "NonE", "Nona "});
        break;
      case kOptBool:
        v = pick(std::vector<std::string>{"None", "true", "false", "1", "0", "none", "NONE", "TRUE", "False", "yes", "2",
                                          "true,", "true)", "tr ue", "Nonex", "nonee", "10", "t"});
        break;
    }
    if (rng.chance(1, 9)) v = ws_wrap(v);
    return v;
  }
  std::string any_value() {
    static const std::vector<std::string> g = {"1", "0", "-1", "abc", "", " ", "None", "true", "1.5", "red", "first", "5L",
                                               "inf", "nan", "x y", "100", "-7"};
    return pick(g);
  }

  KW arglist(size_t maxlen) {
    KW kw;
    size_t n = rng.below(maxlen + 1);
    // bias: mostly-valid lists reach the later arguments and the default phase
    bool mostly_valid = rng.chance(1, 2);
    for (size_t j = 0; j < n; ++j) {
      int fi;
      std::string k;
      if (!kw.empty() && rng.chance(1, 6)) {  // repetition of an earlier key (or its field through another key)
        k = kw[rng.below(kw.size())].first;
        fi = -1;
        for (size_t i = 0; i < S.size(); ++i) {
          if (S[i].name == k) fi = static_cast<int>(i);
          for (auto &a : S[i].aliases) if (a == k) fi = static_cast<int>(i);
        }
        if (fi >= 0 && rng.chance(1, 2)) k = (!S[fi].aliases.empty() && k == S[fi].name) ? S[fi].aliases[0] : S[fi].name;
      } else {
        k = key(&fi);
      }
      std::string v;
      if (fi >= 0) {
        if (mostly_valid && rng.chance(4, 5)) v = valid_value(S[fi]);
        else v = rng.chance(9, 10) ? value_for(S[fi]) : any_value();
      } else {
        v = any_value();
      }
      kw.push_back({k, v});
    }
    return kw;
  }
  std::string valid_value(const Decl &f) {
    switch (f.kind) {
      case kInt: case kInt64: {
        long long lo = f.has_lo ? static_cast<long long>(f.lo) : -50, hi = f.has_hi ? static_cast<long long>(f.hi) : 50;
        if (hi - lo > 100) hi = lo + 100;
        return std::to_string(lo + static_cast<long long>(rng.below(static_cast<uint64_t>(hi - lo + 1))));
      }
      case kUInt: return std::to_string(1 + rng.below(1000));
      case kFloat:
        return pick(std::vector<std::string>{"0", "1", "-1", "0.5", "-0.5", "0.25", "0.75", "0.125", "1e-1", "0.1", "-0.3"});
      case kDouble:
        return pick(std::vector<std::string>{"0", "1", "-1", "0.5", "1e3", "2.5e2", "0.001", "3.14159", "1e10", "-1.5e-7",
                                             "inf", "123456.789"});
      case kBool: return pick(std::vector<std::string>{"true", "false", "1", "0", "True"});
      case kString: return pick(std::vector<std::string>{"hello", "a b", "", "x\"y", "p\\q", "l\nm"});
      case kEnumInt: return pick(f.enums).first;
      case kOptEnum: return rng.chance(1, 3) ? "None" : pick(f.enums).first;
      case kOptInt: return pick(std::vector<std::string>{"None", "5", "-3", "0", "1000", "77"});
      case kOptBool: return pick(std::vector<std::string>{"None", "true", "false", "1", "0"});
    }
    return "";
  }
};

static void push_call(Case *c, const std::string &call, const KW &kw) {
  for (auto &kv : kw) c->ops.push_back("a " + vh::hex(kv.first) + " " + vh::hex(kv.second));
  c->ops.push_back(call);
}

int main(int argc, char **argv) {
  vh::Runner R;
  R.parse(argc, argv);
  ParamHarness H;
  R.h = &H;
  H.extra = &R.extra;
  if (R.run_replay()) { R.finish(); return 0; }
  // vh::Rng(seed) puts seeds n and n+1 on the same splitmix orbit one step apart (the streams merge after a few
  // variable-length draws), so the seed is scrambled first
  uint64_t sd = R.seed + 0x632BE59BD9B4E019ULL;
  sd ^= sd >> 33; sd *= 0xff51afd7ed558ccdULL; sd ^= sd >> 33; sd *= 0xc4ceb9fe1a85ec53ULL; sd ^= sd >> 33;
  vh::Rng rng(sd);
  const std::vector<Decl> SA = decl_A(), SB = decl_B();
  const std::string pols[3] = {"allowhidden", "allmatch", "allowunknown"};

  // (0) istream extraction alone
  {
    static const std::vector<std::string> texts = {
        "5", " 5", "5 ", "\v5", "5\v", "+5", "-5", "-", "+", "", " ", "007", "0x10", "0", "-0", "00", "5e3", "5.0", "abc",
        "2147483647", "2147483648", "-2147483648", "-2147483649", "4294967295", "4294967296", "-1", "-4294967295",
        "-4294967296", "9223372036854775807", "9223372036854775808", "-9223372036854775808", "-9223372036854775809",
        "18446744073709551615", "18446744073709551616", "99999999999999999999999999", "-99999999999999999999999999",
        "12a", "1 2", "- 1", "+-1", "--1", "1-", "\t\n 42xyz", "4294967295x", "000000000000000000000000001", "77", " 77 ",
        "3000000000", "-3000000000"};
    Case c;
    c.kind = "ext corpus";
    for (auto &t : texts)
      for (const char *k : {"i32", "u32", "i64"}) c.ops.push_back(std::string("ext ") + k + " " + vh::hex(t));
    R.run_case(c);
    size_t n = R.thorough() ? 4000 : 400;
    Case r;
    r.kind = "ext random";
    static const char alpha[] = "0123456789+- \tx9";
    for (size_t i = 0; i < n; ++i) {
      std::string t;
      size_t len = rng.below(rng.chance(1, 4) ? 24 : 12);
      for (size_t j = 0; j < len; ++j) t.push_back(alpha[rng.below(sizeof(alpha) - 1)]);
      if (rng.chance(1, 3)) {  // values around the type limits
        static const std::vector<std::string> lim = {"2147483647", "4294967295", "9223372036854775807", "18446744073709551615"};
        t = (rng.chance(1, 2) ? "-" : "") + lim[rng.below(lim.size())];
        if (rng.chance(1, 2)) t.back() = static_cast<char>('0' + rng.below(10));
        if (rng.chance(1, 4)) t += static_cast<char>('0' + rng.below(10));
      }
      r.ops.push_back(std::string("ext ") + (rng.chance(1, 3) ? "i32" : rng.chance(1, 2) ? "u32" : "i64") + " " + vh::hex(t));
    }
    R.run_case(r);
  }

  // (1) corpus: every field of PA x a fixed list of texts, one argument per Init; then Update on the result
  {
    static const std::vector<std::string> texts = {
        "", " ", "5", " 5", "5 ", "5\v", "\v5", "-1", "+5", "007", "0x10", "abc", "5L", "5LL", "None", "None ", " None",
        "Nonex", "none", "NONE", "true", "TRUE", " true", "true ", "false", "1", "0", "2", "red", "green", "blue", "first",
        "second", "-2", "1.5", "1.5 ", " 1.5", "-", ".", "+", "e5", "1e", "1f", "inf", "-inf", "nan", "-nan", "nan(ab)", "nan(",
        "0.1", "1e-1", "100e37", "1e39", "1e309", "101", "100", "-5", "-6", "11", "10", "4000000000", "4000000001",
        "4294967296", "-4294967295", "99999999999", "-99999999999", "9223372036854775808", "-9223372036854775808",
        "-1e10", "-1.0000001e10", "1.0", "-1.0", "1.0000001", "true,", "tRuE", "q\"u\\o\nte", "12345L ", "1e-50", "1e-320"};
    for (size_t fi = 0; fi < SA.size(); ++fi) {
      std::vector<std::string> keys{SA[fi].name};
      for (auto &a : SA[fi].aliases) keys.push_back(a);
      for (auto &k : keys) {
        Case c;
        c.kind = "corpus field " + SA[fi].name;
        c.ops.push_back(H.descA);
        for (auto &t : texts) {
          push_call(&c, "init allowhidden", KW{{k, t}});
          push_call(&c, "update allmatch", KW{{k, t}});
        }
        c.ops.push_back("dict");
        R.run_case(c);
      }
    }
    // keys and policies
    static const std::vector<std::string> keys = {"__x__", "____", "__ab", "__", "___", "_____", "__hidden__", "ab__", "nope",
                                                  "", "I", "i ", " i", "ix", "ii", "Fx", "fx", "zz_mode", "long_field"};
    for (const std::string &pol : pols) {
      Case c;
      c.kind = "corpus keys " + pol;
      c.ops.push_back(H.descA);
      for (auto &k : keys) {
        push_call(&c, "init " + pol, KW{{k, "1"}});
        push_call(&c, "update " + pol, KW{{"i", "4"}, {k, "1"}, {"lb", "6"}});
        push_call(&c, "initallow", KW{{"u", "9"}, {k, "1"}, {k, "2"}});
        push_call(&c, "updateallow", KW{{k, "v"}});
      }
      R.run_case(c);
    }
    // stale errno on float / double fields
    {
      Case c;
      c.kind = "corpus errno";
      c.ops.push_back(H.descA);
      for (const char *k : {"f", "g", "d", "h", "i", "s"})
        for (const char *v : {"inf", "+inf", "-inf", "Infinity", "1", "0.5", "nan", "1e3", "abc"}) {
          c.ops.push_back("errno");
          push_call(&c, "init allowhidden", KW{{k, v}});
          push_call(&c, "init allowhidden", KW{{k, v}});
        }
      c.ops.push_back("errno");
      c.ops.push_back("saveload");
      R.run_case(c);
    }
    // required fields, last occurrence, dict / json forms
    {
      Case c;
      c.kind = "corpus required";
      c.ops.push_back(H.descB);
      push_call(&c, "init allowhidden", KW{});
      push_call(&c, "init allowhidden", KW{{"r", "1"}});
      push_call(&c, "init allowhidden", KW{{"r", "1"}, {"rs", "x"}, {"rf", "0.5"}});
      push_call(&c, "init allowhidden", KW{{"r", "1"}, {"rs", "x"}, {"rf", "0.5"}, {"re", "y"}});
      c.ops.push_back("dict");
      c.ops.push_back("saveload");
      push_call(&c, "init allowhidden", KW{{"req", "1"}, {"a_name", "x"}, {"rf", "0.5"}, {"re", "y"}, {"r", "2"}, {"req", "3"}});
      push_call(&c, "init allowhidden", KW{{"req", "1"}, {"a_name", "x"}, {"rf", "0.5"}, {"re", "y"}, {"r", "11"}});
      push_call(&c, "initallow", KW{{"zz", "1"}, {"re", "x"}, {"rs", ""}, {"rf", "1"}, {"__h__", "2"}});
      push_call(&c, "initallow", KW{{"zz", "1"}, {"re", "x"}, {"rs", ""}, {"rf", "1"}, {"__h__", "2"}, {"r", "0"}});
      c.ops.push_back("a " + vh::hex("foreign") + " " + vh::hex("kept"));
      c.ops.push_back("a " + vh::hex("r") + " " + vh::hex("stale"));
      c.ops.push_back("updatedict");
      R.run_case(c);
    }
    {
      Case c;
      c.kind = "corpus forms";
      c.ops.push_back(H.descA);
      c.ops.push_back("dict");   // value-initialised struct: enum field holds 0 = red
      push_call(&c, "init allowhidden", KW{});
      c.ops.push_back("dict");
      c.ops.push_back("saveload");
      push_call(&c, "init allowhidden", KW{{"s", "q\"u\\o\nt\re\t"}, {"g", "0.3"}, {"h", "1e-7"}, {"d", "inf"}, {"f", "nan"},
                                           {"oi", "5L"}, {"oe", "second"}, {"ob", "false"}, {"e", "blue"}, {"u", "-4294967295"}});
      c.ops.push_back("dict");
      c.ops.push_back("saveload");
      c.ops.push_back("updatedict");
      push_call(&c, "update allmatch", KW{{"i", "1000"}});   // leaves an out-of-range value behind
      c.ops.push_back("saveload");
      c.ops.push_back("load " + vh::hex("{\"i\": \"7\", \"__k__\": \"z\"}"));
      c.ops.push_back("load " + vh::hex("{\"i\": \"7\", \"k\": \"z\"}"));
      c.ops.push_back("load " + vh::hex("{}"));
      c.ops.push_back("load " + vh::hex(" { \"i\" : \"7\" , \"i\" : \"8\" }"));
      c.ops.push_back("load " + vh::hex("{\"i\": \"7\""));
      c.ops.push_back("load " + vh::hex("{\"i\": 7}"));
      c.ops.push_back("load " + vh::hex("[1]"));
      c.ops.push_back("load " + vh::hex("{\"s\": \"a\\qb\"}"));
      c.ops.push_back("load " + vh::hex("{\"s\": \"a\nb\"}"));
      R.run_case(c);
    }
  }

  // (2) random op sequences
  size_t want_lists = R.thorough() ? 500000 : 20000;
  size_t lists = 0;
  while (lists < want_lists) {
    bool useB = rng.chance(1, 4);
    const std::vector<Decl> &S = useB ? SB : SA;
    Gen g(rng, S);
    Case c;
    c.kind = useB ? "random PB" : "random PA";
    c.ops.push_back(useB ? H.descB : H.descA);
    size_t nops = 1 + rng.below(6);
    for (size_t k = 0; k < nops; ++k) {
      unsigned t = rng.below(100);
      bool want_stale = rng.chance(1, 12);
      if (t < 78) {
        if (want_stale) c.ops.push_back("errno");
        KW kw = g.arglist(8);
        if (useB && rng.chance(1, 2)) {  // give the required fields a chance
          KW req = {{"r", std::to_string(rng.below(12))}, {"rs", "v"}, {"rf", "0.5"}, {"re", rng.chance(1, 2) ? "x" : "y"}};
          for (auto &kv : req) if (rng.chance(5, 6)) kw.insert(kw.begin() + rng.below(kw.size() + 1), kv);
          if (kw.size() > 8) kw.resize(8);
        }
        std::string call;
        unsigned u = rng.below(100);
        if (u < 40) call = "init " + pols[rng.below(3)];
        else if (u < 65) call = "update " + pols[rng.below(3)];
        else if (u < 83) call = "initallow";
        else call = "updateallow";
        push_call(&c, call, kw);
        ++lists;
      } else if (t < 85) {
        c.ops.push_back("dict");
      } else if (t < 90) {
        KW d0;
        size_t n = rng.below(3);
        for (size_t j = 0; j < n; ++j) { int fi; d0.push_back({g.key(&fi), g.any_value()}); }
        for (auto &kv : d0) c.ops.push_back("a " + vh::hex(kv.first) + " " + vh::hex(kv.second));
        c.ops.push_back("updatedict");
      } else {
        if (want_stale) c.ops.push_back("errno");
        c.ops.push_back("saveload");
      }
    }
    R.run_case(c);
  }
  R.extra["argument-lists"] = lists;
  R.finish();
  return 0;
}
