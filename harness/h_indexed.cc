// Correspondence harness + oracle for C06 (indexed RecordIO: index-range parts, shuffled epochs).
//
// Runs the REAL dmlc::io::IndexedRecordIOSplitter
//   * bare, over the in-memory filesystem (common/memfs.h), constructed by placement-new into a buffer
//     filled with 0xA5 so that members the constructor never assigns are recognisable ("poisoned");
//   * behind the real ThreadedInputSplit (what InputSplit::Create wraps around it), over memfs;
//   * through InputSplit::Create(uri, index_uri, k, n, "indexed_recordio", shuffle, seed, batch) on real
//     files inside the --out directory (a few cases per run).
// Data files are written by the real RecordIOWriter (magic-laden records), index files are
// "id\toffset" lines in random order.
//
// Protocol (one object per case at a time; see lean/Driver/Indexed.lean):
//   cfg <words> | write <hex> | index <offsets in index-file order> | perm <i..>
//   new k n batch shuf seed | wrap k n batch shuf seed | create k n batch shuf seed
//   rec | batch b | chunk | bf | reset k n | drainrec | drainbatch b | drainchunk
// `perm` lines carry the permutation the harness computed with its OWN std::mt19937(111 + seed) +
// std::shuffle over the slice the property defines; the model uses them as its shuffle oracle, so a change
// in how the code seeds / shuffles / chooses the range shows as a divergence, and the oracle compares the
// delivered order with them.
//
// Oracles (independent of the Lean model), all prop=C06:
//   * every pass (from new / bf / reset to the next one) delivers a prefix of -- and if it reached the end
//     exactly -- the records at sorted-index positions [k*ceil(N/n), min(N,(k+1)*ceil(N/n))), in index
//     order without shuffling, in the order of the recomputed permutation with shuffling, whether pulled by
//     NextRecord, NextBatch(b) or NextChunk, bytes identical; nothing after the end;
//   * parts 0..n-1 of one case concatenate to all records;
//   * every chunk / batch is a whole number of records;
//   * no abnormal outcome: no dmlc::Error, no read of a poisoned member (ub:uninit), no crash (ub:oob).
#include <dmlc/base.h>
#include <dmlc/data.h>
#include <dmlc/filesystem.h>
#include <dmlc/io.h>
#include <dmlc/logging.h>
#include <dmlc/memory_io.h>
#include <dmlc/recordio.h>
#include <fcntl.h>
#include <sys/stat.h>
#include <sys/wait.h>
#include <unistd.h>
#include <algorithm>
#include <atomic>
#include <chrono>
#include <csignal>
#include <condition_variable>
#include <fstream>
#include <functional>
#include <memory>
#include <mutex>
#include <queue>
#include <random>
#include <sstream>
#include <thread>
#include <type_traits>
#include "common/memfs.h"
#include "common/proto.h"
#define private public
#define protected public
#include <dmlc/threadediter.h>
#include <io/input_split_base.h>
#include <io/indexed_recordio_split.h>
#include <io/threaded_input_split.h>
#undef private
#undef protected

using dmlc::InputSplit;
using dmlc::io::IndexedRecordIOSplitter;
using dmlc::io::InputSplitBase;
using dmlc::io::ThreadedInputSplit;
using vh::Case;

static const uint32_t kMagic = dmlc::RecordIOWriter::kMagic;
static const size_t kPoison = 0xA5A5A5A5A5A5A5A5ULL;
static const unsigned kSeedMagic = 111;  // the property's "determined by the seed": mt19937(111 + seed)

// is NextRecord still the class's own override (pinned code) or the inherited InputSplitBase::NextRecord?
static const bool kNextRecOwn =
    !std::is_same<decltype(&IndexedRecordIOSplitter::NextRecord), bool (InputSplitBase::*)(InputSplit::Blob *)>::value;

static std::string pv(size_t v) { return v == kPoison ? "?" : std::to_string(v); }

// slice of part k of n over N records, as the property defines it
static void slice_of(size_t N, size_t k, size_t n, size_t *b, size_t *e) {
  size_t step = (N + n - 1) / n;
  *b = std::min(k * step, N);
  *e = std::min((k + 1) * step, N);
}

// split a chunk into records (independent reader: header walk + multi-part reassembly)
static bool parse_records(const std::string &b, std::vector<std::string> *out) {
  size_t o = 0;
  while (o < b.size()) {
    std::string rec;
    while (true) {
      if (o + 8 > b.size()) return false;
      uint32_t m, l;
      memcpy(&m, b.data() + o, 4);
      memcpy(&l, b.data() + o + 4, 4);
      if (m != kMagic) return false;
      uint32_t flag = l >> 29, len = l & ((1u << 29) - 1);
      if (o + 8 + len > b.size()) return false;
      rec.append(b, o + 8, len);
      o += 8 + ((len + 3) / 4) * 4;
      if (flag == 0 || flag == 3) break;
      rec.append(reinterpret_cast<const char *>(&kMagic), 4);
    }
    out->push_back(rec);
  }
  return o == b.size();
}

// the harness's own copy of the shuffle stream
struct ShufSim {
  std::mt19937 rnd;
  void seed(int s) { rnd.seed(kSeedMagic + s); }
  std::vector<size_t> next(size_t N, size_t k, size_t n) {
    size_t b, e;
    slice_of(N, k, n, &b, &e);
    std::vector<size_t> v;
    for (size_t i = b; i < e; ++i) v.push_back(i);
    std::shuffle(v.begin(), v.end(), rnd);
    return v;
  }
};

template <class F>
static bool survives(F f) {
  fflush(nullptr);
  pid_t pid = fork();
  if (pid == 0) {
    int fd = open("/dev/null", O_WRONLY);
    if (fd >= 0) { dup2(fd, 1); dup2(fd, 2); }
    try { f(); } catch (const dmlc::Error &) { _exit(0); } catch (...) { _exit(3); }
    _exit(0);
  }
  int st = 0;
  waitpid(pid, &st, 0);
  return WIFEXITED(st) && WEXITSTATUS(st) == 0;
}

struct Pass {
  size_t k, n;
  bool shuffled;
  std::vector<size_t> order;          // expected index order of this pass
  std::vector<std::string> got;       // records delivered
  bool complete = false;              // the end was reported
  bool after_end = false;             // something was delivered after the end
  bool bad_chunk = false;
  bool used_rec = false, used_blk = false;
  size_t obj = 0;                     // object counter within the case
};

struct IxHarness : vh::Harness {
  std::string out_dir;
  vh::MemFS fs;
  bool sentinel_fixed = false;
  // case data
  std::string file;
  std::vector<std::string> recs;
  std::vector<size_t> starts;
  std::vector<size_t> idx_order;      // offsets in index-file order
  std::vector<std::vector<size_t>> pending;  // perm lines since the last operation
  // object
  void *mem = nullptr;
  IndexedRecordIOSplitter *bare = nullptr;
  InputSplit *wrapped = nullptr;     // ThreadedInputSplit (wrap / create)
  IndexedRecordIOSplitter *wbase = nullptr;
  bool shuffle = false;
  size_t batch = 1;
  ShufSim sim;
  size_t nobj = 0;
  std::vector<Pass> passes;
  bool stale = false, abnormal = false, saw_empty = false, saw_carry = false, saw_reset = false, via_create = false;
  bool saw_extra_sentinel = false, bare_rec = false;
  std::string abnormal_what;
  size_t n_sandbox = 0;

  void probe() {
    // does ReadIndexFile append the sentinel itself? (part 0 of 2 over two records never reaches the push in
    // ResetPartition)
    vh::MemFS pf;
    std::string data;
    {
      dmlc::MemoryStringStream ms(&data);
      dmlc::RecordIOWriter w(&ms);
      w.WriteRecord("a", 1);
      w.WriteRecord("b", 1);
    }
    pf.Put("/p/d.rec", data);
    pf.Put("/p/d.idx", "0\t0\n1\t12\n");
    IndexedRecordIOSplitter s(&pf, "/p/d.rec", "/p/d.idx", 0, 2, 1, false, 0);
    sentinel_fixed = s.index_.size() == 3;
  }

  void kill() {
    if (wrapped) { delete wrapped; wrapped = nullptr; wbase = nullptr; }
    if (bare) { bare->~IndexedRecordIOSplitter(); bare = nullptr; }
    if (mem) { ::operator delete(mem); mem = nullptr; }
  }

  void begin_case(const Case &) override {
    kill();
    fs.Clear();
    file.clear(); recs.clear(); starts.clear(); idx_order.clear(); pending.clear(); passes.clear();
    stale = abnormal = saw_empty = saw_carry = saw_reset = via_create = saw_extra_sentinel = bare_rec = false;
    abnormal_what.clear();
    nobj = 0;
  }

  bool poisoned(IndexedRecordIOSplitter *s) const {
    return s->index_begin_ == kPoison || s->index_end_ == kPoison || s->current_index_ == kPoison ||
           s->n_overflow_ == kPoison;
  }

  std::string state() {
    const IndexedRecordIOSplitter *s = bare;
    if (s->index_.size() > recs.size() + 1) saw_extra_sentinel = true;
    std::ostringstream o;
    o << " | ib=" << pv(s->index_begin_) << " ie=" << pv(s->index_end_) << " ci=" << pv(s->current_index_)
      << " no=" << pv(s->n_overflow_) << " ob=" << pv(s->offset_begin_) << " oe=" << pv(s->offset_end_)
      << " oc=" << pv(s->offset_curr_) << " nidx=" << s->index_.size() << " bw=" << s->buffer_size_
      << " cw=" << s->tmp_chunk_.data.size() << " rest=" << (s->tmp_chunk_.end - s->tmp_chunk_.begin);
    return o.str();
  }
  std::string wstate() {
    if (wbase->index_.size() > recs.size() + 1) saw_extra_sentinel = true;
    std::ostringstream o;
    o << " ib=" << pv(wbase->index_begin_) << " ie=" << pv(wbase->index_end_) << " nidx=" << wbase->index_.size();
    return o.str();
  }

  std::string fail(const std::string &r) {
    abnormal = true;
    if (abnormal_what.empty()) abnormal_what = r;
    kill();
    return r;
  }

  // wait until the prefetch thread is parked for good: inside its condition wait AND the wait predicate false
  // (a producer that has been notified is still counted in nwait_producer_ until it re-acquires the mutex);
  // it then stays parked until this thread acts.  A producer that has ended with an exception never parks
  // again (the next call rethrows it), and nothing may wait for ever: both end the wait.
  void quiesce() {
    auto *t = static_cast<ThreadedInputSplit *>(wrapped);
    auto &it = t->iter_;
    auto deadline = std::chrono::steady_clock::now() + std::chrono::seconds(2);
    for (;;) {
      {
        std::lock_guard<std::mutex> lk(it.mutex_);
        bool would_run = it.producer_sig_.load() != 0 /* != kProduce */ ||
                         (!it.produce_end_.load() && (it.queue_.size() < it.max_capacity_ || it.free_cells_.size() != 0));
        if (it.nwait_producer_ != 0 && !would_run) return;
      }
      {
        std::lock_guard<std::mutex> lk(it.mutex_exception_);
        if (it.iter_exception_) return;
      }
      if (std::chrono::steady_clock::now() > deadline) return;
      std::this_thread::yield();
    }
  }

  void put_files() {
    fs.Put("/ix/data.rec", file);
    std::string idx;
    // record keys: arbitrary numbers, monotone neither with the offsets nor with the line order (the code must sort
    // by offset, the key column is ignored)
    for (size_t i = 0; i < idx_order.size(); ++i)
      idx += std::to_string((idx_order[i] * 2654435761ULL + 40503ULL * i + 17) % 1000003ULL) + "\t" + std::to_string(idx_order[i]) + "\n";
    fs.Put("/ix/data.idx", idx);
  }

  void start_pass(size_t k, size_t n, const std::vector<size_t> &order) {
    Pass p;
    p.k = k; p.n = n; p.shuffled = shuffle; p.order = order; p.obj = nobj;
    size_t b, e;
    slice_of(recs.size(), k, n, &b, &e);
    if (b == e) saw_empty = true;
    if (!shuffle) {
      p.order.clear();
      for (size_t i = b; i < e; ++i) p.order.push_back(i);
    }
    passes.push_back(p);
  }

  // expected shuffles of an operation; compares with the perm lines (a stale replay is not an oracle matter)
  bool take_perms(size_t count, size_t k, size_t n, std::vector<size_t> *last) {
    std::vector<std::vector<size_t>> want;
    for (size_t i = 0; i < count; ++i) want.push_back(shuffle ? sim.next(recs.size(), k, n) : std::vector<size_t>());
    bool ok = true;
    // perm lines that are present must be the recomputed ones; a (shrunk) replay without them is still a valid
    // input for the oracle, only the model cannot follow it
    if (shuffle && !pending.empty()) ok = pending == want;
    pending.clear();
    if (!want.empty()) *last = want.back();
    return ok;
  }

  std::string deliver(bool ok, const std::string &blob, bool is_rec) {
    if (passes.empty()) return "bad-op";
    Pass &p = passes.back();
    if (!ok) { p.complete = true; return "eof"; }
    if (p.complete) p.after_end = true;
    if (is_rec) { p.got.push_back(blob); p.used_rec = true; if (bare) bare_rec = true; }
    else {
      p.used_blk = true;
      if (!parse_records(blob, &p.got)) p.bad_chunk = true;
    }
    return "blob " + vh::hex(blob);
  }

  bool pull_once(const std::string &kind, size_t b, std::string *blob) {
    InputSplit::Blob out;
    out.dptr = nullptr; out.size = 0;
    bool ok;
    if (bare) ok = kind == "rec" ? bare->NextRecord(&out) : kind == "batch" ? bare->NextBatch(&out, b) : bare->NextChunk(&out);
    else ok = kind == "rec" ? wrapped->NextRecord(&out) : wrapped->NextChunk(&out);
    if (ok) blob->assign(static_cast<const char *>(out.dptr), out.size);
    if (bare && bare->n_overflow_ != 0 && bare->n_overflow_ != kPoison) saw_carry = true;
    return ok;
  }

  // a forked dry run costs ~50 ms under ASan; only the unrepaired tree needs any.  Past the budget the
  // operation is not executed at all and the case is dropped (no oracle verdict).
  static const size_t kSandboxBudget = 300;
  bool over_budget() {
    if (n_sandbox < kSandboxBudget) return false;
    stale = true;
    kill();
    return true;
  }
  bool need_sandbox(const std::string &op) const {
    if (!bare) return false;
    if (op == "reset") return !sentinel_fixed && bare->index_.size() > recs.size();
    // the class's own NextRecord loads buffer_size_ words whatever the record boundaries are: harmless only while
    // the buffer covers the whole file
    if (kNextRecOwn && (op == "rec" || op == "drainrec")) return bare->buffer_size_ * 4 < file.size();
    return !sentinel_fixed && shuffle && bare->index_end_ != kPoison && bare->index_end_ > recs.size();
  }

  // watchdog: an operation of the code under test that does not return (endless loop, wait on a dead thread)
  // must end the run with the failing history on disk (ops are flushed before exec), not hang the check
  static void on_alarm(int) {
    static const char msg[] = "h_indexed: operation did not return within 20 s (watchdog)\n";
    ssize_t r = write(2, msg, sizeof msg - 1);
    (void)r;
    _exit(86);
  }
  std::string exec(const std::vector<std::string> &w) override {
    alarm(20);
    std::string r = exec1(w);
    alarm(0);
    return r;
  }
  std::string exec1(const std::vector<std::string> &w) {
    if (w.empty()) return "bad-op";
    const std::string &op = w[0];
    auto num = [&](size_t i) { return static_cast<size_t>(strtoull(w[i].c_str(), nullptr, 10)); };
    if (op == "cfg") return "ok";
    if (op == "write" && w.size() == 2) {
      std::string r = vh::unhex(w[1]);
      size_t at = file.size();
      dmlc::MemoryStringStream ms(&file);
      ms.Seek(file.size());
      dmlc::RecordIOWriter wr(&ms);
      wr.WriteRecord(r);
      recs.push_back(r);
      starts.push_back(at);
      return "ok " + std::to_string(at);
    }
    if (op == "index") {
      idx_order.clear();
      for (size_t i = 1; i < w.size(); ++i) idx_order.push_back(num(i));
      return "ok";
    }
    if (op == "perm") {
      std::vector<size_t> p;
      for (size_t i = 1; i < w.size(); ++i) p.push_back(num(i));
      pending.push_back(p);
      return "ok";
    }
    if ((op == "new" || op == "wrap" || op == "create") && w.size() == 6) {
      kill();
      {
        // the index must list exactly the record starts (a shrunk / hand-edited replay may not): no verdict otherwise
        std::vector<size_t> so = idx_order;
        std::sort(so.begin(), so.end());
        if (so != starts || recs.empty()) { stale = true; return "bad-index"; }
      }
      size_t k = num(1), n = num(2);
      batch = num(3);
      shuffle = w[4] == "1";
      int seed = atoi(w[5].c_str());
      sim.seed(seed);
      ++nobj;
      put_files();
      size_t sb, se;
      slice_of(recs.size(), k, n, &sb, &se);
      std::vector<size_t> order;
      bool fresh = take_perms(sb < se ? 1 : 0, k, n, &order);
      if (op == "create" && !(k < n)) return fail("err:check");
      // the splitter itself, in poisoned memory
      mem = ::operator new(sizeof(IndexedRecordIOSplitter));
      memset(mem, 0xA5, sizeof(IndexedRecordIOSplitter));
      try {
        bare = new (mem) IndexedRecordIOSplitter(&fs, "/ix/data.rec", "/ix/data.idx", k, n, batch, shuffle, seed);
      } catch (const dmlc::Error &) {
        ::operator delete(mem);
        mem = nullptr;
        return fail("err:check");
      }
      if (!fresh) { stale = true; kill(); return "stale-perm"; }
      if (op == "new") {
        start_pass(k, n, order);
        return "ok" + state();
      }
      // public path: the prefetch thread calls NextBatchEx at once and consumes the members
      if (poisoned(bare)) return fail("ub:uninit");
      if (op == "wrap") {
        // hand the object over (it must be deletable: rebuild it on the heap with the same arguments)
        kill();
        sim.seed(seed);
        if (sb < se) order = shuffle ? sim.next(recs.size(), k, n) : order;
        wbase = new IndexedRecordIOSplitter(&fs, "/ix/data.rec", "/ix/data.idx", k, n, batch, shuffle, seed);
        wrapped = new ThreadedInputSplit(wbase, batch);
      } else {
        kill();
        sim.seed(seed);
        if (sb < se) order = shuffle ? sim.next(recs.size(), k, n) : order;
        via_create = true;
        std::string dir = out_dir + "/ixfiles";
        mkdir(dir.c_str(), 0777);
        {
          std::ofstream f(dir + "/data.rec", std::ios::binary | std::ios::trunc);
          f.write(file.data(), file.size());
          std::ofstream g(dir + "/data.idx", std::ios::trunc);
          const std::string *idx = fs.Get("/ix/data.idx");
          g.write(idx->data(), idx->size());
        }
        try {
          wrapped = InputSplit::Create((dir + "/data.rec").c_str(), (dir + "/data.idx").c_str(), k, n,
                                       "indexed_recordio", shuffle, seed, batch);
        } catch (const dmlc::Error &) {
          return fail("err:check");
        }
        wbase = static_cast<IndexedRecordIOSplitter *>(static_cast<ThreadedInputSplit *>(wrapped)->base_);
      }
      start_pass(k, n, order);
      return "ok" + wstate();
    }
    if (!bare && !wrapped) { pending.clear(); return "dead"; }
    if (op == "rec" || op == "chunk" || (op == "batch" && w.size() == 2)) {
      if (op == "batch" && wrapped) return "bad-op";
      pending.clear();
      size_t b = op == "batch" ? num(1) : 0;
      if (bare && poisoned(bare) && !(op == "rec" && kNextRecOwn)) return fail("ub:uninit");
      if (need_sandbox(op)) {
        if (over_budget()) return "skip:sandbox-budget";
        ++n_sandbox;
        std::string tmp;
        if (!survives([&] { pull_once(op, b, &tmp); })) return fail("ub:oob");
      }
      std::string blob;
      bool ok;
      try {
        ok = pull_once(op, b, &blob);
      } catch (const dmlc::Error &) {
        return fail("err:check");
      } catch (const std::exception &) {
        return fail("ub:oob");
      }
      std::string r = deliver(ok, blob, op == "rec");
      return r + (bare ? state() : "");
    }
    if (op == "drainrec" || op == "drainchunk" || (op == "drainbatch" && w.size() == 2)) {
      if (op == "drainbatch" && wrapped) return "bad-op";
      pending.clear();
      std::string kind = op == "drainrec" ? "rec" : op == "drainchunk" ? "chunk" : "batch";
      size_t b = kind == "batch" ? num(1) : 0;
      if (bare && poisoned(bare) && !(kind == "rec" && kNextRecOwn)) return fail("ub:uninit");
      size_t limit = file.size() + 4;
      if (need_sandbox(op)) {
        if (over_budget()) return "skip:sandbox-budget";
        ++n_sandbox;
        if (!survives([&] {
              std::string tmp;
              for (size_t i = 0; i < limit && pull_once(kind, b, &tmp); ++i) {}
            }))
          return fail("ub:oob");
      }
      std::string out = wrapped && kind != "rec" ? "cat " : "blobs ";
      std::string cat;
      try {
        for (size_t i = 0;; ++i) {
          if (i >= limit) return fail("err:fuel");
          std::string blob;
          bool ok = pull_once(kind, b, &blob);
          deliver(ok, blob, kind == "rec");
          if (!ok) break;
          if (wrapped && kind != "rec") cat += blob;
          else out += vh::hex(blob) + " ";
        }
      } catch (const dmlc::Error &) {
        return fail("err:check");
      } catch (const std::exception &) {
        return fail("ub:oob");
      }
      if (wrapped && kind != "rec") return out + vh::hex(cat);
      return out + "end" + (bare ? state() : "");
    }
    if (op == "bf") {
      size_t k = passes.empty() ? 0 : passes.back().k, n = passes.empty() ? 1 : passes.back().n;
      std::vector<size_t> order;
      bool fresh = take_perms(1, k, n, &order);
      if (!fresh) { stale = true; kill(); return "stale-perm"; }
      if (bare && poisoned(bare)) return fail("ub:uninit");
      try {
        if (bare) bare->BeforeFirst(); else wrapped->BeforeFirst();
      } catch (const dmlc::Error &) {
        return fail("err:check");
      }
      start_pass(k, n, order);
      return "ok" + (bare ? state() : wstate());
    }
    if (op == "reset" && w.size() == 3) {
      size_t k = num(1), n = num(2);
      saw_reset = true;
      size_t sb, se;
      slice_of(recs.size(), k, n, &sb, &se);
      std::vector<size_t> order;
      bool fresh = take_perms((sb < se ? 1 : 0) + (wrapped ? 1 : 0), k, n, &order);
      if (!fresh) { stale = true; kill(); return "stale-perm"; }
      if (n == 0) return fail("ub:div");
      if (need_sandbox(op)) {
        if (over_budget()) return "skip:sandbox-budget";
        ++n_sandbox;
        if (!survives([&] { static_cast<InputSplit *>(bare)->ResetPartition(k, n); })) return fail("ub:oob");
      }
      try {
        if (bare) static_cast<InputSplit *>(bare)->ResetPartition(k, n);
        else { quiesce(); wrapped->ResetPartition(k, n); }
      } catch (const dmlc::Error &e) {
        if (getenv("VERIF_DEBUG")) fprintf(stderr, "reset: %s\n", e.what());
        return fail("err:check");
      }
      start_pass(k, n, order);
      return "ok" + (bare ? state() : wstate());
    }
    return "bad-op";
  }

  void end_case(const Case &c, const std::vector<std::string> &, std::vector<std::string> *failv) override {
    kill();
    if (stale) return;
    // finding classes (all three are repaired by fixes/C06-1..3.diff; the names only label the replay):
    //   uninit-empty-slice     an operation consumed a member the constructor left unassigned
    //   sentinel-accumulation  index_ held more than one end sentinel at some point of the history
    //   bare-nextrecord        the class's own NextRecord override (not the inherited one) was used on the bare object
    std::string cls = abnormal_what == "ub:uninit" ? "uninit-empty-slice"
                      : saw_extra_sentinel         ? "sentinel-accumulation"
                      : (kNextRecOwn && bare_rec)  ? "bare-nextrecord"
                                                   : "none";
    auto F = [&](const std::string &m) { failv->push_back("class=" + cls + " prop=C06 " + m); };
    if (abnormal) F("abnormal outcome " + abnormal_what + " (dmlc::Error / uninitialised member read / crash) in [" + c.kind + "]");
    size_t N = recs.size();
    for (size_t pi = 0; pi < passes.size(); ++pi) {
      const Pass &p = passes[pi];
      std::string who = "pass " + std::to_string(pi) + " (part " + std::to_string(p.k) + "/" + std::to_string(p.n) +
                        (p.shuffled ? ", shuffled" : "") + ")";
      if (p.bad_chunk) F(who + ": a chunk / batch is not a whole number of records");
      if (p.after_end) F(who + ": records delivered after the end was reported");
      std::vector<std::string> want;
      for (size_t i : p.order)
        if (i < N) want.push_back(recs[i]);
      if (p.got.size() > want.size() || !std::equal(p.got.begin(), p.got.end(), want.begin())) {
        // distinguish "same multiset, other order" for the message
        std::vector<std::string> a = p.got, b2 = want;
        std::sort(a.begin(), a.end());
        std::sort(b2.begin(), b2.end());
        F(who + ": delivered records differ from the slice " + (a == b2 ? "(same multiset, other order)" : "") + " got " +
          std::to_string(p.got.size()) + " want " + std::to_string(want.size()));
      } else if (p.complete && p.got.size() != want.size()) {
        F(who + ": end reported after " + std::to_string(p.got.size()) + " of " + std::to_string(want.size()) + " records");
      }
    }
    // parts cover: for every n, if the first pass of each of n distinct objects k = 0..n-1 is complete
    std::map<size_t, std::map<size_t, const Pass *>> parts;
    for (const Pass &p : passes) {
      bool first_of_obj = true;
      for (const Pass &q : passes)
        if (&q < &p && q.obj == p.obj) first_of_obj = false;
      if (first_of_obj && p.complete && !parts[p.n].count(p.k)) parts[p.n][p.k] = &p;
    }
    for (auto &pn : parts) {
      if (pn.second.size() != pn.first) continue;
      std::vector<std::string> all;
      bool shuf = false;
      for (auto &pk : pn.second) {
        all.insert(all.end(), pk.second->got.begin(), pk.second->got.end());
        shuf = shuf || pk.second->shuffled;
      }
      std::vector<std::string> want = recs;
      if (shuf) { std::sort(all.begin(), all.end()); std::sort(want.begin(), want.end()); }
      if (all != want) F("parts 0.." + std::to_string(pn.first - 1) + " do not yield every record exactly once");
    }
  }

  std::string shape(const Case &c, const std::vector<std::string> &) override {
    if (passes.empty()) return "";
    std::string s = via_create ? "create" : (c.kind.find("wrap") != std::string::npos ? "wrapped" : "bare");
    s += passes[0].shuffled ? "-shuffled" : "-sequential";
    if (saw_empty) s += "+empty-slice";
    if (saw_reset) s += "+reset";
    if (saw_carry) s += "+carry";
    return s;
  }
};

// ------------------------------------------------------------------------------------------------
// generators
// ------------------------------------------------------------------------------------------------
static std::string word_bytes(uint32_t w) { return std::string(reinterpret_cast<char *>(&w), 4); }

static std::vector<std::string> word_alphabet() {
  std::vector<std::string> a;
  a.push_back(word_bytes(kMagic));
  a.push_back(word_bytes(0));
  a.push_back(word_bytes(0x61626364));
  a.push_back(word_bytes((kMagic << 8) | (kMagic >> 24)));
  a.push_back(word_bytes((kMagic << 16) | (kMagic >> 16)));
  a.push_back(word_bytes(kMagic ^ 1u));
  a.push_back(word_bytes((1u << 29) | 4));
  return a;
}

static std::string random_record(vh::Rng &rng, const std::vector<std::string> &alpha, size_t tag) {
  static const char tail[4] = "\x0a\x23\xd7";
  std::string r;
  size_t nw = rng.below(4);
  for (size_t k = 0; k < nw; ++k) r += alpha[rng.below(rng.chance(1, 2) ? 3 : alpha.size())];
  size_t t = rng.below(4);
  for (size_t k = 0; k < t; ++k) r.push_back(rng.chance(1, 2) ? tail[k] : static_cast<char>('a' + tag));
  if (rng.chance(3, 4)) r.push_back(static_cast<char>('A' + tag));  // mostly distinct records
  return r;
}

// builds a case: writes the op lines and, in front of every operation that shuffles, the perm lines
struct Builder {
  Case c;
  std::vector<std::string> recs;
  size_t words;
  ShufSim sim;
  bool shuffle = false, wrapped = false;
  size_t k = 0, n = 1;
  explicit Builder(const std::string &kind, size_t w) : words(w) { c.kind = kind; c.ops.push_back("cfg " + std::to_string(w)); }
  void records(const std::vector<std::string> &rs, vh::Rng &rng) {
    recs = rs;
    std::string file;
    std::vector<size_t> starts;
    for (auto &r : rs) {
      starts.push_back(file.size());
      dmlc::MemoryStringStream ms(&file);
      ms.Seek(file.size());
      dmlc::RecordIOWriter w(&ms);
      w.WriteRecord(r);
      c.ops.push_back("write " + vh::hex(r));
    }
    for (size_t i = starts.size(); i > 1; --i) std::swap(starts[i - 1], starts[rng.below(i)]);
    std::string l = "index";
    for (size_t o : starts) l += " " + std::to_string(o);
    c.ops.push_back(l);
  }
  void perm(size_t kk, size_t nn) {
    std::string l = "perm";
    if (shuffle)
      for (size_t i : sim.next(recs.size(), kk, nn)) l += " " + std::to_string(i);
    if (shuffle) c.ops.push_back(l);
  }
  bool empty(size_t kk, size_t nn) const {
    size_t b, e;
    slice_of(recs.size(), kk, nn, &b, &e);
    return b == e;
  }
  void make(const std::string &how, size_t kk, size_t nn, size_t batch, bool shuf, int seed) {
    shuffle = shuf;
    wrapped = how != "new";
    k = kk; n = nn;
    sim.seed(seed);
    if (!empty(kk, nn)) perm(kk, nn);
    c.ops.push_back(how + " " + std::to_string(kk) + " " + std::to_string(nn) + " " + std::to_string(batch) + " " +
                    (shuf ? "1" : "0") + " " + std::to_string(seed));
  }
  void bf() { perm(k, n); c.ops.push_back("bf"); }
  void reset(size_t kk, size_t nn) {
    if (!empty(kk, nn)) perm(kk, nn);
    if (wrapped) perm(kk, nn);
    k = kk; n = nn;
    c.ops.push_back("reset " + std::to_string(kk) + " " + std::to_string(nn));
  }
  void op(const std::string &s) { c.ops.push_back(s); }
};

int main(int argc, char **argv) {
  vh::Runner R;
  R.parse(argc, argv);
  IxHarness H;
  R.h = &H;
  H.out_dir = R.out_dir;
  signal(SIGALRM, IxHarness::on_alarm);
  R.flush_ops = true;  // on a repaired tree nothing is sandboxed: a sanitizer abort must leave the failing history
  H.probe();
  const size_t W = InputSplitBase::kBufferSize;
  if (R.run_replay()) { R.extra["sandboxed_ops"] = H.n_sandbox; R.finish(); return 0; }
  vh::Rng rng(R.seed);
  auto alpha = word_alphabet();
  const bool T = R.thorough();
  const size_t maxN = T ? 7 : 4;
  auto record_set = [&](size_t N) {
    std::vector<std::string> rs;
    for (size_t i = 0; i < N; ++i) rs.push_back(random_record(rng, alpha, i));
    return rs;
  };
  const int seeds[3] = {0, 1, 7};

  // (A) cover: all parts of one (N, n, batch, shuffle, style), each constructed and drained
  for (size_t N = 1; N <= maxN; ++N) {
    if (T && N > 5 && N != maxN) continue;
    for (size_t n = 1; n <= N + 2; ++n)
      for (size_t b = 1; b <= N + 1; ++b)
        for (int sh = 0; sh < 2; ++sh)
          for (int style = 0; style < 5; ++style) {
            // 0 rec, 1 batch b, 2 chunk on the bare class; 3 rec, 4 chunk behind the prefetching wrapper
            if (style >= 3 && !(b == 1 || b == 2 || b == N + 1)) continue;
            Builder B(style < 3 ? "cover-bare" : "cover-wrap", W);
            B.records(record_set(N), rng);
            int seed = seeds[rng.below(3)];
            for (size_t k = 0; k < n; ++k) {
              B.make(style < 3 ? "new" : "wrap", k, n, b, sh, seed);
              B.op(style == 0 || style == 3 ? "drainrec" : style == 1 ? "drainbatch " + std::to_string(b) : "drainchunk");
              if ((k + b) % 3 == 0) { B.bf(); B.op(style == 0 || style == 3 ? "drainrec" : "drainchunk"); }
            }
            R.run_case(B.c);
          }
  }
  // (B) exhaustive short histories over a reduced alphabet, bare class, N = 3
  {
    std::vector<std::string> rs = {"A", word_bytes(kMagic) + "Bb", word_bytes(0x61626364) + word_bytes(kMagic) + "C"};
    std::vector<std::string> al = {"rec", "batch 1", "batch 2", "chunk", "bf", "reset 0 1", "reset 1 2", "reset 2 3", "reset 3 4"};
    const size_t inits[3][2] = {{0, 1}, {1, 2}, {4, 5}};
    size_t maxlen = T ? 4 : 3;
    for (int sh = 0; sh < 2; ++sh)
      for (auto &in : inits)
        for (size_t b = 1; b <= 2; ++b) {
          std::vector<size_t> h;
          std::function<void()> go = [&]() {
            Builder B("hist-bare", W);
            B.records(rs, rng);
            B.make("new", in[0], in[1], b, sh, 1);
            for (size_t o : h) {
              if (al[o] == "bf") B.bf();
              else if (al[o].compare(0, 5, "reset") == 0) { auto w = vh::split_ws(al[o]); B.reset(atoi(w[1].c_str()), atoi(w[2].c_str())); }
              else B.op(al[o]);
            }
            B.op("drainchunk");
            R.run_case(B.c);
            if (h.size() < maxlen)
              for (size_t o = 0; o < al.size(); ++o) { h.push_back(o); go(); h.pop_back(); }
          };
          go();
        }
  }
  // (C) random histories, bare and wrapped; a few through InputSplit::Create on real files
  size_t nrand = T ? 12000 : 2500;
  size_t ncreate = 0, max_create = T ? 120 : 25;
  for (size_t it = 0; it < nrand; ++it) {
    size_t N = 1 + rng.below(maxN);
    bool wrap = rng.chance(1, 4);
    bool create = wrap && ncreate < max_create && rng.chance(1, 4);
    if (create) ++ncreate;
    Builder B(create ? "rand-create" : wrap ? "rand-wrap" : "rand-bare", W);
    B.records(record_set(N), rng);
    size_t n = 1 + rng.below(N + 2), k = rng.below(n);
    size_t b = 1 + rng.below(N + 1);
    bool sh = rng.chance(1, 2);
    B.make(create ? "create" : wrap ? "wrap" : "new", k, n, b, sh, seeds[rng.below(3)]);
    size_t len = rng.below((T ? 8 : 5) + 1);
    for (size_t j = 0; j < len; ++j) {
      size_t o = rng.below(wrap ? 8 : 10);
      if (wrap) {
        if (o < 3) B.op("rec");
        else if (o == 3) B.op("drainrec");
        else if (o == 4) B.op("drainchunk");
        else if (o < 7 || !H.sentinel_fixed) B.bf();
        else { size_t nn = 1 + rng.below(N + 2); B.reset(rng.below(nn), nn); }
      } else {
        if (o < 3) B.op("rec");
        else if (o < 5) B.op("batch " + std::to_string(1 + rng.below(N + 1)));
        else if (o == 5) B.op("chunk");
        else if (o == 6) B.op(rng.chance(1, 2) ? "drainrec" : "drainchunk");
        else if (o == 7) B.bf();
        else { size_t nn = 1 + rng.below(N + 2); B.reset(rng.chance(1, 8) ? nn + rng.below(2) : rng.below(nn), nn); }
      }
    }
    B.op(rng.chance(1, 2) ? "drainrec" : "drainchunk");
    R.run_case(B.c);
  }
  R.extra["sandboxed_ops"] = H.n_sandbox;
  R.extra["sentinel_in_readindex"] = H.sentinel_fixed;
  R.extra["nextrecord_override"] = kNextRecOwn;
  R.finish();
  return 0;
}
