// Correspondence harness + oracle for C18: the REAL dmlc::ConcurrentBlockingQueue (FIFO and priority)
// and dmlc::ManualEvent, compiled unmodified with the std synchronisation types replaced by the
// controlled scheduler (common/vsched.h).  One case = one (program, schedule); ops = the scheduler's
// choice list; result lines = the per-step log (step, thread, op, object, result | state snapshot).
// The oracle works on the trace only (lock-acquisition order recorded by the scheduler) and is
// independent of the Lean model.
#include <atomic>
#include <condition_variable>
#include <deque>
#include <memory>
#include <mutex>
#include <queue>
#include <set>
#include <shared_mutex>
#include <string>
#include <thread>
#include <unordered_map>
#include <unordered_set>
#include <utility>
#include <vector>
#include <csignal>

#include <dmlc/base.h>
#include <dmlc/logging.h>
#include <dmlc/blockingconcurrentqueue.h>
#include <dmlc/concurrentqueue.h>

#include "common/proto.h"
#include "common/vsched.h"
#define VSCHED_SUBSTITUTE_BEGIN
#include "common/vsched.h"
#define private public
#include <dmlc/concurrency.h>
#include <dmlc/thread_group.h>
#undef private
#define VSCHED_SUBSTITUTE_END
#include "common/vsched.h"

typedef dmlc::ConcurrentBlockingQueue<int, dmlc::ConcurrentQueueType::kFIFO> FifoQ;
typedef dmlc::ConcurrentBlockingQueue<int, dmlc::ConcurrentQueueType::kPriority> PrioQ;

enum Kind { FIFO, PRIO, EVENT };
enum CallT { PUSH, PUSHF, POP, SIZE, KILL, WAIT, SIGNAL, RESET, FIN };
struct Call {
  CallT t;
  int v = 0, p = 0;
};
struct Prog {
  Kind kind = FIFO;
  std::vector<std::vector<Call>> threads;
  std::string id;
};

static std::string call_text(const Call &c) {
  switch (c.t) {
    case PUSH: return "push:" + std::to_string(c.v) + ":" + std::to_string(c.p);
    case PUSHF: return "pushf:" + std::to_string(c.v) + ":" + std::to_string(c.p);
    case POP: return "pop";
    case SIZE: return "size";
    case KILL: return "kill";
    case WAIT: return "wait";
    case SIGNAL: return "signal";
    case RESET: return "reset";
    case FIN: return "fin";
  }
  return "?";
}
static std::string prog_line(const Prog &p) {
  std::string s = std::string("prog ") + (p.kind == FIFO ? "fifo" : p.kind == PRIO ? "prio" : "event");
  for (size_t i = 0; i < p.threads.size(); ++i) {
    s += " T" + std::to_string(i) + "=";
    for (size_t j = 0; j < p.threads[i].size(); ++j) s += (j ? "," : "") + call_text(p.threads[i][j]);
  }
  return s;
}
static bool parse_prog(const std::vector<std::string> &w, Prog *p) {
  if (w.size() < 3 || w[0] != "prog") return false;
  if (w[1] == "fifo") p->kind = FIFO; else if (w[1] == "prio") p->kind = PRIO; else if (w[1] == "event") p->kind = EVENT; else return false;
  p->threads.clear();
  for (size_t i = 2; i < w.size(); ++i) {
    size_t eq = w[i].find('=');
    if (eq == std::string::npos) return false;
    std::vector<Call> calls;
    std::string body = w[i].substr(eq + 1), tok;
    std::istringstream is(body);
    while (std::getline(is, tok, ',')) {
      Call c;
      std::vector<std::string> f;
      std::istringstream fs(tok);
      std::string x;
      while (std::getline(fs, x, ':')) f.push_back(x);
      if (f.empty()) return false;
      if ((f[0] == "push" || f[0] == "pushf") && f.size() == 3) {
        c.t = f[0] == "push" ? PUSH : PUSHF;
        c.v = atoi(f[1].c_str());
        c.p = atoi(f[2].c_str());
      } else if (f.size() == 1 && f[0] == "pop") c.t = POP;
      else if (f.size() == 1 && f[0] == "size") c.t = SIZE;
      else if (f.size() == 1 && f[0] == "kill") c.t = KILL;
      else if (f.size() == 1 && f[0] == "wait") c.t = WAIT;
      else if (f.size() == 1 && f[0] == "signal") c.t = SIGNAL;
      else if (f.size() == 1 && f[0] == "reset") c.t = RESET;
      else if (f.size() == 1 && f[0] == "fin") c.t = FIN;
      else return false;
      calls.push_back(c);
    }
    p->threads.push_back(calls);
  }
  p->id = "replay";
  return true;
}

// ------------------------------------------------------------------------------------------------
// the program state: the objects under test + what the threads observed
// ------------------------------------------------------------------------------------------------
struct CallRec {
  int tid, k;       // thread, index in its script
  CallT t;
  int v, p;
  int first_step;   // index of the first scheduler step of the call
  int ret_step;     // index of the step in which the call returned (-1: did not return)
  std::string res;  // P, T<v>, F, S<n>, K, W, S, R
};
struct State {
  Kind kind;
  std::unique_ptr<FifoQ> fq;
  std::unique_ptr<PrioQ> pq;
  std::unique_ptr<dmlc::ManualEvent> ev;
  std::vector<std::vector<std::string>> results;  // per thread
  std::vector<CallRec> calls;
  std::vector<std::string> hints;                 // per step ("" = none)
  std::multiset<std::pair<int, int>> prev_prio;   // priority container before the step
  std::string final_q;
};

template <typename Q>
static void label_queue(Q *q) {
  vs::set_label(&q->mutex_, "m");
  vs::set_label(&q->cv_, "cv");
  vs::set_label(&q->exit_now_, "exit");
}

static std::string show_q(const State &st) {
  std::string s;
  if (st.kind == FIFO) {
    if (st.fq->fifo_queue_.size() > 64) return "corrupt";
    for (int v : st.fq->fifo_queue_) s += (s.empty() ? "" : ",") + std::to_string(v);
  } else {
    if (st.pq->priority_queue_.size() > 64) return "corrupt";
    std::vector<std::pair<int, int>> e;
    for (auto &x : st.pq->priority_queue_) e.push_back({x.data, x.priority});
    std::sort(e.begin(), e.end());
    for (auto &x : e) s += (s.empty() ? "" : ",") + std::to_string(x.first) + ":" + std::to_string(x.second);
  }
  return s.empty() ? "-" : s;
}

static std::string snapshot(State *st) {
  std::string rs;
  for (size_t i = 0; i < st->results.size(); ++i) {
    std::string r;
    for (auto &x : st->results[i]) r += (r.empty() ? "" : ",") + x;
    rs += (i ? "/" : "") + (r.empty() ? std::string("-") : r);
  }
  if (rs.empty()) rs = "-";
  auto own = [](int o) { return o < 0 ? std::string("-") : std::to_string(o); };
  std::string hint;
  std::string out;
  if (st->kind == EVENT) {
    out = "sig=" + std::to_string(st->ev->signaled_.raw() ? 1 : 0) + " own=" + own(st->ev->mutex_.owner) +
          " ws=" + std::to_string(st->ev->condition_variable_.waiters.size()) + " r=" + rs;
  } else if (st->kind == FIFO) {
    out = "q=" + show_q(*st) + " nw=" + std::to_string(st->fq->nwait_consumer_) + " ex=" +
          std::to_string(st->fq->exit_now_.raw() ? 1 : 0) + " own=" + own(st->fq->mutex_.owner) +
          " ws=" + std::to_string(st->fq->cv_.waiters.size()) + " r=" + rs;
  } else {
    out = "q=" + show_q(*st) + " nw=" + std::to_string(st->pq->nwait_consumer_) + " ex=" +
          std::to_string(st->pq->exit_now_.raw() ? 1 : 0) + " own=" + own(st->pq->mutex_.owner) +
          " ws=" + std::to_string(st->pq->cv_.waiters.size()) + " r=" + rs;
    std::multiset<std::pair<int, int>> cur;
    if (st->pq->priority_queue_.size() <= 64)
      for (auto &x : st->pq->priority_queue_) cur.insert({x.data, x.priority});
    for (auto &x : st->prev_prio)
      if (cur.count(x) < st->prev_prio.count(x)) hint = "h=" + std::to_string(x.first) + ":" + std::to_string(x.second);
    st->prev_prio = cur;
  }
  st->hints.push_back(hint);
  return out;
}

static vs::Program make_program(const Prog &prog, std::shared_ptr<State> *out_state) {
  auto st = std::make_shared<State>();
  st->kind = prog.kind;
  if (prog.kind == FIFO) { st->fq.reset(new FifoQ); label_queue(st->fq.get()); }
  if (prog.kind == PRIO) { st->pq.reset(new PrioQ); label_queue(st->pq.get()); }
  if (prog.kind == EVENT) {
    st->ev.reset(new dmlc::ManualEvent);
    vs::set_label(&st->ev->mutex_, "m");
    vs::set_label(&st->ev->condition_variable_, "cv");
    vs::set_label(&st->ev->signaled_, "sig");
  }
  st->results.resize(prog.threads.size());
  vs::Program p;
  p.state = st;
  State *s = st.get();
  for (size_t t = 0; t < prog.threads.size(); ++t) {
    std::vector<Call> script = prog.threads[t];
    Kind kind = prog.kind;
    p.threads.push_back([s, script, t, kind] {
      int k = 0;
      for (Call c : script) {
        std::vector<Call> sub;
        if (c.t == FIN) {
          vs::await_quiescence("fin");
          Call d;
          d.t = kind == EVENT ? SIGNAL : KILL;
          sub.push_back(d);
        } else {
          sub.push_back(c);
        }
        for (Call d : sub) {
          CallRec rec{static_cast<int>(t), k, d.t, d.v, d.p, vs::current_step(), -1, ""};
          size_t at = s->calls.size();
          s->calls.push_back(rec);
          std::string r;
          switch (d.t) {
            case PUSH:
              if (kind == FIFO) s->fq->Push(d.v, d.p); else s->pq->Push(d.v, d.p);
              r = "P";
              break;
            case PUSHF:
              if (kind == FIFO) s->fq->PushFront(d.v, d.p); else s->pq->PushFront(d.v, d.p);
              r = "P";
              break;
            case POP: {
              int v = -1;
              bool ok = kind == FIFO ? s->fq->Pop(&v) : s->pq->Pop(&v);
              r = ok ? "T" + std::to_string(v) : "F";
              break;
            }
            case SIZE: {
              size_t n = kind == FIFO ? s->fq->Size() : s->pq->Size();
              r = "S" + std::to_string(n);
              break;
            }
            case KILL:
              if (kind == FIFO) s->fq->SignalForKill(); else s->pq->SignalForKill();
              r = "K";
              break;
            case WAIT: s->ev->wait(); r = "W"; break;
            case SIGNAL: s->ev->signal(); r = "S"; break;
            case RESET: s->ev->reset(); r = "R"; break;
            case FIN: break;
          }
          s->calls[at].ret_step = vs::current_step();
          s->calls[at].res = r;
          s->results[t].push_back(r);
        }
        ++k;
      }
    });
  }
  p.snapshot = [s] { return snapshot(s); };
  if (out_state) *out_state = st;
  return p;
}

// ------------------------------------------------------------------------------------------------
// oracle (trace based; reference container driven by the lock-acquisition order)
// ------------------------------------------------------------------------------------------------
struct Eff {
  int step;
  const CallRec *c;
};

static void oracle(const Prog &prog, const State &st, const vs::Result &r, std::vector<std::string> *fail) {
  auto bad = [&](const std::string &cls, const std::string &m) { fail->push_back("class=" + cls + " prop=C18 " + m); };
  for (auto &e : r.errors) bad("none", "synchronisation misuse: " + e);
  for (auto &e : r.uncaught) bad("none", "exception left a thread: " + e);
  // quiescence step (the finaliser's) and blocked threads at that point
  int qstep = -1;
  for (auto &s : r.trace)
    if (s.op == vs::OP_QUIESCE) { qstep = s.index; break; }
  // per thread: was it inside an unfinished call at step `at`?  (first_step <= at, not yet returned)
  auto open_call_at = [&](int tid, int at) -> const CallRec * {
    for (auto &c : st.calls)
      if (c.tid == tid && c.first_step <= at && (c.ret_step < 0 || c.ret_step > at)) return &c;
    return nullptr;
  };
  if (prog.kind != EVENT) {
    // effect points: push/kill/size = the call's lock step; pop = its last lock/relock step
    std::vector<Eff> effs;
    for (auto &c : st.calls) {
      int eff = -1;
      int hi = c.ret_step < 0 ? static_cast<int>(r.trace.size()) - 1 : c.ret_step;
      for (int i = c.first_step; i <= hi && i < static_cast<int>(r.trace.size()); ++i) {
        const vs::Step &s = r.trace[i];
        if (s.tid != c.tid || s.op == vs::OP_SPURIOUS) continue;
        if ((s.op == vs::OP_LOCK || s.op == vs::OP_RELOCK) && s.obj == "m") {
          if (c.t == POP) eff = i; else if (eff < 0) eff = i;
        }
      }
      if (eff >= 0 && (c.t != POP || c.ret_step >= 0)) effs.push_back(Eff{eff, &c});
    }
    std::sort(effs.begin(), effs.end(), [](const Eff &a, const Eff &b) { return a.step < b.step; });
    std::deque<std::pair<int, int>> ref;  // (value, priority)
    bool killed = false;
    bool checked_q = false;
    auto check_quiescent = [&](int upto) {
      if (checked_q || qstep < 0 || upto < qstep) return;
      checked_q = true;
      for (size_t t = 0; t < prog.threads.size(); ++t) {
        const CallRec *c = open_call_at(static_cast<int>(t), qstep);
        if (!c || c->t != POP) continue;
        if (killed) bad("none", "T" + std::to_string(t) + " still blocked in Pop after SignalForKill took effect");
        else if (!ref.empty())
          bad("none", "T" + std::to_string(t) + " blocked in Pop while the queue holds " + std::to_string(ref.size()) +
                          " element(s) and no wake-up is pending (lost wake-up)");
      }
    };
    for (auto &e : effs) {
      check_quiescent(e.step);
      const CallRec &c = *e.c;
      std::string who = "T" + std::to_string(c.tid) + " call " + std::to_string(c.k) + " (step " + std::to_string(e.step) + ")";
      switch (c.t) {
        case PUSH: ref.push_back({c.v, c.p}); break;
        case PUSHF:
          if (prog.kind == FIFO) ref.push_front({c.v, c.p}); else ref.push_back({c.v, c.p});
          break;
        case KILL: killed = true; break;
        case SIZE:
          if (c.ret_step >= 0 && c.res != "S" + std::to_string(ref.size()))
            bad("none", who + ": Size returned " + c.res.substr(1) + ", " + std::to_string(ref.size()) + " elements are queued");
          break;
        case POP:
          if (c.res == "F") {
            if (!killed) bad("none", who + ": Pop returned false although SignalForKill had not taken effect");
          } else {
            int v = atoi(c.res.c_str() + 1);
            if (killed) { bad("none", who + ": Pop returned element " + std::to_string(v) + " after SignalForKill took effect"); }
            if (ref.empty()) { bad("none", who + ": Pop returned " + std::to_string(v) + " from an empty queue"); break; }
            if (prog.kind == FIFO) {
              if (ref.front().first != v)
                bad("none", who + ": Pop returned " + std::to_string(v) + ", the front element in effect order is " +
                                std::to_string(ref.front().first));
              bool found = false;
              for (auto it = ref.begin(); it != ref.end(); ++it)
                if (it->first == v) { ref.erase(it); found = true; break; }
              if (!found) bad("none", who + ": Pop returned " + std::to_string(v) + " which is not queued (delivered twice or never pushed)");
            } else {
              int best = ref.front().second;
              for (auto &x : ref) best = std::max(best, x.second);
              bool found = false;
              for (auto it = ref.begin(); it != ref.end(); ++it)
                if (it->first == v) {
                  if (it->second != best)
                    bad("none", who + ": Pop returned " + std::to_string(v) + " with priority " + std::to_string(it->second) +
                                    " while priority " + std::to_string(best) + " is queued");
                  ref.erase(it);
                  found = true;
                  break;
                }
              if (!found) bad("none", who + ": Pop returned " + std::to_string(v) + " which is not queued (delivered twice or never pushed)");
            }
          }
          break;
        default: break;
      }
    }
    check_quiescent(static_cast<int>(r.trace.size()));
    // what is left in the real container = what the reference says
    if (r.status == vs::COMPLETED) {
      std::string want;
      if (prog.kind == FIFO) {
        for (auto &x : ref) want += (want.empty() ? "" : ",") + std::to_string(x.first);
      } else {
        std::vector<std::pair<int, int>> e(ref.begin(), ref.end());
        std::sort(e.begin(), e.end());
        for (auto &x : e) want += (want.empty() ? "" : ",") + std::to_string(x.first) + ":" + std::to_string(x.second);
      }
      if (want.empty()) want = "-";
      if (want != st.final_q) bad("none", "container holds [" + st.final_q + "] at the end, pushes minus pops leave [" + want + "]");
    }
  } else {
    // ManualEvent: flag history from the store steps of the trace
    std::vector<int> sig_at(r.trace.size() + 1, 0);  // value after step i-1
    int cur = 0;
    for (size_t i = 0; i < r.trace.size(); ++i) {
      const vs::Step &s = r.trace[i];
      if (s.op == vs::OP_STORE && s.obj == "sig") cur = s.res == "1";
      sig_at[i + 1] = cur;
    }
    for (auto &c : st.calls) {
      if (c.t != WAIT) continue;
      std::string who = "T" + std::to_string(c.tid) + " call " + std::to_string(c.k);
      if (c.ret_step >= 0) {
        if (!sig_at[c.ret_step + 1]) {
          // narrow class: the call blocked, and after its last relock it did not look at the flag again
          int last_relock = -1;
          bool load_after = false;
          for (int i = c.first_step; i <= c.ret_step; ++i) {
            const vs::Step &s = r.trace[i];
            if (s.tid != c.tid || s.op == vs::OP_SPURIOUS) continue;
            if (s.op == vs::OP_RELOCK) { last_relock = i; load_after = false; }
            if (s.op == vs::OP_LOAD && s.obj == "sig" && last_relock >= 0) load_after = true;
          }
          std::string cls = (last_relock >= 0 && !load_after) ? "event-wait-no-recheck" : "none";
          bad(cls, who + ": ManualEvent::wait returned at step " + std::to_string(c.ret_step) +
                       " but no signal() has stored since the last reset()");
        }
      } else if (qstep >= 0 && c.first_step <= qstep) {
        if (sig_at[qstep]) bad("none", who + ": ManualEvent::wait still blocked at quiescence although signal() stored after the last reset()");
      }
    }
  }
  if (r.status != vs::COMPLETED) {
    std::string b;
    for (auto &x : r.blocked) b += (b.empty() ? "" : "; ") + x;
    bad("none", std::string("execution did not complete: ") + vs::status_name(r.status) + " [" + b + "] schedule: " + r.schedule());
  }
}

// ------------------------------------------------------------------------------------------------
// emitting one execution as a case (bypasses Runner::run_case: the ops are known only afterwards)
// ------------------------------------------------------------------------------------------------
static vh::Runner *g_R = nullptr;
static std::string g_pending_header, g_pending_prog;
static std::vector<std::string> g_pending_ops;

static void dump_pending() {  // the process is dying inside an execution: leave the schedule prefix behind
  if (!g_R || !g_R->f_ops || g_pending_prog.empty()) return;
  fprintf(g_R->f_ops, "case %llu %s\n%s\n", (unsigned long long)(g_R->n_cases + 1), g_pending_header.c_str(), g_pending_prog.c_str());
  for (auto &o : g_pending_ops) fprintf(g_R->f_ops, "%s\n", o.c_str());
  fflush(g_R->f_ops);
  g_pending_prog.clear();
}
static void on_abort(int) {
  dump_pending();
  signal(SIGABRT, SIG_DFL);
  abort();
}
extern "C" void __sanitizer_set_death_callback(void (*)(void)) __attribute__((weak));

static uint64_t emit(vh::Runner &R, const Prog &prog, const std::string &how, const State &st, const vs::Result &r,
                     const std::vector<std::string> &failures) {
  ++R.n_cases;
  std::string kind = prog.id + " " + how;
  fprintf(R.f_ops, "case %llu %s\n", (unsigned long long)R.n_cases, kind.c_str());
  fprintf(R.f_impl, "case %llu %s\n", (unsigned long long)R.n_cases, kind.c_str());
  std::string pl = prog_line(prog);
  fprintf(R.f_ops, "%s\n", pl.c_str());
  fprintf(R.f_impl, "ok\n");
  uint64_t hh = vh::Runner::fnv(pl);
  ++R.n_ops;
  for (size_t i = 0; i < r.trace.size(); ++i) {
    const vs::Step &s = r.trace[i];
    std::string op = s.choice.str();
    if (i < st.hints.size() && !st.hints[i].empty()) op += " " + st.hints[i];
    fprintf(R.f_ops, "%s\n", op.c_str());
    fprintf(R.f_impl, "%d T%d %s %s %s%s | %s\n", s.index, s.tid, vs::op_name(s.op), s.obj.c_str(), s.res.c_str(),
            s.finished ? " fin" : "", s.note.c_str());
    hh = vh::Runner::fnv(op, hh);
    ++R.n_ops;
  }
  for (auto &f : failures) {
    ++R.n_fail;
    fprintf(R.f_or, "ORACLE-FAIL case=%llu %s\n", (unsigned long long)R.n_cases, f.c_str());
  }
  std::string sh = std::string(prog.kind == FIFO ? "fifo" : prog.kind == PRIO ? "prio" : "event") + " pre=" +
                   std::to_string(std::min(r.preemptions, 4)) + (r.spurious ? "+spurious" : "") +
                   (r.status != vs::COMPLETED ? "+abandoned" : "");
  ++R.hist[sh];
  R.distinct.insert(hh);
  if (R.samples.size() < 5 && (R.n_cases % 997 == 1)) R.samples.push_back(kind + " | " + pl + " | " + r.schedule());
  return hh;
}

struct Ctx {
  vh::Runner *R;
  std::set<uint64_t> seen;
  long failures = 0;
};

// run one execution result through oracle + emit; returns false when enough failures were collected
static bool finish(Ctx &cx, const Prog &prog, const std::string &how, std::shared_ptr<State> st, const vs::Result &r) {
  if (st->kind != EVENT && r.status == vs::COMPLETED) st->final_q = show_q(*st);
  std::vector<std::string> failures;
  oracle(prog, *st, r, &failures);
  // the same schedule found twice (DFS and random): one case
  uint64_t key = vh::Runner::fnv(prog_line(prog) + "|" + r.schedule());
  if (failures.empty() && !cx.seen.insert(key).second) return true;
  emit(*cx.R, prog, how, *st, r, failures);
  if (!failures.empty()) ++cx.failures;
  return cx.failures < 12;
}

static vs::RunOptions run_opts(int spurious) {
  vs::RunOptions o;
  o.spurious_budget = spurious;
  o.max_steps = 400;
  o.on_step = [](const vs::Step &s) { g_pending_ops.push_back(s.choice.str()); };
  return o;
}

struct Holder {  // factory that remembers the state of the execution it started last
  const Prog *prog;
  std::shared_ptr<State> last;
  vs::Factory factory() {
    return [this] {
      g_pending_ops.clear();
      g_pending_prog = prog_line(*prog);
      g_pending_header = prog->id + " crashed";
      return make_program(*prog, &last);
    };
  }
};

// ------------------------------------------------------------------------------------------------
// programs
// ------------------------------------------------------------------------------------------------
static Call C(CallT t, int v = 0, int p = 0) {
  Call c;
  c.t = t;
  c.v = v;
  c.p = p;
  return c;
}
static int prio_of(int v) {  // ties (1,2) and (4,5), a negative priority
  static const int t[] = {0, 5, 5, 9, -3, -3, 2, 7};
  return t[v % 8];
}
static Call Pu(int v) { return C(PUSH, v, prio_of(v)); }
static Call Pf(int v) { return C(PUSHF, v, prio_of(v)); }

static std::vector<Prog> queue_programs(Kind k, bool thorough) {
  std::vector<Prog> ps;
  auto add = [&](const char *id, std::vector<std::vector<Call>> th) {
    Prog p;
    p.kind = k;
    p.id = std::string(k == FIFO ? "F-" : "P-") + id;
    th.push_back({C(FIN)});
    p.threads = th;
    ps.push_back(p);
  };
  add("1p2-1c2", {{Pu(1), Pu(2)}, {C(POP), C(POP)}});
  add("1pf-2c", {{Pu(1), Pf(2)}, {C(POP)}, {C(POP)}});
  add("2p-1c3", {{Pu(1)}, {Pf(2)}, {C(POP), C(POP), C(POP)}});
  add("1p-3c", {{Pu(1), Pu(2)}, {C(POP)}, {C(POP)}, {C(POP)}});
  add("3p-1c3", {{Pu(1)}, {Pu(2)}, {Pf(3)}, {C(POP), C(POP), C(POP)}});
  add("1p2-1c2-k", {{Pu(1), Pu(2)}, {C(POP), C(POP)}, {C(KILL)}});
  add("1ps-1c2", {{Pu(1), C(SIZE), Pu(2)}, {C(POP), C(POP)}});
  add("2p-2c", {{Pu(1), Pu(2)}, {Pf(3)}, {C(POP), C(POP)}, {C(POP)}});
  add("2p-2c-k", {{Pu(1)}, {Pf(2)}, {C(POP)}, {C(POP), C(SIZE)}, {C(KILL)}});
  add("3p-3c", {{Pu(1)}, {Pu(2)}, {Pu(3)}, {C(POP)}, {C(POP)}, {C(POP)}});
  // SignalForKill with several consumers blocked and no push left that could wake the others by accident
  add("0p-2c-k", {{C(POP)}, {C(POP)}, {C(KILL)}});
  add("1p-3c-k", {{Pu(1)}, {C(POP)}, {C(POP)}, {C(POP)}, {C(KILL)}});
  if (thorough) {
    add("3p-3c-k", {{Pu(1), Pu(4)}, {Pf(2)}, {Pu(3)}, {C(POP), C(POP)}, {C(POP)}, {C(POP)}, {C(KILL)}});
    add("2k", {{Pu(1)}, {C(POP), C(POP)}, {C(KILL)}, {C(KILL)}});
  }
  return ps;
}
static std::vector<Prog> event_programs(bool thorough) {
  std::vector<Prog> ps;
  auto add = [&](const char *id, std::vector<std::vector<Call>> th) {
    Prog p;
    p.kind = EVENT;
    p.id = std::string("E-") + id;
    th.push_back({C(FIN)});
    p.threads = th;
    ps.push_back(p);
  };
  add("w-s", {{C(WAIT)}, {C(SIGNAL)}});
  add("w-s-r", {{C(WAIT)}, {C(SIGNAL)}, {C(RESET)}});
  add("2w-s", {{C(WAIT)}, {C(WAIT)}, {C(SIGNAL)}});
  add("w-sr", {{C(WAIT)}, {C(SIGNAL), C(RESET)}});
  add("w-rs", {{C(WAIT)}, {C(RESET), C(SIGNAL)}});
  add("ww-s-r", {{C(WAIT), C(WAIT)}, {C(SIGNAL)}, {C(RESET)}});
  add("2w-s-r", {{C(WAIT)}, {C(WAIT)}, {C(SIGNAL)}, {C(RESET)}});
  add("w-2s-r", {{C(WAIT)}, {C(SIGNAL)}, {C(SIGNAL)}, {C(RESET)}});
  if (thorough) add("2w-2s-2r", {{C(WAIT)}, {C(WAIT)}, {C(SIGNAL)}, {C(SIGNAL)}, {C(RESET)}, {C(RESET)}});
  return ps;
}

// ------------------------------------------------------------------------------------------------
// sequential histories: ONE worker thread (plus the finaliser), so the schedule is forced and no
// exploration is needed; what varies is the history.  They reach container states the small scheduled
// programs cannot (many queued entries, heap shapes): exhaustive over short priority patterns and
// push/pushFront patterns, plus seeded random long histories.  Same model comparison, same oracle.
// ------------------------------------------------------------------------------------------------
static void run_history(Ctx &cx, Kind k, const std::string &id, const std::vector<Call> &script) {
  Prog prog;
  prog.kind = k;
  prog.id = id;
  prog.threads = {script, {C(FIN)}};
  Holder h{&prog, nullptr};
  vs::RunOptions o = run_opts(0);
  o.max_steps = 4000;
  vs::Result r = vs::run_replay(h.factory(), std::vector<vs::Choice>(), o);
  g_pending_prog.clear();
  finish(cx, prog, "seq", h.last, r);
  cx.R->extra["sequential_histories"] += 1;
}

static void histories(Ctx &cx, vh::Rng &rng, bool th) {
  // (a) priority variant: every sequence of <= 5 pushes over 5 distinct priorities (ties included when a
  //     priority repeats), then pop everything; Push and PushFront alternate by position
  const int pr[5] = {-2, 0, 1, 5, 10};
  for (int len = 1; len <= 5 && cx.failures < 12; ++len) {
    int total = 1;
    for (int i = 0; i < len; ++i) total *= 5;
    for (int code = 0; code < total && cx.failures < 12; ++code) {
      std::vector<Call> sc;
      int c = code;
      for (int i = 0; i < len; ++i, c /= 5) sc.push_back(C((code + i) % 3 == 0 ? PUSHF : PUSH, i + 1, pr[c % 5]));
      for (int i = 0; i < len; ++i) sc.push_back(C(POP));
      run_history(cx, PRIO, "H-prio-all" + std::to_string(len), sc);
    }
  }
  // (b) the same with pops in the middle: 5 (thorough: 6) pushes over 4 priorities, one Pop after the
  //     k-th push, k = 2..len-1, the rest popped at the end
  {
    int len = th ? 6 : 5;
    int total = 1;
    for (int i = 0; i < len; ++i) total *= 4;
    for (int code = 0; code < total && cx.failures < 12; ++code)
      for (int k = 2; k < len; ++k) {
        if (!th && (code + k) % 2) continue;  // quick: half of them
        std::vector<Call> sc;
        int c = code;
        for (int i = 0; i < len; ++i, c /= 4) {
          sc.push_back(C(PUSH, i + 1, pr[1 + c % 4]));
          if (i + 1 == k) sc.push_back(C(POP));
        }
        for (int i = 0; i + 1 < len; ++i) sc.push_back(C(POP));
        run_history(cx, PRIO, "H-prio-mid" + std::to_string(len), sc);
      }
  }
  // (c) FIFO: every string over {Push, PushFront, Pop-if-non-empty} of length <= 7, then pop everything
  for (int len = 1; len <= (th ? 8 : 7) && cx.failures < 12; ++len) {
    int total = 1;
    for (int i = 0; i < len; ++i) total *= 3;
    for (int code = 0; code < total && cx.failures < 12; ++code) {
      std::vector<Call> sc;
      int c = code, queued = 0, v = 0;
      bool skip = false;
      for (int i = 0; i < len; ++i, c /= 3) {
        int op = c % 3;
        if (op == 2) {
          if (!queued) { skip = true; break; }  // would block: covered by the scheduled programs
          sc.push_back(C(POP));
          --queued;
        } else {
          sc.push_back(C(op ? PUSHF : PUSH, ++v, 0));
          ++queued;
        }
      }
      if (skip) continue;
      sc.push_back(C(SIZE));
      for (int i = 0; i < queued; ++i) sc.push_back(C(POP));
      run_history(cx, FIFO, "H-fifo-all" + std::to_string(len), sc);
    }
  }
  // (d) seeded random long histories, both variants: 20-70 calls, up to ~30 queued entries, priorities
  //     from a narrow (many ties) or a wide range, occasional Size
  long nrand = th ? 1500 : 150;
  for (long it = 0; it < nrand && cx.failures < 12; ++it) {
    Kind k = it % 3 == 0 ? FIFO : PRIO;
    int n = 20 + static_cast<int>(rng.below(51));
    int range = rng.chance(1, 3) ? 3 : (rng.chance(1, 2) ? 8 : 1000);
    unsigned pop_num = 2 + static_cast<unsigned>(rng.below(4));  // pop probability pop_num/8
    std::vector<Call> sc;
    int queued = 0, v = 0;
    for (int i = 0; i < n; ++i) {
      if (queued && (queued >= 30 || rng.chance(pop_num, 8))) {
        sc.push_back(C(POP));
        --queued;
      } else if (rng.chance(1, 12)) {
        sc.push_back(C(SIZE));
      } else {
        sc.push_back(C(rng.chance(1, 3) ? PUSHF : PUSH, ++v, static_cast<int>(rng.below(range)) - range / 2));
        ++queued;
      }
    }
    for (int i = 0; i < queued; ++i) sc.push_back(C(POP));
    run_history(cx, k, k == FIFO ? "H-fifo-rand" : "H-prio-rand", sc);
  }
}

int main(int argc, char **argv) {
  vh::Runner R;
  R.parse(argc, argv);
  g_R = &R;
  signal(SIGABRT, on_abort);
  if (__sanitizer_set_death_callback) __sanitizer_set_death_callback(dump_pending);
  Ctx cx;
  cx.R = &R;
  if (!R.replay.empty()) {
    std::ifstream in(R.replay);
    std::string line;
    Prog prog;
    bool have = false;
    std::vector<vs::Choice> choices;
    int nspur = 0;
    auto flush = [&] {
      if (!have) return;
      Holder h{&prog, nullptr};
      vs::RunOptions ro = run_opts(nspur);
      ro.max_steps = 4000;
      vs::Result r = vs::run_replay(h.factory(), choices, ro);
      g_pending_prog.clear();
      finish(cx, prog, "replay", h.last, r);
      have = false;
      choices.clear();
      nspur = 0;
    };
    while (std::getline(in, line)) {
      auto w = vh::split_ws(line);
      if (w.empty()) continue;
      if (w[0] == "case") { flush(); continue; }
      if (w[0] == "prog") {
        flush();
        have = parse_prog(w, &prog);
        continue;
      }
      vs::Choice c;
      if (have && vs::Choice::parse(w[0], &c)) {
        choices.push_back(c);
        if (c.spurious) ++nspur;
      }
    }
    flush();
    R.finish();
    return 0;
  }
  bool th = R.thorough();
  std::vector<Prog> progs;
  for (auto &p : event_programs(th)) progs.push_back(p);
  for (auto &p : queue_programs(FIFO, th)) progs.push_back(p);
  for (auto &p : queue_programs(PRIO, th)) progs.push_back(p);
  vh::Rng rng(R.seed);
  histories(cx, rng, th);
  long cap = th ? 6000 : 1200;
  for (auto &prog : progs) {
    if (cx.failures >= 12) break;
    Holder h{&prog, nullptr};
    vs::Factory f = h.factory();
    // (1) all schedules with <= 2 (quick) / 3 (thorough) preemptions and <= 1 spurious wake-up
    vs::ExploreOptions eo;
    eo.preemption_bound = th ? 3 : 2;
    eo.run = run_opts(1);
    eo.max_executions = cap;
    eo.max_abandoned = 3;
    bool go = true;
    vs::ExploreStats es = vs::explore(f, eo, [&](const vs::Result &r) {
      go = finish(cx, prog, "dfs", h.last, r);
      return go;
    });
    R.extra[es.complete ? "programs_explored_completely" : "programs_capped"] += 1;
    R.extra["dfs_executions"] += es.executions;
    if (es.nondeterminism) R.extra["nondeterministic_programs"] += 1;
    // (2) seeded random and PCT schedules, up to 3 spurious wake-ups
    long nrand = th ? 600 : 60;
    for (long i = 0; go && i < nrand; ++i) {
      uint64_t sd = rng.next();
      vs::Result r = (i % 3 == 2) ? vs::run_pct(f, sd, 3, run_opts(3), 30) : vs::run_random(f, sd, run_opts(3));
      go = finish(cx, prog, i % 3 == 2 ? "pct" : "random", h.last, r);
      R.extra["random_executions"] += 1;
    }
    g_pending_prog.clear();
    if (cx.failures >= 12) break;
  }
  R.finish();
  return 0;
}
