// C15 harness, default build of the serializer (DMLC_IO_USE_LITTLE_ENDIAN = 1: no byte swapping on
// this little-endian host).  See h_ser_impl.inc.
#define SER_NS ser_le
#define SER_DMLC dmlc_ser_le
#define SER_CFG "le"
#define SER_BACKEND ser_backend_le
#define SER_SWAP 0
#include "h_ser_impl.inc"
