// Correspondence harness + oracle for C16 (JSONWriter / JSONReader round trip, well-formed output,
// malformed input is safe).  Runs the REAL dmlc::JSONWriter / JSONReader / json::Handler<T> /
// JSONObjectReadHelper / AnyJSONManager on ~40 concrete C++ types.
//
//   write <ty> <val>   ->  text <hex> | err:check
//   read  <ty> <hex>   ->  ok <val> rest=<unread bytes> lr=<line_count_r_> ln=<line_count_n_> | err:check | hang
//   wf <hex>           ->  wf 1 | wf 0        (the harness's own strict RFC 8259 recogniser)
//
// type / value descriptors: see lean/Driver/Json.lean.  unordered_map values travel in the iteration
// order of the C++ container on `write` (the model cannot know the hash order) and are printed sorted by
// key in `read` results.
#include <algorithm>
#include <cctype>
#include <csetjmp>
#include <csignal>
#include <iostream>
#include <limits>
#include <list>
#include <map>
#include <memory>
#include <sstream>
#include <string>
#include <typeindex>
#include <typeinfo>
#include <unordered_map>
#include <utility>
#include <vector>
#include <sys/time.h>
#include <dmlc/base.h>
#include <dmlc/logging.h>
#include <dmlc/type_traits.h>
#include <dmlc/any.h>
#define private public      // line counters / scope stacks are read, never written, by the harness
#include <dmlc/json.h>
#undef private
#include "common/proto.h"

using vh::Case;

// ------------------------------------------------------------------------------------------------
// small helpers
// ------------------------------------------------------------------------------------------------
static std::string hexraw(const std::string &s) {
  static const char *d = "0123456789abcdef";
  std::string o;
  for (unsigned char c : s) { o.push_back(d[c >> 4]); o.push_back(d[c & 15]); }
  return o;
}
static std::string q(const std::string &s) { return "\"" + hexraw(s) + "\""; }

struct Cur {
  const std::string &s;
  size_t i;
  bool eat(char c) { if (i < s.size() && s[i] == c) { ++i; return true; } return false; }
  char peek() const { return i < s.size() ? s[i] : '\0'; }
  bool quoted(std::string *out) {
    if (!eat('"')) return false;
    size_t j = i;
    while (j < s.size() && isxdigit(static_cast<unsigned char>(s[j]))) ++j;
    if ((j - i) % 2) return false;
    *out = vh::unhex(s.substr(i, j - i));
    if (j == i) out->clear();
    i = j;
    return eat('"');
  }
};

// value generator state
struct Gen {
  vh::Rng *rng;
  bool ctrl_ok;   // may strings contain control characters other than \t \n \r ?
  int hot;        // 0: mixed alphabet, 1: mostly the five escaped bytes and structural characters
  size_t big;     // != 0: the top-level container gets exactly this many entries (sizes around powers of two, where
                  // counters of a narrower type wrap and buffers are regrown)
  std::string str() {
    vh::Rng &r = *rng;
    size_t len = r.chance(1, 8) ? 0 : (r.chance(1, 2) ? 1 + r.below(3) : 1 + r.below(r.chance(1, 10) ? 40 : 12));
    std::string s;
    static const char special[] = "\"\\\n\r\t{}[],: /unrtbf'0-+e.";
    for (size_t i = 0; i < len; ++i) {
      unsigned k = r.below(hot ? 6 : 12);
      unsigned char c;
      if (k < 5) c = special[r.below(k < 2 ? 5 : sizeof(special) - 1)];
      else if (k == 5) c = ctrl_ok ? r.below(0x20) : "\t\n\r"[r.below(3)];
      else if (k == 6) c = 0x7f + r.below(0x81);
      else if (k == 7) c = r.below(256);
      else c = 'a' + r.below(26);
      if (!ctrl_ok && c < 0x20 && c != '\t' && c != '\n' && c != '\r') c = ' ';
      s.push_back(static_cast<char>(c));
    }
    return s;
  }
  size_t count(int depth) {
    vh::Rng &r = *rng;
    if (big != 0) return depth == 0 ? big : (depth > 1 ? 0 : r.below(2));
    if (r.chance(1, 7)) return 0;
    if (depth == 0 && r.chance(1, 9)) return 10 + r.below(3);   // around the `size > 10` rule
    if (depth > 1) return r.below(3);
    return 1 + r.below(4);
  }
};

// independent reference emitter (for reader-only tests): any whitespace the reader skips, any order of
// object members, optional class fields may be left out
struct RefOut {
  std::string s;
  vh::Rng *rng;
  bool vary;   // permute / omit / odd spellings
  void ws() {
    size_t n = rng->chance(1, 2) ? 0 : 1 + rng->below(2);
    for (size_t i = 0; i < n; ++i) s.push_back(" \t\n\r\v\f  \n"[rng->below(9)]);
  }
  void str(const std::string &v) {
    s.push_back('"');
    for (char c : v) {
      switch (c) {
        case '"': s += "\\\""; break;
        case '\\': s += "\\\\"; break;
        case '\n': s += "\\n"; break;
        case '\r': s += "\\r"; break;
        case '\t': if (rng->chance(1, 2)) s += "\\t"; else s.push_back(c); break;   // a raw tab is accepted too
        default: s.push_back(c);
      }
    }
    s.push_back('"');
  }
};

template <typename T, typename Enable = void>
struct Codec;

// ---- std::string -------------------------------------------------------------------------------
template <>
struct Codec<std::string> {
  static std::string ty() { return "s"; }
  static void print(const std::string &v, bool, std::string *o) { *o += q(v); }
  static bool parse(Cur &c, std::string *v) { return c.quoted(v); }
  static void gen(Gen &g, int, std::string *v) { *v = g.str(); }
  static bool clean(const std::string &v) {
    for (unsigned char c : v) if (c < 0x20 && c != '\t' && c != '\n' && c != '\r') return false;
    return true;
  }
  static bool keyhot(const std::string &) { return false; }
  static void ref(std::string &v, RefOut &o) { o.str(v); }
};
static bool has_escaped_byte(const std::string &k) { return k.find_first_of("\"\\\r\n\t") != std::string::npos; }

// ---- integers ----------------------------------------------------------------------------------
template <typename T>
struct IntName;
#define INTNAME(T, N) template <> struct IntName<T> { static const char *name() { return N; } }
INTNAME(int16_t, "i16"); INTNAME(int32_t, "i32"); INTNAME(int64_t, "i64");
INTNAME(uint16_t, "u16"); INTNAME(uint32_t, "u32"); INTNAME(uint64_t, "u64");

template <typename T>
struct Codec<T, typename std::enable_if<std::is_integral<T>::value && !std::is_same<T, bool>::value>::type> {
  static std::string ty() { return IntName<T>::name(); }
  static void print(const T &v, bool, std::string *o) { *o += std::to_string(v); }
  static bool parse(Cur &c, T *v) {
    size_t j = c.i;
    if (j < c.s.size() && c.s[j] == '-') ++j;
    size_t d = j;
    while (j < c.s.size() && isdigit(static_cast<unsigned char>(c.s[j]))) ++j;
    if (j == d) return false;
    std::string t = c.s.substr(c.i, j - c.i);
    if (std::is_signed<T>::value) *v = static_cast<T>(strtoll(t.c_str(), nullptr, 10));
    else *v = static_cast<T>(strtoull(t.c_str(), nullptr, 10));
    c.i = j;
    return true;
  }
  static void gen(Gen &g, int, T *v) {
    vh::Rng &r = *g.rng;
    switch (r.below(8)) {
      case 0: *v = std::numeric_limits<T>::min(); break;
      case 1: *v = std::numeric_limits<T>::max(); break;
      case 2: *v = 0; break;
      case 3: *v = static_cast<T>(-1); break;
      case 4: *v = static_cast<T>(r.below(100)); break;
      case 5: *v = static_cast<T>(std::numeric_limits<T>::max() - r.below(3)); break;
      default: *v = static_cast<T>(r.next() >> r.below(64));
               if (std::is_signed<T>::value && r.chance(1, 2)) *v = static_cast<T>(~*v);
    }
  }
  static bool clean(const T &) { return true; }
  static bool keyhot(const T &) { return false; }
  static void ref(T &v, RefOut &o) {
    std::string t = std::to_string(v);
    if (o.vary && o.rng->chance(1, 8)) {   // spellings operator>> accepts
      if (t[0] == '-') t = "-00" + t.substr(1); else t = (o.rng->chance(1, 2) ? "+" : "0") + t;
    }
    o.s += t;
  }
};

template <>
struct Codec<bool> {
  static std::string ty() { return "b"; }
  static void print(const bool &v, bool, std::string *o) { *o += v ? "t" : "f"; }
  static bool parse(Cur &c, bool *v) {
    if (c.eat('t')) { *v = true; return true; }
    if (c.eat('f')) { *v = false; return true; }
    return false;
  }
  static void gen(Gen &g, int, bool *v) { *v = g.rng->chance(1, 2); }
  static bool clean(const bool &) { return true; }
  static bool keyhot(const bool &) { return false; }
  static void ref(bool &v, RefOut &o) { o.s += v ? "1" : "0"; }
};

// ---- pair --------------------------------------------------------------------------------------
template <typename A, typename B>
struct Codec<std::pair<A, B>> {
  typedef std::pair<A, B> T;
  static std::string ty() { return "p(" + Codec<A>::ty() + "," + Codec<B>::ty() + ")"; }
  static void print(const T &v, bool sorted, std::string *o) {
    *o += "("; Codec<A>::print(v.first, sorted, o); *o += ","; Codec<B>::print(v.second, sorted, o); *o += ")";
  }
  static bool parse(Cur &c, T *v) {
    return c.eat('(') && Codec<A>::parse(c, &v->first) && c.eat(',') && Codec<B>::parse(c, &v->second) && c.eat(')');
  }
  static void gen(Gen &g, int d, T *v) { Codec<A>::gen(g, d + 1, &v->first); Codec<B>::gen(g, d + 1, &v->second); }
  static bool clean(const T &v) { return Codec<A>::clean(v.first) && Codec<B>::clean(v.second); }
  static bool keyhot(const T &v) { return Codec<A>::keyhot(v.first) || Codec<B>::keyhot(v.second); }
  static void ref(T &v, RefOut &o) {
    o.s += "["; o.ws(); Codec<A>::ref(v.first, o); o.ws(); o.s += ","; o.ws(); Codec<B>::ref(v.second, o); o.ws(); o.s += "]";
  }
};

// ---- vector / list -----------------------------------------------------------------------------
template <typename C, char Tag>
struct SeqCodec {
  typedef typename C::value_type E;
  static std::string ty() { return std::string(1, Tag) + "(" + Codec<E>::ty() + ")"; }
  static void print(const C &v, bool sorted, std::string *o) {
    *o += "[";
    bool first = true;
    for (typename C::const_iterator it = v.begin(); it != v.end(); ++it) {
      if (!first) *o += ",";
      first = false;
      const E e = *it;
      Codec<E>::print(e, sorted, o);
    }
    *o += "]";
  }
  static bool parse(Cur &c, C *v) {
    v->clear();
    if (!c.eat('[')) return false;
    if (c.eat(']')) return true;
    while (true) {
      E e = E();
      if (!Codec<E>::parse(c, &e)) return false;
      v->insert(v->end(), e);
      if (c.eat(']')) return true;
      if (!c.eat(',')) return false;
    }
  }
  static void gen(Gen &g, int d, C *v) {
    v->clear();
    size_t n = g.count(d);
    for (size_t i = 0; i < n; ++i) { E e = E(); Codec<E>::gen(g, d + 1, &e); v->insert(v->end(), e); }
  }
  static bool clean(const C &v) {
    for (typename C::const_iterator it = v.begin(); it != v.end(); ++it) { const E e = *it; if (!Codec<E>::clean(e)) return false; }
    return true;
  }
  static bool keyhot(const C &v) {
    for (typename C::const_iterator it = v.begin(); it != v.end(); ++it) { const E e = *it; if (Codec<E>::keyhot(e)) return true; }
    return false;
  }
  static void ref(C &v, RefOut &o) {
    o.s += "["; o.ws();
    C copy;
    bool first = true;
    for (typename C::iterator it = v.begin(); it != v.end(); ++it) {
      if (!first) { o.s += ","; o.ws(); }
      first = false;
      E e = *it;
      Codec<E>::ref(e, o);
      copy.insert(copy.end(), e);
      o.ws();
    }
    v = copy;
    o.s += "]";
  }
};
template <typename E> struct Codec<std::vector<E>> : SeqCodec<std::vector<E>, 'v'> {};
template <typename E> struct Codec<std::list<E>> : SeqCodec<std::list<E>, 'l'> {};

// ---- map / unordered_map -----------------------------------------------------------------------
template <typename M, bool Unordered>
struct MapCodec {
  typedef typename M::mapped_type E;
  static std::string ty() { return std::string(Unordered ? "um(" : "m(") + Codec<E>::ty() + ")"; }
  static void print(const M &v, bool sorted, std::string *o) {
    std::vector<typename M::const_iterator> its;
    for (typename M::const_iterator it = v.begin(); it != v.end(); ++it) its.push_back(it);
    if (sorted)
      std::sort(its.begin(), its.end(), [](typename M::const_iterator a, typename M::const_iterator b) { return a->first < b->first; });
    *o += "{";
    for (size_t i = 0; i < its.size(); ++i) {
      if (i) *o += ",";
      *o += q(its[i]->first) + ":";
      Codec<E>::print(its[i]->second, sorted, o);
    }
    *o += "}";
  }
  static void reserve(std::map<std::string, E> *, size_t) {}
  static void reserve(std::unordered_map<std::string, E> *m, size_t n) { m->reserve(n); }
  static bool parse(Cur &c, M *v) {
    v->clear();
    if (!c.eat('{')) return false;
    std::vector<std::pair<std::string, E>> kvs;
    if (!c.eat('}')) {
      while (true) {
        std::pair<std::string, E> kv;
        if (!c.quoted(&kv.first) || !c.eat(':') || !Codec<E>::parse(c, &kv.second)) return false;
        kvs.push_back(kv);
        if (c.eat('}')) break;
        if (!c.eat(',')) return false;
      }
    }
    // no rehash while filling + insertion in reverse order: a libstdc++ unordered_map then iterates
    // in the order of the text whenever that text was printed from a table of the same size
    reserve(v, kvs.size());
    for (size_t i = kvs.size(); i-- > 0;) v->insert(kvs[i]);
    return true;
  }
  static void gen(Gen &g, int d, M *v) {
    v->clear();
    size_t n = g.count(d);
    if (n > 6) n = 2;
    for (size_t i = 0; i < n; ++i) {
      std::string k = g.str();
      if (g.rng->chance(1, 3) && k.size() > 3) k.resize(1 + g.rng->below(3));
      E e = E();
      Codec<E>::gen(g, d + 1, &e);
      (*v)[k] = e;
    }
  }
  static bool clean(const M &v) {
    for (typename M::const_iterator it = v.begin(); it != v.end(); ++it)
      if (!Codec<std::string>::clean(it->first) || !Codec<E>::clean(it->second)) return false;
    return true;
  }
  static bool keyhot(const M &v) {
    for (typename M::const_iterator it = v.begin(); it != v.end(); ++it)
      if (has_escaped_byte(it->first) || Codec<E>::keyhot(it->second)) return true;
    return false;
  }
  static void ref(M &v, RefOut &o) {
    std::vector<std::pair<std::string, E>> kvs(v.begin(), v.end());
    if (o.vary) for (size_t i = kvs.size(); i > 1; --i) std::swap(kvs[i - 1], kvs[o.rng->below(i)]);
    o.s += "{"; o.ws();
    v.clear();
    for (size_t i = 0; i < kvs.size(); ++i) {
      if (i) { o.s += ","; o.ws(); }
      o.str(kvs[i].first); o.ws(); o.s += ":"; o.ws();
      Codec<E>::ref(kvs[i].second, o);
      v[kvs[i].first] = kvs[i].second;
      o.ws();
    }
    o.s += "}";
  }
};
template <typename E> struct Codec<std::map<std::string, E>> : MapCodec<std::map<std::string, E>, false> {};
template <typename E> struct Codec<std::unordered_map<std::string, E>> : MapCodec<std::unordered_map<std::string, E>, true> {};

// ---- classes with Save / Load -------------------------------------------------------------------
struct SaveVisitor {
  dmlc::JSONWriter *w;
  template <typename T> void operator()(const char *name, bool, T &m) { w->WriteObjectKeyValue(name, m); }
};
struct DeclVisitor {
  dmlc::JSONObjectReadHelper *h;
  template <typename T> void operator()(const char *name, bool opt, T &m) {
    if (opt) h->DeclareOptionalField(name, &m); else h->DeclareField(name, &m);
  }
};
#define VERIF_SAVE_LOAD(S)                                                                               \
  void Save(dmlc::JSONWriter *w) const { SaveVisitor v{w}; w->BeginObject(); const_cast<S *>(this)->each(v); w->EndObject(); } \
  void Load(dmlc::JSONReader *r) { dmlc::JSONObjectReadHelper h; DeclVisitor v{&h}; each(v); h.ReadAllFields(r); }

struct Rec1 {   // all fields required
  std::string name;
  int32_t value = 0;
  std::vector<int32_t> tags;
  template <typename F> void each(F &f) { f("name", false, name); f("value", false, value); f("tags", false, tags); }
  VERIF_SAVE_LOAD(Rec1)
};
struct Rec2 {   // optional fields; field names that need escaping
  std::string id;
  uint16_t x = 0;
  std::map<std::string, Rec1> sub;
  std::vector<std::string> notes;
  template <typename F> void each(F &f) {
    f("id", false, id); f("x\"y", true, x); f("sub\\map", true, sub); f("notes: [a,b]\t{}", false, notes);
  }
  VERIF_SAVE_LOAD(Rec2)
};
struct Pod3 {   // a POD class: arrays of it follow the `size > 10` rule
  int32_t a;
  int64_t b;
  template <typename F> void each(F &f) { f("a", false, a); f("b", false, b); }
  VERIF_SAVE_LOAD(Pod3)
};
struct Rec4 {   // nesting: class in class, any in class
  Rec2 inner;
  dmlc::any extra;
  std::unordered_map<std::string, int16_t> counts;
  bool flag = false;
  template <typename F> void each(F &f) { f("inner", false, inner); f("extra", false, extra); f("counts", true, counts); f("flag", true, flag); }
  VERIF_SAVE_LOAD(Rec4)
};

struct TyVisitor { std::string s; template <typename T> void operator()(const char *n, bool opt, T &) { s += (s.empty() ? "" : ",") + hexraw(n) + (opt ? ":o:" : ":r:") + Codec<T>::ty(); } };
struct PrintVisitor { bool sorted; std::string *o; bool first; template <typename T> void operator()(const char *, bool, T &m) { if (!first) *o += ","; first = false; Codec<T>::print(m, sorted, o); } };
struct ParseVisitor { Cur *c; bool ok; bool first; template <typename T> void operator()(const char *, bool, T &m) { if (!ok) return; if (!first && !c->eat(',')) { ok = false; return; } first = false; ok = Codec<T>::parse(*c, &m); } };
struct GenVisitor { Gen *g; int d; template <typename T> void operator()(const char *, bool, T &m) { Codec<T>::gen(*g, d + 1, &m); } };
struct CleanVisitor { bool ok; template <typename T> void operator()(const char *, bool, T &m) { ok = ok && Codec<T>::clean(m); } };
struct HotVisitor { bool hot; template <typename T> void operator()(const char *n, bool, T &m) { hot = hot || has_escaped_byte(n) || Codec<T>::keyhot(m); } };
struct CountVisitor { size_t n; template <typename T> void operator()(const char *, bool, T &) { ++n; } };
struct RefVisitor {   // emits field number `want` (or resets it to the default when it is left out)
  RefOut *o; size_t want, idx; bool omit; bool *emitted;
  template <typename T> void operator()(const char *n, bool opt, T &m) {
    if (idx++ != want) return;
    if (omit && opt) { m = T(); return; }
    if (*emitted) { o->s += ","; o->ws(); }
    *emitted = true;
    o->str(n); o->ws(); o->s += ":"; o->ws(); Codec<T>::ref(m, *o); o->ws();
  }
};
template <typename S>
struct StructCodec {
  static std::string ty() { S s = S(); TyVisitor v; s.each(v); return std::string("c(") + (std::is_pod<S>::value ? "p;" : "n;") + v.s + ")"; }
  static void print(const S &s, bool sorted, std::string *o) { *o += "<"; PrintVisitor v{sorted, o, true}; const_cast<S &>(s).each(v); *o += ">"; }
  static bool parse(Cur &c, S *s) { if (!c.eat('<')) return false; ParseVisitor v{&c, true, true}; s->each(v); return v.ok && c.eat('>'); }
  static void gen(Gen &g, int d, S *s) { GenVisitor v{&g, d}; s->each(v); }
  static bool clean(const S &s) { CleanVisitor v{true}; const_cast<S &>(s).each(v); return v.ok; }
  static bool keyhot(const S &s) { HotVisitor v{false}; const_cast<S &>(s).each(v); return v.hot; }
  static void ref(S &s, RefOut &o) {
    CountVisitor cv{0}; s.each(cv);
    std::vector<size_t> order(cv.n);
    for (size_t i = 0; i < cv.n; ++i) order[i] = i;
    if (o.vary) for (size_t i = cv.n; i > 1; --i) std::swap(order[i - 1], order[o.rng->below(i)]);
    o.s += "{"; o.ws();
    bool emitted = false;
    for (size_t k = 0; k < cv.n; ++k) { RefVisitor v{&o, order[k], 0, o.vary && o.rng->chance(1, 3), &emitted}; s.each(v); }
    o.s += "}";
  }
};
template <> struct Codec<Rec1> : StructCodec<Rec1> {};
template <> struct Codec<Rec2> : StructCodec<Rec2> {};
template <> struct Codec<Pod3> : StructCodec<Pod3> {};
template <> struct Codec<Rec4> : StructCodec<Rec4> {};

// ---- dmlc::any ---------------------------------------------------------------------------------
typedef std::vector<std::string> StrVec;
typedef std::pair<int16_t, std::string> WeirdPair;
DMLC_JSON_ENABLE_ANY(StrVec, strs);
DMLC_JSON_ENABLE_ANY(int32_t, num);
static const char *kWeirdName = "w\"\\\n:,]";
struct AnyAlt {
  std::string name;
  std::type_index tid;
  std::string (*ty)();
  void (*print)(const dmlc::any &, bool, std::string *);
  bool (*parse)(Cur &, dmlc::any *);
  void (*gen)(Gen &, int, dmlc::any *);
  bool (*clean)(const dmlc::any &);
  bool (*keyhot)(const dmlc::any &);
  void (*ref)(dmlc::any &, RefOut &);
};
template <typename T>
static AnyAlt make_alt(const std::string &name) {
  return AnyAlt{name, std::type_index(typeid(T)), &Codec<T>::ty,
                [](const dmlc::any &a, bool s, std::string *o) { Codec<T>::print(dmlc::get<T>(a), s, o); },
                [](Cur &c, dmlc::any *a) { T t = T(); if (!Codec<T>::parse(c, &t)) return false; *a = t; return true; },
                [](Gen &g, int d, dmlc::any *a) { T t = T(); Codec<T>::gen(g, d, &t); *a = t; },
                [](const dmlc::any &a) { return Codec<T>::clean(dmlc::get<T>(a)); },
                [](const dmlc::any &a) { return Codec<T>::keyhot(dmlc::get<T>(a)); },
                [](dmlc::any &a, RefOut &o) { T t = dmlc::get<T>(a); Codec<T>::ref(t, o); a = t; }};
}
static std::vector<AnyAlt> &any_alts() {
  static std::vector<AnyAlt> alts;
  if (alts.empty()) {
    dmlc::json::AnyJSONManager::Global()->EnableType<WeirdPair>(kWeirdName);
    alts.push_back(make_alt<StrVec>("strs"));
    alts.push_back(make_alt<int32_t>("num"));
    alts.push_back(make_alt<WeirdPair>(kWeirdName));
  }
  return alts;
}
template <>
struct Codec<dmlc::any> {
  static std::string ty() {
    std::string s = "a(";
    for (size_t i = 0; i < any_alts().size(); ++i) s += (i ? "," : "") + hexraw(any_alts()[i].name) + "=" + any_alts()[i].ty();
    return s + ")";
  }
  static const AnyAlt *alt_of(const dmlc::any &a) {
    if (a.empty()) return nullptr;
    for (auto &x : any_alts()) if (x.tid == std::type_index(a.type())) return &x;
    return nullptr;
  }
  static void print(const dmlc::any &a, bool sorted, std::string *o) {
    const AnyAlt *x = alt_of(a);
    if (!x) { *o += "@\"\"=\"\""; return; }
    *o += "@" + q(x->name) + "=";
    x->print(a, sorted, o);
  }
  static bool parse(Cur &c, dmlc::any *a) {
    std::string name;
    if (!c.eat('@') || !c.quoted(&name) || !c.eat('=')) return false;
    for (auto &x : any_alts()) if (x.name == name) return x.parse(c, a);
    std::string dummy;
    *a = dmlc::any();
    return c.quoted(&dummy);
  }
  static void gen(Gen &g, int d, dmlc::any *a) { any_alts()[g.rng->below(any_alts().size())].gen(g, d + 1, a); }
  static bool clean(const dmlc::any &a) { const AnyAlt *x = alt_of(a); return !x || x->clean(a); }
  static bool keyhot(const dmlc::any &a) { const AnyAlt *x = alt_of(a); return x && x->keyhot(a); }
  static void ref(dmlc::any &a, RefOut &o) {
    const AnyAlt *x = alt_of(a);
    o.s += "["; o.ws();
    o.str(x ? x->name : std::string("none")); o.ws(); o.s += ","; o.ws();
    if (x) x->ref(a, o); else o.s += "0";
    o.ws(); o.s += "]";
  }
};

// ------------------------------------------------------------------------------------------------
// watchdog: a read that does not return within the budget becomes the result `hang`
// ------------------------------------------------------------------------------------------------
static sigjmp_buf g_jmp;
static volatile sig_atomic_t g_armed = 0;
static int g_hangs = 0;   // after a hang the budget shrinks; after three the generators stop (the failures are on file)
static void on_alarm(int) { if (g_armed) { g_armed = 0; siglongjmp(g_jmp, 1); } }
static void arm(int ms) {
  struct itimerval t;
  memset(&t, 0, sizeof t);
  t.it_value.tv_sec = ms / 1000;
  t.it_value.tv_usec = (ms % 1000) * 1000;
  setitimer(ITIMER_REAL, &t, nullptr);
}

// ------------------------------------------------------------------------------------------------
// strict RFC 8259 recogniser of the harness (bytes >= 0x80 allowed in strings), iterative on a cursor
// ------------------------------------------------------------------------------------------------
struct Rfc {
  const std::string &s;
  size_t i;
  int depth;
  void ws() { while (i < s.size() && (s[i] == ' ' || s[i] == '\t' || s[i] == '\n' || s[i] == '\r')) ++i; }
  bool lit(const char *l) { size_t n = strlen(l); if (s.compare(i, n, l) != 0) return false; i += n; return true; }
  bool string() {
    if (i >= s.size() || s[i] != '"') return false;
    ++i;
    while (i < s.size()) {
      unsigned char c = s[i++];
      if (c == '"') return true;
      if (c < 0x20) return false;
      if (c == '\\') {
        if (i >= s.size()) return false;
        char e = s[i++];
        if (e == 'u') {
          for (int k = 0; k < 4; ++k) { if (i >= s.size() || !isxdigit(static_cast<unsigned char>(s[i]))) return false; ++i; }
        } else if (!strchr("\"\\/bfnrt", e) || e == '\0') return false;
      }
    }
    return false;
  }
  bool digits1() { size_t j = i; while (i < s.size() && isdigit(static_cast<unsigned char>(s[i]))) ++i; return i > j; }
  bool number() {
    if (i < s.size() && s[i] == '-') ++i;
    if (i < s.size() && s[i] == '0') ++i;
    else if (!digits1()) return false;
    if (i < s.size() && s[i] == '.') { ++i; if (!digits1()) return false; }
    if (i < s.size() && (s[i] == 'e' || s[i] == 'E')) {
      ++i;
      if (i < s.size() && (s[i] == '+' || s[i] == '-')) ++i;
      if (!digits1()) return false;
    }
    return true;
  }
  bool value() {
    if (i >= s.size()) return false;
    if (++depth > 5000) return false;
    bool ok = false;
    char c = s[i];
    if (c == '"') ok = string();
    else if (c == '[') {
      ++i; ws();
      if (i < s.size() && s[i] == ']') { ++i; ok = true; }
      else while (true) {
        if (!value()) break;
        ws();
        if (i < s.size() && s[i] == ']') { ++i; ok = true; break; }
        if (i < s.size() && s[i] == ',') { ++i; ws(); continue; }
        break;
      }
    } else if (c == '{') {
      ++i; ws();
      if (i < s.size() && s[i] == '}') { ++i; ok = true; }
      else while (true) {
        if (!string()) break;
        ws();
        if (i >= s.size() || s[i] != ':') break;
        ++i; ws();
        if (!value()) break;
        ws();
        if (i < s.size() && s[i] == '}') { ++i; ok = true; break; }
        if (i < s.size() && s[i] == ',') { ++i; ws(); continue; }
        break;
      }
    } else if (c == 't') ok = lit("true");
    else if (c == 'f') ok = lit("false");
    else if (c == 'n') ok = lit("null");
    else ok = number();
    --depth;
    return ok;
  }
  static bool text(const std::string &s) {
    Rfc r{s, 0, 0};
    r.ws();
    if (!r.value()) return false;
    r.ws();
    return r.i == s.size();
  }
};

// ------------------------------------------------------------------------------------------------
// type table
// ------------------------------------------------------------------------------------------------
struct Gened {
  std::string op_val;     // value descriptor in container iteration order (for `write`)
  std::string canon;      // value descriptor with unordered_maps sorted (what a faithful read prints)
  bool clean, keyhot;
};
struct TypeEntry {
  std::string name;
  std::function<Gened(Gen &)> gen;
  std::function<std::string(const std::string &)> write;          // value descriptor -> result line
  std::function<std::string(const std::string &, int)> read;      // text, budget ms -> result line
  std::function<std::string(const std::string &, bool *, bool *)> canon_of;   // value descriptor -> canonical; clean; keyhot
  std::function<bool(Gen &, RefOut &, std::string *)> ref;        // reference text + expected canonical value
};
static std::map<std::string, TypeEntry> g_types;
static std::vector<std::string> g_type_names;

template <typename T>
static std::string do_write(const std::string &val) {
  T v = T();
  Cur c{val, 0};
  if (!Codec<T>::parse(c, &v) || c.i != val.size()) return "bad-op";
  std::string chk;
  Codec<T>::print(v, false, &chk);
  if (chk != val) return "umap-order-unstable";   // harness self-check, never expected
  std::ostringstream os;
  try {
    dmlc::JSONWriter w(&os);
    w.Write(v);
    if (!w.scope_counter_.empty() || !w.scope_multi_line_.empty()) return "scope-not-restored";
  } catch (const dmlc::Error &) {
    return "err:check";
  }
  return "text " + vh::hex(os.str());
}

template <typename T>
static std::string do_read(const std::string &text, int budget_ms) {
  // volatile-free: everything live across the sigsetjmp is re-created after a jump
  std::string result;
  if (sigsetjmp(g_jmp, 1)) {
    arm(0);
    ++g_hangs;
    return "hang";
  }
  if (g_hangs) budget_ms = 100;
  {
    std::istringstream is(text);
    dmlc::JSONReader r(&is);
    std::unique_ptr<T> v(new T());
    g_armed = 1;
    arm(budget_ms);
    try {
      r.Read(v.get());
      g_armed = 0;
      arm(0);
      is.clear();
      size_t pos = static_cast<size_t>(is.tellg());
      result = "ok ";
      Codec<T>::print(*v, true, &result);
      result += " rest=" + std::to_string(text.size() - pos) + " lr=" + std::to_string(r.line_count_r_) +
                " ln=" + std::to_string(r.line_count_n_);
      if (!r.scope_counter_.empty()) result += " scope-not-restored";
    } catch (const dmlc::Error &) {
      g_armed = 0;
      arm(0);
      result = "err:check";
    } catch (const std::exception &e) {
      g_armed = 0;
      arm(0);
      result = std::string("err:other:") + typeid(e).name();
    }
  }
  return result;
}

template <typename T>
static void add_type() {
  TypeEntry e;
  e.name = Codec<T>::ty();
  e.gen = [](Gen &g) {
    T v = T();
    Codec<T>::gen(g, 0, &v);
    Gened r;
    // settle the unordered_map iteration order: print -> rebuild (reserve + reverse insertion) -> print
    std::string t;
    Codec<T>::print(v, false, &t);
    for (int k = 0; k < 4; ++k) {
      T v2 = T();
      Cur c{t, 0};
      Codec<T>::parse(c, &v2);
      std::string t2;
      Codec<T>::print(v2, false, &t2);
      if (t2 == t) break;
      t = t2;
    }
    r.op_val = t;
    Codec<T>::print(v, true, &r.canon);
    r.clean = Codec<T>::clean(v);
    r.keyhot = Codec<T>::keyhot(v);
    return r;
  };
  e.write = &do_write<T>;
  e.read = &do_read<T>;
  e.canon_of = [](const std::string &val, bool *clean, bool *hot) {
    T v = T();
    Cur c{val, 0};
    std::string o;
    if (!Codec<T>::parse(c, &v)) return o;
    Codec<T>::print(v, true, &o);
    *clean = Codec<T>::clean(v);
    *hot = Codec<T>::keyhot(v);
    return o;
  };
  e.ref = [](Gen &g, RefOut &o, std::string *expect) {
    T v = T();
    Codec<T>::gen(g, 0, &v);
    Codec<T>::ref(v, o);
    Codec<T>::print(v, true, expect);
    return true;
  };
  g_type_names.push_back(e.name);
  g_types[e.name] = e;
}

typedef std::map<std::string, int32_t> MapI;
typedef std::unordered_map<std::string, int32_t> UMapI;
static void build_types() {
  any_alts();
  add_type<std::string>();
  add_type<int16_t>(); add_type<int32_t>(); add_type<int64_t>();
  add_type<uint16_t>(); add_type<uint32_t>(); add_type<uint64_t>();
  add_type<bool>();
  add_type<std::pair<int32_t, std::string>>();
  add_type<std::pair<std::string, std::string>>();
  add_type<std::pair<int64_t, std::pair<bool, uint16_t>>>();
  add_type<std::vector<int32_t>>();
  add_type<std::vector<std::string>>();
  add_type<std::vector<bool>>();
  add_type<std::vector<uint64_t>>();
  add_type<std::vector<std::vector<int32_t>>>();
  add_type<std::vector<std::pair<int32_t, int32_t>>>();
  add_type<std::vector<MapI>>();
  add_type<std::list<std::string>>();
  add_type<std::list<int64_t>>();
  add_type<std::list<std::vector<uint16_t>>>();
  add_type<MapI>();
  add_type<std::map<std::string, std::string>>();
  add_type<std::map<std::string, std::vector<std::string>>>();
  add_type<std::map<std::string, MapI>>();
  add_type<std::map<std::string, std::pair<std::string, bool>>>();
  add_type<UMapI>();
  add_type<std::unordered_map<std::string, std::string>>();
  add_type<std::unordered_map<std::string, std::vector<int32_t>>>();
  add_type<std::map<std::string, std::unordered_map<std::string, int16_t>>>();
  add_type<dmlc::any>();
  add_type<std::vector<dmlc::any>>();
  add_type<std::map<std::string, dmlc::any>>();
  add_type<Rec1>();
  add_type<Rec2>();
  add_type<Pod3>();
  add_type<Rec4>();
  add_type<std::vector<Rec1>>();
  add_type<std::vector<Pod3>>();
  add_type<std::map<std::string, Rec2>>();
  add_type<std::pair<Rec1, dmlc::any>>();
}

// ------------------------------------------------------------------------------------------------
// the harness proper
// ------------------------------------------------------------------------------------------------
struct JsonHarness : vh::Harness {
  int budget_ms = 2000;
  void begin_case(const Case &) override {}

  std::string exec(const std::vector<std::string> &w) override {
    if (w.size() == 3 && w[0] == "write") {
      auto it = g_types.find(w[1]);
      return it == g_types.end() ? "bad-op" : it->second.write(w[2]);
    }
    if (w.size() == 3 && w[0] == "read") {
      auto it = g_types.find(w[1]);
      return it == g_types.end() ? "bad-op" : it->second.read(vh::unhex(w[2]), budget_ms);
    }
    if (w.size() == 2 && w[0] == "wf") return Rfc::text(vh::unhex(w[1])) ? "wf 1" : "wf 0";
    return "bad-op";
  }

  // case kinds:  rt <...>        write v; read back the text; wf text   -> round trip + well-formedness
  //              ref <canon>     read of a reference text               -> value must equal <canon>
  //              mal-* / soup    reads of damaged texts                 -> must end in a value or dmlc::Error
  void end_case(const Case &c, const std::vector<std::string> &res, std::vector<std::string> *fail) override {
    auto kw = vh::split_ws(c.kind);
    std::string kind = kw.empty() ? "" : kw[0];
    for (size_t i = 0; i < res.size(); ++i) {
      if (res[i] == "hang")
        fail->push_back("class=C16-hang prop=C16 read did not return within the budget: " + c.ops[i].substr(0, 160));
      else if (res[i].compare(0, 10, "err:other:") == 0 || res[i] == "scope-not-restored" ||
               res[i].find(" scope-not-restored") != std::string::npos)
        fail->push_back("class=C16-unsafe prop=C16 " + res[i] + " on " + c.ops[i].substr(0, 160));
      else if (res[i] == "bad-op" || res[i] == "umap-order-unstable")
        fail->push_back("class=harness prop=C16 " + res[i] + " on " + c.ops[i].substr(0, 160));
    }
    if (kind == "rt" || kind == "replay") {
      // every `write T v` followed by `read T <that text>` (and optionally `wf <that text>`)
      for (size_t i = 0; i < c.ops.size(); ++i) {
        auto w = vh::split_ws(c.ops[i]);
        if (w.size() != 3 || w[0] != "write") continue;
        auto it = g_types.find(w[1]);
        if (it == g_types.end()) continue;
        bool clean = true, hot = false;
        std::string canon = it->second.canon_of(w[2], &clean, &hot);
        std::string cls = hot ? "C16-F9-key-unescaped" : "none";
        if (res[i].compare(0, 5, "text ") != 0) {
          fail->push_back("class=" + cls + " prop=C16 writer raised an error for a value of the family: " + w[1] + " " + w[2].substr(0, 120));
          continue;
        }
        std::string hex = res[i].substr(5);
        std::string text = vh::unhex(hex);
        if (clean && !Rfc::text(text))
          fail->push_back("class=" + cls + " prop=C16 output is not well-formed JSON although no string holds a control character: " +
                          w[1] + " " + w[2].substr(0, 120) + " -> " + hex.substr(0, 200));
        for (size_t j = i + 1; j < c.ops.size(); ++j) {
          auto r = vh::split_ws(c.ops[j]);
          if (r.size() == 3 && r[0] == "write") break;
          if (r.size() != 3 || r[0] != "read" || r[1] != w[1] || r[2] != hex) continue;
          auto rr = vh::split_ws(res[j]);
          if (rr.size() < 3 || rr[0] != "ok" || rr[1] != canon || rr[2] != "rest=0")
            fail->push_back("class=" + cls + " prop=C16 value read back differs from the value written: " + w[1] + " " +
                            w[2].substr(0, 120) + " -> " + res[j].substr(0, 160));
        }
      }
    } else if (kind == "ref" && kw.size() >= 2) {
      for (size_t i = 0; i < res.size(); ++i) {
        auto rr = vh::split_ws(res[i]);
        if (rr.size() < 2 || rr[0] != "ok" || rr[1] != kw[1])
          fail->push_back("class=none prop=C16 reader does not return the value a reference document denotes: " +
                          c.ops[i].substr(0, 200) + " -> " + res[i].substr(0, 120) + " expected " + kw[1].substr(0, 120));
      }
    }
    // malformed kinds: nothing beyond the generic checks above (a sanitizer report aborts the process)
  }

  std::string shape(const Case &c, const std::vector<std::string> &res) override {
    auto kw = vh::split_ws(c.kind);
    if (kw.empty()) return "";
    if (kw[0] == "rt" && kw.size() >= 3) return "rt:" + kw[1] + (kw[2] == "1" ? "+clean" : "+ctrl");
    if (kw[0] == "ref") return "ref";
    size_t ok = 0;
    for (auto &r : res) if (r.compare(0, 3, "ok ") == 0) ++ok;
    return kw[0] + (ok ? "+some-accepted" : "+all-rejected");
  }
};

// ------------------------------------------------------------------------------------------------
// generators
// ------------------------------------------------------------------------------------------------
static std::string type_class(const std::string &t) {
  if (t.find("c(") != std::string::npos) return "cls";
  if (t.find("a(") != std::string::npos) return "any";
  if (t.find("um(") != std::string::npos) return "umap";
  if (t.find("m(") != std::string::npos) return "map";
  if (t[0] == 'v' || t[0] == 'l') return "seq";
  if (t[0] == 'p') return "pair";
  return "scalar";
}

// tokens of a JSON-ish text: strings, number runs, whitespace runs, single punctuation
static std::vector<std::string> tokens(const std::string &s) {
  std::vector<std::string> t;
  size_t i = 0;
  while (i < s.size()) {
    size_t j = i;
    unsigned char c = s[i];
    if (c == '"') {
      ++j;
      while (j < s.size() && s[j] != '"') j += (s[j] == '\\' && j + 1 < s.size()) ? 2 : 1;
      if (j < s.size()) ++j;
    } else if (isdigit(c) || c == '-' || c == '+') {
      while (j < s.size() && (isdigit(static_cast<unsigned char>(s[j])) || s[j] == '-' || s[j] == '+')) ++j;
    } else if (isspace(c)) {
      while (j < s.size() && isspace(static_cast<unsigned char>(s[j]))) ++j;
    } else {
      ++j;
    }
    t.push_back(s.substr(i, j - i));
    i = j;
  }
  return t;
}

int main(int argc, char **argv) {
  vh::Runner R;
  R.parse(argc, argv);
  JsonHarness H;
  R.h = &H;
  R.flush_ops = true;   // a sanitizer report inside exec aborts the process: the op that caused it must be on file
  build_types();
  signal(SIGALRM, on_alarm);
  if (R.run_replay()) { R.finish(); return 0; }
  vh::Rng rng(R.seed);
  const bool th = R.thorough();
  auto run = [&](const Case &c) { if (g_hangs < 3) R.run_case(c); };

  // (0) fixed corpus
  {
    Case c;
    c.kind = "rt corpus 1";
    const char *fixed[][2] = {
        {"m(i32)", "{\"61\":1}"}, {"m(i32)", "{}"}, {"v(i32)", "[]"}, {"v(v(i32))", "[[],[1]]"},
        {"v(i32)", "[1,2,3,4,5,6,7,8,9,10]"}, {"v(i32)", "[1,2,3,4,5,6,7,8,9,10,11]"},
        {"s", "\"\""}, {"s", "\"225c0d0a09\""}, {"i64", "-9223372036854775808"}, {"u64", "18446744073709551615"},
        {"m(m(i32))", "{\"\":{},\"61\":{\"62\":2,\"63\":3}}"}, {"p(s,s)", "(\"\",\"2c\")"}};
    for (auto &f : fixed) {
      std::string w = std::string("write ") + f[0] + " " + f[1];
      c.ops.push_back(w);
      std::string r = g_types[f[0]].write(f[1]);
      if (r.compare(0, 5, "text ") == 0) { c.ops.push_back(std::string("read ") + f[0] + " " + r.substr(5)); c.ops.push_back("wf " + r.substr(5)); }
    }
    run(c);
  }
  // the F9 witness (a key holding a quote) — one case of its own so that it shrinks to one value
  {
    Case c;
    c.kind = "rt m(i32) 1";
    std::string v = "{\"612262\":1}";
    c.ops.push_back("write m(i32) " + v);
    std::string r = g_types["m(i32)"].write(v);
    if (r.compare(0, 5, "text ") == 0) { c.ops.push_back("read m(i32) " + r.substr(5)); c.ops.push_back("wf " + r.substr(5)); }
    run(c);
  }

  std::vector<std::pair<std::string, std::string>> docs;   // (type, text) of valid documents, for the malformed stream
  // (1) round trips: every type x many values
  size_t per_type = th ? 1800 : 70;
  for (const std::string &tn : g_type_names) {
    TypeEntry &te = g_types[tn];
    for (size_t it = 0; it < per_type; ++it) {
      Gen g{&rng, rng.chance(2, 5), static_cast<int>(rng.below(3) == 0), 0};
      Gened v = te.gen(g);
      Case c;
      c.kind = "rt " + type_class(tn) + " " + (v.clean ? "1" : "0");
      c.ops.push_back("write " + tn + " " + v.op_val);
      std::string r = te.write(v.op_val);
      if (r.compare(0, 5, "text ") == 0) {
        c.ops.push_back("read " + tn + " " + r.substr(5));
        c.ops.push_back("wf " + r.substr(5));
        // the same text followed by more input: the reader must stop after the value
        if (rng.chance(1, 6)) {
          std::string tail = vh::unhex(r.substr(5)) + std::string(1, " ,]}\n\"x"[rng.below(7)]) + "1";
          c.ops.push_back("read " + tn + " " + vh::hex(tail));
        }
        if (docs.size() < (th ? 3000 : 260) && rng.chance(1, th ? 20 : 6)) docs.push_back({tn, vh::unhex(r.substr(5))});
      }
      run(c);
    }
  }
  // (1b) large top-level containers: entry counts around powers of two (255 .. 513, up to 4097 thorough), every type once per size
  {
    std::vector<size_t> sizes = {255, 256, 257, 513};
    if (th) for (size_t z : {1023, 1024, 1025, 4096, 4097}) sizes.push_back(z);
    for (const std::string &tn : g_type_names) {
      TypeEntry &te = g_types[tn];
      for (size_t z : sizes) {
        Gen g{&rng, false, 0, z};
        Gened v = te.gen(g);
        if (v.op_val.size() < z) continue;   // not a container at the top level: nothing large was generated
        Case c;
        c.kind = "rt " + type_class(tn) + " " + (v.clean ? "1" : "0");   // large: same kind, same oracle
        c.ops.push_back("write " + tn + " " + v.op_val);
        std::string r = te.write(v.op_val);
        if (r.compare(0, 5, "text ") == 0) {
          c.ops.push_back("read " + tn + " " + r.substr(5));
          c.ops.push_back("wf " + r.substr(5));
        }
        run(c);
      }
    }
  }
  // (2) reference documents: the reader alone, against an independent emitter
  size_t nref = th ? 30000 : 1500;
  for (size_t it = 0; it < nref; ++it) {
    const std::string &tn = g_type_names[rng.below(g_type_names.size())];
    TypeEntry &te = g_types[tn];
    Gen g{&rng, rng.chance(1, 2), static_cast<int>(rng.below(3) == 0), 0};
    RefOut o{"", &rng, rng.chance(2, 3)};
    o.ws();
    std::string expect;
    te.ref(g, o, &expect);
    if (rng.chance(1, 2)) o.ws();
    Case c;
    c.kind = "ref " + expect;
    c.ops.push_back("read " + tn + " " + vh::hex(o.s));
    run(c);
    if (docs.size() < (th ? 5000 : 400) && rng.chance(1, 8)) docs.push_back({tn, o.s});
  }
  // (3) malformed stream
  size_t max_doc = th ? 400 : 160;
  for (size_t d = 0; d < docs.size(); ++d) {
    const std::string &tn = docs[d].first;
    const std::string &doc = docs[d].second;
    if (doc.size() > max_doc) continue;
    {  // every truncation
      Case c;
      c.kind = "mal-trunc";
      for (size_t n = 0; n < doc.size(); ++n) c.ops.push_back("read " + tn + " " + vh::hex(doc.substr(0, n)));
      run(c);
    }
    {  // byte flips / substitutions by structural bytes
      Case c;
      c.kind = "mal-flip";
      size_t n = std::min<size_t>(doc.size() * 2, th ? 120 : 60);
      for (size_t k = 0; k < n && !doc.empty(); ++k) {
        std::string m = doc;
        size_t at = rng.below(m.size());
        switch (rng.below(4)) {
          case 0: m[at] = static_cast<char>(m[at] ^ (1 << rng.below(8))); break;
          case 1: m[at] = "\"\\[]{},:0-+ \n\r\tx"[rng.below(17)]; break;
          case 2: m[at] = static_cast<char>(rng.below(256)); break;
          default: m.erase(at, 1);
        }
        c.ops.push_back("read " + tn + " " + vh::hex(m));
        if (k % 8 == 0) c.ops.push_back("wf " + vh::hex(m));
      }
      run(c);
    }
    {  // token deletion / duplication / swap
      Case c;
      c.kind = "mal-token";
      std::vector<std::string> tk = tokens(doc);
      size_t lim = th ? 200 : 80;
      for (size_t i = 0; i < tk.size() && i < lim; ++i) {
        std::string del, dup;
        for (size_t j = 0; j < tk.size(); ++j) {
          if (j != i) del += tk[j];
          dup += tk[j];
          if (j == i) dup += tk[j];
        }
        c.ops.push_back("read " + tn + " " + vh::hex(del));
        c.ops.push_back("read " + tn + " " + vh::hex(dup));
        if (i % 8 == 0) c.ops.push_back("wf " + vh::hex(dup));
      }
      run(c);
    }
    if (d % 3 == 0) {  // the document read as another type
      Case c;
      c.kind = "mal-type";
      for (int k = 0; k < 6; ++k) c.ops.push_back("read " + g_type_names[rng.below(g_type_names.size())] + " " + vh::hex(doc));
      run(c);
    }
  }
  // (4) random token soup
  {
    static const char *pool[] = {"[", "]", "{", "}", ",", ":", "\"", "\\", "\"a\"", "\"\"", "\"k\":", "1", "-", "0", "+", " ", "\n",
                                 "\r", "\t", "[]", "{}", "1e5", "true", "null", "\\u0041", "\"\\", "\\\"", "\"strs\"", "\"num\"",
                                 "\"name\"", "\"value\"", "\"tags\"", "\"id\"", "\"a\"", "\"b\"", "99999999999999999999", "-1", "\x01", "\xff",
                                 "\"x\\\"y\"", "\"notes: [a,b]\\t{}\"", "\"inner\"", "\"extra\"", "[\"num\", 5]", "\v", "\f", ".", "e"};
    size_t npool = sizeof(pool) / sizeof(pool[0]);
    size_t nsoup = th ? 3000 : 400;
    for (size_t it = 0; it < nsoup; ++it) {
      Case c;
      c.kind = "soup";
      for (int k = 0; k < 16; ++k) {
        std::string s;
        size_t n = 1 + rng.below(14);
        for (size_t i = 0; i < n; ++i) s += pool[rng.below(rng.chance(1, 2) ? 20 : npool)];
        c.ops.push_back("read " + g_type_names[rng.below(g_type_names.size())] + " " + vh::hex(s));
        if (k % 4 == 0) c.ops.push_back("wf " + vh::hex(s));
      }
      run(c);
    }
  }
  R.extra["types"] = g_type_names.size();
  R.extra["documents_mutated"] = docs.size();
  R.finish();
  return 0;
}
