// C15 harness, big-endian stream build of the serializer (DMLC_IO_USE_LITTLE_ENDIAN = 0: every
// handler takes the byte-swapping path on this little-endian host).  See h_ser_impl.inc.
#define DMLC_IO_USE_LITTLE_ENDIAN 0
#define SER_NS ser_be
#define SER_DMLC dmlc_ser_be
#define SER_CFG "be"
#define SER_BACKEND ser_backend_be
#define SER_SWAP 1
#include "h_ser_impl.inc"
