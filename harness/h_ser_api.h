// Interface between the C15 harness driver (h_ser.cc) and the two translation units that contain the
// real dmlc-core serializer, compiled once per byte-order configuration (h_ser_le.cc: default build,
// h_ser_be.cc: DMLC_IO_USE_LITTLE_ENDIAN=0, i.e. the byte-swapping path on this little-endian host).
// Nothing of dmlc is visible through this interface (each TU renames `namespace dmlc`, see the .inc).
#ifndef VERIF_H_SER_API_H_
#define VERIF_H_SER_API_H_
#include <cstdint>
#include <string>
#include <vector>

namespace ser_api {

struct TypeInfo {
  std::string desc;        // type descriptor, e.g. "M(s,V(u2))"
  bool has_pod;            // contains a plain POD struct (outside the layout clauses)
  bool has_padded_pair;    // contains std::pair<A, B> of two PODs whose object has padding (finding C15-F1)
  bool has_unordered;      // contains an unordered container
  bool set_like;           // top level is set / multiset / unordered_set / map / multimap / unordered_map
  bool flat_counts;        // top level is a counted container whose elements contain no further counts
};

struct ExecResult {
  std::string line;                    // canonical result line (compared with the model)
  std::vector<std::string> failures;   // oracle failures "class=<c> prop=C15 <text>"
};

struct Backend {
  const char *cfg;                                         // "le" | "be"
  std::vector<TypeInfo> (*types)();
  // random value of the type as text (containers in the iteration order the parser will reproduce)
  std::string (*gen)(const std::string &desc, uint64_t seed, int budget);
  // byte strings for `dec`: kind 0 = element stream with duplicates / unsorted keys (set-like types),
  // kind 1 = a valid encoding whose top-level count is changed by `delta` (flat types)
  std::string (*mutant)(const std::string &desc, uint64_t seed, int kind, int delta);
  ExecResult (*exec)(const std::vector<std::string> &w);
};

}  // namespace ser_api

ser_api::Backend *ser_backend_le();
ser_api::Backend *ser_backend_be();
#endif  // VERIF_H_SER_API_H_
