// Correspondence harness + oracle for C14 (fast number parsing, include/dmlc/strtonum.h).
//
// Runs the REAL dmlc::strtof / strtod / *_check_range / stof / stod / strtoull / atol / atof /
// ParseSignedInt / ParseUnsignedInt / Str2Type.  The C string is placed at the very END of an
// mmap'ed buffer whose following page is PROT_NONE, so reading one byte past the terminating NUL
// faults; the fault (SIGSEGV/SIGBUS) is turned into the result `ub:oob` by sigsetjmp/siglongjmp.
// Build: no ASan (it would intercept the SEGV); `-fsanitize=undefined -fsanitize-undefined-trap-on-error`
// so that signed overflow etc. trap with SIGILL, reported as `ub:overflow` (see tools/props/C14.py).
//
// Oracle (independent of the Lean model): a reference scanner for the grammar
//   ws* sign? (digit+ ('.' digit*)? | '.' digit+) ([eE] sign? digit+)? [fF]?  |  ws* sign? inf|infinity|nan|nan(chars)
// glibc strtold/strtod/strtof on the decimal lexeme for the value, __int128 for the integer parsers,
// and the exception table of the property for stof/stod.
#include <dmlc/strtonum.h>
#include <setjmp.h>
#include <signal.h>
#include <sys/mman.h>
#include <cerrno>
#include <cfloat>
#include <cmath>
#include <stdexcept>
#include "common/proto.h"

using vh::Case;

// ------------------------------------------------------------------------------------------------
// guard-paged placement + fault capture
// ------------------------------------------------------------------------------------------------
static const size_t kPage = 4096, kPages = 8;
static char *g_base = nullptr;
static sigjmp_buf g_jb;
static volatile sig_atomic_t g_armed = 0;

static void on_fault(int sig) {
  if (g_armed) siglongjmp(g_jb, sig);
  _exit(70);
}
static void guard_init() {
  g_base = static_cast<char *>(mmap(nullptr, (kPages + 1) * kPage, PROT_READ | PROT_WRITE,
                                    MAP_PRIVATE | MAP_ANONYMOUS, -1, 0));
  if (g_base == MAP_FAILED || mprotect(g_base + kPages * kPage, kPage, PROT_NONE) != 0) {
    perror("guard");
    exit(2);
  }
  struct sigaction sa;
  memset(&sa, 0, sizeof sa);
  sa.sa_handler = on_fault;
  sa.sa_flags = SA_NODEFER;
  sigaction(SIGSEGV, &sa, nullptr);
  sigaction(SIGBUS, &sa, nullptr);
  sigaction(SIGILL, &sa, nullptr);
}
// the C string (cut at its first NUL) placed so that its NUL is the last accessible byte
static const char *place(const std::string &s) {
  size_t n = s.find('\0');
  if (n == std::string::npos) n = s.size();
  if (n + 1 > kPages * kPage) n = kPages * kPage - 1;
  char *p = g_base + kPages * kPage - n - 1;
  memcpy(p, s.data(), n);
  p[n] = 0;
  return p;
}
static std::string cstr_of(const std::string &s) {
  size_t n = s.find('\0');
  return n == std::string::npos ? s : s.substr(0, n);
}

template <class F>
static std::string guarded(F f) {
  static std::string r;  // static: not clobbered by siglongjmp
  g_armed = 1;
  int sig = sigsetjmp(g_jb, 1);
  if (sig == 0) {
    try {
      r = f();
    } catch (const dmlc::Error &) {
      r = "err:check";
    } catch (const std::invalid_argument &) {
      r = "throw:invalid";
    } catch (const std::out_of_range &) {
      r = "throw:range";
    }
    g_armed = 0;
    return r;
  }
  g_armed = 0;
  return (sig == SIGSEGV || sig == SIGBUS) ? "ub:oob" : "ub:overflow";
}

static int errno_of(const std::string &t) {
  if (t == "ERANGE") return ERANGE;
  if (t == "EINVAL") return EINVAL;
  return atoi(t.c_str());
}
static std::string errno_str(int e) {
  if (e == ERANGE) return "ERANGE";
  if (e == EINVAL) return "EINVAL";
  return std::to_string(e);
}
static std::string bits32(float f) {
  uint32_t u;
  memcpy(&u, &f, 4);
  if (f != f) u = 0x7fc00000u;  // canonical NaN
  char b[16];
  snprintf(b, sizeof b, "%08x", u);
  return b;
}
static std::string bits64(double d) {
  uint64_t u;
  memcpy(&u, &d, 8);
  if (d != d) u = 0x7ff8000000000000ULL;
  char b[24];
  snprintf(b, sizeof b, "%016llx", (unsigned long long)u);
  return b;
}
static std::string hex64(uint64_t u) {
  char b[24];
  snprintf(b, sizeof b, "%016llx", (unsigned long long)u);
  return b;
}
static std::string hex32(uint32_t u) {
  char b[16];
  snprintf(b, sizeof b, "%08x", u);
  return b;
}

// ------------------------------------------------------------------------------------------------
// reference scanner (the grammar of the property)
// ------------------------------------------------------------------------------------------------
static bool ws_char(unsigned char c) { return c == ' ' || c == '\t' || c == '\r' || c == '\n' || c == '\f'; }
static bool dg(unsigned char c) { return c >= '0' && c <= '9'; }
static bool al(unsigned char c) { return (c >= 'a' && c <= 'z') || (c >= 'A' && c <= 'Z'); }

struct Lex {
  bool ok = false;
  enum Kind { DEC, INF, NAN_ } kind = DEC;
  bool neg = false;
  size_t body = 0;      // index where the digits / letters start
  size_t end_core = 0;  // end without the f suffix
  size_t end = 0;       // end of the longest numeric prefix (0 if none)
  std::string intd, fracd, expd;
  bool has_dot = false, has_exp = false, exp_neg = false;
};
static bool ieq(const std::string &s, size_t at, const char *lit) {
  for (size_t k = 0; lit[k]; ++k)
    if (at + k >= s.size() || (s[at + k] | 32) != lit[k]) return false;
  return true;
}
static Lex scan(const std::string &s) {
  Lex L;
  size_t n = s.size(), i = 0;
  while (i < n && ws_char(s[i])) ++i;
  if (i < n && (s[i] == '+' || s[i] == '-')) { L.neg = s[i] == '-'; ++i; }
  L.body = i;
  if (ieq(s, i, "infinity")) { L.ok = true; L.kind = Lex::INF; L.end = L.end_core = i + 8; return L; }
  if (ieq(s, i, "inf")) { L.ok = true; L.kind = Lex::INF; L.end = L.end_core = i + 3; return L; }
  if (ieq(s, i, "nan")) {
    L.ok = true; L.kind = Lex::NAN_; L.end = i + 3;
    if (L.end < n && s[L.end] == '(') {
      size_t q = L.end + 1;
      while (q < n && (dg(s[q]) || al(s[q]) || s[q] == '_')) ++q;
      if (q < n && s[q] == ')') L.end = q + 1;
    }
    L.end_core = L.end;
    return L;
  }
  size_t j = i;
  while (j < n && dg(s[j])) L.intd.push_back(s[j++]);
  if (j < n && s[j] == '.') {
    size_t k = j + 1;
    std::string fd;
    while (k < n && dg(s[k])) fd.push_back(s[k++]);
    if (!L.intd.empty() || !fd.empty()) { L.has_dot = true; L.fracd = fd; j = k; }
  }
  if (L.intd.empty() && L.fracd.empty()) return L;  // no number
  L.ok = true;
  if (j < n && (s[j] == 'e' || s[j] == 'E')) {
    size_t k = j + 1;
    bool en = false;
    if (k < n && (s[k] == '+' || s[k] == '-')) { en = s[k] == '-'; ++k; }
    std::string ed;
    while (k < n && dg(s[k])) ed.push_back(s[k++]);
    if (!ed.empty()) { L.has_exp = true; L.exp_neg = en; L.expd = ed; j = k; }
  }
  L.end_core = j;
  if (j < n && (s[j] == 'f' || s[j] == 'F')) ++j;
  L.end = j;
  return L;
}
static std::string strip0(const std::string &d) {
  size_t k = 0;
  while (k < d.size() && d[k] == '0') ++k;
  return d.substr(k);
}
// decimal exponent field as a clamped integer
static long exp_field(const Lex &L) {
  std::string e = strip0(L.expd);
  if (e.size() > 6) return 1000000;
  return e.empty() ? 0 : atol(e.c_str());
}
static std::string lexeme_text(const Lex &L) {  // unsigned decimal text glibc understands
  std::string t = L.intd.empty() ? "0" : L.intd;
  if (!L.fracd.empty()) t += "." + L.fracd;
  if (L.has_exp) t += std::string("e") + (L.exp_neg ? "-" : "+") + L.expd;
  return t;
}
static bool all_zero_digits(const Lex &L) { return strip0(L.intd).empty() && strip0(L.fracd).empty(); }

template <class T> struct Lim;
template <> struct Lim<float> {
  static constexpr long double mx = FLT_MAX, mn = FLT_MIN, tol = 1e-6L, lo = 1e-30L, hi = 1e30L;
  static constexpr long kexp = 38;
  static constexpr size_t lead = 12;  // class frac-leading-zeros-19: at least this many leading fraction zeros
};
template <> struct Lim<double> {
  static constexpr long double mx = DBL_MAX, mn = DBL_MIN, tol = 1e-14L, lo = 1e-300L, hi = 1e300L;
  static constexpr long kexp = 308;
  static constexpr size_t lead = 4;
};
constexpr long double Lim<float>::mx, Lim<float>::mn, Lim<float>::tol, Lim<float>::lo, Lim<float>::hi;
constexpr long double Lim<double>::mx, Lim<double>::mn, Lim<double>::tol, Lim<double>::lo, Lim<double>::hi;

// classes of known (open) findings: narrow, decidable predicates on the lexeme
// exp-field-range: the exponent FIELD exceeds kMaxExponent although the value may be representable
template <class T> static bool cls_exp_field(const Lex &L) { return L.has_exp && exp_field(L) > Lim<T>::kexp; }
// frac-leading-zeros-19: integer part zero, more than 19 fraction digits, and the first non-zero
// fraction digit so late that the 19 retained digits carry too few significant digits
template <class T> static bool cls_frac_zeros(const Lex &L) {
  if (!strip0(L.intd).empty() || L.fracd.size() <= 19) return false;
  size_t k = 0;
  while (k < L.fracd.size() && L.fracd[k] == '0') ++k;
  return k < L.fracd.size() && k >= Lim<T>::lead;
}

// ------------------------------------------------------------------------------------------------
struct NumHarness : vh::Harness {
  std::map<std::string, uint64_t> *extra = nullptr;
  void begin_case(const Case &) override {}

  template <class T, class F>
  std::string run_float(const std::string &raw, int e0, F fn) {
    const char *p = place(raw);
    return guarded([&]() {
      errno = e0;
      char *end = nullptr;
      T v = fn(p, &end);
      int e1 = errno;
      return "val " + (sizeof(T) == 4 ? bits32((float)v) : bits64((double)v)) + " end " +
             std::to_string(end - p) + " errno " + errno_str(e1);
    });
  }
  template <class T, class F>
  std::string run_sto(const std::string &raw, int e0, F fn) {
    std::string s = cstr_of(raw);
    return guarded([&]() {
      errno = e0;
      size_t pos = 0;
      T v = fn(s, &pos);
      int e1 = errno;
      return "val " + (sizeof(T) == 4 ? bits32((float)v) : bits64((double)v)) + " end " + std::to_string(pos) +
             " errno " + errno_str(e1);
    });
  }

  std::string exec(const std::vector<std::string> &w) override {
    if (w.size() < 2) return "bad-op";
    const std::string &op = w[0];
    if (op == "str2type") {
      if (w.size() != 3) return "bad-op";
      std::string raw = vh::unhex(w[2]);
      const char *p = place(raw);
      const std::string &t = w[1];
      return guarded([&]() -> std::string {
        if (t == "i32") return "val " + hex32((uint32_t)dmlc::Str2Type<int32_t>(p));
        if (t == "u32") return "val " + hex32(dmlc::Str2Type<uint32_t>(p));
        if (t == "i64") return "val " + hex64((uint64_t)dmlc::Str2Type<int64_t>(p));
        if (t == "u64") return "val " + hex64(dmlc::Str2Type<uint64_t>(p));
        if (t == "f32") return "val " + bits32(dmlc::Str2Type<float>(p));
        if (t == "f64") return "val " + bits64(dmlc::Str2Type<double>(p));
        return "bad-op";
      });
    }
    std::string raw = vh::unhex(w[1]);
    if (op == "strtof" || op == "strtod" || op == "strtof_check_range" || op == "strtod_check_range" ||
        op == "stof" || op == "stod") {
      int e0 = w.size() > 2 ? errno_of(w[2]) : 0;
      if (op == "strtof") return run_float<float>(raw, e0, [](const char *p, char **e) { return dmlc::strtof(p, e); });
      if (op == "strtod") return run_float<double>(raw, e0, [](const char *p, char **e) { return dmlc::strtod(p, e); });
      if (op == "strtof_check_range")
        return run_float<float>(raw, e0, [](const char *p, char **e) { return dmlc::strtof_check_range(p, e); });
      if (op == "strtod_check_range")
        return run_float<double>(raw, e0, [](const char *p, char **e) { return dmlc::strtod_check_range(p, e); });
      if (op == "stof") return run_sto<float>(raw, e0, [](const std::string &s, size_t *q) { return dmlc::stof(s, q); });
      return run_sto<double>(raw, e0, [](const std::string &s, size_t *q) { return dmlc::stod(s, q); });
    }
    if (op == "atof") {
      const char *p = place(raw);
      return guarded([&]() { return "val " + bits32(dmlc::atof(p)); });
    }
    if (op == "atol") {
      const char *p = place(raw);
      return guarded([&]() { return "val " + hex64((uint64_t)dmlc::atol(p)); });
    }
    int base = w.size() > 2 ? atoi(w[2].c_str()) : 10;
    const char *p = place(raw);
    if (op == "strtoull")
      return guarded([&]() {
        char *end = nullptr;
        uint64_t v = dmlc::strtoull(p, &end, base);
        return "val " + hex64(v) + " end " + std::to_string(end - p);
      });
    if (op == "parse_i32")
      return guarded([&]() {
        char *end = nullptr;
        int32_t v = dmlc::ParseSignedInt<int32_t>(p, &end, base);
        return "val " + hex32((uint32_t)v) + " end " + std::to_string(end - p);
      });
    if (op == "parse_i64")
      return guarded([&]() {
        char *end = nullptr;
        int64_t v = dmlc::ParseSignedInt<int64_t>(p, &end, base);
        return "val " + hex64((uint64_t)v) + " end " + std::to_string(end - p);
      });
    if (op == "parse_u32")
      return guarded([&]() {
        char *end = nullptr;
        uint32_t v = dmlc::ParseUnsignedInt<uint32_t>(p, &end, base);
        return "val " + hex32(v) + " end " + std::to_string(end - p);
      });
    return "bad-op";
  }

  // ---------------------------------------------------------------------------------------------
  // oracle
  // ---------------------------------------------------------------------------------------------
  struct R {
    bool val = false;
    std::string kind;  // "val" | "throw:invalid" | ...
    uint64_t bits = 0;
    long end = -1;
    std::string err;
  };
  static R parse_res(const std::string &r) {
    R x;
    auto w = vh::split_ws(r);
    x.kind = w.empty() ? "" : w[0];
    if (x.kind == "val" && w.size() >= 2) {
      x.val = true;
      x.bits = strtoull(w[1].c_str(), nullptr, 16);
      for (size_t i = 2; i + 1 < w.size(); i += 2) {
        if (w[i] == "end") x.end = atol(w[i + 1].c_str());
        if (w[i] == "errno") x.err = w[i + 1];
      }
    }
    return x;
  }

  template <class T>
  void check_float(const std::string &op, const std::string &s, const std::string &e0, const R &r, bool sto, bool chk,
                   std::vector<std::string> *fail) {
    Lex L = scan(s);
    std::string tag = op + "(\"" + vh::json_escape(s.substr(0, 60)) + "\"" + (e0.empty() ? "" : ", errno=" + e0) + ")";
    auto F = [&](const std::string &cls, const std::string &m) {
      fail->push_back("class=" + cls + " prop=C14 " + tag + ": " + m);
    };
    if (r.kind == "ub:oob") { F("none", "read past the terminating NUL"); return; }
    if (r.kind == "ub:overflow") { F("none", "undefined behaviour trap"); return; }
    // decode the value
    bool is_inf = false, is_nan = false, vneg = false;
    long double got = 0;
    if (r.val) {
      if (sizeof(T) == 4) {
        uint32_t u = (uint32_t)r.bits; float f; memcpy(&f, &u, 4);
        is_inf = std::isinf(f); is_nan = std::isnan(f); vneg = std::signbit(f); got = f;
      } else {
        uint64_t u = r.bits; double d; memcpy(&d, &u, 8);
        is_inf = std::isinf(d); is_nan = std::isnan(d); vneg = std::signbit(d); got = d;
      }
    }
    // reference value
    long double ref = 0;
    bool finite_dec = L.ok && L.kind == Lex::DEC;
    if (finite_dec) ref = strtold(lexeme_text(L).c_str(), nullptr);
    T cr = 0;
    if (finite_dec) cr = sizeof(T) == 4 ? (T)::strtof(lexeme_text(L).c_str(), nullptr) : (T)::strtod(lexeme_text(L).c_str(), nullptr);
    bool int19 = strip0(L.intd).size() <= 19;
    // the whole normal range; the last stretch below the maximum (within 4 tol, where a result "within tolerance" may
    // not be representable and the scaling multiplications of the fast parser overflow) is the open class near-max-overflow
    bool in_limits = finite_dec && int19 && std::isnormal(cr) && ref >= Lim<T>::mn && ref <= Lim<T>::mx;
    bool near_max = finite_dec && ref * (1 + 4 * Lim<T>::tol) > Lim<T>::mx;
    bool well_inside = finite_dec && ref >= Lim<T>::lo && ref <= Lim<T>::hi;
    std::string cls = "none";
    if (finite_dec && cls_exp_field<T>(L)) cls = "exp-field-range";
    else if (finite_dec && cls_frac_zeros<T>(L)) cls = "frac-leading-zeros-19";
    // float conversions only: on the unchanged tree no double near DBL_MAX overflows (probed 2026-09-30: every spelling with
    // 15..31 significant digits and 1..19 integer digits of the 600 largest doubles, plain and range-checked: 375 416 calls,
    // no infinity, no ERANGE), so a double that does is a NEW violation, not this finding
    else if (sizeof(T) == 4 && near_max && ref <= Lim<T>::mx) cls = "near-max-overflow";
    // how tight is each open class?  inputs that fall into its region vs. inputs of the region that actually fail
    // (the second number is the known_findings_hit count of the run): both go to the evidence
    // (only inputs on which a value clause of the property applies: in range)
    if (cls != "none" && extra && (in_limits || well_inside)) ++(*extra)["open_class_region_inputs:" + cls];

    if (sto) {
      // exception table
      if (r.kind == "err:check") {
        bool np = L.ok && L.kind == Lex::NAN_ && L.end < s.size() && s[L.end] == '(';
        F(np ? "nan-paren-unterminated" : "none", "dmlc::Error instead of a std exception / a value");
        return;
      }
      if ((r.kind == "throw:invalid") != !L.ok) {
        F(!L.ok ? "endptr-partial-token" : "none",
          std::string("invalid_argument ") + (L.ok ? "thrown although a number is present" : "not thrown although no number is present") +
              " (got " + r.kind + ")");
        return;
      }
      if (!L.ok) return;
      if (r.kind == "throw:range") {
        if (L.kind != Lex::DEC) F("none", "out_of_range for an inf/nan spelling");
        else if (well_inside) F(cls, "out_of_range although |value| is well inside the range");
        return;
      }
      if (!r.val) { F("none", "unexpected result " + r.kind); return; }
      if (finite_dec && is_inf) { F(cls, "returned an infinity for a finite decimal input"); return; }
    } else {
      if (r.kind == "err:check") {
        bool np = L.ok && L.kind == Lex::NAN_ && L.end < s.size() && s[L.end] == '(';
        F(np ? "nan-paren-unterminated" : "none", "dmlc::Error thrown");
        return;
      }
      if (!r.val) { F("none", "unexpected result " + r.kind); return; }
    }
    // end pointer
    if (r.end != (long)L.end) {
      F("endptr-partial-token", "end = " + std::to_string(r.end) + ", longest numeric prefix ends at " + std::to_string(L.end));
    }
    if (!L.ok) return;
    if (L.kind == Lex::INF) {
      if (!is_inf || vneg != L.neg) F("none", "inf spelling does not give the signed infinity");
      if (r.err != e0 && !e0.empty()) F("none", "errno changed by an inf spelling");
      return;
    }
    if (L.kind == Lex::NAN_) {
      if (!is_nan) F("none", "nan spelling does not give NaN");
      return;
    }
    // finite decimal
    if (all_zero_digits(L) && !L.has_exp) {
      if (got != 0 || vneg != L.neg) F("none", "zero does not parse to the signed zero");
      return;
    }
    if (in_limits) {
      long double g = vneg ? -got : got;
      if (is_inf || is_nan || vneg != L.neg || fabsl(g - ref) > Lim<T>::tol * ref) {
        char b[160];
        snprintf(b, sizeof b, "value %.21Lg, correctly rounded %.21Lg (relative error %.3Lg)", got, (long double)cr,
                 is_inf || is_nan ? (long double)INFINITY : fabsl(g - ref) / ref);
        F(cls, b);
      }
      if (chk && !e0.empty() && r.err != e0) F(cls, "errno changed (" + e0 + " -> " + r.err + ") for an in-range value");
    }
  }

  void check_int(const std::string &op, const std::vector<std::string> &w, const R &r, std::vector<std::string> *fail) {
    std::string s = cstr_of(vh::unhex(op == "str2type" ? w[2] : w[1]));
    std::string ty = op == "str2type" ? w[1] : op == "strtoull" ? "u64" : op == "atol" ? "i64" : op.substr(6);
    int base = (op == "str2type" || op == "atol") ? 10 : (w.size() > 2 ? atoi(w[2].c_str()) : 10);
    if (base != 10) return;  // the property speaks about decimal digit strings
    std::string tag = op + " " + ty + "(\"" + vh::json_escape(s.substr(0, 60)) + "\")";
    auto F = [&](const std::string &m) { fail->push_back("class=none prop=C14 " + tag + ": " + m); };
    if (r.kind == "ub:oob") { F("read past the terminating NUL"); return; }
    size_t i = 0, n = s.size();
    while (i < n && ws_char(s[i])) ++i;
    bool neg = false;
    if (i < n && (s[i] == '+' || s[i] == '-')) { neg = s[i] == '-'; ++i; }
    size_t d0 = i;
    unsigned __int128 v = 0;
    bool big = false;
    while (i < n && dg(s[i])) {
      v = v * 10 + (unsigned)(s[i] - '0');
      if (v > ((unsigned __int128)1 << 70)) big = true;
      ++i;
    }
    if (i == d0) return;  // not a digit string
    bool is_signed = ty[0] == 'i';
    int bits = ty.substr(1) == "32" ? 32 : 64;
    if (!is_signed && neg) return;  // not in range of an unsigned type (the code raises CHECK)
    bool in_range;
    if (is_signed) in_range = !big && (neg ? v <= ((unsigned __int128)1 << (bits - 1)) : v < ((unsigned __int128)1 << (bits - 1)));
    else in_range = !big && v < ((unsigned __int128)1 << bits);
    if (!in_range) return;
    if (!r.val) { F("in-range digit string gives " + r.kind); return; }
    uint64_t want = neg ? (uint64_t)(0 - (uint64_t)v) : (uint64_t)v;
    if (bits == 32) want &= 0xffffffffu;
    if (r.bits != want) F("value " + hex64(r.bits) + " != exact " + hex64(want));
    if (r.end >= 0 && r.end != (long)i) F("end " + std::to_string(r.end) + " != " + std::to_string(i));
  }

  void end_case(const Case &c, const std::vector<std::string> &res, std::vector<std::string> *fail) override {
    for (size_t k = 0; k < c.ops.size(); ++k) {
      auto w = vh::split_ws(c.ops[k]);
      if (w.size() < 2) continue;
      const std::string &op = w[0];
      R r = parse_res(res[k]);
      if (op == "strtof" || op == "strtod" || op == "strtof_check_range" || op == "strtod_check_range" ||
          op == "stof" || op == "stod") {
        std::string s = cstr_of(vh::unhex(w[1]));
        std::string e0 = w.size() > 2 ? w[2] : "0";
        bool sto = op[2] == 'o';
        bool chk = sto || op.size() > 6;
        bool f32 = op == "strtof" || op == "strtof_check_range" || op == "stof";
        if (f32) check_float<float>(op, s, e0, r, sto, chk, fail);
        else check_float<double>(op, s, e0, r, sto, chk, fail);
      } else if (op == "atof" || (op == "str2type" && w.size() == 3 && w[1][0] == 'f')) {
        // same code path as strtof / strtod without an end pointer: value only
        std::string s = cstr_of(vh::unhex(op == "atof" ? w[1] : w[2]));
        R r2 = r;
        r2.end = (long)scan(s).end;
        if (op == "atof" || w[1] == "f32") check_float<float>(op, s, "", r2, false, false, fail);
        else check_float<double>(op, s, "", r2, false, false, fail);
      } else {
        check_int(op, w, r, fail);
      }
    }
  }

  std::string shape(const Case &c, const std::vector<std::string> &res) override {
    if (c.ops.empty()) return "";
    auto w = vh::split_ws(c.ops[0]);
    if (w.size() < 2) return "";
    if (w[0] == "str2type" || w[0] == "atol" || w[0] == "strtoull" || w[0].compare(0, 6, "parse_") == 0) return "integer";
    Lex L = scan(cstr_of(vh::unhex(w[1])));
    if (!L.ok) return "";
    if (L.kind == Lex::INF) return "inf-spelling";
    if (L.kind == Lex::NAN_) return "nan-spelling";
    std::string s = "decimal";
    if (L.has_dot) s += L.fracd.size() > 19 ? "+frac>19" : "+frac";
    if (L.has_exp) s += exp_field(L) > 38 ? "+exp>38" : "+exp";
    if (L.end != L.end_core) s += "+f";
    return s;
  }
};

// ------------------------------------------------------------------------------------------------
// generators
// ------------------------------------------------------------------------------------------------
static void float_ops(Case *c, const std::string &s, int level) {
  std::string h = vh::hex(s);
  // level 0: the cheap set used for the exhaustive enumeration
  c->ops.push_back("strtof " + h);
  c->ops.push_back("strtod_check_range " + h + " EINVAL");
  c->ops.push_back("stof " + h + " ERANGE");
  c->ops.push_back("stod " + h);
  if (level >= 1) {
    c->ops.push_back("strtod " + h);
    c->ops.push_back("strtof_check_range " + h);
    c->ops.push_back("stof " + h);
    c->ops.push_back("stod " + h + " ERANGE");
    c->ops.push_back("stof " + h + " EINVAL");
  }
  if (level >= 2) {
    c->ops.push_back("atof " + h);
    c->ops.push_back("str2type f32 " + h);
    c->ops.push_back("str2type f64 " + h);
  }
}
static void int_ops(Case *c, const std::string &s) {
  std::string h = vh::hex(s);
  c->ops.push_back("atol " + h);
  c->ops.push_back("strtoull " + h + " 10");
  c->ops.push_back("parse_i32 " + h + " 10");
  c->ops.push_back("parse_i64 " + h + " 10");
  c->ops.push_back("parse_u32 " + h + " 10");
  for (const char *t : {"i32", "u32", "i64", "u64"}) c->ops.push_back(std::string("str2type ") + t + " " + h);
}

static std::string rand_digits(vh::Rng &rng, size_t n, bool nozero_first = false) {
  std::string d;
  for (size_t i = 0; i < n; ++i) d.push_back('0' + (char)rng.below(10));
  if (nozero_first && !d.empty() && d[0] == '0') d[0] = '1' + (char)rng.below(9);
  return d;
}

int main(int argc, char **argv) {
  vh::Runner R;
  R.parse(argc, argv);
  guard_init();
  NumHarness H;
  H.extra = &R.extra;
  R.h = &H;
  if (R.run_replay()) { R.finish(); return 0; }
  vh::Rng rng(R.seed);
  const bool th = R.thorough();

  // (0) corpus: the literals of the repo's unit tests, DESIGN F8 and assorted edge shapes
  {
    const char *lits[] = {
        "0", "0.015625", "-0.015625", "1e-10", "1e10", "1.2f", "1.2e-2f", "3.4e+38", "1.2e-38", "16777216.01",
        "4.920005e9", "4920000500.0", "1e-100", "1e100", "3.5e+38", "1.1e-38", "foobar", "foo1.2", "1.2e10foo",
        "1.2e-2 foo", "0.00048828125", "1.7e+308", "2.3e-308", "16777217.01", "100000000.01", "9007199254740992.01",
        "1e-500", "1e500", "1.8e+308", "2.2e-308", "inf", "+inf", "-inf", "INF", "infinity", "-INFINITY", "+Infinity",
        "nan", "NAN", "nan(foobar)", "NAN(FooBar)", "NaN(foo_bar_12)", "-nan", "+NaN(foo_bar_12)", "infamous",
        "infinity war", "Nanny", "17.065995780200002000000", "0.00017065995780200002",
        // F8
        "100e37", "-100e37", "100e307", "0.0000000001e39", "10000000000e-39", "1e", "1e+", "1e-", ".", "-", "+", "  x", "",
        " ", "-.", "+.e1", ".e1", "1.e1", "1.e", "5.", ".5", "0.00000000000000000000001234", "0.00000000000000000001234",
        "nan(", "nan(abc", "nan()", "nan(a b)", "nan(_)x", "-nan(", "infi", "infin", "infinit", "infinite", "in", "na", "i",
        "1ef", "1e5f", "1fF", "1f", "1.5F", "0x10", "0x1p3", "1e0", "1E+0", "0e999", "0e-38", "1e38", "1e39", "1e-38",
        "1e-37", "1e-39", "1e-45", "1e-46", "3.4028234e38", "3.4028235e38", "3.4028236e38", "1.17549435e-38",
        "1.7976931348623157e308", "1.7976931348623159e308", "2.2250738585072014e-308", "4.9e-324",
        "18446744073709551615", "18446744073709551616", "9999999999999999999", "99999999999999999999",
        "123456789012345678901234567890", "0.99999999999999999999999", "0.1234567890123456789", "0.12345678901234567890",
        "1.0000000000000000000000001", "8.5", "\t\n\r\f 7", "\v7", " +7.25e-3f ", "1e4294967296", "1e4294967297",
        "1e4294967334", "1e-4294967296", "1.5e00000000000000000002", "00000000000000000000000001.5", "- 1", "+-1", "--1",
        "1..2", "1.2.3", "1e1e1", "1e1.5", ".5.", "1_000", "\xff" "1", "1\xff", "\xb1", "1e\xb1", "i\xee" "f"};
    for (const char *l : lits) {
      Case c;
      c.kind = "corpus";
      float_ops(&c, l, 2);
      R.run_case(c);
    }
    const char *ints[] = {"0", "1", "-1", "+1", "2147483647", "2147483648", "-2147483648", "-2147483649", "4294967295",
                          "4294967296", "9223372036854775807", "9223372036854775808", "-9223372036854775808",
                          "-9223372036854775809", "18446744073709551615", "18446744073709551616", "  42", "42abc", "-", "+",
                          "", " ", "00000000000000000000000000017", "12 34", "\n\t-77:", "1e5", "0x1f", "99999999999999999999999"};
    for (const char *l : ints) {
      Case c;
      c.kind = "corpus-int";
      int_ops(&c, l);
      R.run_case(c);
    }
    for (int base : {1, 2, 8, 10, 11, 16, 0}) {
      Case c;
      c.kind = "corpus-base";
      for (const char *l : {"1017", "-12", "789"}) {
        c.ops.push_back("strtoull " + vh::hex(l) + " " + std::to_string(base));
        c.ops.push_back("parse_i64 " + vh::hex(l) + " " + std::to_string(base));
      }
      R.run_case(c);
    }
  }

  // (1) exhaustive over the alphabet of the property
  {
    const std::string alpha = "019+-.eEfina x";
    size_t maxlen = th ? 6 : 5;
    std::string cur;
    std::function<void(size_t)> rec = [&](size_t depth) {
      Case c;
      c.kind = "exh";
      if (cur.size() >= 6) {  // thorough tier, longest strings: two ops (keeps the run near 10 min)
        c.ops.push_back("strtod_check_range " + vh::hex(cur) + " EINVAL");
        c.ops.push_back("stof " + vh::hex(cur) + " ERANGE");
      } else {
        float_ops(&c, cur, 0);
      }
      if (cur.size() <= 3) int_ops(&c, cur);
      R.run_case(c);
      if (depth == maxlen) return;
      for (char ch : alpha) {
        cur.push_back(ch);
        rec(depth + 1);
        cur.pop_back();
      }
    };
    rec(0);
  }

  // (2) boundary families: mantissa m x 10^k spelled with shifted decimal points around the limits
  {
    struct B { const char *mant; int e10; };
    const B bs[] = {{"34028234", 31}, {"34028235", 31}, {"34028236", 31}, {"34028234663852886", 22}, {"3402823", 32},
                    {"11754944", -45}, {"11754943", -45}, {"1175494351", -47}, {"1", 38}, {"1", -38}, {"1", -37}, {"1", 30},
                    {"1", -30}, {"99999", 25}, {"1", 29}, {"1", -29}, {"5", -46}, {"14", -46},
                    {"17976931348623157", 292}, {"17976931348623158", 292}, {"17976931348623159", 292}, {"1797693", 302},
                    {"22250738585072014", -324}, {"22250738585072011", -324}, {"1", 308}, {"1", -308}, {"1", -307}, {"1", 300},
                    {"1", -300}, {"49", -325}, {"1", 299}, {"1", -299}, {"12345678", 0}, {"9007199254740993", 0}};
    for (const B &b : bs) {
      std::string m = b.mant;
      for (int shift = -12; shift <= 12; ++shift) {
        // value = m * 10^e10 = (m with the point moved left by `shift`) * 10^(e10 + shift)
        std::string t;
        int L = (int)m.size();
        if (shift <= 0) t = m + std::string(-shift, '0');
        else if (shift < L) t = m.substr(0, L - shift) + "." + m.substr(L - shift);
        else t = "0." + std::string(shift - L, '0') + m;
        int e = b.e10 + shift;
        for (const char *sg : {"", "-"}) {
          Case c;
          c.kind = "boundary";
          float_ops(&c, std::string(sg) + t + "e" + std::to_string(e), 1);
          R.run_case(c);
        }
        if (shift % 4 == 0) {
          Case c;
          c.kind = "boundary";
          float_ops(&c, t + "E+" + std::to_string(e) + "f,", 1);
          R.run_case(c);
        }
      }
    }
  }

  // (3) random long mantissas / exponents
  size_t nrand = th ? 1000000 : 10000;
  for (size_t it = 0; it < nrand; ++it) {
    Case c;
    c.kind = "random";
    std::string s;
    if (rng.chance(1, 6)) s += std::string(1 + rng.below(3), " \t\n\r\f"[rng.below(5)]);
    if (rng.chance(1, 3)) s += rng.chance(1, 2) ? "-" : "+";
    size_t ni = rng.chance(1, 12) ? 20 + rng.below(6) : rng.below(20);
    size_t nf = rng.chance(1, 3) ? 0 : (rng.chance(1, 4) ? 18 + rng.below(12) : 1 + rng.below(18));
    if (ni == 0 && nf == 0) ni = 1;
    std::string id = rand_digits(rng, ni, rng.chance(3, 4)), fd = rand_digits(rng, nf);
    if (ni <= 1 && rng.chance(1, 4)) {  // leading zeros in the fraction
      size_t z = rng.below(24);
      id = rng.chance(1, 2) ? "0" : "";
      fd = std::string(z, '0') + rand_digits(rng, 1 + rng.below(12), true);
    }
    s += id;
    if (!fd.empty() || rng.chance(1, 10)) s += "." + fd;
    if (rng.chance(2, 3)) {
      // aim the total magnitude into / around the type ranges
      long lead = (long)strip0(id).size();
      long target;
      switch (rng.below(8)) {
        case 0: target = 36 + (long)rng.below(5); break;
        case 1: target = -(36 + (long)rng.below(12)); break;
        case 2: target = 305 + (long)rng.below(6); break;
        case 3: target = -(305 + (long)rng.below(22)); break;
        case 4: target = (long)rng.below(61) - 30; break;
        default: target = (long)rng.below(601) - 300; break;
      }
      long e = target - lead + 1;
      s += rng.chance(1, 2) ? "e" : "E";
      if (e < 0) s += "-";
      else if (rng.chance(1, 2)) s += "+";
      if (rng.chance(1, 20)) s += "00";
      s += std::to_string(e < 0 ? -e : e);
    }
    if (rng.chance(1, 8)) s += rng.chance(1, 2) ? "f" : "F";
    if (rng.chance(1, 3)) s += " ,:\n#xe.-+f"[rng.below(11)];
    float_ops(&c, s, th ? 0 : 1);
    R.run_case(c);
  }

  // (4) inf / nan spellings, partial and decorated
  {
    const char *stems[] = {"inf", "infinity", "nan", "in", "infi", "infinit", "na", "nan(", "nan()", "nan(a1_)", "nan(a-b)",
                           "nan(abc", "nan(abc)(", "infinityy", "inff", "nanf", "naninf", "infnan"};
    size_t n = th ? 4000 : 600;
    for (size_t it = 0; it < n; ++it) {
      std::string s = stems[rng.below(sizeof stems / sizeof *stems)];
      for (auto &ch : s)
        if (rng.chance(1, 2) && ch >= 'a' && ch <= 'z') ch = (char)(ch - 32);
      std::string pre;
      if (rng.chance(1, 4)) pre += " \t\n"[rng.below(3)];
      if (rng.chance(1, 2)) pre += "+-"[rng.below(2)];
      std::string post;
      if (rng.chance(1, 3)) post = std::string(1, " x1.e)("[rng.below(7)]);
      Case c;
      c.kind = "infnan";
      float_ops(&c, pre + s + post, 1);
      R.run_case(c);
    }
  }

  // (5) integer parsers: digit strings around the type boundaries
  {
    const char *edges[] = {"2147483647", "2147483648", "4294967295", "4294967296", "9223372036854775807",
                           "9223372036854775808", "18446744073709551615", "18446744073709551616"};
    size_t n = th ? 200000 : 6000;
    for (size_t it = 0; it < n; ++it) {
      std::string s;
      if (rng.chance(1, 5)) s += std::string(1 + rng.below(2), " \t\n\r\f"[rng.below(5)]);
      if (rng.chance(1, 2)) s += "+-"[rng.below(3) ? 1 : 0];
      if (rng.chance(1, 3)) {
        std::string e = edges[rng.below(8)];
        if (rng.chance(1, 2)) {  // perturb the last digits
          size_t k = e.size() - 1 - rng.below(2);
          e[k] = '0' + (char)rng.below(10);
        }
        if (rng.chance(1, 6)) e = std::string(rng.below(4), '0') + e;
        s += e;
      } else {
        s += rand_digits(rng, 1 + rng.below(rng.chance(1, 8) ? 24 : 19), rng.chance(3, 4));
      }
      if (rng.chance(1, 3)) s += " :,.ex\n"[rng.below(7)];
      Case c;
      c.kind = "int";
      int_ops(&c, s);
      R.run_case(c);
    }
  }

  // (6) malformed: random bytes from a token-heavy alphabet incl. high bytes
  {
    const std::string a2 = std::string("0123456789+-.eEfFiInNaAtTyY()_ \t\n,:x") + "\xff\x80\xb0\xae";
    size_t n = th ? 300000 : 8000;
    for (size_t it = 0; it < n; ++it) {
      std::string s;
      size_t len = 1 + rng.below(12);
      for (size_t k = 0; k < len; ++k) s.push_back(a2[rng.below(a2.size())]);
      Case c;
      c.kind = "malformed";
      float_ops(&c, s, 0);
      if (rng.chance(1, 4)) int_ops(&c, s);
      R.run_case(c);
    }
  }
  R.finish();
  return 0;
}
