// Correspondence harness + oracles for C10: the prefetching wrapper ThreadedInputSplit and the on-disk
// cache CachedInputSplit (and InputSplit::Create, which places one of them around every split).
//
// The REAL classes run (a) natively, with real threads, every case in a forked child so that a sanitizer
// abort becomes the result of that case (`ub:oob`), and (b) under the controlled scheduler
// (h_wrappers_vs.cc) for the prefetch handshake.  The base split is a LineSplitter / RecordIOSplitter over
// the in-memory filesystem wrapped in an entry/exit monitor (h_wrappers_vs.h); cache files and the files
// given to InputSplit::Create are real files below the --out directory.
//
// Line protocol (one result line per op):
//   file <i> <hex> | recfile <i> <hexrec>*       input file i                         -> ok | file <hex>
//   newt <text|recordio> <k> <n> <w> <batch> <us> ThreadedInputSplit over a base split with a w-word buffer
//                                                 (us = delay inside every base call)  -> ok | err:check
//   newc <text|recordio> <k> <n> <w> <name>       CachedInputSplit, cache file <name>  -> ok | err:check
//   create <text|recordio> <k> <n> <name|-> <kBufferSize>  InputSplit::Create("files[#name]") -> ok | err:check
//   rec | chunk                                   NextRecord / NextChunk               -> rec|chunk <hex> / false
//   drain rec|chunk                               to the end of the pass               -> blobs <hex>* end
//   bf | reset <k> <n>                            BeforeFirst / ResetPartition         -> ok | err:check
//   hint <bytes>                                  HintChunkSize (sizes cells allocated later; no visible effect) -> ok
//   reopen                                        destroy, construct again (same arguments, same cache) -> ok
//   destroy                                       delete the object                    -> ok
//   cache                                         bytes of the cache file (expected name) -> cache <hex> | cache none | cache nd
//   cname <k> <n>                                 dmlc::io::URISpec("/d/f0#cb", k, n).cache_file -> cname <name>
// Canonicalisation: after a dmlc::Error the object is `poisoned`; once the process died with a sanitizer
// report every result from the point where the undefined behaviour became possible is `ub:oob`; a cache
// file that is still being written (first pass, object alive) has timing-dependent content: `cache nd`.
// (An object destroyed in its first pass finishes the pass in its destructor -- fixes/C10-3.diff -- so the
// file it leaves is determined; on a tree without that repair the model answers `nd` where the code
// answers with whatever was written, and the oracle reports class partial-cache-reuse.)
#include <dmlc/base.h>
#include <dmlc/filesystem.h>
#include <dmlc/io.h>
#include <dmlc/logging.h>
#include <dmlc/memory_io.h>
#include <dmlc/recordio.h>
#include <dmlc/threadediter.h>
#include <fcntl.h>
#include <poll.h>
#include <signal.h>
#include <sys/stat.h>
#include <sys/types.h>
#include <sys/wait.h>
#include <unistd.h>
#include <algorithm>
#include <chrono>
#include <fstream>
#include <memory>
#include <sstream>
#include <thread>
#include "common/memfs.h"
#include "common/proto.h"
#define private public
#define protected public
#include <io/input_split_base.h>
#include <io/line_split.h>
#include <io/recordio_split.h>
#include <io/threaded_input_split.h>
#include <io/cached_input_split.h>
#include <io/uri_spec.h>
#undef private
#undef protected
#include "h_wrappers_vs.h"

#ifdef VH_COVERAGE
extern "C" void __gcov_dump(void);
#endif
using dmlc::InputSplit;
using dmlc::io::InputSplitBase;
using vh::Case;

static const uint32_t kMagic = dmlc::RecordIOWriter::kMagic;

// ---- independent references ---------------------------------------------------------------------
static void canon_text(const std::string &b, std::vector<std::string> *out) {
  size_t i = 0;
  while (i < b.size()) {
    size_t j = i;
    while (j < b.size() && b[j] != '\n' && b[j] != '\r' && b[j] != '\0') ++j;
    if (j > i) out->push_back(b.substr(i, j - i));
    i = j + 1;
  }
}
static bool parse_recordio(const std::string &s, std::vector<std::string> *out) {
  size_t o = 0;
  std::string cur;
  bool open = false;
  while (o < s.size()) {
    if (o + 8 > s.size()) return false;
    uint32_t m, l;
    memcpy(&m, s.data() + o, 4);
    memcpy(&l, s.data() + o + 4, 4);
    if (m != kMagic) return false;
    uint32_t flag = l >> 29, len = l & ((1u << 29) - 1);
    size_t pad = (len + 3u) / 4u * 4u;
    if (o + 8 + pad > s.size()) return false;
    if (flag == 0 || flag == 1) {
      if (open) return false;
      cur.assign(s, o + 8, len);
    } else {
      if (!open) return false;
      cur.append(reinterpret_cast<const char *>(&kMagic), 4);
      cur.append(s, o + 8, len);
    }
    open = (flag == 1 || flag == 2);
    if (!open) out->push_back(cur);
    o += 8 + pad;
  }
  return !open;
}
static std::string show(const std::vector<std::string> &v, size_t lim = 6) {
  std::string s = "[";
  for (size_t i = 0; i < v.size() && i < lim; ++i) s += (i ? "," : "") + vh::hex(v[i]).substr(0, 40);
  if (v.size() > lim) s += ",..(" + std::to_string(v.size()) + ")";
  return s + "]";
}
static std::string read_file(const std::string &p, bool *ok) {
  std::ifstream in(p, std::ios::binary);
  *ok = static_cast<bool>(in);
  std::stringstream ss;
  ss << in.rdbuf();
  return ss.str();
}
// the name URISpec is documented to give the cache file of part k of n
static std::string expected_cache_name(const std::string &name, unsigned k, unsigned n) {
  if (n == 1) return name;
  return name + ".split" + std::to_string(n) + ".part" + std::to_string(k);
}

// ---- file table built from the ops (shared by child, oracle) -----------------------------------------
struct Files {
  std::vector<std::string> bytes;
  std::vector<std::vector<std::string>> recs;
  std::string apply(const std::vector<std::string> &w) {
    size_t i = strtoull(w[1].c_str(), nullptr, 10);
    if (i > bytes.size()) return "bad-op";
    if (i == bytes.size()) { bytes.push_back(""); recs.emplace_back(); }
    if (w[0] == "file") {
      if (w.size() != 3) return "bad-op";
      bytes[i] = vh::unhex(w[2]);
      recs[i].clear();
      return "ok";
    }
    std::string img;
    std::vector<std::string> rs;
    {
      dmlc::MemoryStringStream ms(&img);
      dmlc::RecordIOWriter wr(&ms);
      for (size_t j = 2; j < w.size(); ++j) {
        rs.push_back(vh::unhex(w[j]));
        wr.WriteRecord(rs.back());
      }
    }
    bytes[i] = img;
    recs[i] = rs;
    return "file " + vh::hex(img);
  }
  void put(vh::MemFS *fs) const {
    fs->Clear();
    for (size_t i = 0; i < bytes.size(); ++i) fs->Put("/m/f" + std::to_string(i), bytes[i]);
  }
  std::string uri() const {
    std::vector<std::string> names;
    for (size_t i = 0; i < bytes.size(); ++i) names.push_back("/m/f" + std::to_string(i));
    return vh::MemFS::JoinUri(names);
  }
};

// ---- the object under test (child process) -------------------------------------------------------
static thread_local int tl_role = 1;   // threads the library starts are prefetch threads

struct ObjSpec {
  enum Kind { NONE, THREADED, CACHED, CREATED } kind = NONE;
  bool text = true;
  unsigned k = 0, n = 1;
  size_t w = 1, batch = 1;
  int delay_us = 0;
  std::string cname;   // "-" = none
};

struct Child {
  std::string out_dir, cache_dir, cfile_dir;
  Files files;
  vh::MemFS fs;
  wmon::Monitor mon;
  ObjSpec spec;
  std::unique_ptr<InputSplit> split;
  bool poisoned = false;
  int fd = -1;

  void say(const std::string &s) {
    std::string l = s + "\n";
    size_t off = 0;
    while (off < l.size()) {
      ssize_t n = write(fd, l.data() + off, l.size() - off);
      if (n <= 0) _exit(3);
      off += n;
    }
  }
  InputSplitBase::Chunk *lent() {
    if (!split) return nullptr;
    if (spec.kind == ObjSpec::THREADED) return static_cast<dmlc::io::ThreadedInputSplit *>(split.get())->tmp_chunk_;
    if (spec.kind == ObjSpec::CACHED) return static_cast<dmlc::io::CachedInputSplit *>(split.get())->tmp_chunk_;
    return nullptr;
  }
  std::string cache_path() const { return cache_dir + "/" + spec.cname; }
  std::string construct() {
    split.reset();
    poisoned = false;
    try {
      if (spec.kind == ObjSpec::CREATED) {
        std::string u;
        for (size_t i = 0; i < files.bytes.size(); ++i) {
          std::string p = cfile_dir + "/f" + std::to_string(i);
          std::ofstream of(p, std::ios::binary | std::ios::trunc);
          of.write(files.bytes[i].data(), files.bytes[i].size());
          of.close();
          u += (i ? ";" : "") + p;
        }
        if (spec.cname != "-") u += "#" + cache_path();
        split.reset(InputSplit::Create(u.c_str(), spec.k, spec.n, spec.text ? "text" : "recordio"));
        return "ok";
      }
      files.put(&fs);
      std::string u = files.uri();
      InputSplitBase *base;
      if (spec.text) {
        auto *m = new wmon::Mon<dmlc::io::LineSplitter>(&fs, u.c_str(), spec.k, spec.n);
        m->mon = &mon;
        m->set_buffer_words(spec.w);
        base = m;
      } else {
        auto *m = new wmon::Mon<dmlc::io::RecordIOSplitter>(&fs, u.c_str(), spec.k, spec.n, false);
        m->mon = &mon;
        m->set_buffer_words(spec.w);
        base = m;
      }
      int us = spec.delay_us;
      mon.pause = [us]() {
        if (us > 0) std::this_thread::sleep_for(std::chrono::microseconds(us));
        else std::this_thread::yield();
      };
      if (spec.kind == ObjSpec::THREADED) split.reset(new dmlc::io::ThreadedInputSplit(base, spec.batch));
      else split.reset(new dmlc::io::CachedInputSplit(base, cache_path().c_str(), true));
      return "ok";
    } catch (const dmlc::Error &) {
      split.reset();
      return "err:check";
    }
  }
  std::string one(bool rec) {
    InputSplit::Blob b;
    bool ok = rec ? split->NextRecord(&b) : split->NextChunk(&b);
    if (!ok) return "false";
    wmon::Section sec(&mon, "blob-copy", false, lent());
    return std::string(rec ? "rec " : "chunk ") + vh::hex(std::string(static_cast<const char *>(b.dptr), b.size));
  }
  std::string exec(const std::vector<std::string> &w) {
    if (w.empty()) return "bad-op";
    const std::string &op = w[0];
    if ((op == "file" || op == "recfile") && w.size() >= 2) return files.apply(w);
    if (op == "newt" && w.size() == 7) {
      spec = ObjSpec();
      spec.kind = ObjSpec::THREADED;
      spec.text = w[1] == "text";
      spec.k = strtoul(w[2].c_str(), nullptr, 10);
      spec.n = strtoul(w[3].c_str(), nullptr, 10);
      spec.w = strtoull(w[4].c_str(), nullptr, 10);
      spec.batch = strtoull(w[5].c_str(), nullptr, 10);
      spec.delay_us = atoi(w[6].c_str());
      if (spec.n == 0 || spec.w == 0) return "bad-op";
      return construct();
    }
    if (op == "newc" && w.size() == 6) {
      spec = ObjSpec();
      spec.kind = ObjSpec::CACHED;
      spec.text = w[1] == "text";
      spec.k = strtoul(w[2].c_str(), nullptr, 10);
      spec.n = strtoul(w[3].c_str(), nullptr, 10);
      spec.w = strtoull(w[4].c_str(), nullptr, 10);
      spec.cname = w[5];
      if (spec.n == 0 || spec.w == 0) return "bad-op";
      return construct();
    }
    if (op == "create" && w.size() == 6) {
      if (strtoull(w[5].c_str(), nullptr, 10) != InputSplitBase::kBufferSize) return "bad-op";
      spec = ObjSpec();
      spec.kind = ObjSpec::CREATED;
      spec.text = w[1] == "text";
      spec.k = strtoul(w[2].c_str(), nullptr, 10);
      spec.n = strtoul(w[3].c_str(), nullptr, 10);
      spec.w = InputSplitBase::kBufferSize;
      spec.cname = w[4];
      if (spec.n == 0) return "bad-op";
      return construct();
    }
    if (op == "cname" && w.size() == 3) {
      try {
        dmlc::io::URISpec us("/d/f0#cb", static_cast<unsigned>(strtoul(w[1].c_str(), nullptr, 10)),
                             static_cast<unsigned>(strtoul(w[2].c_str(), nullptr, 10)));
        return "cname " + us.cache_file;
      } catch (const dmlc::Error &) {
        return "err:check";
      }
    }
    if (op == "cache") {
      if (spec.kind == ObjSpec::NONE || spec.cname.empty() || spec.cname == "-") return "cache none";
      bool ok;
      std::string b = read_file(expected_cache_name(cache_path(), spec.kind == ObjSpec::CREATED ? spec.k : 0,
                                                    spec.kind == ObjSpec::CREATED ? spec.n : 1), &ok);
      return ok ? "cache " + vh::hex(b) : "cache none";
    }
    if (op == "reopen") {
      if (spec.kind == ObjSpec::NONE) return "no-object";
      return construct();
    }
    if (op == "destroy") {
      if (!split) return "no-object";
      split.reset();
      return "ok";
    }
    if (!split) return "no-object";
    if (poisoned) return "poisoned";
    try {
      if (op == "rec" || op == "chunk") return one(op == "rec");
      if (op == "bf") { split->BeforeFirst(); return "ok"; }
      if (op == "hint" && w.size() == 2) { split->HintChunkSize(strtoull(w[1].c_str(), nullptr, 10)); return "ok"; }
      if (op == "reset" && w.size() == 3) {
        unsigned k = strtoul(w[1].c_str(), nullptr, 10), n = strtoul(w[2].c_str(), nullptr, 10);
        if (n == 0) return "bad-op";
        split->ResetPartition(k, n);
        return "ok";
      }
      if (op == "drain" && w.size() == 2) {
        std::string r = "blobs";
        size_t cnt = 0;
        for (;;) {
          std::string b = one(w[1] == "rec");
          if (b == "false") break;
          r += " " + b.substr(b.find(' ') + 1);
          if (++cnt > 100000) return "runaway";
        }
        return r + " end";
      }
    } catch (const dmlc::Error &) {
      poisoned = true;
      return "err:check";
    }
    return "bad-op";
  }
  void run(const std::vector<std::string> &ops) {
    tl_role = 0;
    mon.role = []() { return tl_role; };
    for (size_t i = 0; i < ops.size(); ++i) say("R " + exec(vh::split_ws(ops[i])));
    split.reset();
    {
      std::lock_guard<std::mutex> g(mon.mu);
      for (auto &v : mon.violations) say("V " + v);
    }
    say("N " + std::to_string(mon.base_entries[0].load()) + " " + std::to_string(mon.base_entries[1].load()));
    say("D");
  }
};

// ---- harness ------------------------------------------------------------------------------------------
struct Pre {                       // what one execution of a case produced
  std::vector<std::string> raw;    // results as executed
  std::vector<std::string> viol;   // monitor reports
  std::string death;               // "" | "asan:<kind>:T<n>" | "signal <n>" | "exit <n>" | "timeout" | vs status
  long caller_base_entries = 0;
  std::string sched;
};

struct WrapHarness : vh::Harness {
  std::string prop, out_dir;
  size_t case_no = 0;
  std::map<std::string, uint64_t> *extra = nullptr;
  std::map<std::string, Pre> precomputed;   // vs cases executed by the generator (key = header)
  Pre cur;
  std::vector<std::string> canon;            // canonicalised results handed to the runner
  size_t pos = 0;
  vh::MemFS ref_fs;

  // ---- execution ----
  Pre run_native(const Case &c) {
    Pre p;
    std::string cdir = out_dir + "/cache";
    std::string fdir = out_dir + "/cfiles";
    std::string rm = "rm -rf '" + cdir + "' '" + fdir + "'";
    if (system(rm.c_str()) != 0) {}
    mkdir(cdir.c_str(), 0777);
    mkdir(fdir.c_str(), 0777);
    std::string errp = out_dir + "/child.err";
    int pfd[2];
    if (pipe(pfd) != 0) { perror("pipe"); exit(2); }
    fflush(nullptr);
    pid_t pid = fork();
    if (pid == 0) {
      close(pfd[0]);
      int efd = open(errp.c_str(), O_WRONLY | O_CREAT | O_TRUNC, 0666);
      if (efd >= 0) { dup2(efd, 2); close(efd); }
      Child ch;
      ch.out_dir = out_dir;
      ch.cache_dir = cdir;
      ch.cfile_dir = fdir;
      ch.fd = pfd[1];
      ch.run(c.ops);
#ifdef VH_COVERAGE
      __gcov_dump();   // tools/coverage.py: forked children leave through _exit, which skips the gcov at-exit hook
#endif
      _exit(0);
    }
    close(pfd[1]);
    std::string buf;
    bool done = false;
    auto t0 = std::chrono::steady_clock::now();
    long limit_ms = 12000;
    for (;;) {
      struct pollfd pf = {pfd[0], POLLIN, 0};
      long el = std::chrono::duration_cast<std::chrono::milliseconds>(std::chrono::steady_clock::now() - t0).count();
      if (el >= limit_ms) { kill(pid, SIGKILL); p.death = "timeout"; break; }
      int pr = poll(&pf, 1, static_cast<int>(std::min<long>(limit_ms - el, 1000)));
      if (pr < 0) { if (errno == EINTR) continue; break; }
      if (pr == 0) continue;
      char tmp[65536];
      ssize_t n = read(pfd[0], tmp, sizeof tmp);
      if (n <= 0) break;
      buf.append(tmp, n);
    }
    close(pfd[0]);
    int st = 0;
    waitpid(pid, &st, 0);
    size_t i = 0;
    while (i < buf.size()) {
      size_t j = buf.find('\n', i);
      if (j == std::string::npos) break;
      std::string l = buf.substr(i, j - i);
      i = j + 1;
      if (l.compare(0, 2, "R ") == 0) p.raw.push_back(l.substr(2));
      else if (l.compare(0, 2, "V ") == 0) p.viol.push_back(l.substr(2));
      else if (l.compare(0, 2, "N ") == 0) p.caller_base_entries = atol(l.c_str() + 2);
      else if (l == "D") done = true;
    }
    if (!done && p.death.empty()) {
      bool ok;
      std::string err = read_file(errp, &ok);
      size_t a = err.find("ERROR: AddressSanitizer: ");
      if (a != std::string::npos) {
        size_t b = err.find_first_of(" \n", a + 25);
        std::string kind = err.substr(a + 25, b - (a + 25));
        std::string thr = "T?";
        size_t t = err.find(" thread T", a);
        if (t != std::string::npos) {
          size_t e = t + 9;
          while (e < err.size() && isdigit(static_cast<unsigned char>(err[e]))) ++e;
          thr = err.substr(t + 8, e - (t + 8));
        }
        p.death = "asan:" + kind + ":" + thr;
      } else if (err.find("runtime error:") != std::string::npos) {
        p.death = "ubsan";
      } else if (WIFSIGNALED(st)) {
        p.death = "signal " + std::to_string(WTERMSIG(st));
      } else {
        p.death = "exit " + std::to_string(WIFEXITED(st) ? WEXITSTATUS(st) : -1);
      }
      if (extra) ++(*extra)["child_deaths"];
    }
    return p;
  }

  static bool is_vs(const Case &c) { return c.kind.compare(0, 3, "vs ") == 0; }

  Pre run_vs_replay(const Case &c) {
    Pre p;
    std::string sched;
    for (auto &t : vh::split_ws(c.kind))
      if (t.compare(0, 6, "sched=") == 0) sched = t.substr(6);
    wvs::Spec sp;
    Files fl;
    size_t first_consumer = c.ops.size();
    for (size_t i = 0; i < c.ops.size(); ++i) {
      auto w = vh::split_ws(c.ops[i]);
      if (w.empty()) { p.raw.push_back("bad-op"); continue; }
      if (w[0] == "file" || w[0] == "recfile") { p.raw.push_back(fl.apply(w)); continue; }
      if (w[0] == "newt" && w.size() == 7) {
        sp.text = w[1] == "text";
        sp.k = strtoul(w[2].c_str(), nullptr, 10);
        sp.n = strtoul(w[3].c_str(), nullptr, 10);
        sp.w = strtoull(w[4].c_str(), nullptr, 10);
        sp.batch = strtoull(w[5].c_str(), nullptr, 10);
        first_consumer = i + 1;
        break;
      }
      p.raw.push_back("bad-op");
    }
    sp.files = fl.bytes;
    for (size_t i = first_consumer; i < c.ops.size(); ++i) sp.ops.push_back(c.ops[i]);
    if (first_consumer == c.ops.size() && (c.ops.empty() || vh::split_ws(c.ops.back())[0] != "newt")) return p;
    wvs::Out o = wvs::run_replay(sp, sched);
    return from_vs(p, o);
  }
  static Pre from_vs(Pre p, const wvs::Out &o) {
    bool ctor_failed = !o.results.empty() && o.results[0] == "no-object";
    p.raw.push_back(ctor_failed ? "err:check" : "ok");
    for (auto &r : o.results) p.raw.push_back(r);
    p.viol = o.violations;
    if (o.status != "completed") p.death = o.status + " " + o.blocked;
    p.sched = o.schedule;
    return p;
  }

  // ---- canonicalisation of the raw results (rules in the header comment) ----
  struct CacheSt { int st = 0; };   // 0 absent, 1 complete, 2 nd
  void canonicalise(const Case &c) {
    canon = cur.raw;
    while (canon.size() < c.ops.size()) canon.push_back("");
    std::map<std::string, int> cache;   // expected file name -> 0 absent / 1 complete / 2 nd
    bool have = false, cached = false, preproc = false, complete = false, nd = false, alive = false;
    std::string cfile;
    size_t replay_start = c.ops.size();
    auto start_obj = [&](size_t i) {
      alive = canon[i] == "ok";
      nd = false;
      if (!cached) return;
      int st = cache[cfile];
      if (st == 2) { nd = true; canon[i] = "nd"; alive = true; return; }
      if (!alive) return;
      if (st == 1) { preproc = false; replay_start = i; }
      else { preproc = true; complete = false; }
    };
    auto end_obj = [&]() {
      // the destructor finishes an unfinished first pass (fixes/C10-3.diff): the file it leaves is complete
      if (cached && alive && !nd && preproc) cache[cfile] = 1;
      (void)complete;
      alive = false;
    };
    for (size_t i = 0; i < c.ops.size(); ++i) {
      auto w = vh::split_ws(c.ops[i]);
      if (w.empty()) continue;
      if (w[0] == "newt" || w[0] == "newc" || w[0] == "create") {
        end_obj();
        have = true;
        cached = (w[0] == "newc") || (w[0] == "create" && w.size() == 6 && w[4] != "-");
        if (cached) {
          unsigned k = strtoul(w[2].c_str(), nullptr, 10), n = strtoul(w[3].c_str(), nullptr, 10);
          cfile = w[0] == "newc" ? w[5] : expected_cache_name(w[4], k, n);
        }
        start_obj(i);
        continue;
      }
      if (!have) continue;
      if (w[0] == "reopen") { end_obj(); start_obj(i); continue; }
      if (w[0] == "destroy") { end_obj(); continue; }
      if (w[0] == "cache") {
        if (cached && (cache[cfile] == 2 || (alive && (nd || preproc)))) canon[i] = "cache nd";
        continue;
      }
      if (nd && alive) { canon[i] = "nd"; continue; }
      if (!alive || !cached) continue;
      const std::string &r = cur.raw.size() > i ? cur.raw[i] : canon[i];
      if (preproc) {
        if (w[0] == "bf" && r == "ok") { preproc = false; cache[cfile] = 1; replay_start = i; }
        else if (r == "false" || r.compare(0, 5, "blobs") == 0) complete = true;
      }
    }
    // a sanitizer death: undefined behaviour
    if (cur.death.compare(0, 5, "asan:") == 0) {
      size_t from = cur.raw.size();
      bool main_thread = cur.death.size() >= 3 && cur.death.compare(cur.death.size() - 3, 3, ":T0") == 0;
      if (!main_thread && replay_start < from) from = replay_start;
      for (size_t i = from; i < canon.size(); ++i) canon[i] = "ub:oob";
    } else if (!cur.death.empty()) {
      for (size_t i = cur.raw.size(); i < canon.size(); ++i) canon[i] = "died:" + cur.death.substr(0, cur.death.find(' '));
    }
  }

  void begin_case(const Case &c) override {
    ++case_no;
    pos = 0;
    auto it = precomputed.find(c.kind);
    if (it != precomputed.end()) {
      cur = it->second;
      precomputed.erase(it);
    } else if (is_vs(c)) {
      cur = run_vs_replay(c);
    } else {
      cur = run_native(c);
    }
    canonicalise(c);
  }
  std::string exec(const std::vector<std::string> &) override {
    return pos < canon.size() ? canon[pos++] : std::string("missing");
  }

  // ---- references: the unwrapped base split on the same input ----
  bool bare(const Files &fl, bool text, unsigned k, unsigned n, size_t w, bool want_rec, std::vector<std::string> *out) {
    try {
      fl.put(&ref_fs);
      std::string u = fl.uri();
      std::unique_ptr<InputSplitBase> s;
      if (text) s.reset(new dmlc::io::LineSplitter(&ref_fs, u.c_str(), k, n));
      else s.reset(new dmlc::io::RecordIOSplitter(&ref_fs, u.c_str(), k, n, false));
      s->buffer_size_ = w;
      InputSplit::Blob b;
      size_t cnt = 0;
      while ((want_rec ? s->NextRecord(&b) : s->NextChunk(&b)) && ++cnt < 200000)
        out->push_back(std::string(static_cast<const char *>(b.dptr), b.size));
      return true;
    } catch (const dmlc::Error &) {
      return false;
    }
  }
  static bool canon_blobs(bool text, const std::vector<std::pair<std::string, bool>> &blobs, std::vector<std::string> *out) {
    for (auto &b : blobs) {
      if (text) canon_text(b.first, out);
      else if (b.second) { if (!parse_recordio(b.first, out)) return false; }
      else out->push_back(b.first);
    }
    return true;
  }

  void end_case(const Case &c, const std::vector<std::string> &, std::vector<std::string> *fail) override {
    const std::vector<std::string> &res = cur.raw;
    Files fl;
    bool has_reset_on_threaded = false, has_threaded = false;
    // object + pass tracking
    bool have = false, text = true, alive = false, from_nd_cache = false, cached = false, threaded = false, preproc = false,
         complete = false, ended = false, pure_chunk = true;
    unsigned k = 0, n = 1, k0 = 0, n0 = 1;
    size_t w = 1;
    std::string cfile, what = "construction";
    std::map<std::string, int> cache;   // 0 absent 1 complete 2 nd
    std::map<std::string, std::pair<unsigned long, unsigned long>> names_seen;
    std::vector<std::pair<std::string, bool>> seg;
    bool ub = cur.death.compare(0, 5, "asan:") == 0;
    const std::string pr = prop.empty() ? std::string("C10") : prop;
    auto tag = [&](const std::string &cls) { return "class=" + cls + " prop=" + pr + " "; };
    auto close_seg = [&](bool final_full) {
      if (!alive) { seg.clear(); return; }
      std::vector<std::string> got, want;
      std::string cls = from_nd_cache ? "partial-cache-reuse" : "none";
      if (!bare(fl, text, k, n, 64, true, &want)) { seg.clear(); return; }
      std::vector<std::string> wantc;
      { std::vector<std::pair<std::string, bool>> t; for (auto &r : want) t.push_back({r, false}); canon_blobs(text, t, &wantc); }
      if (!canon_blobs(text, seg, &got)) {
        fail->push_back(tag(cls) + "after " + what + ": a delivered chunk is not a sequence of whole records");
      } else {
        bool ok = final_full ? got == wantc : (got.size() <= wantc.size() && std::equal(got.begin(), got.end(), wantc.begin()));
        if (!ok)
          fail->push_back(tag(cls) + "after " + what + " the wrapper delivers " + show(got) + (final_full ? " = " : " ... ") +
                          std::to_string(got.size()) + " records; the unwrapped split delivers " + show(wantc) + " = " +
                          std::to_string(wantc.size()));
        else if (final_full && pure_chunk && !seg.empty()) {
          std::vector<std::string> chunks, gotc;
          for (auto &b : seg) gotc.push_back(b.first);
          if (bare(fl, text, k, n, w, false, &chunks) && chunks != gotc)
            fail->push_back(tag(cls) + "after " + what + " the chunk stream " + show(gotc) + " differs from the unwrapped split's " + show(chunks));
        }
      }
      seg.clear();
    };
    auto start_obj = [&](const std::string &r, const std::string &how) {
      alive = r == "ok";
      from_nd_cache = false;
      ended = false;
      pure_chunk = true;
      what = how;
      seg.clear();
      if (!alive) {
        // (no input files = not a well-formed input: the constructor is right to refuse)
        if (!ub && !fl.bytes.empty()) fail->push_back(tag("none") + how + " failed: " + r);
        return;
      }
      if (cached) {
        int st = cache[cfile];
        from_nd_cache = st == 2;
        preproc = st == 0;
        complete = false;
      }
    };
    auto end_obj = [&]() {
      close_seg(ended);
      if (cached && alive && preproc) cache[cfile] = complete ? 1 : 2;
      alive = false;
    };
    for (size_t i = 0; i < c.ops.size() && i < res.size(); ++i) {
      auto wd = vh::split_ws(c.ops[i]);
      const std::string &r = res[i];
      if (wd.empty()) continue;
      if (wd[0] == "file" || wd[0] == "recfile") { fl.apply(wd); continue; }
      if (wd[0] == "cname" && wd.size() == 3) {
        // documented name: <cachefile>.split<n>.part<k> (nothing for a single part); distinct parts, distinct files
        unsigned long pk = strtoul(wd[1].c_str(), nullptr, 10), pn = strtoul(wd[2].c_str(), nullptr, 10);
        std::string want = expected_cache_name("cb", static_cast<unsigned>(pk), static_cast<unsigned>(pn));
        std::string got = r.compare(0, 6, "cname ") == 0 ? r.substr(6) : r;
        if (got != want)
          fail->push_back(tag("none") + "URISpec names the cache file of part " + wd[1] + " of " + wd[2] + " '" + got +
                          "', documented: '" + want + "'");
        auto key = std::make_pair(pk, pn);
        auto it = names_seen.find(got);
        if (it != names_seen.end() && it->second != key)
          fail->push_back(tag("none") + "parts (" + std::to_string(it->second.first) + "," + std::to_string(it->second.second) +
                          ") and (" + wd[1] + "," + wd[2] + ") share the cache file '" + got + "'");
        names_seen[got] = key;
        continue;
      }
      if (wd[0] == "newt" || wd[0] == "newc" || wd[0] == "create") {
        end_obj();
        have = true;
        text = wd[1] == "text";
        k = k0 = strtoul(wd[2].c_str(), nullptr, 10);
        n = n0 = strtoul(wd[3].c_str(), nullptr, 10);
        threaded = wd[0] == "newt" || (wd[0] == "create" && wd[4] == "-");
        cached = !threaded;
        if (threaded) has_threaded = true;
        w = wd[0] == "create" ? InputSplitBase::kBufferSize : strtoull(wd[4].c_str(), nullptr, 10);
        if (cached) cfile = wd[0] == "newc" ? wd[5] : expected_cache_name(wd[4], k, n);
        start_obj(r, wd[0] + "(" + wd[2] + "," + wd[3] + ")");
        continue;
      }
      if (!have) continue;
      if (wd[0] == "reopen") { end_obj(); k = k0; n = n0; start_obj(r, "reopen"); continue; }
      if (wd[0] == "destroy") { end_obj(); continue; }
      if (wd[0] == "cache") {
        // cache file = sequence of (u64 length, bytes) = the chunk stream of the unwrapped split
        bool determined = cached && !(alive && preproc);
        if (!determined) continue;
        std::string ccls = cache[cfile] == 2 ? "partial-cache-reuse" : "none";
        if (r == "cache none") {
          if (cache[cfile] != 0) fail->push_back(tag(ccls) + "no cache file under the documented name " + cfile);
          continue;
        }
        auto t = vh::split_ws(r);
        if (t.size() != 2) continue;
        std::string bytes = vh::unhex(t[1]);
        std::vector<std::string> got, want;
        size_t o = 0;
        bool wellformed = true;
        while (o < bytes.size()) {
          if (o + 8 > bytes.size()) { wellformed = false; break; }
          uint64_t len;
          memcpy(&len, bytes.data() + o, 8);
          if (len > bytes.size() - o - 8) { wellformed = false; break; }
          got.push_back(bytes.substr(o + 8, len));
          o += 8 + len;
        }
        if (!wellformed) fail->push_back(tag(ccls) + "cache file is not a sequence of (u64 length, bytes)");
        else if (bare(fl, text, k, n, w, false, &want) && got != want)
          fail->push_back(tag(ccls) + "cache file holds chunks " + show(got) + ", the unwrapped split's chunks are " + show(want));
        continue;
      }
      if (!alive) continue;
      if (r.compare(0, 3, "ub:") == 0 || r == "poisoned" || r == "hang" || r == "no-object") continue;
      if (wd[0] == "reset" && cached) {
        if (r != "err:check") fail->push_back(tag("none") + "CachedInputSplit::ResetPartition did not raise: " + r);
        alive = false;   // poisoned from here on
        seg.clear();
        continue;
      }
      if (r == "err:check") {
        fail->push_back(tag(from_nd_cache ? "partial-cache-reuse" : "none") + wd[0] + " raised dmlc::Error on a well-formed input");
        alive = false;
        seg.clear();
        continue;
      }
      if (wd[0] == "rec" || wd[0] == "chunk") {
        if (r == "false") { ended = true; if (cached && preproc) complete = true; continue; }
        auto t = vh::split_ws(r);
        if (t.size() != 2) continue;
        if (ended) fail->push_back(tag("none") + "a blob is delivered after the end of the pass was reported");
        seg.push_back({vh::unhex(t[1]), wd[0] == "chunk"});
        if (wd[0] == "rec") pure_chunk = false;
        continue;
      }
      if (wd[0] == "drain") {
        auto t = vh::split_ws(r);
        if (t.empty() || t[0] != "blobs") { fail->push_back(tag("none") + "drain: " + r); continue; }
        for (size_t q = 1; q < t.size() && t[q] != "end"; ++q) seg.push_back({vh::unhex(t[q]), wd[1] == "chunk"});
        if (wd[1] == "rec") pure_chunk = false;
        ended = true;
        if (cached && preproc) complete = true;
        continue;
      }
      if (wd[0] == "bf") {
        close_seg(ended);
        if (cached && preproc) { preproc = false; cache[cfile] = 1; }
        ended = false;
        pure_chunk = true;
        what = "BeforeFirst";
        continue;
      }
      if (wd[0] == "reset" && wd.size() == 3) {
        close_seg(ended);
        has_reset_on_threaded = true;
        k = strtoul(wd[1].c_str(), nullptr, 10);
        n = strtoul(wd[2].c_str(), nullptr, 10);
        ended = false;
        pure_chunk = true;
        what = "ResetPartition(" + wd[1] + "," + wd[2] + ")";
        continue;
      }
    }
    end_obj();
    // no sanitizer report, no crash, no hang
    if (ub)
      fail->push_back(tag("cache-buffer-overflow") + "sanitizer report in the child: " + cur.death +
                      " (chunk stored outside its buffer)");
    else if (!cur.death.empty())
      fail->push_back(tag(has_reset_on_threaded ? "reset-partition-race" : "none") + "execution did not complete: " + cur.death);
    // the prefetch thread and the caller never overlap inside the base split / a chunk
    for (auto &v : cur.viol) {
      bool reset_race = has_reset_on_threaded && v.find("ResetPartition") != std::string::npos;
      fail->push_back(tag(reset_race ? "reset-partition-race" : "none") + "monitor: " + v);
    }
    (void)has_threaded;
  }

  std::string shape(const Case &c, const std::vector<std::string> &) override {
    std::string s = is_vs(c) ? "vs" : "native";
    bool t = false, ca = false, cr = false, bf = false, rs = false, ro = false;
    for (auto &o : c.ops) {
      if (o.compare(0, 4, "newt") == 0) t = true;
      else if (o.compare(0, 4, "newc") == 0) ca = true;
      else if (o.compare(0, 6, "create") == 0) cr = true;
      else if (o == "bf") bf = true;
      else if (o.compare(0, 5, "reset") == 0) rs = true;
      else if (o == "reopen") ro = true;
    }
    for (auto &o : c.ops)
      if (o.compare(0, 6, "cname ") == 0) return "names";
    if (!t && !ca && !cr) return "";
    s += t ? "-threaded" : "";
    s += ca ? "-cached" : "";
    s += cr ? "-create" : "";
    s += bf ? "+bf" : "";
    s += rs ? "+reset" : "";
    s += ro ? "+reopen" : "";
    if (!cur.death.empty()) s += "!died";
    return s;
  }
};

// ---- generators ---------------------------------------------------------------------------------------
struct Gen {
  vh::Runner &R;
  WrapHarness &H;
  vh::Rng rng;
  Gen(vh::Runner &r, WrapHarness &h) : R(r), H(h), rng(r.seed) {}

  static std::string hexs(const std::string &s) { return vh::hex(s); }
  std::string rand_line(size_t maxlen) {
    size_t n = 1 + rng.below(maxlen);
    std::string s;
    for (size_t i = 0; i < n; ++i) s.push_back("abcxyz019 ,:"[rng.below(12)]);
    return s;
  }
  std::string rand_text(size_t lines, size_t maxlen) {
    std::string s;
    static const char *eols[] = {"\n", "\r\n", "\r", "\n\n"};
    for (size_t i = 0; i < lines; ++i) {
      s += rand_line(maxlen);
      if (i + 1 < lines || !rng.chance(1, 4)) s += eols[rng.chance(3, 4) ? 0 : rng.below(4)];
    }
    return s;
  }
  std::string rand_rec(size_t maxlen) {
    size_t n = rng.below(maxlen + 1);
    std::string s;
    for (size_t i = 0; i < n; ++i) s.push_back(static_cast<char>(rng.chance(1, 6) ? rng.below(256) : 'a' + rng.below(6)));
    if (rng.chance(1, 5) && n >= 4) {   // an aligned magic word inside the payload
      size_t at = (rng.below(n - 3) / 4) * 4;
      memcpy(&s[at], &kMagic, 4);
    }
    return s;
  }
  void add_files(Case *c, bool text, size_t nfiles, size_t items, size_t maxlen) {
    for (size_t f = 0; f < nfiles; ++f) {
      if (text) c->ops.push_back("file " + std::to_string(f) + " " + hexs(rand_text(1 + rng.below(items), maxlen)));
      else {
        std::string o = "recfile " + std::to_string(f);
        size_t nr = 1 + rng.below(items);
        for (size_t i = 0; i < nr; ++i) o += " " + hexs(rand_rec(maxlen));
        c->ops.push_back(o);
      }
    }
  }
  std::string fmt(bool text) const { return text ? "text" : "recordio"; }

  void history(Case *c, size_t len, bool threaded, bool allow_reopen) {
    for (size_t i = 0; i < len; ++i) {
      unsigned x = rng.below(100);
      if (x < 38) c->ops.push_back("rec");
      else if (x < 58) c->ops.push_back("chunk");
      else if (x < 72) c->ops.push_back("bf");
      else if (x < 80) c->ops.push_back(rng.chance(1, 2) ? "drain rec" : "drain chunk");
      else if (x < 90 && threaded) {
        unsigned n = 1 + rng.below(4);
        c->ops.push_back("reset " + std::to_string(rng.below(n + (rng.chance(1, 8) ? 2 : 0))) + " " + std::to_string(n));
      } else if (x < 96 && allow_reopen) c->ops.push_back("reopen");
      else if (x < 98 && !threaded) c->ops.push_back("cache");
      else c->ops.push_back("rec");
    }
  }

  const std::string KB = std::to_string(InputSplitBase::kBufferSize);
  void corpus() {
    {  // F4: a text chunk larger than size/8+1 words
      Case c;
      c.kind = "native corpus cache-replay";
      c.ops = {"file 0 " + hexs("aaaaaaaaaaaaaaaaaaaaaaa\nbbbbbbbbbbbbbbbbbbbbbbbbbb\ncc\n"), "newc text 0 1 16 c0", "rec", "bf", "drain rec",
               "cache", "bf", "drain chunk", "reopen", "drain rec", "cache"};
      R.run_case(c);
    }
    {  // F4 recordio, record larger than the buffer
      Case c;
      c.kind = "native corpus cache-replay-recordio";
      c.ops = {"recfile 0 " + hexs(std::string(70, 'x')) + " " + hexs("yy") + " " + hexs(std::string(9, 'z')), "newc recordio 0 1 4 c0",
               "drain rec", "bf", "rec", "chunk", "drain rec", "reopen", "drain chunk", "cache"};
      R.run_case(c);
    }
    {  // F5: ResetPartition right after construction, the prefetch thread is reading
      Case c;
      c.kind = "native corpus reset-while-prefetching";
      c.ops = {"file 0 " + hexs("l0\nl1\nl2\nl3\nl4\nl5\nl6\nl7\nl8\nl9\n"), "newt text 0 1 1 1 300", "reset 1 2", "drain rec", "reset 0 2",
               "rec", "reset 0 1", "drain rec"};
      R.run_case(c);
    }
    {  // Create with a cache file, 2 parts: documented cache-file names
      Case c;
      c.kind = "native corpus create-cache-names";
      c.ops = {"file 0 " + hexs("one\ntwo\nthree\nfour\nfive\nsix\nseven\n"), "create text 1 2 cc " + KB, "drain rec", "bf", "cache", "drain rec",
               "reopen", "drain rec", "create text 0 2 cc " + KB, "drain rec", "destroy", "cache", "create text 0 1 cc " + KB, "rec", "bf", "cache"};
      R.run_case(c);
    }
    {  // first pass abandoned: the cache file is whatever had been written
      Case c;
      c.kind = "native corpus partial-cache";
      std::string f;
      for (int i = 0; i < 120; ++i) f += "line" + std::to_string(i) + "\n";
      c.ops = {"file 0 " + hexs(f), "newc text 0 1 2 pc", "rec", "reopen", "drain rec", "cache"};
      R.run_case(c);
    }
  }

  // URISpec cache-file names: boundary and random (k, n), and which file InputSplit::Create really writes
  void names() {
    std::vector<uint64_t> ns = {1, 2, 9, 10, 11, 99, 100, 101, 999, 1000, 1001, 9999, 10000, 65535, 65536, 99999, 100000,
                                999999999ULL, 1000000000ULL, 4294967295ULL};
    for (int r = 0; r < (R.thorough() ? 60 : 12); ++r) {
      uint64_t hi = 1ULL << (1 + rng.below(32));
      ns.push_back(1 + rng.below(std::min<uint64_t>(hi, 4294967295ULL)));
    }
    Case cross;
    cross.kind = "native names cross";
    for (uint64_t n : ns) {
      Case c;
      c.kind = "native names n=" + std::to_string(n);
      std::vector<uint64_t> ks = {0, 1, 2, 8, 9, 10, 11, 19, 98, 99, 100, 101, 109, 110, 999, 1000, 1001, 9999, 10000, 99999, 100000,
                                  n / 10, n / 2, n - 2, n - 1, rng.below(n), rng.below(n)};
      std::set<uint64_t> seen;
      for (uint64_t k : ks)
        if (k < n && seen.insert(k).second) {
          c.ops.push_back("cname " + std::to_string(k) + " " + std::to_string(n));
          if (cross.ops.size() < 400 && rng.chance(1, 3)) cross.ops.push_back(c.ops.back());
        }
      R.run_case(c);
    }
    R.run_case(cross);
    // through InputSplit::Create: the file that appears is the documented one, and parts do not share it
    std::string f;
    for (int i = 0; i < 300; ++i) f += "r" + std::to_string(i) + "\n";
    for (auto kn : std::vector<std::pair<unsigned, unsigned>>{{10, 100}, {1, 100}, {99, 100}, {9, 10}, {5, 1000}, {123, 1000}, {12, 1000}}) {
      Case c;
      c.kind = "native names create " + std::to_string(kn.first) + "/" + std::to_string(kn.second);
      std::string cr = "create text " + std::to_string(kn.first) + " " + std::to_string(kn.second) + " nm " + KB;
      c.ops = {"file 0 " + hexs(f), cr, "drain rec", "bf", "cache", "drain rec"};
      // a second part whose name collides with this one when the suffix is cut short
      unsigned k2 = kn.first >= 10 ? kn.first / 10 : kn.first * 10 + 1;
      if (k2 < kn.second && k2 != kn.first) {
        c.ops.push_back("create text " + std::to_string(k2) + " " + std::to_string(kn.second) + " nm " + KB);
        c.ops.push_back("drain rec");
        c.ops.push_back("bf");
        c.ops.push_back("cache");
      }
      R.run_case(c);
    }
  }

  // ---- property C05 behind the PREFETCHING wrapper: BeforeFirst / ResetPartition at any point = a fresh split ----
  void c05() {
    std::string tfile = "file 0 " + hexs("l0\nl1\nl2\nl3\nl4\nl5\nl6\nl7\nl8\nl9\n");
    std::string rfile = "recfile 0 " + hexs("r0") + " " + hexs("r1r1r") + " " + hexs("r2") + " " + hexs(std::string(11, 'q')) + " " + hexs("r4");
    auto ctor = [&](bool text, bool create, unsigned k, unsigned n, size_t w) {
      if (create) return "create " + fmt(text) + " " + std::to_string(k) + " " + std::to_string(n) + " - " + KB;
      return "newt " + fmt(text) + " " + std::to_string(k) + " " + std::to_string(n) + " " + std::to_string(w) + " 1 0";
    };
    // the shapes named in the property text
    std::vector<std::vector<std::string>> hand = {
        {"reset 0 1", "drain rec"},                              // first reset selects (0,1) on a split created for (1,2)
        {"reset 1 2", "drain rec"},                              // reset to the creation partition
        {"rec", "reset 1 2", "drain rec"},                       // ... after partial consumption
        {"rec", "reset 0 1", "rec", "reset 0 1", "drain rec"},   // the same partition twice
        {"reset 0 2", "drain chunk", "reset 1 2", "drain rec"},
        {"rec", "reset 3 2", "drain rec", "reset 1 2", "drain rec"},   // empty part (k >= n), then back
        {"chunk", "bf", "rec", "reset 0 1", "bf", "drain rec"},
        {"drain rec", "reset 0 1", "drain rec", "bf", "drain chunk"},
    };
    for (int text = 0; text < 2; ++text)
      for (int create = 0; create < 2; ++create)
        for (auto &h : hand) {
          Case c;
          c.kind = std::string("native c05 hand ") + (create ? "create" : "direct");
          c.ops.push_back(text ? tfile : rfile);
          c.ops.push_back(ctor(text, create, 1, 2, text ? 1 : 3));
          for (auto &o : h) c.ops.push_back(o);
          R.run_case(c);
        }
    // every history of length <= 2 (thorough 3) over the alphabet, split created for part 1 of 2 and for 0 of 1
    std::vector<std::string> alpha = {"rec", "chunk", "bf", "reset 0 1", "reset 1 2", "reset 0 2", "reset 2 2", "hint 64"};
    size_t L = R.thorough() ? 3 : 2;
    for (int text = 0; text < 2; ++text)
      for (int create = 0; create < 2; ++create)
        for (int part = 0; part < 2; ++part) {
          std::vector<size_t> idx;
          for (size_t len = 1; len <= L; ++len) {
            idx.assign(len, 0);
            for (;;) {
              Case c;
              c.kind = std::string("native c05 exhaustive ") + (create ? "create" : "direct");
              c.ops.push_back(text ? tfile : rfile);
              c.ops.push_back(ctor(text, create, part ? 1 : 0, part ? 2 : 1, text ? 2 : 3));
              for (size_t i = 0; i < len; ++i) c.ops.push_back(alpha[idx[i]]);
              c.ops.push_back("drain rec");
              R.run_case(c);
              size_t p = len;
              while (p > 0 && ++idx[p - 1] == alpha.size()) idx[--p] = 0;
              if (p == 0) break;
            }
          }
        }
    // random inputs, partitions and histories
    size_t nr = R.thorough() ? 2500 : 350;
    for (size_t q = 0; q < nr; ++q) {
      Case c;
      bool text = rng.chance(1, 2), create = rng.chance(1, 2);
      c.kind = std::string("native c05 random ") + (create ? "create" : "direct");
      add_files(&c, text, 1 + rng.below(3), 9, 12);
      unsigned n = 1 + rng.below(4), k = rng.below(n);
      c.ops.push_back(ctor(text, create, k, n, text ? 1 + rng.below(5) : 2 + rng.below(5)));
      size_t len = 2 + rng.below(R.thorough() ? 30 : 12);
      for (size_t i = 0; i < len; ++i) {
        unsigned x = rng.below(100);
        if (x < 25) c.ops.push_back("rec");
        else if (x < 38) c.ops.push_back("chunk");
        else if (x < 50) c.ops.push_back("bf");
        else if (x < 56) c.ops.push_back(rng.chance(1, 2) ? "drain rec" : "drain chunk");
        else if (x < 60) c.ops.push_back("hint " + std::to_string(rng.below(400)));
        else if (x < 68) c.ops.push_back("reset " + std::to_string(k) + " " + std::to_string(n));      // creation partition
        else if (x < 76) c.ops.push_back("reset 0 1");
        else {
          unsigned n2 = 1 + rng.below(4);
          c.ops.push_back("reset " + std::to_string(rng.below(n2 + (rng.chance(1, 6) ? 2 : 0))) + " " + std::to_string(n2));
        }
      }
      c.ops.push_back(rng.chance(1, 2) ? "drain rec" : "drain chunk");
      R.run_case(c);
    }
  }

  void exhaustive_small() {
    // every history of length <= L over the op alphabet, on two small inputs, both wrappers
    std::vector<std::string> alpha_t = {"rec", "chunk", "bf", "reset 1 2", "reset 0 1", "drain rec"};
    std::vector<std::string> alpha_c = {"rec", "chunk", "bf", "reopen", "drain rec", "cache"};
    size_t L = R.thorough() ? 4 : 3;
    struct In { bool text; std::string op; size_t w; };
    std::vector<In> ins = {
        {true, "file 0 " + hexs("ab\ncdefghijk\n\nlm\r\nn"), 2},
        {false, "recfile 0 " + hexs("abc") + " " + hexs(std::string(13, 'q')) + " " + hexs(""), 3}};
    for (auto &in : ins)
      for (int wrapper = 0; wrapper < 2; ++wrapper) {
        const auto &alpha = wrapper == 0 ? alpha_t : alpha_c;
        std::vector<size_t> idx;
        for (size_t len = 1; len <= L; ++len) {
          idx.assign(len, 0);
          for (;;) {
            Case c;
            c.kind = std::string("native exhaustive ") + (wrapper == 0 ? "threaded" : "cached");
            c.ops.push_back(in.op);
            if (wrapper == 0) c.ops.push_back("newt " + fmt(in.text) + " 0 1 " + std::to_string(in.w) + " 1 0");
            else c.ops.push_back("newc " + fmt(in.text) + " 0 1 " + std::to_string(in.w) + " e");
            for (size_t i = 0; i < len; ++i) c.ops.push_back(alpha[idx[i]]);
            c.ops.push_back("drain rec");
            R.run_case(c);
            size_t p = len;
            while (p > 0 && ++idx[p - 1] == alpha.size()) idx[--p] = 0;
            if (p == 0) break;
          }
        }
      }
  }

  void random_native(size_t ncases) {
    for (size_t q = 0; q < ncases; ++q) {
      Case c;
      bool text = rng.chance(3, 5);
      unsigned kind = rng.below(10);   // 0-3 threaded, 4-7 cached, 8-9 create
      size_t nfiles = 1 + rng.below(3);
      bool big = rng.chance(1, 5);
      add_files(&c, text, nfiles, big ? 40 : 8, big ? 60 : 14);
      size_t w = text ? 1 + rng.below(6) : 2 + rng.below(6);
      if (rng.chance(1, 6)) w = 16 + rng.below(40);
      unsigned n = 1 + rng.below(3), k = rng.below(n);
      if (kind < 4) {
        c.kind = "native random threaded";
        c.ops.push_back("newt " + fmt(text) + " " + std::to_string(k) + " " + std::to_string(n) + " " + std::to_string(w) + " " +
                        std::to_string(1 + rng.below(3)) + " " + (rng.chance(1, 4) ? "50" : "0"));
        history(&c, 3 + rng.below(R.thorough() ? 30 : 14), true, rng.chance(1, 5));
      } else if (kind < 8) {
        c.kind = "native random cached";
        c.ops.push_back("newc " + fmt(text) + " " + std::to_string(k) + " " + std::to_string(n) + " " + std::to_string(w) + " rc");
        // most histories finish the first pass before they reopen
        size_t h = 2 + rng.below(R.thorough() ? 24 : 10);
        if (rng.chance(4, 5)) { history(&c, rng.below(4), false, false); c.ops.push_back(rng.chance(1, 2) ? "bf" : "drain rec"); }
        history(&c, h, false, true);
        if (rng.chance(1, 2)) c.ops.push_back("cache");
      } else {
        c.kind = "native random create";
        std::string cn = rng.chance(2, 3) ? "cr" : "-";
        c.ops.push_back("create " + fmt(text) + " " + std::to_string(k) + " " + std::to_string(n) + " " + cn + " " + KB);
        if (cn != "-" && rng.chance(4, 5)) { history(&c, rng.below(3), false, false); c.ops.push_back(rng.chance(1, 2) ? "bf" : "drain chunk"); }
        history(&c, 2 + rng.below(10), cn == "-", cn != "-" || rng.chance(1, 3));
        if (cn != "-") { c.ops.push_back("bf"); c.ops.push_back("cache"); }
      }
      c.ops.push_back(rng.chance(1, 2) ? "drain rec" : "drain chunk");
      R.run_case(c);
    }
  }

  // ---- schedule exploration of the prefetch handshake ----
  void emit_vs(const Case &proto, const wvs::Spec &sp, const wvs::Out &o, const std::string &how) {
    Case c = proto;
    c.kind = "vs " + how + " sched=" + (o.schedule.empty() ? std::string("-") : o.schedule);
    Pre p;
    (void)sp;
    Files fl;
    for (auto &op : c.ops) {
      auto w = vh::split_ws(op);
      if (w[0] == "file" || w[0] == "recfile") p.raw.push_back(fl.apply(w));
      else break;
    }
    p = WrapHarness::from_vs(p, o);
    H.precomputed[c.kind] = p;
    R.extra["vs_executions"] += 1;
    R.extra["vs_sched_points_inside_base"] += static_cast<uint64_t>(o.overlap_windows);
    R.run_case(c);
  }
  bool build_vs(bool text, const std::string &fileop, unsigned k, unsigned n, size_t w, const std::vector<std::string> &prog, Case *c,
                wvs::Spec *sp) {
    c->ops.clear();
    c->ops.push_back(fileop);
    c->ops.push_back("newt " + fmt(text) + " " + std::to_string(k) + " " + std::to_string(n) + " " + std::to_string(w) + " 1 0");
    for (auto &o : prog) c->ops.push_back(o);
    Files fl;
    fl.apply(vh::split_ws(fileop));
    *sp = wvs::Spec();
    sp->text = text;
    sp->files = fl.bytes;
    sp->k = k;
    sp->n = n;
    sp->w = w;
    sp->batch = 1;
    sp->ops = prog;
    return true;
  }
  void explore() {
    std::string tfile = "file 0 " + hexs("aa\nbb\ncc\ndd\nee\nff\n");
    std::string rfile = "recfile 0 " + hexs("r0") + " " + hexs("r1r1r") + " " + hexs("r2") + " " + hexs("r3");
    std::vector<std::vector<std::string>> progs = {
        {"rec", "bf", "rec"},
        {"chunk", "rec", "bf", "drain rec"},
        {"reset 1 2", "rec"},
        {"rec", "reset 0 2", "drain rec"},
        {"rec", "rec", "rec", "bf", "chunk", "bf", "rec"},
        {"drain rec", "bf", "drain chunk"},
        {"bf", "bf", "rec"},
        {"rec", "reset 1 2", "rec", "reset 0 1", "drain rec"},
    };
    long budget = R.thorough() ? 2500 : 220;
    int bound = R.thorough() ? 3 : 2;
    for (size_t pi = 0; pi < progs.size(); ++pi) {
      bool text = pi % 3 != 2;
      Case c;
      wvs::Spec sp;
      build_vs(text, text ? tfile : rfile, 0, 1, text ? 1 : 3, progs[pi], &c, &sp);
      long cnt = 0;
      bool complete = wvs::run_dfs(sp, bound, budget, [&](const wvs::Out &o) {
        ++cnt;
        emit_vs(c, sp, o, "dfs" + std::to_string(bound) + " p" + std::to_string(pi));
        return true;
      });
      if (complete) R.extra["vs_dfs_trees_exhausted"] += 1;
      R.extra["vs_dfs_programs"] += 1;
    }
    // random programs under PCT / uniform random schedules
    size_t nr = R.thorough() ? 1500 : 150;
    for (size_t q = 0; q < nr; ++q) {
      bool text = rng.chance(2, 3);
      Case c;
      Case tmp;
      add_files(&tmp, text, 1, 7, 9);
      std::vector<std::string> prog;
      Case hc;
      history(&hc, 2 + rng.below(7), true, false);
      for (auto &o : hc.ops) prog.push_back(o);
      prog.push_back("drain rec");
      unsigned n = 1 + rng.below(2);
      wvs::Spec sp;
      build_vs(text, tmp.ops[0], rng.below(n), n, text ? 1 + rng.below(3) : 2 + rng.below(3), prog, &c, &sp);
      uint64_t s = rng.next();
      wvs::Out o = rng.chance(2, 3) ? wvs::run_pct(sp, s, 2 + static_cast<int>(rng.below(3))) : wvs::run_random(sp, s);
      emit_vs(c, sp, o, "rnd");
    }
  }
};

int main(int argc, char **argv) {
  vh::Runner R;
  R.parse(argc, argv);
  WrapHarness H;
  H.out_dir = R.out_dir;
  H.extra = &R.extra;
  for (int i = 1; i + 1 < argc; ++i)
    if (std::string(argv[i]) == "--prop") H.prop = argv[i + 1];
  R.h = &H;
  signal(SIGPIPE, SIG_IGN);
  if (!R.run_replay()) {
    Gen g(R, H);
    if (H.prop == "C05") {
      g.c05();
      R.finish();
      return 0;
    }
    g.corpus();
    g.names();
    g.exhaustive_small();
    g.random_native(R.thorough() ? 2500 : 260);
    g.explore();
  }
  R.finish();
  return 0;
}
