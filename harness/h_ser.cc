// Correspondence harness + oracle driver for C15 (binary serializer).  The real serializer lives in
// two further translation units (h_ser_le.cc: default build; h_ser_be.cc: DMLC_IO_USE_LITTLE_ENDIAN=0,
// the byte-swapping path), reached through h_ser_api.h; every op names its configuration.
//
// ops   enc cfg ty val | dec cfg ty hex | rt cfg ty val resthex | truncall cfg ty val | seq cfg ty val ...
//       rtd cfg ty val destval resthex | decd cfg ty destval hex : as rt / dec, but the object read into
//       already holds `destval` (a second random value of the type: reused strings, containers with
//       more / fewer / other elements); Read's result must not depend on it
// cases value (enc + rt + truncall of one value of one type), boundary (the empty / zero value),
//       seq (2-5 values of different types back to back), dec-elems (unsorted / duplicate element
//       streams read into associative containers), dec-count (top-level count changed by a small delta)
#include <sanitizer/common_interface_defs.h>
#include "common/proto.h"
#include "h_ser_api.h"

using vh::Case;

// A corrupted element count makes the real code resize a container to whatever the stream says.  Keep
// that from exhausting the machine, and turn the sanitizer's abort into a recorded failing input
// (the op being executed is written out, the run's files are completed) instead of a bare crash.
extern "C" const char *__asan_default_options() { return "max_allocation_size_mb=512:hard_rss_limit_mb=4096"; }
static vh::Runner *g_runner = nullptr;
static std::string g_cur_op;
static void on_sanitizer_death() {
  vh::Runner *r = g_runner;
  g_runner = nullptr;
  if (!r || !r->f_ops) return;
  fprintf(r->f_ops, "%s\n", g_cur_op.c_str());
  fprintf(r->f_impl, "aborted\n");
  fprintf(r->f_or, "ORACLE-FAIL case=%llu class=none prop=C15 implementation aborted under the sanitizer in: %s\n",
          (unsigned long long)r->n_cases, g_cur_op.substr(0, 300).c_str());
  ++r->n_fail;
  r->finish();
}

struct SerHarness : vh::Harness {
  ser_api::Backend *le = ser_backend_le(), *be = ser_backend_be();
  std::vector<std::string> pending;
  std::map<std::string, ser_api::TypeInfo> info_le, info_be;
  uint64_t trunc_points = 0, values = 0;

  SerHarness() {
    for (auto &t : le->types()) info_le[t.desc] = t;
    for (auto &t : be->types()) info_be[t.desc] = t;
  }
  ser_api::Backend *backend(const std::string &cfg) { return cfg == "le" ? le : cfg == "be" ? be : nullptr; }

  void begin_case(const Case &) override { pending.clear(); }
  std::string exec(const std::vector<std::string> &w) override {
    if (w.size() < 2) return "bad-op";
    ser_api::Backend *b = backend(w[1]);
    if (!b) return "bad-op";
    g_cur_op.clear();
    for (size_t i = 0; i < w.size(); ++i) g_cur_op += (i ? " " : "") + w[i];
    ser_api::ExecResult r = b->exec(w);
    for (auto &f : r.failures) pending.push_back(f);
    if (w[0] == "truncall" && r.line.size() > 6 && r.line[6] != '-') trunc_points += r.line.size() - 6;
    if (w[0] == "enc") ++values;
    return r.line;
  }
  void end_case(const Case &, const std::vector<std::string> &, std::vector<std::string> *fail) override {
    for (auto &f : pending) fail->push_back(f);
  }
  std::string shape(const Case &c, const std::vector<std::string> &res) override {
    if (c.ops.empty()) return "";
    auto w = vh::split_ws(c.ops[0]);
    if (w.size() < 3) return "";
    std::string s = w[1] + ":" + vh::split_ws(c.kind)[0];
    const auto &m = w[1] == "le" ? info_le : info_be;
    auto it = m.find(w[2]);
    if (it != m.end()) {
      if (it->second.has_unordered) s += "+unordered";
      if (it->second.has_pod) s += "+pod";
      if (it->second.has_padded_pair) s += "+padded-pair";
    }
    for (auto &r : res) if (r == "fail") { s += "+read-false"; break; }
    return s;
  }
};

int main(int argc, char **argv) {
  vh::Runner R;
  R.parse(argc, argv);
  SerHarness H;
  R.h = &H;
  g_runner = &R;
  __sanitizer_set_death_callback(on_sanitizer_death);
  if (R.run_replay()) { R.finish(); return 0; }
  vh::Rng rng(R.seed);
  ser_api::Backend *bs[2] = {H.le, H.be};
  const bool th = R.thorough();
  // (1) per type and configuration: random + boundary values; bytes, round trip with a tail, every truncation point
  for (int bi = 0; bi < 2; ++bi) {
    ser_api::Backend *b = bs[bi];
    for (auto &ti : b->types()) {
      size_t nval = th ? 400 : 40;
      // + large top-level containers (counts 255 .. 12288 around powers of two): 4096 always, others by rotation
      const char d0 = ti.desc.empty() ? ' ' : ti.desc[0];
      const bool top_container = d0 >= 'A' && d0 <= 'Z' && d0 != 'P' && d0 != 'C' && d0 != 'R';
      size_t nbig = top_container ? (th ? 11 : 3) : 0;
      for (size_t k = 0; k < nval + nbig; ++k) {
        int budget = k == 0 ? -5 : (k % 4 == 3 ? 3 : 2);    // k = 0: smallest values (mostly empty containers)
        if (k >= nval) budget = th ? 100 + static_cast<int>(k - nval) : (k == nval ? 107 : 100 + static_cast<int>(rng.below(11)));
        // the model inserts into associative containers one element at a time (quadratic): keep those at <= 1025
        if (k >= nval && (ti.set_like || ti.has_unordered)) budget = 100 + (budget - 100) % 6;
        std::string val = b->gen(ti.desc, rng.next(), budget);
        if (val.empty()) continue;
        Case c;
        c.kind = std::string(k == 0 ? "boundary " : k >= nval ? "large " : "value ") + ti.desc;
        std::string pre = std::string(b->cfg) + " " + ti.desc + " " + val;
        c.ops.push_back("enc " + pre);
        std::string tail;
        size_t tn = rng.below(4) == 0 ? 0 : rng.below(12);
        for (size_t i = 0; i < tn; ++i) tail.push_back(static_cast<char>(rng.chance(1, 3) ? 0 : rng.next()));
        c.ops.push_back("rt " + pre + " " + vh::hex(tail));
        // the same read into reused objects: a larger random value, a small one, the value itself
        for (int d = (k >= nval ? 1 : 0); d < 3; ++d) {
          std::string dest = d == 2 ? val : b->gen(ti.desc, rng.next(), d == 0 ? 3 : 1);
          if (!dest.empty()) c.ops.push_back("rtd " + pre + " " + dest + " " + vh::hex(tail));
        }
        if (val.size() < 2400) c.ops.push_back("truncall " + pre);
        R.run_case(c);
      }
    }
  }
  // (2) several values of different types in one stream
  size_t nseq = th ? 40000 : 4000;
  for (size_t it = 0; it < nseq; ++it) {
    ser_api::Backend *b = bs[rng.below(2)];
    auto ts = b->types();
    Case c;
    c.kind = "seq";
    std::string op = std::string("seq ") + b->cfg;
    size_t n = 2 + rng.below(4);
    for (size_t i = 0; i < n; ++i) {
      auto &ti = ts[rng.below(ts.size())];
      op += " " + ti.desc + " " + b->gen(ti.desc, rng.next(), 1);
    }
    c.ops.push_back(op);
    R.run_case(c);
  }
  // (3) streams that are not the image of a container: element sequences with duplicates / unsorted
  // keys read into associative containers; a top-level count that is too small / too large
  size_t ndec = th ? 300 : 30;
  for (int bi = 0; bi < 2; ++bi) {
    ser_api::Backend *b = bs[bi];
    for (auto &ti : b->types()) {
      if (ti.set_like) {
        for (size_t k = 0; k < ndec; ++k) {
          Case c;
          c.kind = "dec-elems " + ti.desc;
          std::string hx = vh::hex(b->mutant(ti.desc, rng.next(), 0, 0));
          c.ops.push_back(std::string("dec ") + b->cfg + " " + ti.desc + " " + hx);
          c.ops.push_back(std::string("decd ") + b->cfg + " " + ti.desc + " " + b->gen(ti.desc, rng.next(), 2) + " " + hx);
          R.run_case(c);
        }
      }
      if (ti.flat_counts) {
        for (size_t k = 0; k < ndec; ++k) {
          Case c;
          c.kind = "dec-count " + ti.desc;
          int delta = static_cast<int>(rng.below(7)) - 3;
          std::string hx = vh::hex(b->mutant(ti.desc, rng.next(), 1, delta));
          c.ops.push_back(std::string("dec ") + b->cfg + " " + ti.desc + " " + hx);
          c.ops.push_back(std::string("decd ") + b->cfg + " " + ti.desc + " " + b->gen(ti.desc, rng.next(), 2) + " " + hx);
          R.run_case(c);
        }
      }
    }
  }
  R.extra["truncation_points"] = H.trunc_points;
  R.extra["values_encoded"] = H.values;
  R.extra["types_le"] = H.info_le.size();
  R.extra["types_be"] = H.info_be.size();
  R.finish();
  return 0;
}
