// vsched.h -- controlled scheduler for the threaded dmlc-core code (DESIGN.md 3.3).  Header-only,
// needs only pthread + libstdc++.  Works under ASan/UBSan (no fork, no exceptions, no signals).
//
// ------------------------------------------------------------------------------------------------
// 1. Substituting the std synchronisation types in an UNMODIFIED dmlc header
// ------------------------------------------------------------------------------------------------
//   #include <atomic> <condition_variable> <mutex> <thread> <deque> ...   // every std header and
//   #include <dmlc/base.h> <dmlc/logging.h> ...                           // every dmlc header the
//                                                                         // header under test includes
//   #include "common/vsched.h"
//   #define VSCHED_SUBSTITUTE_BEGIN        // defines mutex, lock_guard, unique_lock,
//   #include "common/vsched.h"             //   condition_variable, atomic, thread as macros
//   #define private public                 // (optional, to read internals in the snapshot)
//   #include <dmlc/concurrency.h>          // now uses std::vs_mutex, std::vs_atomic<T>, ...
//   #undef private
//   #define VSCHED_SUBSTITUTE_END          // undefines the six macros again
//   #include "common/vsched.h"
// The shim classes live in namespace std: vs_mutex, vs_lock_guard<M>, vs_unique_lock<M> (generic in
// M: also fine with std::shared_timed_mutex), vs_condition_variable (wait, wait(pred), notify_one,
// notify_all; wait_for/wait_until behave like wait, i.e. a time-out is a spurious wake-up),
// vs_atomic<T> (load store exchange fetch_add/sub/and/or/xor compare_exchange_* ++ -- += -= conversion
// assignment; the value is a plain T protected by the baton => sequentially consistent),
// vs_thread (variadic ctor, join, joinable, detach, get_id, id, hardware_concurrency, move).
//
// ------------------------------------------------------------------------------------------------
// 2. Execution model
// ------------------------------------------------------------------------------------------------
// All test threads are real threads but exactly one holds the baton.  EVERY shim operation is a
// scheduling point: the thread publishes its pending operation and then runs the scheduler itself
// (decentralised: no scheduler thread, continuing the same thread costs no context switch; OS threads
// are pooled across executions): it computes the enabled alternatives, asks the Chooser, applies the
// operation's effect on the scheduler-owned state (mutex owner, cv wait set), logs the step and
// passes the baton; the chosen thread then runs (operation + the plain code behind it) up to its
// next scheduling point or its end.  Consequently Program::snapshot, RunOptions::on_step and the
// Chooser are called on whichever thread holds the baton (serialised; shim operations inside these
// callbacks pass through without scheduling: use vs_atomic::raw(), read plain members).
// One trace Step = one operation:
//     index  tid  op            obj   res
//     op in: lock trylock unlock wait relock notify_one notify_all load store rmw spawn join
//            yield quiesce spurious
//   * cv.wait(lk) is TWO steps: `wait` (atomically release the mutex + enter the wait set, always
//     enabled) and `relock` (enabled when the thread has left the wait set and the mutex is free).
//   * notify_one with n>=2 waiters has n alternatives (Choice.arg = tid of the woken thread).
//   * a spurious wake-up is a schedulable event of its own (Choice.spurious, tid = woken thread): it
//     only removes the thread from the wait set.  At most RunOptions::spurious_budget per execution.
//   * vs::yield_point("label") is an explicit scheduling point; vs::await_quiescence() is enabled
//     only when no other thread is enabled (use it for a "finaliser" thread that releases legitimately
//     blocked threads, e.g. a final SignalForKill, so that a remaining deadlock is a real one).
//   * a thread has no `start`/`end` step: at creation it runs up to its first scheduling point
//     (creation order = tid order, so this is deterministic); it is finished inside its last step.
//   * objects are named by kind and order of first use in the execution: m0 m1 (mutex), c0 (cv),
//     a0 (atomic), T<tid>; vs::set_label(&obj, "name") overrides.
//   * preemption = choosing another thread while the thread of the previous step is still enabled.
// Deadlock (no alternative, some thread unfinished), step limit and a thread that does not reach a
// scheduling point within RunOptions::stuck_ms are reported in Result.status with the schedule
// prefix in Result.trace / Result.schedule(); such an execution is ABANDONED: its threads stay
// parked for ever, the Execution and the Program state are leaked on purpose (nothing is unwound,
// so it is safe for any code under test).  ExploreOptions::max_abandoned bounds the leak.
// Cost (ASan+UBSan build, 5-7 threads, ~30 steps): about 1 ms per execution on a loaded machine.
// The program must be deterministic given the choices (no time, no addresses, no real races).
// Shim operations executed by a thread the scheduler does not control (e.g. the main thread while it
// builds or destroys the Program state) pass through without scheduling; blocking there is an error.
// Destroy objects whose destructor synchronises (ThreadedIter) inside a controlled thread.
//
// ------------------------------------------------------------------------------------------------
// 3. API (namespace vs)
// ------------------------------------------------------------------------------------------------
//   struct Program { std::vector<std::function<void()>> threads;      // root thread bodies, tid 0..
//                    std::function<std::string()> snapshot;           // optional: state text after
//                    std::shared_ptr<void> state; };                  //   every step (scheduler thread)
//   using Factory = std::function<Program()>;                          // fresh state per execution
//   struct Choice { int tid; int arg; bool spurious; str(); parse(); } // "t2" "t2/4" "w3"
//   struct Step   { index, tid, op, obj, res, finished, choice, preemptions, note(=snapshot) }
//   struct Result { status (COMPLETED DEADLOCK STEP_LIMIT STUCK), trace, blocked (who/where),
//                   errors (misuse: unlock of a mutex not owned, ...), uncaught (exceptions that left a
//                   thread body), preemptions, spurious, diverged_at (replay: first choice that was
//                   not enabled, -1 = none), schedule() (choice list as text), choices() }
//   struct RunOptions { spurious_budget=0, max_steps=20000, stuck_ms=20000, on_step callback }
//   Result run_replay(factory, choices, opts)  // follows the list; a choice that is not enabled and
//                                              // everything after the list: non-preemptive default
//   Result run_random(factory, seed, opts)     // uniform over enabled alternatives
//   Result run_pct(factory, seed, depth, opts) // PCT: random thread priorities + depth-1 change points
//   ExploreStats explore(factory, ExploreOptions{preemption_bound, run, max_executions,
//                        max_abandoned}, callback(const Result&) -> bool /*false = stop*/)
//        exhaustive DFS (stateless, re-execution) over all schedules with <= bound preemptions and
//        <= spurious_budget spurious wake-ups; stats: executions, complete, abandoned.
//   inside a controlled thread: vs::self() (tid), vs::yield_point(label), vs::await_quiescence(),
//        vs::controlled(), vs::current_step() (index of the step being executed);
//        anywhere: vs::set_label(&shim_object, "name").
//   custom strategies: derive from vs::Chooser and call vs::run(factory, chooser, opts).
#ifndef VERIF_VSCHED_H_
#define VERIF_VSCHED_H_
#include <pthread.h>
#include <semaphore.h>
#include <time.h>

#include <algorithm>
#include <atomic>
#include <cerrno>
#include <chrono>
#include <condition_variable>
#include <cstdint>
#include <cstdio>
#include <cstdlib>
#include <exception>
#include <functional>
#include <memory>
#include <mutex>
#include <string>
#include <thread>
#include <type_traits>
#include <utility>
#include <vector>

namespace vs {

enum Op {
  OP_LOCK, OP_TRYLOCK, OP_UNLOCK, OP_WAIT, OP_RELOCK, OP_NOTIFY_ONE, OP_NOTIFY_ALL, OP_LOAD, OP_STORE,
  OP_RMW, OP_SPAWN, OP_JOIN, OP_YIELD, OP_QUIESCE, OP_SPURIOUS
};
inline const char *op_name(Op o) {
  static const char *n[] = {"lock", "trylock", "unlock", "wait", "relock", "notify_one", "notify_all", "load",
                            "store", "rmw", "spawn", "join", "yield", "quiesce", "spurious"};
  return n[o];
}

struct Choice {
  int tid = 0;
  int arg = -1;          // notify_one: tid of the woken waiter (-1: none / not applicable)
  bool spurious = false; // spurious wake-up of thread `tid`
  std::string str() const {
    if (spurious) return "w" + std::to_string(tid);
    return "t" + std::to_string(tid) + (arg >= 0 ? "/" + std::to_string(arg) : "");
  }
  static bool parse(const std::string &s, Choice *c) {
    if (s.size() < 2 || (s[0] != 't' && s[0] != 'w')) return false;
    c->spurious = s[0] == 'w';
    c->arg = -1;
    size_t i = 1;
    int v = 0;
    if (!isdigit(static_cast<unsigned char>(s[i]))) return false;
    for (; i < s.size() && isdigit(static_cast<unsigned char>(s[i])); ++i) v = v * 10 + (s[i] - '0');
    c->tid = v;
    if (i == s.size()) return true;
    if (s[i] != '/' || c->spurious || i + 1 >= s.size()) return false;
    v = 0;
    for (++i; i < s.size(); ++i) {
      if (!isdigit(static_cast<unsigned char>(s[i]))) return false;
      v = v * 10 + (s[i] - '0');
    }
    c->arg = v;
    return true;
  }
  bool operator==(const Choice &o) const { return tid == o.tid && arg == o.arg && spurious == o.spurious; }
};

struct Step {
  int index = 0;
  int tid = 0;
  Op op = OP_YIELD;
  std::string obj;
  std::string res;
  bool finished = false;  // the thread ended inside this step
  Choice choice;
  int preemptions = 0;    // preemptions so far, including this step
  std::string note;       // Program::snapshot() after the step
};

enum Status { COMPLETED, DEADLOCK, STEP_LIMIT, STUCK };
inline const char *status_name(Status s) {
  static const char *n[] = {"completed", "deadlock", "step-limit", "stuck"};
  return n[s];
}

struct Result {
  Status status = COMPLETED;
  std::vector<Step> trace;
  std::vector<std::string> blocked;   // "T1 relock m0 (in wait set of c0)" for every unfinished thread
  std::vector<int> blocked_tids;
  std::vector<std::string> errors;
  std::vector<std::string> uncaught;  // "T2: what()"
  int preemptions = 0;
  int spurious = 0;
  int diverged_at = -1;
  int n_threads = 0;
  std::vector<Choice> choices() const {
    std::vector<Choice> c;
    for (auto &s : trace) c.push_back(s.choice);
    return c;
  }
  std::string schedule() const {
    std::string o;
    for (auto &s : trace) o += (o.empty() ? "" : " ") + s.choice.str();
    return o;
  }
};

struct RunOptions {
  int spurious_budget = 0;
  int max_steps = 20000;
  int stuck_ms = 20000;
  std::function<void(const Step &)> on_step;
};

struct Program {
  std::vector<std::function<void()>> threads;
  std::function<std::string()> snapshot;
  std::shared_ptr<void> state;
};
using Factory = std::function<Program()>;

struct Alt {
  Choice c;
  bool preempts = false;
};
struct ChooseCtx {
  int step = 0;
  int preemptions = 0;
  int last_tid = -1;
};
struct Chooser {
  virtual ~Chooser() {}
  virtual void begin() {}
  virtual size_t choose(const std::vector<Alt> &alts, const ChooseCtx &ctx) = 0;  // index into alts
  int diverged_at = -1;
};

// ------------------------------------------------------------------------------------------------
namespace detail {

struct ObjBase {
  unsigned long serial = 0;  // execution in which id/state are valid
  int id = -1;
  const char *label = nullptr;
};
struct MutexState : ObjBase {
  int owner = -1;  // tid, -2 = a thread outside the scheduler, -1 = free
};
struct CvState : ObjBase {
  std::vector<int> waiters;
};
struct AtomicState : ObjBase {};

struct Pending {
  Op op = OP_YIELD;
  ObjBase *obj = nullptr;
  MutexState *mtx = nullptr;  // wait/relock: the mutex
  int target = -1;            // join
  const char *label = nullptr;
};

class Execution;
struct Thr;
// pooled OS thread: runs one controlled thread body per execution (creating ~6 threads for each of
// 10^5 executions costs more than everything else).  Only touched by whoever holds the baton.
struct Worker {
  std::thread th;
  std::thread::id th_id;
  sem_t go;
  Thr *job = nullptr;
};
inline std::vector<Worker *> &free_workers() {
  static std::vector<Worker *> v;
  return v;
}
struct Thr {
  int id = 0;
  Worker *worker = nullptr;
  sem_t sem;
  sem_t *birth = nullptr;  // posted instead of the scheduler's semaphore at the first park / end
  Pending pend;
  bool parked = false, finished = false, in_waitset = false, joined = false;
  CvState *wait_cv = nullptr;
  std::function<void()> body;
  std::string res;
  std::string uncaught;
  Execution *exec = nullptr;
};

inline Execution *&g_exec() {
  static Execution *e = nullptr;
  return e;
}
inline Thr *&t_thr() {
  static thread_local Thr *t = nullptr;
  return t;
}
inline unsigned long &g_serial() {
  static unsigned long s = 0;
  return s;
}
inline void spin_pause() {
#if defined(__x86_64__) || defined(__i386__)
  __builtin_ia32_pause();
#endif
}
inline int &spin_iterations() {  // baton hand-over: spin this many times before sleeping in the kernel
  static int n = 400;
  return n;
}
inline void sem_wait_retry(sem_t *s) {
  for (int i = spin_iterations(); i > 0; --i) {
    if (sem_trywait(s) == 0) return;
    spin_pause();
  }
  while (sem_wait(s) != 0) {
  }
}
inline bool sem_wait_ms(sem_t *s, int ms) {
  for (int i = spin_iterations(); i > 0; --i) {
    if (sem_trywait(s) == 0) return true;
    spin_pause();
  }
  timespec ts;
  clock_gettime(CLOCK_REALTIME, &ts);
  ts.tv_sec += ms / 1000;
  ts.tv_nsec += static_cast<long>(ms % 1000) * 1000000L;
  if (ts.tv_nsec >= 1000000000L) { ts.tv_sec += 1; ts.tv_nsec -= 1000000000L; }
  for (;;) {
    if (sem_timedwait(s, &ts) == 0) return true;
    if (errno == ETIMEDOUT) return false;
  }
}

template <typename T, typename = void>
struct Repr {
  static std::string of(const T &) { return "?"; }
};
template <typename T>
struct Repr<T, typename std::enable_if<std::is_integral<T>::value || std::is_enum<T>::value>::type> {
  static std::string of(const T &v) { return std::to_string(static_cast<long long>(v)); }
};
template <typename T>
struct Repr<T *, void> {
  static std::string of(T *const &v) { return v ? "ptr" : "null"; }
};

class Execution {
 public:
  std::vector<std::unique_ptr<Thr>> thr;
  sem_t sched_sem;
  unsigned long serial;
  int n_mutex = 0, n_cv = 0, n_atomic = 0;
  RunOptions opts;
  Result result;
  Program prog;
  int spurious_used = 0;
  int last_tid = -1;
  int preemptions = 0;
  Chooser *chooser = nullptr;
  bool have_open = false;  // a step has been started and its log entry is not complete yet
  Step open;
  Thr *open_thr = nullptr;
  bool ended = false;
  volatile long progress = 0;

  Execution() {
    sem_init(&sched_sem, 0, 0);
    serial = ++g_serial();
  }
  ~Execution() { sem_destroy(&sched_sem); }

  // ---- called by controlled threads ----
  void touch(MutexState *m) {
    if (m->serial != serial) { m->serial = serial; m->id = n_mutex++; m->owner = -1; }
  }
  void touch(CvState *c) {
    if (c->serial != serial) { c->serial = serial; c->id = n_cv++; c->waiters.clear(); }
  }
  void touch(AtomicState *a) {
    if (a->serial != serial) { a->serial = serial; a->id = n_atomic++; }
  }
  static std::string name(char kind, const ObjBase *o) {
    if (o->label) return o->label;
    return std::string(1, kind) + std::to_string(o->id);
  }
  // Scheduling is decentralised: the thread that reaches a scheduling point (or ends) runs the
  // scheduler itself while it holds the baton; continuing the same thread costs no context switch.
  void park(Thr *me, const Pending &p) {
    me->pend = p;
    me->parked = true;
    if (me->birth) {  // first scheduling point of a new thread: hand the baton back to the creator
      sem_t *s = me->birth;
      me->birth = nullptr;
      sem_post(s);
      sem_wait_retry(&me->sem);
      return;
    }
    dispatch(me);
  }
  struct NoThr {  // user callbacks run with the shim in pass-through mode
    Thr *saved;
    NoThr() : saved(t_thr()) { t_thr() = nullptr; }
    ~NoThr() { t_thr() = saved; }
  };
  void log_step(Step *st) {
    NoThr guard;
    st->preemptions = preemptions;
    if (prog.snapshot) st->note = prog.snapshot();
    result.trace.push_back(*st);
    if (opts.on_step) opts.on_step(result.trace.back());
  }
  void close_step() {
    if (!have_open) return;
    have_open = false;
    if (open.res.empty()) open.res = open_thr->res.empty() ? "ok" : open_thr->res;
    open.finished = open_thr->finished;
    log_step(&open);
  }
  void end(Status st) {
    result.status = st;
    ended = true;
    sem_post(&sched_sem);  // wakes run(); nothing of *this may be touched afterwards
  }
  // `self`: the thread holding the baton (parked at its next operation, or finished), nullptr = run()
  void dispatch(Thr *self) {
    close_step();
    for (;;) {
      std::vector<Alt> alts = compute_alts();
      bool over = alts.empty();
      Status status = COMPLETED;
      if (over) {
        for (auto &t : thr)
          if (!t->finished) status = DEADLOCK;
      } else if (static_cast<int>(result.trace.size()) >= opts.max_steps) {
        over = true;
        status = STEP_LIMIT;
      }
      if (over) {
        bool wait_forever = self && !self->finished;
        end(status);
        if (wait_forever) sem_wait_retry(&self->sem);  // abandoned execution: never returns
        return;
      }
      ChooseCtx ctx;
      ctx.step = static_cast<int>(result.trace.size());
      ctx.preemptions = preemptions;
      ctx.last_tid = last_tid;
      size_t k = chooser->choose(alts, ctx);
      if (k >= alts.size()) k = 0;
      const Alt a = alts[k];
      Step st;
      st.index = ctx.step;
      st.tid = a.c.tid;
      st.choice = a.c;
      apply(a.c, &st);
      ++progress;
      if (a.c.spurious) {
        log_step(&st);
        continue;
      }
      if (a.preempts) ++preemptions;
      last_tid = a.c.tid;
      Thr *t = thr[a.c.tid].get();
      t->parked = false;
      if (st.res.empty()) t->res.clear();
      open = st;
      open_thr = t;
      have_open = true;
      if (t == self) return;
      bool wait_turn = self && !self->finished;
      sem_post(&t->sem);
      if (wait_turn) sem_wait_retry(&self->sem);
      return;
    }
  }
  Thr *create(std::function<void()> body, sem_t *birth) {
    std::unique_ptr<Thr> t(new Thr);
    Thr *p = t.get();
    p->id = static_cast<int>(thr.size());
    p->exec = this;
    p->body = std::move(body);
    p->birth = birth;
    sem_init(&p->sem, 0, 0);
    thr.push_back(std::move(t));
    Worker *w;
    if (!free_workers().empty()) {
      w = free_workers().back();
      free_workers().pop_back();
    } else {
      w = new Worker;
      sem_init(&w->go, 0, 0);
      w->th = std::thread(&Execution::worker_loop, w);
      w->th_id = w->th.get_id();
      w->th.detach();
    }
    p->worker = w;
    w->job = p;
    sem_post(&w->go);
    return p;
  }
  static void worker_loop(Worker *w) {
    for (;;) {
      while (sem_wait(&w->go) != 0) {
      }
      trampoline(w->job);
    }
  }
  static void trampoline(Thr *me) {
    t_thr() = me;
    try {
      me->body();
    } catch (const std::exception &e) {
      me->uncaught = e.what();
      if (me->uncaught.empty()) me->uncaught = "exception";
    } catch (...) {
      me->uncaught = "unknown exception";
    }
    t_thr() = nullptr;
    Execution *E = me->exec;
    me->finished = true;
    me->parked = false;
    if (me->birth) {  // ended before its first scheduling point
      sem_t *s = me->birth;
      me->birth = nullptr;
      sem_post(s);
      return;
    }
    E->dispatch(me);
  }

  // ---- scheduler side ----
  bool enabled(const Thr *t) const {
    if (!t->parked || t->finished) return false;
    const Pending &p = t->pend;
    switch (p.op) {
      case OP_LOCK: return static_cast<MutexState *>(p.obj)->owner == -1;
      case OP_RELOCK: return !t->in_waitset && p.mtx->owner == -1;
      case OP_JOIN: return thr[p.target]->finished;
      case OP_QUIESCE: return false;  // handled separately
      default: return true;
    }
  }
  void alts_of(const Thr *t, std::vector<Alt> *out) const {
    Alt a;
    a.c.tid = t->id;
    if (t->pend.op == OP_NOTIFY_ONE) {
      const CvState *cv = static_cast<const CvState *>(t->pend.obj);
      if (cv->waiters.size() >= 2) {
        std::vector<int> w = cv->waiters;
        std::sort(w.begin(), w.end());
        for (int x : w) { a.c.arg = x; out->push_back(a); }
        return;
      }
      if (cv->waiters.size() == 1) a.c.arg = cv->waiters[0];
    }
    out->push_back(a);
  }
  std::vector<Alt> compute_alts() const {
    std::vector<Alt> out;
    bool last_enabled = last_tid >= 0 && enabled(thr[last_tid].get());
    if (last_enabled) alts_of(thr[last_tid].get(), &out);
    for (auto &t : thr) {
      if (t->id == last_tid || !enabled(t.get())) continue;
      size_t before = out.size();
      alts_of(t.get(), &out);
      for (size_t i = before; i < out.size(); ++i) out[i].preempts = last_enabled;
    }
    if (out.empty()) {
      for (auto &t : thr)
        if (t->parked && !t->finished && t->pend.op == OP_QUIESCE) alts_of(t.get(), &out);
    }
    if (spurious_used < opts.spurious_budget) {
      for (auto &t : thr)
        if (t->in_waitset && !t->finished) {
          Alt a;
          a.c.tid = t->id;
          a.c.spurious = true;
          out.push_back(a);
        }
    }
    return out;
  }
  static void erase_waiter(CvState *cv, int tid) {
    cv->waiters.erase(std::remove(cv->waiters.begin(), cv->waiters.end(), tid), cv->waiters.end());
  }
  // apply the scheduler-side effect of the chosen alternative; fills obj and a preliminary result
  void apply(const Choice &c, Step *st) {
    Thr *t = thr[c.tid].get();
    if (c.spurious) {
      st->op = OP_SPURIOUS;
      st->obj = name('c', t->wait_cv);
      st->res = "ok";
      erase_waiter(t->wait_cv, t->id);
      t->in_waitset = false;
      ++spurious_used;
      return;
    }
    const Pending &p = t->pend;
    st->op = p.op;
    st->res = "ok";
    switch (p.op) {
      case OP_LOCK: {
        MutexState *m = static_cast<MutexState *>(p.obj);
        m->owner = t->id;
        st->obj = name('m', m);
        break;
      }
      case OP_TRYLOCK: {
        MutexState *m = static_cast<MutexState *>(p.obj);
        st->obj = name('m', m);
        if (m->owner == -1) { m->owner = t->id; st->res = "1"; } else { st->res = "0"; }
        t->res = st->res;
        break;
      }
      case OP_UNLOCK: {
        MutexState *m = static_cast<MutexState *>(p.obj);
        st->obj = name('m', m);
        if (m->owner != t->id) {
          result.errors.push_back("T" + std::to_string(t->id) + " unlocks " + st->obj + " which it does not own");
          st->res = "err:not-owner";
        } else {
          m->owner = -1;
        }
        break;
      }
      case OP_WAIT: {
        CvState *cv = static_cast<CvState *>(p.obj);
        st->obj = name('c', cv);
        if (p.mtx->owner != t->id) {
          result.errors.push_back("T" + std::to_string(t->id) + " waits on " + st->obj + " without owning the mutex");
          st->res = "err:not-owner";
        } else {
          p.mtx->owner = -1;
        }
        cv->waiters.push_back(t->id);
        t->in_waitset = true;
        t->wait_cv = cv;
        st->res = st->res == "ok" ? "blocked" : st->res;
        break;
      }
      case OP_RELOCK:
        p.mtx->owner = t->id;
        st->obj = name('m', p.mtx);
        break;
      case OP_NOTIFY_ONE: {
        CvState *cv = static_cast<CvState *>(p.obj);
        st->obj = name('c', cv);
        if (c.arg >= 0) {
          erase_waiter(cv, c.arg);
          thr[c.arg]->in_waitset = false;
          st->res = "wake=" + std::to_string(c.arg);
        } else {
          st->res = "wake=-";
        }
        break;
      }
      case OP_NOTIFY_ALL: {
        CvState *cv = static_cast<CvState *>(p.obj);
        st->obj = name('c', cv);
        std::vector<int> w = cv->waiters;
        std::sort(w.begin(), w.end());
        std::string r;
        for (int x : w) {
          thr[x]->in_waitset = false;
          r += (r.empty() ? "" : ",") + std::to_string(x);
        }
        cv->waiters.clear();
        st->res = "wake=" + (r.empty() ? std::string("-") : r);
        break;
      }
      case OP_LOAD:
      case OP_STORE:
      case OP_RMW:
        st->obj = name('a', p.obj);
        st->res = "";  // filled by the thread
        break;
      case OP_SPAWN:
        st->obj = "-";
        st->res = "";
        break;
      case OP_JOIN:
        st->obj = "T" + std::to_string(p.target);
        break;
      case OP_YIELD:
      case OP_QUIESCE:
        st->obj = p.label ? p.label : "-";
        break;
      case OP_SPURIOUS:
        break;
    }
  }
  std::string describe_blocked(const Thr *t) const {
    std::string s = "T" + std::to_string(t->id) + " " + op_name(t->pend.op);
    switch (t->pend.op) {
      case OP_LOCK: s += " " + name('m', t->pend.obj) + " (owner T" +
                         std::to_string(static_cast<MutexState *>(t->pend.obj)->owner) + ")"; break;
      case OP_RELOCK:
        s += " " + name('m', t->pend.mtx);
        if (t->in_waitset) s += " (in wait set of " + name('c', t->wait_cv) + ")";
        else s += " (owner T" + std::to_string(t->pend.mtx->owner) + ")";
        break;
      case OP_JOIN: s += " T" + std::to_string(t->pend.target); break;
      default: break;
    }
    return s;
  }
};

inline Thr *me() { return t_thr(); }

}  // namespace detail

// ------------------------------------------------------------------------------------------------
// running one execution
// ------------------------------------------------------------------------------------------------
inline Result run(const Factory &factory, Chooser &chooser, const RunOptions &opts = RunOptions()) {
  using namespace detail;
  if (g_exec() != nullptr || t_thr() != nullptr) {
    fprintf(stderr, "vsched: nested run\n");
    abort();
  }
  std::unique_ptr<Execution> E(new Execution);
  E->opts = opts;
  g_exec() = E.get();
  chooser.diverged_at = -1;
  chooser.begin();
  E->chooser = &chooser;
  E->prog = factory();
  bool abandoned = false;
  for (auto &b : E->prog.threads) {
    E->create(b, &E->sched_sem);
    if (!sem_wait_ms(&E->sched_sem, opts.stuck_ms)) { E->result.status = STUCK; abandoned = true; break; }
  }
  if (!abandoned) {
    E->dispatch(nullptr);
    long seen = -1;
    for (;;) {
      if (sem_wait_ms(&E->sched_sem, opts.stuck_ms)) break;
      if (E->progress == seen) {  // no step for stuck_ms: a thread never reaches a scheduling point
        E->result.status = STUCK;
        if (E->have_open) E->result.trace.push_back(E->open);
        break;
      }
      seen = E->progress;
    }
  }
  Result r = std::move(E->result);
  r.preemptions = E->preemptions;
  r.spurious = E->spurious_used;
  r.diverged_at = chooser.diverged_at;
  r.n_threads = static_cast<int>(E->thr.size());
  for (auto &t : E->thr) {
    if (!t->uncaught.empty()) r.uncaught.push_back("T" + std::to_string(t->id) + ": " + t->uncaught);
    if (!t->finished) {
      r.blocked.push_back(E->describe_blocked(t.get()));
      r.blocked_tids.push_back(t->id);
    }
  }
  g_exec() = nullptr;
  if (r.status == COMPLETED) {
    for (auto &t : E->thr) {
      free_workers().push_back(t->worker);  // the body has returned; the OS thread is reusable
      sem_destroy(&t->sem);
    }
    E->prog = Program();  // destroy the program state on this thread (pass-through mode)
  } else {
    (void)E.release();  // abandoned: parked threads (and their pooled OS threads) keep using it
  }
  return r;
}

// ---- choosers ----
struct ReplayChooser : Chooser {
  std::vector<Choice> list;
  size_t pos = 0;
  explicit ReplayChooser(std::vector<Choice> l) : list(std::move(l)) {}
  void begin() override { pos = 0; }
  size_t choose(const std::vector<Alt> &alts, const ChooseCtx &ctx) override {
    if (pos < list.size()) {
      const Choice &want = list[pos++];
      for (size_t i = 0; i < alts.size(); ++i)
        if (alts[i].c == want) return i;
      // tolerate a missing / superfluous notify target
      for (size_t i = 0; i < alts.size(); ++i)
        if (!want.spurious && !alts[i].c.spurious && alts[i].c.tid == want.tid) {
          if (diverged_at < 0) diverged_at = ctx.step;
          return i;
        }
      if (diverged_at < 0) diverged_at = ctx.step;
    }
    for (size_t i = 0; i < alts.size(); ++i)   // default: first non-spurious alternative
      if (!alts[i].c.spurious) return i;       // (= continue the current thread when possible)
    return 0;
  }
};

struct SplitMix {
  uint64_t s;
  explicit SplitMix(uint64_t seed) : s(seed * 0x9E3779B97F4A7C15ULL + 0x7654321ULL) {}
  uint64_t next() {
    uint64_t z = (s += 0x9E3779B97F4A7C15ULL);
    z = (z ^ (z >> 30)) * 0xBF58476D1CE4E5B9ULL;
    z = (z ^ (z >> 27)) * 0x94D049BB133111EBULL;
    return z ^ (z >> 31);
  }
  uint64_t below(uint64_t n) { return n ? next() % n : 0; }
};

struct RandomChooser : Chooser {
  SplitMix rng;
  unsigned spurious_den;  // a spurious alternative is taken with probability ~1/spurious_den per step
  explicit RandomChooser(uint64_t seed, unsigned sd = 6) : rng(seed), spurious_den(sd) {}
  size_t choose(const std::vector<Alt> &alts, const ChooseCtx &) override {
    std::vector<size_t> norm, spur;
    for (size_t i = 0; i < alts.size(); ++i) (alts[i].c.spurious ? spur : norm).push_back(i);
    if (!spur.empty() && (norm.empty() || rng.below(spurious_den) == 0)) return spur[rng.below(spur.size())];
    return norm[rng.below(norm.size())];
  }
};

// PCT (Burckhardt et al.): random distinct priorities; at depth-1 random steps the running thread's
// priority drops below all others.  est_steps = estimate of the execution length.
struct PctChooser : Chooser {
  SplitMix rng;
  int depth, est_steps;
  std::vector<int> prio;          // per tid, higher runs first
  std::vector<int> change_at;     // step numbers
  int low = 0;
  PctChooser(uint64_t seed, int d, int est) : rng(seed), depth(d < 1 ? 1 : d), est_steps(est < 1 ? 1 : est) {}
  void begin() override {
    prio.clear();
    change_at.clear();
    low = 0;
    for (int i = 1; i < depth; ++i) change_at.push_back(static_cast<int>(rng.below(est_steps)));
  }
  int pr(int tid) {
    while (static_cast<int>(prio.size()) <= tid) prio.push_back(1000 + static_cast<int>(rng.below(1000000)));
    return prio[tid];
  }
  size_t choose(const std::vector<Alt> &alts, const ChooseCtx &ctx) override {
    std::vector<size_t> norm, spur;
    for (size_t i = 0; i < alts.size(); ++i) (alts[i].c.spurious ? spur : norm).push_back(i);
    if (!spur.empty() && (norm.empty() || rng.below(8) == 0)) return spur[rng.below(spur.size())];
    for (int c : change_at)
      if (c == ctx.step && ctx.last_tid >= 0) { pr(ctx.last_tid); prio[ctx.last_tid] = --low; }
    int best = -1;
    for (size_t i : norm)
      if (best < 0 || pr(alts[i].c.tid) > pr(alts[best].c.tid)) best = static_cast<int>(i);
    std::vector<size_t> same;  // several notify targets of the best thread
    for (size_t i : norm)
      if (alts[i].c.tid == alts[best].c.tid) same.push_back(i);
    return same[rng.below(same.size())];
  }
};

struct DfsChooser : Chooser {
  struct Frame { size_t idx, n; };
  std::vector<Frame> stack;
  size_t depth = 0;
  int bound;
  bool nondeterminism = false;
  explicit DfsChooser(int b) : bound(b) {}
  void begin() override { depth = 0; }
  size_t choose(const std::vector<Alt> &alts, const ChooseCtx &ctx) override {
    std::vector<size_t> ok;
    for (size_t i = 0; i < alts.size(); ++i)
      if (!(alts[i].preempts && ctx.preemptions >= bound)) ok.push_back(i);
    if (ok.empty()) ok.push_back(0);
    if (depth < stack.size()) {
      if (stack[depth].n != ok.size()) { nondeterminism = true; stack[depth].n = ok.size(); }
      if (stack[depth].idx >= ok.size()) stack[depth].idx = ok.size() - 1;
    } else {
      stack.push_back(Frame{0, ok.size()});
    }
    return ok[stack[depth++].idx];
  }
  bool next() {  // advance to the next unexplored schedule; false when the tree is exhausted
    if (depth < stack.size()) stack.resize(depth);  // execution ended early (abandoned)
    while (!stack.empty() && stack.back().idx + 1 >= stack.back().n) stack.pop_back();
    if (stack.empty()) return false;
    ++stack.back().idx;
    return true;
  }
};

inline Result run_replay(const Factory &f, const std::vector<Choice> &choices, const RunOptions &o = RunOptions()) {
  ReplayChooser c(choices);
  return run(f, c, o);
}
inline Result run_random(const Factory &f, uint64_t seed, const RunOptions &o = RunOptions()) {
  RandomChooser c(seed);
  return run(f, c, o);
}
inline Result run_pct(const Factory &f, uint64_t seed, int depth, const RunOptions &o = RunOptions(),
                      int est_steps = 40) {
  PctChooser c(seed, depth, est_steps);
  return run(f, c, o);
}

struct ExploreOptions {
  int preemption_bound = 2;
  RunOptions run;
  long max_executions = -1;  // -1 = unlimited
  int max_abandoned = 8;     // stop after that many deadlocked / stuck executions (leaked threads)
};
struct ExploreStats {
  long executions = 0;
  long abandoned = 0;
  bool complete = false;        // the whole bounded tree was explored
  bool stopped_by_callback = false;
  bool nondeterminism = false;  // the program did not behave the same on a replayed prefix
};
inline ExploreStats explore(const Factory &f, const ExploreOptions &o,
                            const std::function<bool(const Result &)> &per_execution) {
  DfsChooser ch(o.preemption_bound);
  ExploreStats st;
  for (;;) {
    Result r = run(f, ch, o.run);
    ++st.executions;
    if (r.status != COMPLETED) ++st.abandoned;
    if (per_execution && !per_execution(r)) { st.stopped_by_callback = true; break; }
    if (st.abandoned >= o.max_abandoned) break;
    if (o.max_executions >= 0 && st.executions >= o.max_executions) break;
    if (!ch.next()) { st.complete = true; break; }
  }
  st.nondeterminism = ch.nondeterminism;
  return st;
}

inline std::vector<Choice> parse_schedule(const std::string &s, bool *ok = nullptr) {
  std::vector<Choice> out;
  if (ok) *ok = true;
  size_t i = 0;
  while (i < s.size()) {
    while (i < s.size() && isspace(static_cast<unsigned char>(s[i]))) ++i;
    size_t j = i;
    while (j < s.size() && !isspace(static_cast<unsigned char>(s[j]))) ++j;
    if (j > i) {
      Choice c;
      if (Choice::parse(s.substr(i, j - i), &c)) out.push_back(c);
      else if (ok) *ok = false;
    }
    i = j;
  }
  return out;
}

// ---- inside controlled threads ----
inline bool controlled() { return detail::t_thr() != nullptr; }
inline int self() { return detail::t_thr() ? detail::t_thr()->id : -1; }
inline void yield_point(const char *label = nullptr) {
  detail::Thr *t = detail::t_thr();
  if (!t) return;
  detail::Pending p;
  p.op = OP_YIELD;
  p.label = label;
  t->exec->park(t, p);
}
inline void await_quiescence(const char *label = nullptr) {
  detail::Thr *t = detail::t_thr();
  if (!t) return;
  detail::Pending p;
  p.op = OP_QUIESCE;
  p.label = label;
  t->exec->park(t, p);
}
inline void set_label(detail::ObjBase *o, const char *label) { o->label = label; }
// index of the step that is being executed (controlled thread) / number of steps so far (scheduler)
inline int current_step() {
  detail::Execution *e = detail::g_exec();
  return e ? static_cast<int>(e->result.trace.size()) : -1;
}

namespace detail {
[[noreturn]] inline void misuse(const char *what) {
  fprintf(stderr, "vsched: %s\n", what);
  abort();
}
}  // namespace detail
}  // namespace vs

// ------------------------------------------------------------------------------------------------
// the shim classes (namespace std so that `std::mutex` -> `std::vs_mutex` after the #define)
// ------------------------------------------------------------------------------------------------
namespace std {

class vs_condition_variable;

class vs_mutex : public ::vs::detail::MutexState {
 public:
  vs_mutex() {}
  vs_mutex(const vs_mutex &) = delete;
  vs_mutex &operator=(const vs_mutex &) = delete;
  void lock() {
    ::vs::detail::Thr *t = ::vs::detail::t_thr();
    if (!t) {
      if (this->owner != -1 && ::vs::detail::g_exec() && this->serial == ::vs::detail::g_exec()->serial)
        ::vs::detail::misuse("uncontrolled thread blocks on a held mutex");
      this->owner = -2;
      return;
    }
    t->exec->touch(this);
    ::vs::detail::Pending p;
    p.op = ::vs::OP_LOCK;
    p.obj = this;
    t->exec->park(t, p);
  }
  bool try_lock() {
    ::vs::detail::Thr *t = ::vs::detail::t_thr();
    if (!t) {
      if (this->owner != -1) return false;
      this->owner = -2;
      return true;
    }
    t->exec->touch(this);
    ::vs::detail::Pending p;
    p.op = ::vs::OP_TRYLOCK;
    p.obj = this;
    t->exec->park(t, p);
    return t->res == "1";
  }
  void unlock() {
    ::vs::detail::Thr *t = ::vs::detail::t_thr();
    if (!t) {
      this->owner = -1;
      return;
    }
    t->exec->touch(this);
    ::vs::detail::Pending p;
    p.op = ::vs::OP_UNLOCK;
    p.obj = this;
    t->exec->park(t, p);
  }
};

template <typename M>
class vs_lock_guard {
 public:
  typedef M mutex_type;
  explicit vs_lock_guard(M &m) : m_(m) { m_.lock(); }
  vs_lock_guard(M &m, adopt_lock_t) : m_(m) {}
  ~vs_lock_guard() { m_.unlock(); }
  vs_lock_guard(const vs_lock_guard &) = delete;
  vs_lock_guard &operator=(const vs_lock_guard &) = delete;

 private:
  M &m_;
};

template <typename M>
class vs_unique_lock {
 public:
  typedef M mutex_type;
  vs_unique_lock() noexcept : m_(nullptr), owns_(false) {}
  explicit vs_unique_lock(M &m) : m_(&m), owns_(false) { lock(); }
  vs_unique_lock(M &m, defer_lock_t) noexcept : m_(&m), owns_(false) {}
  vs_unique_lock(M &m, try_to_lock_t) : m_(&m), owns_(m.try_lock()) {}
  vs_unique_lock(M &m, adopt_lock_t) noexcept : m_(&m), owns_(true) {}
  ~vs_unique_lock() {
    if (owns_) m_->unlock();
  }
  vs_unique_lock(const vs_unique_lock &) = delete;
  vs_unique_lock &operator=(const vs_unique_lock &) = delete;
  vs_unique_lock(vs_unique_lock &&o) noexcept : m_(o.m_), owns_(o.owns_) { o.m_ = nullptr; o.owns_ = false; }
  vs_unique_lock &operator=(vs_unique_lock &&o) {
    if (owns_) m_->unlock();
    m_ = o.m_; owns_ = o.owns_; o.m_ = nullptr; o.owns_ = false;
    return *this;
  }
  void lock() {
    if (!m_ || owns_) ::vs::detail::misuse("unique_lock::lock without mutex / already owned");
    m_->lock();
    owns_ = true;
  }
  bool try_lock() {
    if (!m_ || owns_) ::vs::detail::misuse("unique_lock::try_lock without mutex / already owned");
    owns_ = m_->try_lock();
    return owns_;
  }
  void unlock() {
    if (!owns_) ::vs::detail::misuse("unique_lock::unlock without ownership");
    m_->unlock();
    owns_ = false;
  }
  void swap(vs_unique_lock &o) noexcept { std::swap(m_, o.m_); std::swap(owns_, o.owns_); }
  M *release() noexcept { M *r = m_; m_ = nullptr; owns_ = false; return r; }
  bool owns_lock() const noexcept { return owns_; }
  explicit operator bool() const noexcept { return owns_; }
  M *mutex() const noexcept { return m_; }

 private:
  M *m_;
  bool owns_;
};

class vs_condition_variable : public ::vs::detail::CvState {
 public:
  vs_condition_variable() {}
  vs_condition_variable(const vs_condition_variable &) = delete;
  vs_condition_variable &operator=(const vs_condition_variable &) = delete;
  void notify_one() { notify(::vs::OP_NOTIFY_ONE); }
  void notify_all() { notify(::vs::OP_NOTIFY_ALL); }
  void wait(vs_unique_lock<vs_mutex> &lk) {
    ::vs::detail::Thr *t = ::vs::detail::t_thr();
    if (!t) ::vs::detail::misuse("condition_variable::wait on a thread the scheduler does not control");
    if (!lk.owns_lock()) ::vs::detail::misuse("condition_variable::wait without the lock");
    t->exec->touch(this);
    t->exec->touch(lk.mutex());
    ::vs::detail::Pending p;
    p.op = ::vs::OP_WAIT;
    p.obj = this;
    p.mtx = lk.mutex();
    t->exec->park(t, p);
    p.op = ::vs::OP_RELOCK;
    t->exec->park(t, p);
  }
  template <typename Pred>
  void wait(vs_unique_lock<vs_mutex> &lk, Pred pred) {
    while (!pred()) wait(lk);
  }
  template <typename Rep, typename Period>
  cv_status wait_for(vs_unique_lock<vs_mutex> &lk, const chrono::duration<Rep, Period> &) {
    wait(lk);
    return cv_status::no_timeout;
  }
  template <typename Rep, typename Period, typename Pred>
  bool wait_for(vs_unique_lock<vs_mutex> &lk, const chrono::duration<Rep, Period> &, Pred pred) {
    wait(lk, pred);
    return true;
  }
  template <typename Clock, typename Dur>
  cv_status wait_until(vs_unique_lock<vs_mutex> &lk, const chrono::time_point<Clock, Dur> &) {
    wait(lk);
    return cv_status::no_timeout;
  }
  template <typename Clock, typename Dur, typename Pred>
  bool wait_until(vs_unique_lock<vs_mutex> &lk, const chrono::time_point<Clock, Dur> &, Pred pred) {
    wait(lk, pred);
    return true;
  }

 private:
  void notify(::vs::Op op) {
    ::vs::detail::Thr *t = ::vs::detail::t_thr();
    if (!t) return;  // outside an execution nobody can be waiting
    t->exec->touch(this);
    ::vs::detail::Pending p;
    p.op = op;
    p.obj = this;
    t->exec->park(t, p);
  }
};

template <typename T>
class vs_atomic : public ::vs::detail::AtomicState {
 public:
  vs_atomic() noexcept : v_() {}
  constexpr vs_atomic(T v) noexcept : v_(v) {}  // NOLINT(runtime/explicit)
  vs_atomic(const vs_atomic &) = delete;
  vs_atomic &operator=(const vs_atomic &) = delete;
  bool is_lock_free() const noexcept { return true; }
  T load(memory_order = memory_order_seq_cst) const {
    ::vs::detail::Thr *t = point(::vs::OP_LOAD);
    T v = v_;
    if (t) t->res = ::vs::detail::Repr<T>::of(v);
    return v;
  }
  void store(T x, memory_order = memory_order_seq_cst) {
    ::vs::detail::Thr *t = point(::vs::OP_STORE);
    v_ = x;
    if (t) t->res = ::vs::detail::Repr<T>::of(x);
  }
  T exchange(T x, memory_order = memory_order_seq_cst) {
    ::vs::detail::Thr *t = point(::vs::OP_RMW);
    T old = v_;
    v_ = x;
    if (t) t->res = ::vs::detail::Repr<T>::of(old) + "->" + ::vs::detail::Repr<T>::of(x);
    return old;
  }
  bool compare_exchange_strong(T &expected, T desired, memory_order = memory_order_seq_cst,
                               memory_order = memory_order_seq_cst) {
    ::vs::detail::Thr *t = point(::vs::OP_RMW);
    if (v_ == expected) {
      if (t) t->res = "cas-ok " + ::vs::detail::Repr<T>::of(v_) + "->" + ::vs::detail::Repr<T>::of(desired);
      v_ = desired;
      return true;
    }
    if (t) t->res = "cas-fail " + ::vs::detail::Repr<T>::of(v_);
    expected = v_;
    return false;
  }
  bool compare_exchange_weak(T &expected, T desired, memory_order a = memory_order_seq_cst,
                             memory_order b = memory_order_seq_cst) {
    return compare_exchange_strong(expected, desired, a, b);
  }
  template <typename U = T>
  T fetch_add(U d, memory_order = memory_order_seq_cst) { return rmw([d](T o) { return static_cast<T>(o + d); }); }
  template <typename U = T>
  T fetch_sub(U d, memory_order = memory_order_seq_cst) { return rmw([d](T o) { return static_cast<T>(o - d); }); }
  template <typename U = T>
  T fetch_and(U d, memory_order = memory_order_seq_cst) { return rmw([d](T o) { return static_cast<T>(o & d); }); }
  template <typename U = T>
  T fetch_or(U d, memory_order = memory_order_seq_cst) { return rmw([d](T o) { return static_cast<T>(o | d); }); }
  template <typename U = T>
  T fetch_xor(U d, memory_order = memory_order_seq_cst) { return rmw([d](T o) { return static_cast<T>(o ^ d); }); }
  operator T() const { return load(); }  // NOLINT(runtime/explicit)
  T operator=(T x) { store(x); return x; }
  T operator++() { return static_cast<T>(fetch_add(1) + 1); }
  T operator++(int) { return fetch_add(1); }
  T operator--() { return static_cast<T>(fetch_sub(1) - 1); }
  T operator--(int) { return fetch_sub(1); }
  template <typename U>
  T operator+=(U d) { return static_cast<T>(fetch_add(d) + d); }
  template <typename U>
  T operator-=(U d) { return static_cast<T>(fetch_sub(d) - d); }
  template <typename U>
  T operator&=(U d) { return static_cast<T>(fetch_and(d) & d); }
  template <typename U>
  T operator|=(U d) { return static_cast<T>(fetch_or(d) | d); }
  template <typename U>
  T operator^=(U d) { return static_cast<T>(fetch_xor(d) ^ d); }
  T raw() const { return v_; }  // for snapshots (scheduler thread): no scheduling point

 private:
  ::vs::detail::Thr *point(::vs::Op op) const {
    ::vs::detail::Thr *t = ::vs::detail::t_thr();
    if (!t) return nullptr;
    vs_atomic *self = const_cast<vs_atomic *>(this);
    t->exec->touch(self);
    ::vs::detail::Pending p;
    p.op = op;
    p.obj = self;
    t->exec->park(t, p);
    return t;
  }
  template <typename F>
  T rmw(F f) {
    ::vs::detail::Thr *t = point(::vs::OP_RMW);
    T old = v_;
    v_ = f(old);
    if (t) t->res = ::vs::detail::Repr<T>::of(old) + "->" + ::vs::detail::Repr<T>::of(v_);
    return old;
  }
  T v_;
};

class vs_thread {
 public:
  typedef thread::id id;  // the real std::thread::id
  vs_thread() noexcept : t_(nullptr), exec_(nullptr) {}
  template <typename F, typename... Args,
            typename = typename enable_if<!is_same<typename decay<F>::type, vs_thread>::value>::type>
  explicit vs_thread(F &&f, Args &&... args) : t_(nullptr), exec_(nullptr) {
    ::vs::detail::Thr *me = ::vs::detail::t_thr();
    if (!me) ::vs::detail::misuse("std::thread created on a thread the scheduler does not control");
    ::vs::detail::Pending p;
    p.op = ::vs::OP_SPAWN;
    me->exec->park(me, p);
    sem_t birth;
    sem_init(&birth, 0, 0);
    function<void()> body = bind(std::forward<F>(f), std::forward<Args>(args)...);
    t_ = me->exec->create(std::move(body), &birth);
    exec_ = me->exec;
    ::vs::detail::sem_wait_retry(&birth);
    sem_destroy(&birth);
    me->res = "T" + to_string(t_->id);
  }
  vs_thread(const vs_thread &) = delete;
  vs_thread &operator=(const vs_thread &) = delete;
  vs_thread(vs_thread &&o) noexcept : t_(o.t_), exec_(o.exec_) { o.t_ = nullptr; }
  vs_thread &operator=(vs_thread &&o) {
    if (joinable()) ::vs::detail::misuse("std::thread assigned while joinable (std::terminate)");
    t_ = o.t_; exec_ = o.exec_; o.t_ = nullptr;
    return *this;
  }
  ~vs_thread() {
    if (joinable()) ::vs::detail::misuse("std::thread destroyed while joinable (std::terminate)");
  }
  bool joinable() const noexcept { return t_ != nullptr; }
  id get_id() const noexcept { return t_ ? t_->worker->th_id : id(); }
  int vs_tid() const { return t_ ? t_->id : -1; }
  void join() {
    if (!t_) ::vs::detail::misuse("std::thread::join on a non-joinable thread");
    ::vs::detail::Thr *me = ::vs::detail::t_thr();
    if (!me) ::vs::detail::misuse("std::thread::join on a thread the scheduler does not control");
    ::vs::detail::Pending p;
    p.op = ::vs::OP_JOIN;
    p.target = t_->id;
    me->exec->park(me, p);
    t_->joined = true;
    t_ = nullptr;
  }
  void detach() {
    if (!t_) ::vs::detail::misuse("std::thread::detach on a non-joinable thread");
    t_ = nullptr;  // the OS thread goes back to the pool when the execution ends
  }
  void swap(vs_thread &o) noexcept { std::swap(t_, o.t_); std::swap(exec_, o.exec_); }
  static unsigned hardware_concurrency() noexcept { return thread::hardware_concurrency(); }

 private:
  ::vs::detail::Thr *t_;
  ::vs::detail::Execution *exec_;
};

}  // namespace std
#endif  // VERIF_VSCHED_H_

// ------------------------------------------------------------------------------------------------
// macro switch (outside the include guard on purpose: re-include with one of the two macros set)
// ------------------------------------------------------------------------------------------------
#ifdef VSCHED_SUBSTITUTE_BEGIN
#undef VSCHED_SUBSTITUTE_BEGIN
#define mutex vs_mutex
#define lock_guard vs_lock_guard
#define unique_lock vs_unique_lock
#define condition_variable vs_condition_variable
#define atomic vs_atomic
#define thread vs_thread
#endif
#ifdef VSCHED_SUBSTITUTE_END
#undef VSCHED_SUBSTITUTE_END
#undef mutex
#undef lock_guard
#undef unique_lock
#undef condition_variable
#undef atomic
#undef thread
#endif
