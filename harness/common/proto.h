// Shared plumbing of the correspondence harnesses.
//
// A harness = an interpreter of op lines against the REAL dmlc-core code (exec), a per-case oracle
// of the property itself, and generators that produce cases (lists of op lines) from one PRNG.
// Output (directory given by --out):
//   ops.txt     "case <id> <kind...>" lines and one op per line       -> stdin of `modeldrv <Sub>`
//   impl.txt    the same "case" lines and one canonical result per op  <- compared with modeldrv's stdout
//   oracle.txt  "ORACLE-FAIL case=<id> class=<finding-class|none> <message>"
//   stats.json  counts (cases, ops, distinct non-trivial cases, histogram, samples)
#ifndef VERIF_PROTO_H_
#define VERIF_PROTO_H_
#include <cstdint>
#include <cstdio>
#include <cstdlib>
#include <cstring>
#include <fstream>
#include <functional>
#include <map>
#include <set>
#include <sstream>
#include <string>
#include <vector>

namespace vh {

struct Rng {
  uint64_t s;
  // the seed is hashed (two splitmix rounds of a different stream) so that seeds n and n+1 do not land on
  // the same splitmix orbit one step apart
  explicit Rng(uint64_t seed) : s(0) {
    uint64_t z = seed + 0x632BE59BD9B4E019ULL;
    for (int i = 0; i < 2; ++i) {
      z = (z ^ (z >> 30)) * 0xBF58476D1CE4E5B9ULL;
      z = (z ^ (z >> 27)) * 0x94D049BB133111EBULL;
      z ^= (z >> 31);
      z += 0xD1B54A32D192ED03ULL;
    }
    s = z;
  }
  uint64_t next() {  // splitmix64
    uint64_t z = (s += 0x9E3779B97F4A7C15ULL);
    z = (z ^ (z >> 30)) * 0xBF58476D1CE4E5B9ULL;
    z = (z ^ (z >> 27)) * 0x94D049BB133111EBULL;
    return z ^ (z >> 31);
  }
  uint64_t below(uint64_t n) { return n ? next() % n : 0; }
  bool chance(unsigned num, unsigned den) { return below(den) < num; }
};

inline std::string hex(const std::string &s) {
  if (s.empty()) return "-";
  static const char *d = "0123456789abcdef";
  std::string o;
  o.reserve(s.size() * 2);
  for (unsigned char c : s) {
    o.push_back(d[c >> 4]);
    o.push_back(d[c & 15]);
  }
  return o;
}
inline std::string unhex(const std::string &h) {
  if (h == "-") return "";
  std::string o;
  auto v = [](char c) { return c <= '9' ? c - '0' : (c | 32) - 'a' + 10; };
  for (size_t i = 0; i + 1 < h.size(); i += 2) o.push_back(static_cast<char>(v(h[i]) * 16 + v(h[i + 1])));
  return o;
}
inline std::vector<std::string> split_ws(const std::string &line) {
  std::vector<std::string> w;
  std::istringstream is(line);
  std::string t;
  while (is >> t) w.push_back(t);
  return w;
}
inline std::string json_escape(const std::string &s) {
  std::string o;
  for (unsigned char c : s) {
    if (c == '"' || c == '\\') { o.push_back('\\'); o.push_back(c); }
    else if (c < 0x20 || c >= 0x7f) { char b[8]; snprintf(b, sizeof b, "\\u%04x", c); o += b; }
    else o.push_back(c);
  }
  return o;
}

struct Case {
  std::string kind;                 // free text after the id on the "case" line
  std::vector<std::string> ops;     // op lines
};

// Interface a harness implements.
struct Harness {
  virtual ~Harness() {}
  virtual void begin_case(const Case &c) = 0;
  virtual std::string exec(const std::vector<std::string> &w) = 0;  // one canonical result line
  // oracle: called after all ops; push failure messages as "class=<c> <text>"
  virtual void end_case(const Case &c, const std::vector<std::string> &results,
                        std::vector<std::string> *failures) = 0;
  // "non-trivial" label for the evidence histogram ("" = trivial)
  virtual std::string shape(const Case &c, const std::vector<std::string> &results) { return "plain"; }
};

struct Runner {
  std::string out_dir;
  uint64_t seed = 1;
  std::string tier = "quick";
  std::string replay;
  FILE *f_ops = nullptr, *f_impl = nullptr, *f_or = nullptr;
  uint64_t n_cases = 0, n_ops = 0, n_fail = 0;
  std::map<std::string, uint64_t> hist;
  std::set<uint64_t> distinct;
  std::vector<std::string> samples;
  std::map<std::string, uint64_t> extra;  // harness-specific counters
  Harness *h = nullptr;
  bool flush_ops = false;  // set by harnesses whose code under test may abort (sanitizer) inside exec

  void parse(int argc, char **argv) {
    for (int i = 1; i < argc; ++i) {
      std::string a = argv[i];
      if (a == "--seed" && i + 1 < argc) seed = strtoull(argv[++i], nullptr, 10);
      else if (a == "--tier" && i + 1 < argc) tier = argv[++i];
      else if (a == "--out" && i + 1 < argc) out_dir = argv[++i];
      else if (a == "--replay" && i + 1 < argc) replay = argv[++i];
    }
    if (out_dir.empty()) { fprintf(stderr, "--out required\n"); exit(2); }
    f_ops = fopen((out_dir + "/ops.txt").c_str(), "w");
    f_impl = fopen((out_dir + "/impl.txt").c_str(), "w");
    f_or = fopen((out_dir + "/oracle.txt").c_str(), "w");
    if (!f_ops || !f_impl || !f_or) { perror("open out"); exit(2); }
  }
  bool thorough() const { return tier == "thorough"; }

  static uint64_t fnv(const std::string &s, uint64_t h = 1469598103934665603ULL) {
    for (unsigned char c : s) { h ^= c; h *= 1099511628211ULL; }
    return h;
  }

  void run_case(const Case &c) {
    ++n_cases;
    fprintf(f_ops, "case %llu %s\n", (unsigned long long)n_cases, c.kind.c_str());
    fprintf(f_impl, "case %llu %s\n", (unsigned long long)n_cases, c.kind.c_str());
    h->begin_case(c);
    std::vector<std::string> results;
    uint64_t hh = fnv(c.kind);
    for (const std::string &op : c.ops) {
      ++n_ops;
      // the op line is written (and flushed) BEFORE exec so that a crash inside exec still leaves the input
      fputs(op.c_str(), f_ops); fputc('\n', f_ops);
      if (flush_ops) fflush(f_ops);
      std::string r = h->exec(split_ws(op));
      fputs(r.c_str(), f_impl); fputc('\n', f_impl);
      results.push_back(r);
      hh = fnv(op, hh);
    }
    std::vector<std::string> failures;
    h->end_case(c, results, &failures);
    for (const std::string &f : failures) {
      ++n_fail;
      fprintf(f_or, "ORACLE-FAIL case=%llu %s\n", (unsigned long long)n_cases, f.c_str());
    }
    std::string sh = h->shape(c, results);
    ++hist[sh.empty() ? "trivial" : sh];
    if (!sh.empty()) distinct.insert(hh);
    if (samples.size() < 5 && !sh.empty() && (n_cases % 7 == 1 || samples.empty())) {
      std::string s = c.kind;
      for (size_t i = 0; i < c.ops.size() && i < 6; ++i) s += " | " + c.ops[i].substr(0, 120);
      samples.push_back(s);
    }
  }

  // replay file: plain text, "case ..." line optional, then op lines
  bool run_replay() {
    if (replay.empty()) return false;
    std::ifstream in(replay);
    std::string line;
    Case c;
    c.kind = "replay";
    bool have = false;
    while (std::getline(in, line)) {
      if (line.empty()) continue;
      if (line.compare(0, 5, "case ") == 0) {
        if (have) run_case(c);
        c = Case();
        auto w = split_ws(line);
        std::string k;
        for (size_t i = 2; i < w.size(); ++i) k += (i > 2 ? " " : "") + w[i];
        c.kind = k.empty() ? "replay" : k;
        have = true;
        continue;
      }
      c.ops.push_back(line);
      have = true;
    }
    if (have) run_case(c);
    return true;
  }

  void finish() {
    fclose(f_ops); fclose(f_impl); fclose(f_or);
    FILE *f = fopen((out_dir + "/stats.json").c_str(), "w");
    fprintf(f, "{\"cases\": %llu, \"ops\": %llu, \"oracle_failures\": %llu, \"distinct_nontrivial\": %llu,\n",
            (unsigned long long)n_cases, (unsigned long long)n_ops, (unsigned long long)n_fail,
            (unsigned long long)distinct.size());
    fprintf(f, " \"histogram\": {");
    bool first = true;
    for (auto &kv : hist) {
      fprintf(f, "%s\"%s\": %llu", first ? "" : ", ", json_escape(kv.first).c_str(), (unsigned long long)kv.second);
      first = false;
    }
    fprintf(f, "},\n \"extra\": {");
    first = true;
    for (auto &kv : extra) {
      fprintf(f, "%s\"%s\": %llu", first ? "" : ", ", json_escape(kv.first).c_str(), (unsigned long long)kv.second);
      first = false;
    }
    fprintf(f, "},\n \"samples\": [");
    for (size_t i = 0; i < samples.size(); ++i)
      fprintf(f, "%s\"%s\"", i ? ", " : "", json_escape(samples[i]).c_str());
    fprintf(f, "]}\n");
    fclose(f);
  }
};

}  // namespace vh
#endif  // VERIF_PROTO_H_
