// In-memory dmlc::io::FileSystem shared by the Split / Indexed / Wrap / Parse harnesses.
//
//   vh::MemFS fs;                                  // one object per harness (no singleton, no global state)
//   fs.Put("/m/f0", bytes);                        // create or replace a file (any URI name; '/'-separated)
//   fs.Put("/m/f1", bytes2);   fs.Remove("/m/f0");   fs.Clear();
//   const std::string *b = fs.Get("/m/f0");        // current content or nullptr
//   std::string uri = vh::MemFS::JoinUri({"/m/f0", "/m/f1"});          // "/m/f0;/m/f1" (dmlc's list syntax)
//   dmlc::io::LineSplitter s(&fs, uri.c_str(), k, n);                  // anything taking a FileSystem*
//
// Semantics (what the dmlc callers rely on):
//   * keys are URI::name strings; protocol and host of a queried URI are ignored on lookup and copied
//     into every FileInfo handed back (so "mem://h/m/f0" and "/m/f0" name the same file).
//   * GetPathInfo(p): a file -> {path, size, kFile}; a name that is a proper '/'-prefix of some file
//     (with or without trailing '/') -> {path, 0, kDirectory}; otherwise LOG(FATAL) (throws dmlc::Error),
//     like LocalFileSystem on a missing path.
//   * ListDirectory(p, out): the direct children of directory p, files and sub-directories, in
//     lexicographic order of their names (std::map order; deterministic, unlike readdir).  Empty files
//     are listed with size 0 (InputSplitBase drops them itself).  ListDirectoryRecursive is inherited.
//   * OpenForRead(p, allow_null) / Open(p, "r", allow_null): a new SeekStream over a *snapshot* of the
//     bytes (shared, immutable: a later Put/Remove does not disturb open handles).  Read returns
//     min(size, remaining) bytes (or at most `max_read_per_call` if that knob is non-zero, to emulate
//     short reads), 0 at the end; Seek(pos) accepts any pos (reads past the end return 0); Tell().
//     Missing file: nullptr if allow_null, else LOG(FATAL).
//   * Open(p, "w" | "a"): a Stream whose Write appends to the file ("w" truncates first); the bytes are
//     visible through Get()/OpenForRead as soon as they are written.  Read on it returns 0.
//   * counters for handle-leak / access oracles: opens (total OpenForRead/Open calls), live (streams
//     not yet deleted), bytes_read, seeks.  Not thread-safe except for these counters being atomics;
//     Put/Remove must not race with Open (streams themselves are independent once opened).
#ifndef VERIF_MEMFS_H_
#define VERIF_MEMFS_H_
#include <dmlc/io.h>
#include <dmlc/logging.h>
#include <atomic>
#include <cstring>
#include <map>
#include <memory>
#include <string>
#include <vector>

namespace vh {

class MemFS : public dmlc::io::FileSystem {
 public:
  typedef std::shared_ptr<std::string> Data;
  std::atomic<size_t> opens{0}, live{0}, bytes_read{0}, seeks{0};
  size_t max_read_per_call = 0;  // 0 = unlimited

  void Put(const std::string &name, const std::string &bytes) { files_[name] = std::make_shared<std::string>(bytes); }
  void Remove(const std::string &name) { files_.erase(name); }
  void Clear() { files_.clear(); }
  const std::string *Get(const std::string &name) const {
    auto it = files_.find(name);
    return it == files_.end() ? nullptr : it->second.get();
  }
  std::vector<std::string> Names() const {
    std::vector<std::string> v;
    for (auto &kv : files_) v.push_back(kv.first);
    return v;
  }
  static std::string JoinUri(const std::vector<std::string> &names) {
    std::string u;
    for (size_t i = 0; i < names.size(); ++i) u += (i ? ";" : "") + names[i];
    return u;
  }

  dmlc::io::FileInfo GetPathInfo(const dmlc::io::URI &path) override {
    dmlc::io::FileInfo fi;
    fi.path = path;
    auto it = files_.find(path.name);
    if (it != files_.end()) {
      fi.size = it->second->size();
      fi.type = dmlc::io::kFile;
      return fi;
    }
    if (IsDir(path.name)) {
      fi.size = 0;
      fi.type = dmlc::io::kDirectory;
      return fi;
    }
    LOG(FATAL) << "MemFS.GetPathInfo: " << path.name << " does not exist";
    return fi;
  }

  void ListDirectory(const dmlc::io::URI &path, std::vector<dmlc::io::FileInfo> *out_list) override {
    out_list->clear();
    std::string dir = Strip(path.name) + "/";
    std::string last_sub;
    for (auto it = files_.lower_bound(dir); it != files_.end(); ++it) {
      const std::string &nm = it->first;
      if (nm.compare(0, dir.size(), dir) != 0) break;
      size_t slash = nm.find('/', dir.size());
      dmlc::io::FileInfo fi;
      fi.path = path;
      if (slash == std::string::npos) {
        if (nm.size() == dir.size()) continue;
        fi.path.name = nm;
        fi.size = it->second->size();
        fi.type = dmlc::io::kFile;
      } else {
        std::string sub = nm.substr(0, slash);
        if (sub == last_sub) continue;
        last_sub = sub;
        fi.path.name = sub;
        fi.size = 0;
        fi.type = dmlc::io::kDirectory;
      }
      out_list->push_back(fi);
    }
  }

  dmlc::SeekStream *OpenForRead(const dmlc::io::URI &path, bool allow_null = false) override {
    auto it = files_.find(path.name);
    if (it == files_.end()) {
      CHECK(allow_null) << "MemFS.OpenForRead: " << path.name << " does not exist";
      return nullptr;
    }
    ++opens;
    return new ReadStream(this, it->second);
  }

  dmlc::Stream *Open(const dmlc::io::URI &path, const char *const flag, bool allow_null = false) override {
    if (!std::strcmp(flag, "r") || !std::strcmp(flag, "rb")) return OpenForRead(path, allow_null);
    bool append = flag[0] == 'a';
    CHECK(flag[0] == 'w' || append) << "MemFS.Open: unknown flag " << flag;
    auto it = files_.find(path.name);
    if (it == files_.end() || !append) {
      // a fresh string object: handles opened earlier keep their snapshot
      files_[path.name] = std::make_shared<std::string>();
    } else {
      files_[path.name] = std::make_shared<std::string>(*it->second);
    }
    ++opens;
    return new WriteStream(this, path.name);
  }

 private:
  std::map<std::string, Data> files_;

  static std::string Strip(std::string s) {
    while (!s.empty() && s[s.size() - 1] == '/') s.resize(s.size() - 1);
    return s;
  }
  bool IsDir(const std::string &name) const {
    std::string dir = Strip(name) + "/";
    auto it = files_.lower_bound(dir);
    return it != files_.end() && it->first.compare(0, dir.size(), dir) == 0;
  }

  class ReadStream : public dmlc::SeekStream {
   public:
    ReadStream(MemFS *fs, Data d) : fs_(fs), d_(d), pos_(0) { ++fs_->live; }
    ~ReadStream() override { --fs_->live; }
    size_t Read(void *ptr, size_t size) override {
      if (pos_ >= d_->size()) return 0;
      size_t n = d_->size() - pos_;
      if (size < n) n = size;
      if (fs_->max_read_per_call != 0 && n > fs_->max_read_per_call) n = fs_->max_read_per_call;
      if (n != 0) std::memcpy(ptr, d_->data() + pos_, n);
      pos_ += n;
      fs_->bytes_read += n;
      return n;
    }
    size_t Write(const void *, size_t) override {
      LOG(FATAL) << "MemFS: write on a read stream";
      return 0;
    }
    void Seek(size_t pos) override { pos_ = pos; ++fs_->seeks; }
    size_t Tell() override { return pos_; }

   private:
    MemFS *fs_;
    Data d_;
    size_t pos_;
  };

  class WriteStream : public dmlc::Stream {
   public:
    WriteStream(MemFS *fs, const std::string &name) : fs_(fs), name_(name) { ++fs_->live; }
    ~WriteStream() override { --fs_->live; }
    size_t Read(void *, size_t) override { return 0; }
    size_t Write(const void *ptr, size_t size) override {
      auto it = fs_->files_.find(name_);
      CHECK(it != fs_->files_.end()) << "MemFS: file removed while open for writing";
      // copy-on-write so that readers opened before this write keep their snapshot
      Data nd = std::make_shared<std::string>(*it->second);
      nd->append(static_cast<const char *>(ptr), size);
      it->second = nd;
      return size;
    }

   private:
    MemFS *fs_;
    std::string name_;
  };
};

}  // namespace vh
#endif  // VERIF_MEMFS_H_
