// Correspondence harness + oracle for C01 (RecordIO round trip) and C02 (self-synchronisation,
// chunk-reader tiling).  Runs the REAL RecordIOWriter / RecordIOReader / RecordIOChunkReader /
// FindNextRecordIOHead (src/recordio.cc is included so the inline scanner is reachable).
#include <dmlc/memory_io.h>
#include <dmlc/recordio.h>
#include <memory>
#include <recordio.cc>  // /repo/src/recordio.cc, for the inline FindNextRecordIOHead
#include <io/recordio_split.h>
#include "common/memfs.h"
#include "common/proto.h"

// RecordIOSplitter's two scans (the partition-boundary scan and the chunk-cut scan) made callable
struct ScanSplitter : public dmlc::io::RecordIOSplitter {
  ScanSplitter(dmlc::io::FileSystem *fs, const char *uri) : dmlc::io::RecordIOSplitter(fs, uri, 0, 1, false) {}
  size_t Seek(dmlc::Stream *fi) { return this->SeekRecordBegin(fi); }
  const char *Last(const char *b, const char *e) { return this->FindLastRecordBegin(b, e); }
};

using vh::Case;

static const uint32_t kMagic = dmlc::RecordIOWriter::kMagic;

struct RecHarness : vh::Harness {
  std::string prop;
  std::string buf;                    // the stream image
  std::unique_ptr<dmlc::MemoryStringStream> early;   // see begin_case
  std::unique_ptr<dmlc::MemoryStringStream> strm;
  std::unique_ptr<dmlc::RecordIOWriter> writer;
  std::vector<std::string> written;   // records accepted by WriteRecord
  std::vector<size_t> starts;         // stream offset at which each record starts
  bool has_raw = false;
  size_t last_counter = 0;

  void begin_case(const Case &) override {
    buf.clear();
    strm.reset(new dmlc::MemoryStringStream(&buf));
    early.reset(new dmlc::MemoryStringStream(&buf));   // a second stream on the same string, made before any write
    writer.reset(new dmlc::RecordIOWriter(strm.get()));
    written.clear();
    starts.clear();
    has_raw = false;
    last_counter = 0;
  }

  static std::string show(const std::vector<std::string> &recs) {
    std::string o = "recs";
    for (auto &r : recs) o += " " + vh::hex(r);
    return o + " end";
  }

  std::string exec(const std::vector<std::string> &w) override {
    if (w.empty()) return "bad-op";
    if (w[0] == "write" && w.size() == 2) {
      std::string r = vh::unhex(w[1]);
      size_t at = buf.size();
      try {
        writer->WriteRecord(r);
      } catch (const dmlc::Error &) {
        return "err:check";
      }
      written.push_back(r);
      starts.push_back(at);
      size_t c = writer->except_counter();
      std::string res = "ok " + std::to_string(c - last_counter);
      last_counter = c;
      return res;
    }
    if (w[0] == "sizecheck" && w.size() == 2) {
      size_t n = strtoull(w[1].c_str(), nullptr, 10);
      std::string big(n, 'x');
      std::string sink;
      dmlc::MemoryStringStream ms(&sink);
      dmlc::RecordIOWriter wr(&ms);
      try {
        wr.WriteRecord(big);
      } catch (const dmlc::Error &) {
        return "err:check";
      }
      return "ok";
    }
    if (w[0] == "bigrt" && w.size() == 2) {
      // a LARGE record given by segments `m` (the magic word), `x<n>` (n bytes 'x'), `r<n>` (n bytes of a fixed
      // pseudo-random stream without aligned magic), joined by '+': written alone into a fresh stream and read
      // back with the real writer / reader.  Too large for the list model to execute: the model side answers
      // what theorem C01_roundtrip states for every record below 2^29 bytes ("ok <len>"), so any other answer
      // is a divergence AND an oracle failure.
      std::string rec;
      uint64_t lcg = 0x9e3779b97f4a7c15ULL;
      std::string spec = w[1];
      size_t a = 0;
      while (a <= spec.size()) {
        size_t b = spec.find('+', a);
        if (b == std::string::npos) b = spec.size();
        std::string seg = spec.substr(a, b - a);
        if (seg == "m") { uint32_t m = kMagic; rec.append(reinterpret_cast<const char *>(&m), 4); }
        else if (seg.size() > 1 && seg[0] == 'x') rec.append(strtoull(seg.c_str() + 1, nullptr, 10), 'x');
        else if (seg.size() > 1 && seg[0] == 'r') {
          size_t n = strtoull(seg.c_str() + 1, nullptr, 10);
          for (size_t i = 0; i < n; ++i) { lcg = lcg * 6364136223846793005ULL + 1442695040888963407ULL; rec.push_back(static_cast<char>((lcg >> 56) | 1)); }
        } else return "bad-op";
        a = b + 1;
      }
      std::string sink;
      try {
        dmlc::MemoryStringStream ms(&sink);
        dmlc::RecordIOWriter wr(&ms);
        wr.WriteRecord(rec);
        if (wr.except_counter() != aligned_magic_count(rec)) return "counter " + std::to_string(wr.except_counter());
      } catch (const dmlc::Error &) {
        return "err:check";
      }
      if (sink.size() % 4 != 0) return "length-not-multiple-of-4";
      std::string back;
      try {
        dmlc::MemoryStringStream rs(&sink);
        dmlc::RecordIOReader reader(&rs);
        if (!reader.NextRecord(&back)) return "eos";
        if (back != rec) {
          size_t i = 0;
          while (i < back.size() && i < rec.size() && back[i] == rec[i]) ++i;
          return "differs len=" + std::to_string(back.size()) + " first-mismatch=" + std::to_string(i);
        }
        std::string more;
        if (reader.NextRecord(&more)) return "extra-record";
      } catch (const dmlc::Error &) {
        return "invalid";
      }
      return "ok " + std::to_string(rec.size());
    }
    if (w[0] == "raw" && w.size() == 2) {
      std::string r = vh::unhex(w[1]);
      strm->Write(r.data(), r.size());
      has_raw = true;
      return "ok";
    }
    if (w[0] == "dump") return "bytes " + vh::hex(buf);
    if (w[0] == "counter") return "counter " + std::to_string(writer->except_counter());
    if (w[0] == "readall") {
      std::string copy = buf;
      dmlc::MemoryStringStream rs(&copy);
      dmlc::RecordIOReader reader(&rs);
      std::vector<std::string> recs;
      std::string rec;
      try {
        while (reader.NextRecord(&rec)) recs.push_back(rec);
        // a second call after the end must stay at the end
        if (reader.NextRecord(&rec)) return "not-sticky-eos";
      } catch (const dmlc::Error &) {
        return "invalid";
      }
      // the same records through the stream object that was constructed on the (then empty) string before the
      // writes went through the other stream: a MemoryStringStream is a view of the string, not a snapshot
      if (!has_raw) {
        std::vector<std::string> recs2;
        try {
          early->Seek(0);
          dmlc::RecordIOReader r2(early.get());
          while (r2.NextRecord(&rec)) recs2.push_back(rec);
        } catch (const dmlc::Error &) {
          return "early-stream-invalid";
        }
        if (recs2 != recs) return "early-stream-differs " + show(recs2).substr(0, 200);
      }
      return show(recs);
    }
    if (w[0] == "fixedrt") {
      // the same records through MemoryFixedSizeStream buffers of EXACTLY the encoded size
      std::string mem(buf.size(), '\xee');
      try {
        {
          dmlc::MemoryFixedSizeStream ws(&mem[0], mem.size());
          dmlc::RecordIOWriter wr(&ws);
          for (auto &rec : written) wr.WriteRecord(rec);
          if (ws.Tell() != mem.size()) return "short-write " + std::to_string(ws.Tell());
        }
        dmlc::MemoryFixedSizeStream rs(&mem[0], mem.size());
        dmlc::RecordIOReader reader(&rs);
        std::vector<std::string> recs;
        std::string rec;
        while (reader.NextRecord(&rec)) recs.push_back(rec);
        return show(recs);
      } catch (const dmlc::Error &) {
        return "err:check";
      }
    }
    if (w[0] == "chunk" && w.size() == 3) {
      unsigned k = strtoul(w[1].c_str(), nullptr, 10), n = strtoul(w[2].c_str(), nullptr, 10);
      std::vector<uint32_t> mem(buf.size() / 4 + 1);
      memcpy(mem.data(), buf.data(), buf.size());
      dmlc::InputSplit::Blob blob;
      blob.dptr = mem.data();
      blob.size = buf.size();
      std::vector<std::string> recs;
      try {
        dmlc::RecordIOChunkReader cr(blob, k, n);
        dmlc::InputSplit::Blob r;
        while (cr.NextRecord(&r)) recs.push_back(std::string(static_cast<char *>(r.dptr), r.size));
      } catch (const dmlc::Error &) {
        return "invalid";
      }
      return show(recs);
    }
    if ((w[0] == "sseek" || w[0] == "slast") && w.size() == 2) {
      size_t o = strtoull(w[1].c_str(), nullptr, 10);
      if (buf.empty()) return "no-file";
      if (o > buf.size()) return "out-of-range";
      vh::MemFS fs;
      fs.Put("/m/f0", buf);
      std::vector<uint32_t> mem(buf.size() / 4 + 2);
      memcpy(mem.data(), buf.data(), buf.size());
      char *base = reinterpret_cast<char *>(mem.data());
      try {
        ScanSplitter sp(&fs, "/m/f0");
        if (w[0] == "sseek") {
          dmlc::MemoryFixedSizeStream ms(base, buf.size());
          ms.Seek(o);
          return "nstep " + std::to_string(sp.Seek(&ms));
        }
        return "last " + std::to_string(sp.Last(base, base + o) - base);
      } catch (const dmlc::Error &) {
        return "err:check";
      }
    }
    if (w[0] == "scan" && w.size() == 2) {
      size_t o = strtoull(w[1].c_str(), nullptr, 10);
      std::vector<uint32_t> mem(buf.size() / 4 + 1);
      memcpy(mem.data(), buf.data(), buf.size());
      char *base = reinterpret_cast<char *>(mem.data());
      try {
        char *p = dmlc::FindNextRecordIOHead(base + o, base + buf.size());
        return "head " + std::to_string(p - base);
      } catch (const dmlc::Error &) {
        return "err:check";
      }
    }
    return "bad-op";
  }

  static size_t aligned_magic_count(const std::string &r) {
    size_t c = 0;
    for (size_t i = 0; i + 4 <= r.size(); i += 4) {
      uint32_t w;
      memcpy(&w, r.data() + i, 4);
      if (w == kMagic) ++c;
    }
    return c;
  }

  void end_case(const Case &c, const std::vector<std::string> &res, std::vector<std::string> *fail) override {
    if (has_raw) return;  // malformed-stream cases: correspondence only (reader must not crash)
    // independent walk of the stream: header offsets
    std::set<size_t> headers;
    bool walk_ok = true;
    {
      size_t o = 0;
      while (o < buf.size()) {
        if (o + 8 > buf.size()) { walk_ok = false; break; }
        uint32_t m, l;
        memcpy(&m, buf.data() + o, 4);
        memcpy(&l, buf.data() + o + 4, 4);
        if (m != kMagic) { walk_ok = false; break; }
        headers.insert(o);
        uint32_t len = l & ((1u << 29) - 1);
        o += 8 + ((len + 3) / 4) * 4;
      }
      if (o != buf.size()) walk_ok = false;
    }
    size_t expect_counter = 0;
    for (auto &r : written) expect_counter += aligned_magic_count(r);
    for (size_t i = 0; i < c.ops.size(); ++i) {
      auto w = vh::split_ws(c.ops[i]);
      const std::string &r = res[i];
      if (w[0] == "bigrt") {
        // total length of the record described by the segments; 2^29 bytes and more must be rejected
        uint64_t len = 0;
        {
          std::string spec = w[1];
          size_t a = 0;
          while (a <= spec.size()) {
            size_t b = spec.find('+', a);
            if (b == std::string::npos) b = spec.size();
            std::string seg = spec.substr(a, b - a);
            len += seg == "m" ? 4 : strtoull(seg.c_str() + 1, nullptr, 10);
            a = b + 1;
          }
        }
        if (len >= (1ull << 29)) {
          if (r != "err:check") fail->push_back("class=none prop=C01 a record of " + std::to_string(len) + " bytes was not rejected: " + r.substr(0, 100));
        } else if (r.compare(0, 3, "ok ") != 0)
          fail->push_back("class=none prop=C01 large record " + w[1] + " does not round-trip: " + r.substr(0, 200));
      } else if (w[0] == "fixedrt") {
        if (r != show(written))
          fail->push_back("class=none prop=C01 round trip through exact-size MemoryFixedSizeStream buffers fails: " +
                          r.substr(0, 200));
      } else if (w[0] == "readall") {
        if (r != show(written))
          fail->push_back("class=none prop=C01 read-back differs from written records: " + r.substr(0, 200));
      } else if (w[0] == "dump") {
        if (buf.size() % 4 != 0) fail->push_back("class=none prop=C01 stream length not a multiple of 4");
        // bytes depend only on the records: each record alone in a fresh stream
        std::string cat;
        for (auto &rec : written) {
          std::string one;
          dmlc::MemoryStringStream ms(&one);
          dmlc::RecordIOWriter wr(&ms);
          wr.WriteRecord(rec);
          cat += one;
        }
        if (cat != buf) fail->push_back("class=none prop=C01 stream bytes depend on more than the records");
        if (!walk_ok) fail->push_back("class=none prop=C01 stream is not a sequence of magic/lrec/padded-payload parts");
      } else if (w[0] == "counter") {
        if (r != "counter " + std::to_string(expect_counter))
          fail->push_back("class=none prop=C01 except_counter != number of aligned magic words: " + r);
      } else if (w[0] == "chunk") {
        // collected below
      } else if (w[0] == "sseek") {
        size_t o = strtoull(w[1].c_str(), nullptr, 10);
        if (o % 4 != 0 || buf.empty() || o > buf.size()) continue;
        size_t want = buf.size();
        for (size_t st : starts)
          if (st >= o) { want = st; break; }
        if (r != "nstep " + std::to_string(want - o))
          fail->push_back("class=none prop=C02 RecordIOSplitter::SeekRecordBegin from " + w[1] + " gives " + r +
                          ", next record start is at +" + std::to_string(want - o));
      } else if (w[0] == "slast") {
        size_t e = strtoull(w[1].c_str(), nullptr, 10);
        if (e % 4 != 0 || e < 8 || buf.empty() || e > buf.size()) continue;
        size_t want = 0;
        for (size_t st : starts)
          if (st > 0 && st + 8 <= e) want = st;
        if (r != "last " + std::to_string(want))
          fail->push_back("class=none prop=C02 RecordIOSplitter::FindLastRecordBegin(0," + w[1] + ") gives " + r +
                          ", last record start inside is " + std::to_string(want));
      } else if (w[0] == "scan") {
        size_t o = strtoull(w[1].c_str(), nullptr, 10);
        if (o % 4 != 0) continue;
        size_t want = buf.size();
        for (size_t s : starts)
          if (s >= o) { want = s; break; }
        if (r != "head " + std::to_string(want))
          fail->push_back("class=none prop=C02 scan from " + w[1] + " gives " + r + ", next record start is " +
                          std::to_string(want));
      }
    }
    // magic only at header offsets
    if (walk_ok) {
      for (size_t o = 0; o + 4 <= buf.size(); o += 4) {
        uint32_t m;
        memcpy(&m, buf.data() + o, 4);
        if (m == kMagic && !headers.count(o))
          fail->push_back("class=none prop=C02 aligned magic word at non-header offset " + std::to_string(o));
      }
    }
    // tiling: for every n, the parts 0..n-1 (if all were requested) concatenate to the written records
    std::map<unsigned, std::map<unsigned, std::string>> parts;
    for (size_t i = 0; i < c.ops.size(); ++i) {
      auto w = vh::split_ws(c.ops[i]);
      if (w[0] == "chunk") parts[strtoul(w[2].c_str(), nullptr, 10)][strtoul(w[1].c_str(), nullptr, 10)] = res[i];
    }
    for (auto &pn : parts) {
      if (pn.second.size() != pn.first) continue;
      std::vector<std::string> all;
      bool bad = false;
      for (auto &pk : pn.second) {
        auto w = vh::split_ws(pk.second);
        if (w.empty() || w[0] != "recs") { bad = true; break; }
        for (size_t j = 1; j + 1 < w.size(); ++j) all.push_back(vh::unhex(w[j]));
      }
      if (bad || all != written)
        fail->push_back("class=none prop=C02 chunk-reader parts for num_parts=" + std::to_string(pn.first) +
                        " do not tile the chunk's records");
    }
  }

  std::string shape(const Case &c, const std::vector<std::string> &) override {
    if (has_raw) return "malformed-stream";
    bool multi = false, tail = false, empty = false, unaligned_magic = false;
    for (auto &r : written) {
      if (aligned_magic_count(r)) multi = true;
      if (r.size() % 4) tail = true;
      if (r.empty()) empty = true;
      for (size_t i = 1; i + 4 <= r.size(); ++i)
        if (i % 4 && memcmp(r.data() + i, &kMagic, 4) == 0) unaligned_magic = true;
    }
    if (written.empty()) return "";
    std::string s = multi ? "multi-part" : "single-part";
    if (unaligned_magic) s += "+unaligned-magic";
    if (tail) s += "+tail";
    if (empty) s += "+empty-record";
    if (written.size() > 1) s += "+seq";
    return s;
  }
};

// ------------------------------------------------------------------------------------------------
// generators
// ------------------------------------------------------------------------------------------------
static std::string word_bytes(uint32_t w) { return std::string(reinterpret_cast<char *>(&w), 4); }

static std::vector<std::string> word_alphabet(bool full) {
  std::vector<std::string> a;
  a.push_back(word_bytes(kMagic));
  a.push_back(word_bytes(0));
  a.push_back(word_bytes(0x61626364));
  a.push_back(word_bytes((kMagic << 8) | (kMagic >> 24)));   // rotations: magic bytes across word borders
  a.push_back(word_bytes((kMagic << 16) | (kMagic >> 16)));
  a.push_back(word_bytes((kMagic << 24) | (kMagic >> 8)));
  a.push_back(word_bytes(kMagic ^ 1u));
  a.push_back(word_bytes(kMagic ^ 0x80000000u));
  if (full) {
    for (int b = 1; b < 31; ++b) a.push_back(word_bytes(kMagic ^ (1u << b)));
    a.push_back(word_bytes(kMagic & 0x00ffffffu));
    a.push_back(word_bytes(kMagic & 0xffffff00u));
    a.push_back(word_bytes((1u << 29) | 4));  // looks like an lrec word
    a.push_back(word_bytes(3u << 29));
  }
  return a;
}

static void add_queries(Case *c, size_t stream_len, bool chunks) {
  c->ops.push_back("dump");
  c->ops.push_back("counter");
  c->ops.push_back("readall");
  c->ops.push_back("fixedrt");
  if (!chunks) return;
  size_t words = stream_len / 4;
  for (size_t o = 0; o <= stream_len; o += 4) c->ops.push_back("scan " + std::to_string(o));
  for (size_t o = 0; o <= stream_len; o += 4) c->ops.push_back("sseek " + std::to_string(o));
  for (size_t o = 8; o <= stream_len; o += 4) c->ops.push_back("slast " + std::to_string(o));
  size_t maxn = words + 2;
  if (maxn > 14) maxn = 14;
  for (size_t n = 1; n <= maxn; ++n)
    for (size_t k = 0; k < n; ++k) c->ops.push_back("chunk " + std::to_string(k) + " " + std::to_string(n));
}

// conservative upper bound of the stream length (to choose scan offsets / part counts)
static size_t enc_len(const std::string &r) {
  size_t parts = 1 + RecHarness::aligned_magic_count(r);
  return 8 * parts + ((r.size() + 3) / 4) * 4;
}

int main(int argc, char **argv) {
  vh::Runner R;
  R.parse(argc, argv);
  RecHarness H;
  R.h = &H;
  for (int i = 1; i < argc; ++i)
    if (std::string(argv[i]) == "--prop" && i + 1 < argc) H.prop = argv[i + 1];
  bool chunks = H.prop != "C01";
  if (R.run_replay()) { R.finish(); return 0; }
  vh::Rng rng(R.seed);
  auto alpha = word_alphabet(R.thorough());
  const char tails[4][4] = {"", "\x0a", "\x0a\x23", "\x0a\x23\xd7"};  // prefixes of the magic bytes
  // (1) exhaustive: single records of <= 3 words from the alphabet x every tail length
  size_t maxw = 3;
  std::vector<std::string> singles;
  {
    std::vector<std::string> cur{""};
    singles.push_back("");
    for (size_t d = 0; d < maxw; ++d) {
      std::vector<std::string> nxt;
      for (auto &p : cur)
        for (auto &w : alpha) nxt.push_back(p + w);
      for (auto &s : nxt) singles.push_back(s);
      cur.swap(nxt);
      if (!R.thorough() && d == 1) {  // quick: 3-word records over the first 4 letters only
        std::vector<std::string> n3;
        for (auto &p : cur)
          for (size_t a = 0; a < 4; ++a) n3.push_back(p + alpha[a]);
        for (auto &s : n3) singles.push_back(s);
        break;
      }
    }
  }
  for (auto &body : singles)
    for (int t = 0; t < 4; ++t) {
      Case c;
      c.kind = "single";
      std::string r = body + std::string(tails[t], t);
      c.ops.push_back("write " + vh::hex(r));
      add_queries(&c, enc_len(r), chunks);
      R.run_case(c);
    }
  // (2) sequences of <= 3 records over a small record set
  {
    std::vector<std::string> small = {"", std::string("\x01", 1), word_bytes(kMagic), word_bytes(kMagic) + word_bytes(kMagic),
                                      word_bytes(0x61626364) + word_bytes(kMagic) + "z", "abcde",
                                      word_bytes(kMagic) + "q"};
    size_t ns = small.size();
    for (size_t a = 0; a < ns; ++a)
      for (size_t b = 0; b <= ns; ++b)
        for (size_t d = 0; d <= ns; ++d) {
          if (b == ns && d != ns) continue;
          Case c;
          c.kind = "seq";
          size_t tot = 0;
          for (size_t idx : {a, b, d}) {
            if (idx == ns) continue;
            c.ops.push_back("write " + vh::hex(small[idx]));
            tot += enc_len(small[idx]);
          }
          add_queries(&c, tot, chunks);
          R.run_case(c);
        }
  }
  // (3) random: longer records and sequences, magic-laden
  size_t nrand = R.thorough() ? 6000 : 600;
  for (size_t it = 0; it < nrand; ++it) {
    Case c;
    c.kind = "random";
    size_t nrec = 1 + rng.below(R.thorough() ? 8 : 5);
    size_t tot = 0;
    for (size_t j = 0; j < nrec; ++j) {
      std::string r;
      size_t nw = rng.below(rng.chance(1, 10) ? 40 : 9);
      for (size_t k = 0; k < nw; ++k) r += alpha[rng.below(rng.chance(1, 2) ? 3 : alpha.size())];
      r += std::string(tails[0], 0);
      size_t t = rng.below(4);
      for (size_t k = 0; k < t; ++k) r.push_back(rng.chance(1, 2) ? tails[3][k] : static_cast<char>(rng.below(256)));
      c.ops.push_back("write " + vh::hex(r));
      tot += enc_len(r);
    }
    add_queries(&c, tot, chunks && tot <= 400);
    R.run_case(c);
  }
  // (4) long records (random bytes with planted magic)
  size_t nlong = R.thorough() ? 40 : 6;
  for (size_t it = 0; it < nlong; ++it) {
    Case c;
    c.kind = "long";
    size_t len = 1000 + rng.below(R.thorough() ? 65536 : 8000);
    std::string r(len, 0);
    for (auto &ch : r) ch = static_cast<char>(rng.below(256));
    for (int k = 0; k < 5; ++k) {
      size_t at = rng.below(len - 4);
      if (rng.chance(2, 3)) at &= ~size_t(3);
      memcpy(&r[at], &kMagic, 4);
    }
    c.ops.push_back("write " + vh::hex(r));
    c.ops.push_back("write " + vh::hex(r.substr(0, rng.below(50))));
    add_queries(&c, 0, false);
    if (chunks) {
      for (unsigned n : {1u, 2u, 3u, 7u})
        for (unsigned k = 0; k < n; ++k) c.ops.push_back("chunk " + std::to_string(k) + " " + std::to_string(n));
    }
    R.run_case(c);
  }
  // (5) malformed streams for the reader (correspondence of the error paths)
  size_t nbad = R.thorough() ? 3000 : 400;
  for (size_t it = 0; it < nbad; ++it) {
    Case c;
    c.kind = "malformed";
    std::string r = alpha[rng.below(alpha.size())] + "xy";
    c.ops.push_back("write " + vh::hex(r));
    std::string junk;
    size_t n = rng.below(14);
    switch (rng.below(4)) {
      case 0: junk = word_bytes(kMagic).substr(0, rng.below(5)); break;
      case 1: junk = word_bytes(kMagic) + word_bytes(static_cast<uint32_t>((rng.below(4) << 29) | rng.below(12))); break;
      default: junk = word_bytes(kMagic) + word_bytes(static_cast<uint32_t>((rng.below(8) << 29) | rng.below(6)));
    }
    for (size_t k = 0; k < n; ++k) junk.push_back(static_cast<char>(rng.below(3) ? 0 : rng.below(256)));
    c.ops.push_back("raw " + vh::hex(junk));
    c.ops.push_back("dump");
    c.ops.push_back("readall");
    R.run_case(c);
  }
  // (5b) large records around power-of-two part sizes (a part = the run between two aligned magic words)
  {
    std::vector<size_t> sizes = {1u << 16, 1u << 20, (1u << 24) + 8};
    if (R.thorough()) { sizes.push_back(1u << 26); sizes.push_back((1u << 28) + 4096); }
    for (size_t n : sizes) {
      Case c;
      c.kind = "big";
      std::string N = std::to_string(n), N3 = std::to_string(n + 3), Nm = std::to_string(n - 4);
      c.ops.push_back("bigrt x" + N);
      c.ops.push_back("bigrt x4+m+r" + N3);
      c.ops.push_back("bigrt m+x" + Nm);
      c.ops.push_back("bigrt r" + N + "+m+m+x" + N + "+m+x5");
      R.run_case(c);
    }
  }
  // (6) size limit
  {
    Case c;
    c.kind = "sizelimit";
    if (R.thorough()) {
      c.ops.push_back("sizecheck " + std::to_string((1u << 29) - 1));
      c.ops.push_back("sizecheck " + std::to_string(1u << 29));
    }
    c.ops.push_back("sizecheck 0");
    R.run_case(c);
  }
  R.finish();
  return 0;
}
