// Correspondence harness + oracles for C11 (parsed rows depend only on the lines) and C12 (parsers
// return exactly the rows a well-formed document describes).
//
// Runs the REAL LibSVMParser / LibFMParser / CSVParser (src/data/*.h, instantiated from the headers; the
// three parameter structs are registered here instead of linking src/data.cc):
//   * ParseBlock through a subclass (the unit tests' CallParseBlock trick) on exact-size heap buffers
//     [block bytes][chosen trailing bytes][NUL], so ASan sees every read outside what the model calls `mem`;
//   * FillData + ParserImpl::Next over a fake InputSplit that hands out one prescribed chunk;
//   * the full pipeline TextParserBase over the real io::LineSplitter on an in-memory file
//     (harness/common/memfs.h), buffer sizes from 1 word (-DDMLC_CORE_VERIF_BUFFER_WORDS=1 + HintChunkSize),
//     nthread 1..max available, num_parts 1..4.
//
// Ops (one per line; state = the document assembled so far):
//   line <hex>                      append bytes to the document                               -> ok
//   row <hex> <expected row>        append a rendered table row; the rest of the line is the row the
//                                   table describes (used by the C12 oracle only)               -> ok
//   block <fmt> <trailhex>          ParseBlock(doc) with the given bytes after the block        -> c o=.. l=.. w=.. q=.. f=.. i=.. v=.. => rows (..)(..) | err:check | ub:oob
//   perline <fmt>                   every line of the document alone in its own NUL-terminated buffer -> rows ...
//   fill <fmt> <nthread> <trailhex> FillData on the document as one chunk, then Next()          -> sl a-b,.. ; blocks [..][..]
//   pipe <fmt> <nthread> <nparts> <bufwords> <chunks>   LineSplitter pipeline; <chunks> = the chunk
//                                   sequence content/trailing,... the splitter delivers (computed by the
//                                   generator with the real splitter, verified again by exec)   -> blocks [..]..
//   tpipe <fmt> <nthread> <nparts> <bufwords> <chunks>  the same pipeline behind the prefetching
//                                   ThreadedParser (what Parser::Create returns), read by a SLOW consumer: after
//                                   every Next() the harness waits until the parsing thread is blocked (queue full
//                                   or input finished) before it looks at Value().  Every block is printed with the
//                                   ownership observation made when Next() returned (tmp_ != NULL and Value()
//                                   points into (*tmp_)[data_ptr_-1])                           -> blocks [..]@1[..]@1
//   cpipe <fmt> <maxthread> <nparts> <bufwords> <chunks>  (VH_WITH_DATACC build only) the document written to a real file and
//                                   read through dmlc::Parser<I,D>::Create(uri?format=..&.., k, nparts, "auto"|name) of
//                                   src/data.cc for every part; <maxthread> = what TextParserBase allows on this
//                                   host, the model takes min(<maxthread>, the factory's thread count, Gen)      -> blocks [..]..
//   <fmt> = svm:<iw>:<mode> | fm:<iw>:<mode> | csv:<iw>:<f32|i32|i64>:<label_column>:<weight_column>:<delimiter byte>
// A row prints as (label weight qid fields indices values), `~` = NULL pointer, `-` = empty list; float
// values as binary32 bit patterns, integer cells as two's complement.
//
// Oracles (end_case), independent of the Lean model:
//   C11  rows(document) under every block / fill / pipe op of the case = concatenation of the rows of
//        each line parsed alone, provided no single line throws and the lines agree on which optional
//        parts they carry; lines that are blank or (libsvm) a comment by the FORMAT definition give no row.
//   C12  the rows every op returns = the table carried by the `row` ops (indices, fields, qids exact;
//        values exact when flagged e<bits>, within tolerance when t<bits>); reference line tokenizer
//        `ref_*` (written from the format definitions) cross-checks the rendering itself.
#include <dmlc/io.h>
#include <dmlc/logging.h>
#include <cmath>
#include <memory>
#include <mutex>

// ThreadedParser / ThreadedIter internals (tmp_, iter_, mutex_, nwait_producer_, produce_end_) are read by the
// `tpipe` op: every header they pull in is included first, then only these two see `private` as `public`
#include <dmlc/base.h>
#include <dmlc/data.h>
#include <atomic>
#include <chrono>
#include <condition_variable>
#include <functional>
#include <queue>
#include <thread>
#include <utility>
#include <algorithm>
#include <limits>
#include <cstring>
#include <vector>
#include <data/row_block.h>
#define private public
#include <dmlc/threadediter.h>
#include <data/parser.h>
#undef private

#include <data/csv_parser.h>
#include <data/libfm_parser.h>
#include <data/libsvm_parser.h>
#include <io/line_split.h>

#include "common/memfs.h"
#include "common/proto.h"

// VH_WITH_DATACC: a second build of this file (no sanitizers) is linked with the real src/data.cc, src/io.cc and the
// local file system and drives Parser<I,D>::Create itself (op `cpipe`): factory registry, URI arguments -> parameters,
// the thread count the factories pass, the ThreadedParser wrapper.  The default build registers the parameter
// structs itself instead (data.cc costs minutes under ASan and would mix instrumented and plain copies of the
// parser templates in one binary).
#ifndef VH_WITH_DATACC
namespace dmlc {
namespace data {
DMLC_REGISTER_PARAMETER(LibSVMParserParam);
DMLC_REGISTER_PARAMETER(LibFMParserParam);
DMLC_REGISTER_PARAMETER(CSVParserParam);
}  // namespace data
}  // namespace dmlc
#endif

// src/io/filesys.cc (needed for FileSystem::ListDirectoryRecursive) refers to the factory of src/io.cc, which
// would pull in every InputSplit flavour; nothing here goes through it
#ifndef VH_WITH_DATACC
namespace dmlc {
namespace io {
FileSystem *FileSystem::GetInstance(const URI &) {
  LOG(FATAL) << "FileSystem::GetInstance is not linked into this harness";
  return nullptr;
}
}  // namespace io
}  // namespace dmlc
#endif

using vh::Case;
typedef std::map<std::string, std::string> Args;

// ------------------------------------------------------------------------------------------------
// canonical rows
// ------------------------------------------------------------------------------------------------
struct RowS {
  bool has_label = false, has_w = false, has_q = false, has_f = false, has_v = false;
  uint64_t label = 0, w = 0, q = 0;
  std::vector<uint64_t> f, idx, v;
  bool operator==(const RowS &o) const {
    return has_label == o.has_label && has_w == o.has_w && has_q == o.has_q && has_f == o.has_f &&
           has_v == o.has_v && label == o.label && w == o.w && q == o.q && f == o.f && idx == o.idx && v == o.v;
  }
};
static std::string show_list(const std::vector<uint64_t> &xs) {
  if (xs.empty()) return "-";
  std::string o;
  for (size_t i = 0; i < xs.size(); ++i) o += (i ? "," : "") + std::to_string(xs[i]);
  return o;
}
static std::string show_row(const RowS &r) {
  return "(" + (r.has_label ? std::to_string(r.label) : "~") + " " + (r.has_w ? std::to_string(r.w) : "~") + " " +
         (r.has_q ? std::to_string(r.q) : "~") + " " + (r.has_f ? show_list(r.f) : "~") + " " + show_list(r.idx) +
         " " + (r.has_v ? show_list(r.v) : "~") + ")";
}
static std::string show_rows(const std::vector<RowS> &rs) {
  std::string o;
  for (auto &r : rs) o += show_row(r);
  return o;
}

enum Status { OK = 0, ERR_CHECK = 1, UB_OOB = 2 };
static const char *status_str(int s) { return s == ERR_CHECK ? "err:check" : "ub:oob"; }

struct Outcome {
  int status = OK;
  std::vector<std::vector<RowS>> blocks;
  std::string text;  // canonical result line
  std::vector<RowS> flat() const {
    std::vector<RowS> a;
    for (auto &b : blocks) a.insert(a.end(), b.begin(), b.end());
    return a;
  }
};

template <typename D> static uint64_t bits_of(D v);
template <> uint64_t bits_of<float>(float v) { uint32_t u; memcpy(&u, &v, 4); return u; }
template <> uint64_t bits_of<int32_t>(int32_t v) { return static_cast<uint32_t>(v); }
template <> uint64_t bits_of<int64_t>(int64_t v) { return static_cast<uint64_t>(v); }

// rows of a container, read as RowBlock::operator[] hands them out; a pointer that would be
// dereferenced outside its array is reported as ub:oob instead of being dereferenced
template <typename I, typename D>
static int read_rows(const dmlc::data::RowBlockContainer<I, D> &c, const dmlc::RowBlock<I, D> &b, std::vector<RowS> *out) {
  size_t n = b.size;
  for (size_t i = 0; i < n; ++i) {
    RowS r;
    size_t lo = c.offset[i], hi = c.offset[i + 1];
    if (b.label != NULL) { if (i >= c.label.size()) return UB_OOB; r.has_label = true; r.label = bits_of<D>(b.label[i]); }
    if (b.weight != NULL) { if (i >= c.weight.size()) return UB_OOB; r.has_w = true; r.w = bits_of<float>(b.weight[i]); }
    if (b.qid != NULL) { if (i >= c.qid.size()) return UB_OOB; r.has_q = true; r.q = b.qid[i]; }
    if (b.field != NULL && lo != hi) {
      if (hi > c.field.size()) return UB_OOB;
      r.has_f = true;
      for (size_t k = lo; k < hi; ++k) r.f.push_back(b.field[k]);
    }
    if (b.value != NULL && lo != hi) {
      if (hi > c.value.size()) return UB_OOB;
      r.has_v = true;
      for (size_t k = lo; k < hi; ++k) r.v.push_back(bits_of<D>(b.value[k]));
    }
    if (hi > c.index.size()) return UB_OOB;
    for (size_t k = lo; k < hi; ++k) r.idx.push_back(b.index[k]);
    out->push_back(r);
  }
  return OK;
}

template <typename T> static std::string show_vec(const std::vector<T> &v) {
  std::vector<uint64_t> x;
  for (auto &e : v) x.push_back(static_cast<uint64_t>(e));
  return show_list(x);
}
template <typename D> static std::string show_vals(const std::vector<D> &v) {
  std::vector<uint64_t> x;
  for (auto &e : v) x.push_back(bits_of<D>(e));
  return show_list(x);
}

// ------------------------------------------------------------------------------------------------
// format specification
// ------------------------------------------------------------------------------------------------
struct Fmt {
  std::string kind, dt = "f32", spec;
  int iw = 32, mode = 0, label_col = -1, weight_col = -1, delim = ',';
  bool ok = false;
  Args args() const {
    Args a;
    if (kind == "csv") {
      a["label_column"] = std::to_string(label_col);
      a["weight_column"] = std::to_string(weight_col);
      a["delimiter"] = std::string(1, static_cast<char>(delim));
    } else {
      a["indexing_mode"] = std::to_string(mode);
    }
    return a;
  }
};
static Fmt parse_fmt(const std::string &s) {
  Fmt f;
  f.spec = s;
  std::vector<std::string> p;
  size_t a = 0;
  while (true) {
    size_t b = s.find(':', a);
    p.push_back(s.substr(a, b == std::string::npos ? b : b - a));
    if (b == std::string::npos) break;
    a = b + 1;
  }
  if (p.size() == 3 && (p[0] == "svm" || p[0] == "fm")) {
    f.kind = p[0]; f.iw = atoi(p[1].c_str()); f.mode = atoi(p[2].c_str()); f.ok = true;
  } else if (p.size() == 6 && p[0] == "csv") {
    f.kind = "csv"; f.iw = atoi(p[1].c_str()); f.dt = p[2]; f.label_col = atoi(p[3].c_str());
    f.weight_col = atoi(p[4].c_str()); f.delim = atoi(p[5].c_str()); f.ok = true;
  }
  return f;
}

// ------------------------------------------------------------------------------------------------
// splits
// ------------------------------------------------------------------------------------------------
struct ChunkRec { std::string body, trail; };

// hands out prescribed chunks, each in its own exact-size buffer [body][trail][NUL]
struct FakeSplit : dmlc::InputSplit {
  std::vector<ChunkRec> chunks;
  size_t next = 0;
  std::unique_ptr<char[]> buf;
  const char *head = nullptr;
  size_t GetTotalSize() override { return 0; }
  void BeforeFirst() override { next = 0; }
  bool NextRecord(Blob *) override { return false; }
  void ResetPartition(unsigned, unsigned) override {}
  bool NextChunk(Blob *out) override {
    if (next >= chunks.size()) return false;
    const ChunkRec &c = chunks[next++];
    size_t n = c.body.size() + c.trail.size() + 1;
    buf.reset(new char[n]);
    memcpy(buf.get(), c.body.data(), c.body.size());
    memcpy(buf.get() + c.body.size(), c.trail.data(), c.trail.size());
    buf[n - 1] = 0;
    head = buf.get();
    out->dptr = buf.get();
    out->size = c.body.size();
    return true;
  }
};

// delegates to a real split and records every chunk with the bytes that follow it up to the first NUL
struct RecordingSplit : dmlc::InputSplit {
  std::unique_ptr<dmlc::InputSplit> base;
  std::vector<ChunkRec> *log;
  const char *head = nullptr;
  RecordingSplit(dmlc::InputSplit *b, std::vector<ChunkRec> *l) : base(b), log(l) {}
  size_t GetTotalSize() override { return base->GetTotalSize(); }
  void BeforeFirst() override { base->BeforeFirst(); }
  bool NextRecord(Blob *o) override { return base->NextRecord(o); }
  void ResetPartition(unsigned a, unsigned b) override { base->ResetPartition(a, b); }
  bool NextChunk(Blob *out) override {
    if (!base->NextChunk(out)) return false;
    const char *p = static_cast<const char *>(out->dptr);
    ChunkRec c;
    c.body.assign(p, out->size);
    const char *q = p + out->size;
    while (*q) ++q;  // the chunk buffer of InputSplitBase always ends in a zero word
    c.trail.assign(p + out->size, q - (p + out->size));
    log->push_back(c);
    head = p;
    return true;
  }
};

static vh::MemFS g_fs;

static dmlc::InputSplit *make_line_split(const std::string &doc, unsigned part, unsigned nparts, size_t bufwords) {
  g_fs.Put("/m/doc", doc);
  dmlc::io::LineSplitter *s = new dmlc::io::LineSplitter(&g_fs, "/m/doc", part, nparts);
  s->HintChunkSize(bufwords * sizeof(uint32_t));
  return s;
}

// the chunk sequence the splitter alone delivers (all parts in order)
static bool observe_chunks(const std::string &doc, unsigned nparts, size_t bufwords, std::vector<ChunkRec> *out) {
  try {
    for (unsigned k = 0; k < nparts; ++k) {
      RecordingSplit rs(make_line_split(doc, k, nparts, bufwords), out);
      dmlc::InputSplit::Blob b;
      while (rs.NextChunk(&b)) {}
    }
  } catch (const dmlc::Error &) {
    return false;
  }
  return true;
}
static std::string show_chunks(const std::vector<ChunkRec> &cs) {
  if (cs.empty()) return ".";
  std::string o;
  for (size_t i = 0; i < cs.size(); ++i) o += (i ? "," : "") + vh::hex(cs[i].body) + "/" + vh::hex(cs[i].trail);
  return o;
}

// ------------------------------------------------------------------------------------------------
// the real parsers behind one interface
// ------------------------------------------------------------------------------------------------
template <class Base, typename I, typename D>
struct Probe : Base {
  template <typename... A> explicit Probe(A &&...a) : Base(std::forward<A>(a)...) {}
  const char *const *head = nullptr;  // where the current chunk starts (set by the split wrappers)
  std::mutex mu;
  std::vector<std::pair<long, long>> slices;
  void ParseBlock(const char *b, const char *e, dmlc::data::RowBlockContainer<I, D> *out) override {
    if (head != nullptr) {
      std::lock_guard<std::mutex> lk(mu);
      size_t tid = out - this->data_.data();
      if (slices.size() <= tid) slices.resize(tid + 1);
      slices[tid] = std::make_pair(static_cast<long>(b - *head), static_cast<long>(e - *head));
    }
    Base::ParseBlock(b, e, out);
  }
  void Block(const char *b, const char *e, dmlc::data::RowBlockContainer<I, D> *out) { Base::ParseBlock(b, e, out); }
  // the container ParserImpl::Next has just taken the current block from
  const dmlc::data::RowBlockContainer<I, D> &Current() const { return this->data_[this->data_ptr_ - 1]; }
};

template <class P, typename I, typename D>
static Outcome do_block(const Fmt &f, const std::string &body, const std::string &trail, bool with_container) {
  Outcome o;
  size_t n = body.size() + trail.size() + 1;
  std::unique_ptr<char[]> buf(new char[n]);
  memcpy(buf.get(), body.data(), body.size());
  memcpy(buf.get() + body.size(), trail.data(), trail.size());
  buf[n - 1] = 0;
  dmlc::data::RowBlockContainer<I, D> c;
  try {
    Probe<P, I, D> p(static_cast<dmlc::InputSplit *>(nullptr), f.args(), 1);
    p.Block(buf.get(), buf.get() + body.size(), &c);
  } catch (const dmlc::Error &) {
    o.status = ERR_CHECK;
    o.text = status_str(o.status);
    return o;
  }
  std::string pre;
  if (with_container)
    pre = "c o=" + show_vec(c.offset) + " l=" + show_vals<D>(c.label) + " w=" + show_vals<float>(c.weight) + " q=" +
          show_vec(c.qid) + " f=" + show_vec(c.field) + " i=" + show_vec(c.index) + " v=" + show_vals<D>(c.value) + " => ";
  std::vector<RowS> rows;
  try {
    dmlc::RowBlock<I, D> b = c.GetBlock();
    o.status = read_rows<I, D>(c, b, &rows);
  } catch (const dmlc::Error &) {
    o.status = ERR_CHECK;
  }
  if (o.status == OK) {
    o.blocks.push_back(rows);
    o.text = pre + "rows " + show_rows(rows);
  } else {
    o.text = pre + status_str(o.status);
  }
  return o;
}

// drive Next()/Value() of a parser built over `split`; slices of the first FillData are reported if wanted
template <class P, typename I, typename D, class Split>
static Outcome do_next(const Fmt &f, Split *split, int nthread, bool want_slices) {
  Outcome o;
  std::string sl;
  try {
    Probe<P, I, D> p(static_cast<dmlc::InputSplit *>(split), f.args(), nthread);  // owns split
    p.head = &split->head;
    bool first = true;
    while (true) {
      bool more;
      try {
        more = p.Next();
      } catch (const dmlc::Error &) {
        if (first && want_slices) {
          for (size_t i = 0; i < p.slices.size(); ++i)
            sl += (i ? "," : "") + std::to_string(p.slices[i].first) + "-" + std::to_string(p.slices[i].second);
        }
        o.status = ERR_CHECK;
        break;
      }
      if (first && want_slices) {
        for (size_t i = 0; i < p.slices.size(); ++i)
          sl += (i ? "," : "") + std::to_string(p.slices[i].first) + "-" + std::to_string(p.slices[i].second);
      }
      first = false;
      if (!more) break;
      const dmlc::RowBlock<I, D> &b = p.Value();
      const dmlc::data::RowBlockContainer<I, D> &c = p.Current();
      std::vector<RowS> rows;
      int st = read_rows<I, D>(c, b, &rows);
      if (st != OK) { o.status = st; break; }
      o.blocks.push_back(rows);
    }
  } catch (const dmlc::Error &) {
    o.status = ERR_CHECK;
  }
  std::string pre = want_slices ? "sl " + sl + " ; " : "";
  if (o.status != OK) {
    o.blocks.clear();
    o.text = pre + status_str(o.status);
  } else {
    o.text = pre + "blocks ";
    for (auto &b : o.blocks) o.text += "[" + show_rows(b) + "]";
  }
  return o;
}

// rows of a block read through the block alone (what a consumer of Value() does); ASan watches the bounds
template <typename I, typename D>
static void read_rows_block(const dmlc::RowBlock<I, D> &b, std::vector<RowS> *out) {
  for (size_t i = 0; i < b.size; ++i) {
    RowS r;
    size_t lo = b.offset[i], hi = b.offset[i + 1];
    if (b.label != NULL) { r.has_label = true; r.label = bits_of<D>(b.label[i]); }
    if (b.weight != NULL) { r.has_w = true; r.w = bits_of<float>(b.weight[i]); }
    if (b.qid != NULL) { r.has_q = true; r.q = b.qid[i]; }
    if (b.field != NULL && lo != hi) { r.has_f = true; for (size_t k = lo; k < hi; ++k) r.f.push_back(b.field[k]); }
    if (b.value != NULL && lo != hi) { r.has_v = true; for (size_t k = lo; k < hi; ++k) r.v.push_back(bits_of<D>(b.value[k])); }
    for (size_t k = lo; k < hi; ++k) r.idx.push_back(b.index[k]);
    out->push_back(r);
  }
}

// wait until the producer thread of a ThreadedIter cannot make progress on its own: it waits for a free cell /
// a request, or it has reported the end of the input (or failed)
template <class It>
static void quiesce(It &it) {
  for (int i = 0; i < 20000; ++i) {  // at most about one second
    {
      std::lock_guard<std::mutex> lk(it.mutex_);
      if (it.nwait_producer_ != 0 || it.produce_end_.load()) return;
    }
    std::this_thread::sleep_for(std::chrono::microseconds(50));
  }
}

// drive a ThreadedParser (prefetching wrapper) over a parser built over `split`, as a slow consumer
template <class P, typename I, typename D, class Split>
static Outcome do_tnext(const Fmt &f, Split *split, int nthread, std::string *flags) {
  Outcome o;
  try {
    dmlc::data::ThreadedParser<I, D> tp(new Probe<P, I, D>(static_cast<dmlc::InputSplit *>(split), f.args(), nthread));
    while (true) {
      bool more;
      try {
        more = tp.Next();
      } catch (const dmlc::Error &) {
        o.status = ERR_CHECK;
        break;
      }
      if (!more) break;
      const dmlc::RowBlock<I, D> &b = tp.Value();
      bool own = tp.tmp_ != NULL && tp.data_ptr_ >= 1 && static_cast<size_t>(tp.data_ptr_) <= tp.tmp_->size() &&
                 b.offset == dmlc::BeginPtr((*tp.tmp_)[tp.data_ptr_ - 1].offset);
      flags->push_back(own ? '1' : '0');
      quiesce(tp.iter_);
      std::vector<RowS> rows;
      read_rows_block<I, D>(b, &rows);
      o.blocks.push_back(rows);
    }
  } catch (const dmlc::Error &) {
    o.status = ERR_CHECK;
  }
  return o;
}

// dispatch on the format
#define DISPATCH(CALL)                                                                                     \
  do {                                                                                                     \
    using namespace dmlc::data;                                                                            \
    if (f.kind == "svm") {                                                                                 \
      if (f.iw == 32) { typedef uint32_t I; typedef float D; typedef LibSVMParser<I> P; CALL; }            \
      else { typedef uint64_t I; typedef float D; typedef LibSVMParser<I> P; CALL; }                       \
    } else if (f.kind == "fm") {                                                                           \
      if (f.iw == 32) { typedef uint32_t I; typedef float D; typedef LibFMParser<I> P; CALL; }             \
      else { typedef uint64_t I; typedef float D; typedef LibFMParser<I> P; CALL; }                        \
    } else if (f.dt == "f32") {                                                                            \
      if (f.iw == 32) { typedef uint32_t I; typedef float D; typedef CSVParser<I, D> P; CALL; }            \
      else { typedef uint64_t I; typedef float D; typedef CSVParser<I, D> P; CALL; }                       \
    } else if (f.dt == "i32") {                                                                            \
      if (f.iw == 32) { typedef uint32_t I; typedef int32_t D; typedef CSVParser<I, D> P; CALL; }          \
      else { typedef uint64_t I; typedef int32_t D; typedef CSVParser<I, D> P; CALL; }                     \
    } else {                                                                                               \
      if (f.iw == 32) { typedef uint32_t I; typedef int64_t D; typedef CSVParser<I, D> P; CALL; }          \
      else { typedef uint64_t I; typedef int64_t D; typedef CSVParser<I, D> P; CALL; }                     \
    }                                                                                                      \
  } while (0)

static Outcome run_block(const Fmt &f, const std::string &body, const std::string &trail, bool with_container) {
  Outcome o;
  DISPATCH((o = do_block<P, I, D>(f, body, trail, with_container)));
  return o;
}
static Outcome run_fill(const Fmt &f, const std::string &body, const std::string &trail, int nthread) {
  Outcome o;
  FakeSplit *s = new FakeSplit();
  ChunkRec c;
  c.body = body;
  c.trail = trail;
  s->chunks.push_back(c);
  DISPATCH((o = do_next<P, I, D, FakeSplit>(f, s, nthread, true)));
  return o;
}
static Outcome run_pipe(const Fmt &f, const std::string &doc, int nthread, unsigned nparts, size_t bufwords,
                        std::vector<ChunkRec> *seen) {
  Outcome all;
  for (unsigned k = 0; k < nparts; ++k) {
    Outcome o;
    RecordingSplit *s;
    try {
      s = new RecordingSplit(make_line_split(doc, k, nparts, bufwords), seen);
    } catch (const dmlc::Error &) {
      all.status = ERR_CHECK;
      break;
    }
    DISPATCH((o = do_next<P, I, D, RecordingSplit>(f, s, nthread, false)));
    if (o.status != OK) { all.status = o.status; break; }
    all.blocks.insert(all.blocks.end(), o.blocks.begin(), o.blocks.end());
  }
  if (all.status != OK) {
    all.blocks.clear();
    all.text = status_str(all.status);
  } else {
    all.text = "blocks ";
    for (auto &b : all.blocks) all.text += "[" + show_rows(b) + "]";
  }
  return all;
}

static Outcome run_tpipe(const Fmt &f, const std::string &doc, int nthread, unsigned nparts, size_t bufwords,
                         std::vector<ChunkRec> *seen) {
  Outcome all;
  std::string flags;
  for (unsigned k = 0; k < nparts; ++k) {
    Outcome o;
    RecordingSplit *s;
    try {
      s = new RecordingSplit(make_line_split(doc, k, nparts, bufwords), seen);
    } catch (const dmlc::Error &) {
      all.status = ERR_CHECK;
      break;
    }
    DISPATCH((o = do_tnext<P, I, D, RecordingSplit>(f, s, nthread, &flags)));
    if (o.status != OK) { all.status = o.status; break; }
    all.blocks.insert(all.blocks.end(), o.blocks.begin(), o.blocks.end());
  }
  if (all.status != OK) {
    all.blocks.clear();
    all.text = status_str(all.status);
  } else {
    all.text = "blocks ";
    for (size_t i = 0; i < all.blocks.size(); ++i)
      all.text += "[" + show_rows(all.blocks[i]) + "]@" + std::string(1, i < flags.size() ? flags[i] : '?');
  }
  return all;
}

#ifdef VH_WITH_DATACC
static std::string g_real_dir;
template <typename I, typename D>
static Outcome do_create(const Fmt &f, const std::string &uri, unsigned k, unsigned nparts, const char *type) {
  Outcome o;
  try {
    std::unique_ptr<dmlc::Parser<I, D>> p(dmlc::Parser<I, D>::Create(uri.c_str(), k, nparts, type));
    while (true) {
      bool more;
      try {
        more = p->Next();
      } catch (const dmlc::Error &) {
        o.status = ERR_CHECK;
        break;
      }
      if (!more) break;
      std::vector<RowS> rows;
      read_rows_block<I, D>(p->Value(), &rows);
      o.blocks.push_back(rows);
    }
  } catch (const dmlc::Error &) {
    o.status = ERR_CHECK;
  }
  return o;
}
static Outcome run_cpipe(const Fmt &f, const std::string &doc, unsigned nparts, bool by_name) {
  Outcome all;
  std::string path = g_real_dir + "/doc.txt";
  {
    FILE *fp = fopen(path.c_str(), "wb");
    fwrite(doc.data(), 1, doc.size(), fp);
    fclose(fp);
  }
  std::string uri = path, type = "auto";
  if (f.kind == "svm") uri += "?format=libsvm&indexing_mode=" + std::to_string(f.mode);
  else if (f.kind == "fm") uri += "?format=libfm&indexing_mode=" + std::to_string(f.mode);
  else uri += "?format=csv&label_column=" + std::to_string(f.label_col) + "&weight_column=" + std::to_string(f.weight_col) +
              "&delimiter=" + std::string(1, static_cast<char>(f.delim));
  if (by_name) type = f.kind == "svm" ? "libsvm" : f.kind == "fm" ? "libfm" : "csv";
  for (unsigned k = 0; k < nparts; ++k) {
    Outcome o;
    if (f.kind != "csv" || f.dt == "f32") {
      if (f.iw == 32) o = do_create<uint32_t, float>(f, uri, k, nparts, type.c_str());
      else o = do_create<uint64_t, float>(f, uri, k, nparts, type.c_str());
    } else if (f.dt == "i32") {
      if (f.iw == 32) o = do_create<uint32_t, int32_t>(f, uri, k, nparts, type.c_str());
      else o = do_create<uint64_t, int32_t>(f, uri, k, nparts, type.c_str());
    } else {
      if (f.iw == 32) o = do_create<uint32_t, int64_t>(f, uri, k, nparts, type.c_str());
      else o = do_create<uint64_t, int64_t>(f, uri, k, nparts, type.c_str());
    }
    if (o.status != OK) { all.status = o.status; break; }
    all.blocks.insert(all.blocks.end(), o.blocks.begin(), o.blocks.end());
  }
  if (all.status != OK) {
    all.blocks.clear();
    all.text = status_str(all.status);
  } else {
    all.text = "blocks ";
    for (auto &b : all.blocks) all.text += "[" + show_rows(b) + "]";
  }
  return all;
}
#endif

static bool is_eol(char c) { return c == '\n' || c == '\r'; }
static std::vector<std::string> eol_split(const std::string &doc) {
  std::vector<std::string> v;
  std::string cur;
  for (char c : doc) {
    if (is_eol(c)) { v.push_back(cur); cur.clear(); } else cur.push_back(c);
  }
  v.push_back(cur);
  return v;
}

// ------------------------------------------------------------------------------------------------
// format definitions (reference, for the oracles): what is a blank / comment line
// ------------------------------------------------------------------------------------------------
static bool all_blank(const std::string &l) {
  for (char c : l) if (c != ' ' && c != '\t') return false;
  return true;
}
// libsvm / libfm: a line of blanks; libsvm: blanks then '#...'.  csv: the empty line only.
static bool yields_no_row_by_format(const Fmt &f, const std::string &l) {
  if (f.kind == "csv") return l.empty();
  if (all_blank(l)) return true;
  if (f.kind == "svm") {
    size_t i = 0;
    while (i < l.size() && (l[i] == ' ' || l[i] == '\t')) ++i;
    return i < l.size() && l[i] == '#';
  }
  return false;
}

// ------------------------------------------------------------------------------------------------
// class matchers for the findings (decidable predicates on the document, as narrow as the defects)
// ------------------------------------------------------------------------------------------------
static bool is_digitchar(char c) { return (c >= '0' && c <= '9') || c == '+' || c == '-' || c == '.' || c == 'e' || c == 'E'; }
// some ':' (not part of "qid:") is followed by no number character up to the end of its line
static bool has_dangling_colon(const std::string &doc) {
  for (auto &l : eol_split(doc)) {
    for (size_t i = 0; i < l.size(); ++i) {
      if (l[i] != ':') continue;
      if (i >= 3 && l.compare(i - 3, 4, "qid:") == 0) continue;
      bool any = false;
      for (size_t k = i + 1; k < l.size(); ++k) if (is_digitchar(l[k])) any = true;
      if (!any) return true;
    }
  }
  return false;
}
static bool has_dangling_qid(const std::string &doc) {
  for (auto &l : eol_split(doc)) {
    for (size_t i = l.find("qid:"); i != std::string::npos; i = l.find("qid:", i + 1))
      if (i + 4 >= l.size() || !is_digitchar(l[i + 4])) return true;
  }
  return false;
}
// a tab (not only spaces) between label:weight and "qid:"
static bool has_tab_before_qid(const std::string &doc) {
  for (size_t i = doc.find("qid:"); i != std::string::npos; i = doc.find("qid:", i + 1)) {
    size_t k = i;
    bool tab = false;
    while (k > 0 && (doc[k - 1] == ' ' || doc[k - 1] == '\t')) { if (doc[k - 1] == '\t') tab = true; --k; }
    if (tab) return true;
  }
  return false;
}
// a comment line (blanks, '#') that is not the first line of the document
static bool has_later_comment_line(const std::string &doc) {
  auto ls = eol_split(doc);
  for (size_t k = 1; k < ls.size(); ++k) {
    size_t i = 0;
    while (i < ls[k].size() && (ls[k][i] == ' ' || ls[k][i] == '\t')) ++i;
    if (i < ls[k].size() && ls[k][i] == '#') return true;
  }
  return false;
}
// a csv line whose last cell holds white space only
static bool has_blank_last_cell(const std::string &doc, char delim) {
  for (auto &l : eol_split(doc)) {
    if (l.empty()) continue;
    size_t i = l.size();
    bool ws = true;
    while (i > 0 && l[i - 1] != delim) { if (!isspace(static_cast<unsigned char>(l[i - 1]))) ws = false; --i; }
    if (ws && i < l.size()) return true;
  }
  return false;
}
// C12-F3: the delimiter is a space or a TAB and some cell that is FOLLOWED BY THE DELIMITER holds nothing but white
// space (two adjacent delimiters, a line that starts with the delimiter, a cell of other white space): strtof / strtoll
// skip the delimiter as leading white space and convert the next cell, the empty cell is not numbered
static bool has_blank_cell_before_ws_delim(const std::string &doc, char delim) {
  if (delim != ' ' && delim != '\t') return false;
  for (auto &l : eol_split(doc)) {
    size_t i = 0;
    while (i < l.size()) {                       // i = start of a cell
      size_t k = i;
      while (k < l.size() && l[k] != delim && isspace(static_cast<unsigned char>(l[k]))) ++k;
      if (k < l.size() && l[k] == delim) return true;
      while (k < l.size() && l[k] != delim) ++k;
      i = k + 1;
    }
  }
  return false;
}
// an integer cell spelled with a leading zero (octal / hex prefix under strtoll base 0)
static bool has_leading_zero_cell(const std::string &doc) {
  for (size_t i = 0; i + 1 < doc.size(); ++i)
    if (doc[i] == '0' && (isdigit(static_cast<unsigned char>(doc[i + 1])) || doc[i + 1] == 'x' || doc[i + 1] == 'X') &&
        (i == 0 || !isdigit(static_cast<unsigned char>(doc[i - 1]))))
      return true;
  return false;
}
static std::string classify(const Fmt &f, const std::string &doc) {
  if (f.kind == "csv") {
    if (f.dt != "f32" && has_leading_zero_cell(doc)) return "csv-int-base0";
    if (doc.size() >= 3 && doc.compare(doc.size() - 3, 3, "\xEF\xBB\xBF") == 0) return "csv-bom-last-bytes-of-block";
    if (has_blank_cell_before_ws_delim(doc, static_cast<char>(f.delim))) return "csv-blank-delim-empty-cell";
    if (has_blank_last_cell(doc, static_cast<char>(f.delim))) return "csv-blank-cell-reads-next-line";
    return "none";
  }
  if (has_dangling_colon(doc)) return "dangling-colon-reads-next-line";
  if (f.kind == "svm" && has_dangling_qid(doc)) return "dangling-qid-reads-next-line";
  if (f.kind == "svm" && has_later_comment_line(doc)) return "comment-line-not-first-in-block";
  if (f.kind == "svm" && has_tab_before_qid(doc)) return "tab-before-qid";
  return "none";
}

// ------------------------------------------------------------------------------------------------
// expected rows of the C12 `row` ops:  <label> <weight|~> <qid|~> <fields|~> <indices|-> <values|~>
// numbers: label / weight / values as e<bits> (exact) or t<bits> (tolerance); others plain
// ------------------------------------------------------------------------------------------------
struct Num { bool exact; uint64_t bits; };
struct ExpRow {
  bool has_label = false, has_w = false, has_q = false, has_f = false, has_v = false;
  Num label{true, 0}, w{true, 0};
  uint64_t q = 0;
  std::vector<uint64_t> f, idx;
  std::vector<Num> v;
};
static Num parse_num(const std::string &s) {
  Num n;
  n.exact = s[0] == 'e';
  n.bits = strtoull(s.c_str() + 1, nullptr, 10);
  return n;
}
static std::vector<std::string> split_commas(const std::string &s) {
  std::vector<std::string> v;
  if (s == "-" || s == "~") return v;
  size_t a = 0;
  while (true) {
    size_t b = s.find(',', a);
    v.push_back(s.substr(a, b == std::string::npos ? b : b - a));
    if (b == std::string::npos) break;
    a = b + 1;
  }
  return v;
}
static bool parse_exp(const std::vector<std::string> &w, ExpRow *e) {
  if (w.size() != 8) return false;
  if (w[2] != "~") { e->has_label = true; e->label = parse_num(w[2]); }
  if (w[3] != "~") { e->has_w = true; e->w = parse_num(w[3]); }
  if (w[4] != "~") { e->has_q = true; e->q = strtoull(w[4].c_str(), nullptr, 10); }
  if (w[5] != "~") { e->has_f = true; for (auto &s : split_commas(w[5])) e->f.push_back(strtoull(s.c_str(), nullptr, 10)); }
  for (auto &s : split_commas(w[6])) e->idx.push_back(strtoull(s.c_str(), nullptr, 10));
  if (w[7] != "~") { e->has_v = true; for (auto &s : split_commas(w[7])) e->v.push_back(parse_num(s)); }
  return true;
}
static bool num_matches(const Num &n, uint64_t got, bool is_float) {
  if (n.exact || !is_float) return n.bits == got;
  float a, b;
  uint32_t x = static_cast<uint32_t>(n.bits), y = static_cast<uint32_t>(got);
  memcpy(&a, &x, 4);
  memcpy(&b, &y, 4);
  if (a == b) return true;
  if (std::isnan(a) || std::isnan(b) || std::isinf(a) || std::isinf(b)) return false;
  return std::fabs(a - b) <= 4e-7f * std::max(std::fabs(a), std::fabs(b)) + 1e-44f;
}
static std::string row_mismatch(const ExpRow &e, const RowS &r, bool is_float) {
  if (e.has_label != r.has_label) return "label presence";
  if (e.has_label && !num_matches(e.label, r.label, is_float)) return "label value";
  if (e.has_w != r.has_w) return "weight presence";
  if (e.has_w && !num_matches(e.w, r.w, true)) return "weight value";
  if (e.has_q != r.has_q) return "qid presence";
  if (e.has_q && e.q != r.q) return "qid value";
  if (e.idx != r.idx) return "indices";
  if (e.has_f != r.has_f || e.f != r.f) return "fields";
  if (e.has_v != r.has_v) return "value presence";
  if (e.v.size() != r.v.size()) return "number of values";
  for (size_t i = 0; i < e.v.size(); ++i)
    if (!num_matches(e.v[i], r.v[i], is_float)) return "value " + std::to_string(i);
  return "";
}

// ------------------------------------------------------------------------------------------------
// the harness
// ------------------------------------------------------------------------------------------------
struct ParseHarness : vh::Harness {
  std::string prop;
  std::string doc;
  std::vector<Outcome> outs;       // one per op of the case (status OK + no blocks for line/row ops)
  std::vector<std::vector<int>> perline_counts;  // for perline ops: number of rows per line, by op index
  std::map<std::string, uint64_t> *extra = nullptr;

  void begin_case(const Case &) override {
    doc.clear();
    outs.clear();
    perline_counts.clear();
  }

  std::string exec(const std::vector<std::string> &w) override {
    Outcome o;
    std::vector<int> counts;
    if (w.empty()) { o.text = "bad-op"; }
    else if ((w[0] == "line" && w.size() == 2) || (w[0] == "row" && w.size() >= 2)) {
      doc += vh::unhex(w[1]);
      o.text = "ok";
    } else if (w[0] == "block" && w.size() == 3) {
      Fmt f = parse_fmt(w[1]);
      if (!f.ok) o.text = "bad-op"; else o = run_block(f, doc, vh::unhex(w[2]), true);
    } else if (w[0] == "perline" && w.size() == 2) {
      Fmt f = parse_fmt(w[1]);
      if (!f.ok) o.text = "bad-op";
      else {
        std::vector<RowS> all;
        for (auto &l : eol_split(doc)) {
          Outcome one = run_block(f, l, "", false);
          if (one.status != OK) { o.status = one.status; break; }
          counts.push_back(static_cast<int>(one.blocks[0].size()));
          all.insert(all.end(), one.blocks[0].begin(), one.blocks[0].end());
        }
        if (o.status == OK) { o.blocks.push_back(all); o.text = "rows " + show_rows(all); }
        else o.text = status_str(o.status);
      }
    } else if (w[0] == "fill" && w.size() == 4) {
      Fmt f = parse_fmt(w[1]);
      if (!f.ok) o.text = "bad-op"; else o = run_fill(f, doc, vh::unhex(w[3]), atoi(w[2].c_str()));
    } else if (w[0] == "pipe" && w.size() == 6) {
      Fmt f = parse_fmt(w[1]);
      if (!f.ok) o.text = "bad-op";
      else {
        std::vector<ChunkRec> seen;
        o = run_pipe(f, doc, atoi(w[2].c_str()), static_cast<unsigned>(atoi(w[3].c_str())),
                     static_cast<size_t>(atoi(w[4].c_str())), &seen);
        if (o.status == OK && show_chunks(seen) != w[5]) o.text = "chunks-differ " + show_chunks(seen);
      }
#ifdef VH_WITH_DATACC
    } else if (w[0] == "cpipe" && w.size() == 6) {
      Fmt f = parse_fmt(w[1]);
      if (!f.ok) o.text = "bad-op";
      else {
        std::vector<ChunkRec> seen;
        unsigned np = static_cast<unsigned>(atoi(w[3].c_str()));
        o = run_cpipe(f, doc, np, (outs.size() % 2) == 1);
        if (o.status == OK && (!observe_chunks(doc, np, static_cast<size_t>(atoi(w[4].c_str())), &seen) || show_chunks(seen) != w[5]))
          o.text = "chunks-differ " + show_chunks(seen);
        if (extra) ++(*extra)["cpipe_ops"];
      }
#endif
    } else if (w[0] == "tpipe" && w.size() == 6) {
      Fmt f = parse_fmt(w[1]);
      if (!f.ok) o.text = "bad-op";
      else {
        std::vector<ChunkRec> seen;
        o = run_tpipe(f, doc, atoi(w[2].c_str()), static_cast<unsigned>(atoi(w[3].c_str())),
                      static_cast<size_t>(atoi(w[4].c_str())), &seen);
        if (o.status == OK && show_chunks(seen) != w[5]) o.text = "chunks-differ " + show_chunks(seen);
        if (extra) ++(*extra)["tpipe_ops"];
      }
    } else {
      o.text = "bad-op";
    }
    outs.push_back(o);
    perline_counts.push_back(counts);
    return o.text;
  }

  static bool agree(const std::vector<RowS> &rows) {
    int lab = -1, w = -1, q = -1, v = -1;
    for (auto &r : rows) {
      if (lab < 0) lab = r.has_label; else if (lab != static_cast<int>(r.has_label)) return false;
      if (w < 0) w = r.has_w; else if (w != static_cast<int>(r.has_w)) return false;
      if (q < 0) q = r.has_q; else if (q != static_cast<int>(r.has_q)) return false;
      if (!r.idx.empty()) { if (v < 0) v = r.has_v; else if (v != static_cast<int>(r.has_v)) return false; }
    }
    return true;
  }

  void end_case(const Case &c, const std::vector<std::string> &, std::vector<std::string> *fail) override {
    // group the ops by format
    std::map<std::string, std::vector<size_t>> by_fmt;
    std::vector<ExpRow> table;
    bool has_table = false, table_ok = true;
    for (size_t i = 0; i < c.ops.size(); ++i) {
      auto w = vh::split_ws(c.ops[i]);
      if (w.empty()) continue;
      if (w[0] == "row") {
        has_table = true;
        ExpRow e;
        if (!parse_exp(w, &e)) table_ok = false;
        table.push_back(e);
      } else if (w[0] == "block" || w[0] == "perline" || w[0] == "fill" || w[0] == "pipe" || w[0] == "tpipe" || w[0] == "cpipe") {
        by_fmt[w[1]].push_back(i);
      }
    }
    for (auto &kv : by_fmt) {
      Fmt f = parse_fmt(kv.first);
      if (!f.ok) continue;
      // ---------------- C11 ----------------
      const Outcome *ref = nullptr;
      size_t ref_i = 0;
      for (size_t i : kv.second)
        if (vh::split_ws(c.ops[i])[0] == "perline") { ref = &outs[i]; ref_i = i; }
      if (ref != nullptr && ref->status == OK) {
        // blank / comment lines give no rows
        auto lines = eol_split(doc);
        const std::vector<int> &cnt = perline_counts[ref_i];
        for (size_t k = 0; k < lines.size() && k < cnt.size(); ++k)
          if (yields_no_row_by_format(f, lines[k]) && cnt[k] != 0)
            fail->push_back("class=" + classify(f, lines[k]) + " prop=C11 " + kv.first + ": blank/comment line " +
                            std::to_string(k) + " (" + vh::hex(lines[k]) + ") parsed alone gives " + std::to_string(cnt[k]) + " rows");
        std::vector<RowS> want = ref->flat();
        if (agree(want)) {
          if (extra) ++(*extra)["c11_compared_documents"];
          for (size_t i : kv.second) {
            if (i == ref_i) continue;
            const Outcome &o = outs[i];
            if (o.text.compare(0, 13, "chunks-differ") == 0) continue;  // stale chunk list of a shrunk replay
            std::string opname = c.ops[i].substr(0, c.ops[i].find(' ', c.ops[i].find(' ') + 1 + kv.first.size()));
            if (o.status != OK) {
              fail->push_back("class=" + classify(f, doc) + " prop=C11 `" + opname + "` fails (" + status_str(o.status) +
                              ") although every line parses alone and the lines agree on their optional parts");
            } else if (!(o.flat() == want)) {
              fail->push_back("class=" + classify(f, doc) + " prop=C11 `" + opname + "` rows differ from the rows of the lines parsed alone: got " +
                              show_rows(o.flat()).substr(0, 300) + " want " + show_rows(want).substr(0, 300) + " doc=" + vh::hex(doc).substr(0, 400));
            }
          }
        } else if (extra) {
          ++(*extra)["c11_skipped_mixed_presence"];
        }
      } else if (ref != nullptr && extra) {
        ++(*extra)["c11_skipped_line_throws"];
      }
      // ---------------- C12 ----------------
      if (has_table && table_ok) {
        bool is_float = f.dt == "f32";
        for (size_t i : kv.second) {
          const Outcome &o = outs[i];
          if (o.text.compare(0, 13, "chunks-differ") == 0) continue;
          std::string opname = c.ops[i].substr(0, 40);
          if (o.status != OK) {
            fail->push_back("class=" + classify(f, doc) + " prop=C12 `" + opname + "` fails (" + status_str(o.status) + ") on a well-formed document");
            continue;
          }
          std::vector<RowS> got = o.flat();
          if (got.size() != table.size()) {
            fail->push_back("class=" + classify(f, doc) + " prop=C12 `" + opname + "` returns " + std::to_string(got.size()) +
                            " rows, the table has " + std::to_string(table.size()) + " doc=" + vh::hex(doc).substr(0, 400));
            continue;
          }
          for (size_t k = 0; k < got.size(); ++k) {
            std::string m = row_mismatch(table[k], got[k], is_float);
            if (!m.empty()) {
              fail->push_back("class=" + classify(f, doc) + " prop=C12 `" + opname + "` row " + std::to_string(k) + ": " + m +
                              " differs: got " + show_row(got[k]) + " doc=" + vh::hex(doc).substr(0, 400));
              break;
            }
          }
        }
      }
    }
  }

  std::string shape(const Case &c, const std::vector<std::string> &) override {
    if (doc.empty()) return "";
    size_t nl = eol_split(doc).size();
    std::string k = c.kind.substr(0, c.kind.find(' '));
    bool err = false, rows = false;
    for (auto &o : outs) { if (o.status != OK) err = true; if (!o.blocks.empty() && !o.flat().empty()) rows = true; }
    return k + (nl > 3 ? "+multi-line" : "") + (err ? "+error" : "") + (rows ? "+rows" : "+no-rows");
  }
};

// ------------------------------------------------------------------------------------------------
// generators
// ------------------------------------------------------------------------------------------------
static int g_maxthread = 1;

struct Gen {
  vh::Runner *R;
  vh::Rng *rng;
  bool quick;

  static std::string L(const std::string &s) { return "line " + vh::hex(s); }

  std::vector<std::string> doc_ops(const std::string &doc, bool per_line) {
    std::vector<std::string> ops;
    if (!per_line) { if (!doc.empty()) ops.push_back(L(doc)); return ops; }
    // one op per line (with its EOL bytes) so that delta debugging on the op list shrinks the document
    size_t a = 0;
    while (a < doc.size()) {
      size_t b = a;
      while (b < doc.size() && !is_eol(doc[b])) ++b;
      while (b < doc.size() && is_eol(doc[b])) ++b;
      ops.push_back(L(doc.substr(a, b - a)));
      a = b;
    }
    return ops;
  }

  std::string pipe_op(const std::string &fmt, const std::string &doc, int nthread, unsigned nparts, size_t bufwords) {
    std::vector<ChunkRec> cs;
    if (doc.empty() || !observe_chunks(doc, nparts, bufwords, &cs)) return "";
    return "pipe " + fmt + " " + std::to_string(nthread) + " " + std::to_string(nparts) + " " + std::to_string(bufwords) + " " + show_chunks(cs);
  }

  // the standard battery of configurations for one document and one format
  void battery(Case *c, const std::string &fmt, const std::string &doc, int level) {
    c->ops.push_back("block " + fmt + " -");
    c->ops.push_back("perline " + fmt);
    bool ends_eol = !doc.empty() && is_eol(doc[doc.size() - 1]);
    if (level >= 1) {
      c->ops.push_back("block " + fmt + " " + vh::hex(ends_eol ? "5 1:2\n" : "\n7,7:7 7\n"));
      for (int nt = 2; nt <= g_maxthread && nt <= (level >= 2 ? 4 : 3) && !doc.empty(); ++nt)
        c->ops.push_back("fill " + fmt + " " + std::to_string(nt) + " " + (ends_eol && nt % 2 ? vh::hex("9:9 9,9\n") : "-"));
    }
    if (level >= 2 && !doc.empty()) {
      c->ops.push_back("fill " + fmt + " 1 -");
      static const size_t bw[] = {1, 2, 3, 5, 16};
      for (int k = 0; k < (level >= 3 ? 6 : 3); ++k) {
        std::string op = pipe_op(fmt, doc, 1 + static_cast<int>(rng->below(g_maxthread)), 1 + static_cast<unsigned>(rng->below(4)),
                                 bw[rng->below(5)]);
        if (!op.empty()) c->ops.push_back(op);
      }
      // the same behind the prefetching ThreadedParser, slow consumer (one configuration per document)
      if (rng->chance(1, level >= 3 ? 1 : 3)) {
        std::string op = pipe_op(fmt, doc, 1 + static_cast<int>(rng->below(g_maxthread)), 1 + static_cast<unsigned>(rng->below(3)),
                                 bw[rng->below(3)]);
        if (!op.empty()) c->ops.push_back("t" + op);
      }
    }
  }
};

// ---- number lexemes --------------------------------------------------------------------------------
struct Lex { std::string text; bool exact; };
static uint32_t ref_float_bits(const std::string &s) {
  float v = ::strtof(s.c_str(), nullptr);  // libc: the independent reference for the decimal meaning
  uint32_t u;
  memcpy(&u, &v, 4);
  return u;
}
static Lex rand_float_lex(vh::Rng &r) {
  static const char *exact[] = {"0", "1", "2", "3", "7", "10", "100", "0.5", "1.5", "2.25", "0.125", "-1", "-0.5", "+3", "1e1",
                                "2.5e1", "25e-2", "1E2", "5.", ".5", "-.25", "12.75", "1e+2", "3e0", "0.0", "-0", "65536", "1024.5"};
  static const char *inexact[] = {"0.1", "0.3", "1.3", "3.14159", "-2.7", "1e-3", "6.02e23", "0.333333", "123456.789", "9.99e-5",
                                  "0.1e1", "7.7E+5", "16777217", "0.000001"};
  Lex l;
  if (r.chance(3, 5)) { l.text = exact[r.below(sizeof(exact) / sizeof(*exact))]; l.exact = true; }
  else { l.text = inexact[r.below(sizeof(inexact) / sizeof(*inexact))]; l.exact = false; }
  return l;
}
static std::string num_tag(const Lex &l) { return std::string(l.exact ? "e" : "t") + std::to_string(ref_float_bits(l.text)); }

static std::string rand_sep(vh::Rng &r, int style) {  // non-empty string over space / tab
  if (style == 0) return " ";
  if (style == 1) return "\t";
  std::string s;
  size_t n = 1 + r.below(3);
  for (size_t i = 0; i < n; ++i) s.push_back(r.chance(1, 2) ? ' ' : '\t');
  return s;
}
static std::string rand_eol(vh::Rng &r, int style) {
  if (style == 0) return "\n";
  if (style == 1) return "\r\n";
  if (style == 2) return "\r";
  static const char *e[] = {"\n", "\r\n", "\r", "\n\n", "\r\n\r\n"};
  return e[r.below(5)];
}

// ---- C12: tables and renderings --------------------------------------------------------------------
static void gen_svm_fm_case(Gen &G, bool fm, int level) {
  vh::Rng &r = *G.rng;
  Case c;
  int iw = r.chance(1, 4) ? 64 : 32, mode = static_cast<int>(r.below(2));
  std::string fmt = std::string(fm ? "fm" : "svm") + ":" + std::to_string(iw) + ":" + std::to_string(mode);
  c.kind = std::string(fm ? "table-fm" : "table-svm") + " " + fmt;
  size_t nrows = r.below(G.quick ? 7 : 13);
  bool weights = r.chance(1, 3), qids = !fm && r.chance(1, 3), values = r.chance(3, 4);
  int sep_style = static_cast<int>(r.below(3)), eol_style = static_cast<int>(r.below(4));
  std::string doc;
  auto filler = [&]() {  // blank / comment lines between rows
    while (r.chance(1, 5)) {
      std::string l;
      switch (r.below(fm ? 2 : 4)) {
        case 0: l = ""; break;
        case 1: l = rand_sep(r, 2); break;
        case 2: l = "# 5 2:3 comment"; break;
        default: l = rand_sep(r, 2) + "#x"; break;
      }
      l += rand_eol(r, eol_style);
      c.ops.push_back(Gen::L(l));
      doc += l;
    }
  };
  for (size_t i = 0; i < nrows; ++i) {
    filler();
    std::string line, exp;
    if (r.chance(1, 6)) line += rand_sep(r, 2);  // leading blanks
    Lex lab = rand_float_lex(r);
    line += lab.text;
    exp = num_tag(lab);
    if (weights) { Lex w = rand_float_lex(r); line += ":" + w.text; exp += " " + num_tag(w); } else exp += " ~";
    if (qids) { uint64_t q = r.chance(1, 8) ? r.next() >> 1 : r.below(1000); line += rand_sep(r, sep_style) + "qid:" + std::to_string(q); exp += " " + std::to_string(q); }
    else exp += " ~";
    size_t ne = r.below(G.quick ? 5 : 9);
    std::string fs, is, vs;
    for (size_t k = 0; k < ne; ++k) {
      uint64_t lim = iw == 32 ? 0xffffffffULL : 0xffffffffffffffffULL;
      uint64_t idx = r.chance(1, 10) ? lim - r.below(3) : (mode + r.below(r.chance(1, 5) ? 100000 : 30));
      uint64_t fld = mode + r.below(12);
      if (idx < static_cast<uint64_t>(mode)) idx = mode;
      line += rand_sep(r, sep_style);
      if (fm) { line += std::to_string(fld) + ":"; fs += (k ? "," : "") + std::to_string(fld - mode); }
      line += std::to_string(idx);
      is += (k ? "," : "") + std::to_string(idx - mode);
      if (values) { Lex v = rand_float_lex(r); line += ":" + v.text; vs += (k ? "," : "") + num_tag(v); }
    }
    exp += " " + ((fm && ne) ? fs : std::string("~")) + " " + (ne ? is : std::string("-")) + " " + ((values && ne) ? vs : std::string("~"));
    if (r.chance(1, 5)) line += rand_sep(r, 2);          // blanks before the end of line
    if (!fm && r.chance(1, 5)) line += (r.chance(1, 2) ? " " : "") + std::string("# 9:9 trailing comment");
    bool last = i + 1 == nrows;
    if (!last || r.chance(4, 5)) line += rand_eol(r, eol_style);
    c.ops.push_back("row " + vh::hex(line) + " " + exp);
    doc += line;
  }
  if (nrows) filler();
  G.battery(&c, fmt, doc, level);
  G.R->run_case(c);
}

static void gen_csv_case(Gen &G, int level) {
  vh::Rng &r = *G.rng;
  Case c;
  int iw = r.chance(1, 4) ? 64 : 32;
  static const char *dts[] = {"f32", "i32", "i64"};
  std::string dt = dts[r.below(3)];
  static const char delims[] = {',', ',', ';', '\t', '|', ' ', ':'};
  char delim = delims[r.below(sizeof delims)];
  size_t ncol = 1 + r.below(G.quick ? 6 : 10);
  int label_col = r.chance(1, 2) ? static_cast<int>(r.below(ncol)) : -1;
  int weight_col = (dt == "f32" && r.chance(1, 3)) ? static_cast<int>(r.below(ncol)) : -1;
  if (weight_col == label_col) weight_col = -1;
  // at least one feature column, else "delimiter not found" is raised by design
  size_t nfeat = ncol - (label_col >= 0) - (weight_col >= 0);
  if (nfeat == 0) { ncol += 1; }
  std::string fmt = "csv:" + std::to_string(iw) + ":" + dt + ":" + std::to_string(label_col) + ":" + std::to_string(weight_col) + ":" +
                    std::to_string(static_cast<int>(delim));
  c.kind = "table-csv " + fmt;
  size_t nrows = r.below(G.quick ? 7 : 13);
  int eol_style = static_cast<int>(r.below(4));
  bool blanks = delim != ' ' && delim != '\t' && r.chance(1, 2);
  std::string doc;
  for (size_t i = 0; i < nrows; ++i) {
    while (r.chance(1, 8)) { std::string l = rand_eol(r, eol_style); c.ops.push_back(Gen::L(l)); doc += l; }  // empty lines
    if (doc.empty() && !c.ops.empty() == false && r.chance(1, 10)) {}
    std::string line, lab = "~", wt = "~", is, vs;
    size_t idx = 0, nent = 0;
    for (size_t k = 0; k < ncol; ++k) {
      if (k) line.push_back(delim);
      bool special = static_cast<int>(k) == label_col || static_cast<int>(k) == weight_col;
      // an empty cell: absent entry (feature columns only; never the last cell of a line unless followed by blanks)
      // (with a white-space delimiter too: since fixes/C12-3.diff the parser itself recognises the empty cell, C12-F3;
      // a white-space delimiter is never combined with blanks around the cells, see `blanks`)
      bool empty = !special && k + 1 < ncol && r.chance(1, 6);
      if (empty) { ++idx; continue; }
      std::string cell, tag;
      if (dt == "f32") {
        Lex l = rand_float_lex(r);
        cell = l.text;
        tag = num_tag(l);
      } else {
        int64_t v;
        switch (r.below(6)) {
          case 0: v = 0; break;
          case 1: v = -static_cast<int64_t>(r.below(1000)); break;
          case 2: v = dt == "i32" ? 2147483647 - static_cast<int64_t>(r.below(3)) : 9223372036854775807LL - static_cast<int64_t>(r.below(3)); break;
          default: v = static_cast<int64_t>(r.below(100000));
        }
        cell = std::to_string(v);
        if (v >= 0 && r.chance(1, 6)) cell = "+" + cell;
        if (r.chance(1, 6)) cell.insert(cell[0] == '-' || cell[0] == '+' ? 1 : 0, r.chance(1, 2) ? "0" : "00");  // leading zeros: still decimal
        uint64_t bits = dt == "i32" ? static_cast<uint64_t>(static_cast<uint32_t>(static_cast<int32_t>(v))) : static_cast<uint64_t>(v);
        tag = "e" + std::to_string(bits);
      }
      if (blanks && r.chance(1, 5)) cell = " " + cell;
      if (blanks && r.chance(1, 5)) cell += " ";
      line += cell;
      if (static_cast<int>(k) == label_col) lab = tag;
      else if (static_cast<int>(k) == weight_col) wt = tag;
      else { is += (nent ? "," : "") + std::to_string(idx); vs += (nent ? "," : "") + tag; ++idx; ++nent; }
    }
    if (nent == 0 && idx == 0) continue;  // unreachable (ncol guarantees a feature column)
    std::string exp = lab + " " + wt + " ~ ~ " + (nent ? is : std::string("-")) + " " + (nent ? vs : std::string("~"));
    bool last = i + 1 == nrows;
    if (!last || r.chance(4, 5)) line += rand_eol(r, eol_style);
    c.ops.push_back("row " + vh::hex(line) + " " + exp);
    doc += line;
  }
  G.battery(&c, fmt, doc, level);
  G.R->run_case(c);
}

// ---- C11: token documents --------------------------------------------------------------------------
static const char *kSvmTokens[] = {"1", "2", ":", " ", "\t", "#", "qid:", "\n", "\r", "-", ".5", "e", "x"};
static const char *kFmTokens[] = {"1", "2", ":", " ", "\t", "\n", "\r", "-", ".5", "e", "x", "3"};
static const char *kCsvTokens[] = {"1", "2", ",", " ", "\t", "\n", "\r", "-1", ".5", "e1", "x", "0"};

static void run_token_doc(Gen &G, const std::string &kind, const std::string &fmt, const std::string &doc, int level, bool per_line) {
  Case c;
  c.kind = kind + " " + fmt;
  c.ops = G.doc_ops(doc, per_line);
  G.battery(&c, fmt, doc, level);
  G.R->run_case(c);
}

static void gen_exhaustive(Gen &G, const std::string &fmt, const char *const *toks, size_t ntok, size_t maxlen, const std::string &tail) {
  std::vector<size_t> ix;
  for (size_t len = 1; len <= maxlen; ++len) {
    ix.assign(len, 0);
    while (true) {
      std::string doc;
      for (size_t k : ix) doc += toks[k];
      doc += tail;
      run_token_doc(G, "tokens", fmt, doc, 1, false);
      size_t p = 0;
      while (p < len && ++ix[p] == ntok) ix[p++] = 0;
      if (p == len) break;
    }
  }
}

static std::string rand_token_line(vh::Rng &r, const std::string &kind) {
  std::string l;
  static const char *nums[] = {"1", "2", "0", "10", "3.5", "-1", "1e2", ".5", "7", "42", "0.25", "+4", "999"};
  auto num = [&]() { return std::string(nums[r.below(sizeof(nums) / sizeof(*nums))]); };
  auto sep = [&]() { return rand_sep(r, static_cast<int>(r.below(3))); };
  size_t what = r.below(12);
  if (kind == "csv") {
    if (what == 0) return "";
    if (what == 1 && r.chance(1, 2)) return "\xEF\xBB\xBF";   // a line that is nothing but a BOM
    if (r.chance(1, 12)) l = "\xEF\xBB\xBF";
    size_t n = 1 + r.below(5);
    for (size_t k = 0; k < n; ++k) {
      if (k) l += ",";
      switch (r.below(9)) {
        case 0: break;
        case 1: l += " "; break;
        case 2: l += " " + num(); break;
        case 3: l += num() + " "; break;
        case 4: l += "x"; break;
        default: l += num();
      }
    }
    if (r.chance(1, 8)) l += ", ";
    if (r.chance(1, 8)) l += ",";
    return l;
  }
  if (what == 0) return "";
  if (what == 1) return sep();
  if (what == 2) return (r.chance(1, 2) ? sep() : "") + "# " + num() + " " + num() + ":" + num();
  if (r.chance(1, 8)) l += sep();
  l += num();
  bool w = r.chance(1, 3);
  if (w) l += ":" + (r.chance(1, 6) ? "" : num());
  if (kind == "svm" && r.chance(1, 3)) l += sep() + "qid:" + (r.chance(1, 6) ? "" : std::to_string(r.below(50)));
  size_t n = r.below(5);
  for (size_t k = 0; k < n; ++k) {
    l += sep();
    if (kind == "fm") l += std::to_string(r.below(9)) + ":";
    l += std::to_string(r.below(20));
    if (r.chance(3, 4)) l += ":" + (r.chance(1, 10) ? "" : num());
    if (r.chance(1, 15)) l += ":";
  }
  if (r.chance(1, 6)) l += sep();
  if (kind == "svm" && r.chance(1, 6)) l += "#" + num();
  return l;
}

static void gen_random_doc(Gen &G, const std::string &kind, int level) {
  vh::Rng &r = *G.rng;
  std::string fmt;
  int iw = r.chance(1, 5) ? 64 : 32;
  if (kind == "csv") {
    static const char *dts[] = {"f32", "f32", "i32", "i64"};
    std::string dt = dts[r.below(4)];
    int lc = r.chance(1, 2) ? static_cast<int>(r.below(3)) : -1;
    int wc = dt == "f32" && r.chance(1, 4) ? static_cast<int>(r.below(3)) : -1;
    if (wc == lc) wc = -1;
    fmt = "csv:" + std::to_string(iw) + ":" + dt + ":" + std::to_string(lc) + ":" + std::to_string(wc) + ":44";
  } else {
    fmt = kind + ":" + std::to_string(iw) + ":" + std::to_string(r.below(2));
  }
  size_t nl = 1 + r.below(G.quick ? 8 : 30);
  int eol_style = static_cast<int>(r.below(4));
  // a document: most lines drawn from one "shape" so that the lines agree on their optional parts
  std::string doc;
  uint64_t shape_seed = r.next();
  for (size_t i = 0; i < nl; ++i) {
    vh::Rng lr(r.chance(3, 4) ? shape_seed + i * 0x100000001ULL : r.next());
    std::string l = rand_token_line(r.chance(1, 3) ? r : lr, kind);
    doc += l;
    if (i + 1 < nl || r.chance(3, 4)) doc += rand_eol(r, eol_style);
  }
  run_token_doc(G, "random", fmt, doc, level, true);
}

#ifdef VH_WITH_DATACC
// documents read through the real factories of src/data.cc (Parser<I,D>::Create on a real file)
static void gen_create_doc(Gen &G, const std::string &kind, bool c12) {
  vh::Rng &r = *G.rng;
  int iw = r.chance(1, 3) ? 64 : 32;
  std::string fmt;
  std::string doc;
  Case c;
  size_t nl = 1 + r.below(G.quick ? 14 : 40);
  if (kind == "csv") {
    static const char *dts[] = {"f32", "f32", "i32", "i64"};
    std::string dt = dts[r.below(4)];
    int lc = r.chance(1, 2) ? static_cast<int>(r.below(3)) : -1;
    int wc = dt == "f32" && r.chance(1, 4) ? static_cast<int>(r.below(3)) : -1;
    if (wc == lc) wc = -1;
    static const char delims[] = {',', ',', '|', ':'};
    char delim = delims[r.below(4)];
    fmt = "csv:" + std::to_string(iw) + ":" + dt + ":" + std::to_string(lc) + ":" + std::to_string(wc) + ":" + std::to_string(static_cast<int>(delim));
    for (size_t i = 0; i < nl; ++i) {
      std::string l;
      for (int k = 0; k < 4; ++k) l += (k ? std::string(1, delim) : std::string()) + (r.chance(1, 9) && k > 0 && k < 3 ? std::string() : std::to_string(r.below(90)));
      doc += l + (r.chance(1, 6) ? "\r\n" : "\n");
    }
  } else {
    int mode = static_cast<int>(r.below(2));
    fmt = kind + ":" + std::to_string(iw) + ":" + std::to_string(mode);
    bool w = r.chance(1, 3), q = kind == "svm" && r.chance(1, 3);
    for (size_t i = 0; i < nl; ++i) {
      std::string l = std::to_string(r.below(3));
      if (w) l += ":" + std::to_string(1 + r.below(4));
      if (q) l += " qid:" + std::to_string(r.below(5));
      size_t ne = r.below(4);
      for (size_t k = 0; k < ne; ++k) {
        l += r.chance(1, 5) ? "\t" : " ";
        if (kind == "fm") l += std::to_string(mode + r.below(7)) + ":";
        l += std::to_string(mode + r.below(40)) + ":" + std::to_string(r.below(9)) + (r.chance(1, 3) ? ".5" : "");
      }
      doc += l + "\n";
      if (r.chance(1, 10)) doc += kind == "svm" ? "# comment 1:2\n" : "\n";
    }
  }
  c.kind = std::string(c12 ? "create12 " : "create ") + fmt;
  for (auto &op : G.doc_ops(doc, true)) c.ops.push_back(op);
  c.ops.push_back("perline " + fmt);
  for (unsigned np = 1; np <= 3; np += 1 + static_cast<unsigned>(r.below(2))) {
    std::string op = G.pipe_op(fmt, doc, g_maxthread, np, dmlc::io::InputSplitBase::kBufferSize);
    if (!op.empty()) c.ops.push_back("c" + op);
  }
  G.R->run_case(c);
}
#endif

// long documents of well-formed lines behind ThreadedParser with 1..3-word buffers: more chunks than the prefetch
// queue (capacity 8) has cells, so cells are recycled and refilled while earlier blocks are still being read
static void gen_threaded_doc(Gen &G, const std::string &kind) {
  vh::Rng &r = *G.rng;
  std::string fmt = kind == "csv" ? std::string("csv:32:f32:0:-1:44") : kind + ":32:" + std::to_string(r.below(2));
  size_t nl = 12 + r.below(G.quick ? 20 : 60);
  std::string doc;
  for (size_t i = 0; i < nl; ++i) {
    std::string l = std::to_string(i % 7);
    size_t ne = 1 + r.below(3);
    for (size_t k = 0; k < ne; ++k) {
      if (kind == "csv") l += "," + std::to_string((i * 3 + k) % 50);
      else if (kind == "fm") l += " " + std::to_string(1 + k) + ":" + std::to_string(1 + (i + k) % 40) + ":" + std::to_string(i % 9);
      else l += " " + std::to_string(1 + (i + k) % 40) + ":" + std::to_string(i % 9);
    }
    if (kind == "csv") for (size_t k = ne; k < 3; ++k) l += ",0";
    doc += l + "\n";
    if (r.chance(1, 9)) doc += "\n";
  }
  Case c;
  c.kind = "threaded " + fmt;
  for (auto &op : G.doc_ops(doc, true)) c.ops.push_back(op);
  c.ops.push_back("perline " + fmt);
  for (int k = 0; k < 2; ++k) {
    std::string op = G.pipe_op(fmt, doc, 1 + static_cast<int>(r.below(g_maxthread)), 1 + static_cast<unsigned>(r.below(2)), 1 + r.below(3));
    if (!op.empty()) c.ops.push_back("t" + op);
  }
  G.R->run_case(c);
}

static void corpus(Gen &G) {
  struct { const char *fmt, *doc; } docs[] = {
      {"svm:32:0", "1:\n5 1:2\n"},                       // F6: dangling colon after the label
      {"svm:32:0", "1 qid:\n7 1:1\n"},                   // F6: dangling qid
      {"svm:32:0", "1 1:1\n# 5 2:3\n2 1:1\n"},           // F6: comment line not first in its block
      {"svm:32:0", "# 5 2:3\n1 1:1\n"},
      {"svm:32:0", "1 1:\n9 2:2\n"},
      {"svm:32:0", "1:2\tqid:3 1:1\n"},                  // tab between weight and qid
      {"svm:32:0", "1\tqid:3 1:1\n"},
      {"svm:32:1", "1 qid:7 1:1 2:0.5 # c\n\n0 qid:8 3:1\r\n"},
      {"svm:64:1", "1 0:1\n"},                           // index 0 under 1-based mode wraps
      {"fm:32:0", "1 2:\n9\n"},                          // F6: libfm
      {"fm:32:0", "1 2:3:\n9 1:1:1\n"},
      {"fm:32:1", "1:0.5 1:1:2 2:3:4\n0 1:2:1\n"},
      {"csv:32:f32:-1:-1:44", "1, \n3,4\n"},             // F6: blank cell at the end of a line
      {"csv:32:f32:0:-1:44", "1,2\n \n3,4\n"},
      {"csv:32:i32:-1:-1:44", "010,8\n1,2\n"},           // F12: base 0
      {"csv:32:i64:-1:-1:44", "0x10,1\n1,2\n"},
      {"csv:32:f32:-1:-1:44", "\xEF\xBB\xBF" "1,2\n\xEF\xBB\xBF" "3,4\n\xEF\xBB" "5,6\n"},
      {"csv:32:f32:-1:-1:44", "1,2\n\xEF\xBB\xBF"},                     // C11-F5: a BOM as the last bytes of the block
      {"csv:32:f32:-1:-1:44", "\xEF\xBB\xBF"},
      {"csv:32:i32:0:-1:44", "\xEF\xBB\xBF\n1,2\n\xEF\xBB\xBF\r\n\xEF\xBB\xBF" "3,4\n\xEF\xBB\xBF"},  // BOM-only lines anywhere
      {"csv:32:f32:0:1:44", "1,0.5,3,,5\n2,0.25,,4,\n"},
      {"csv:32:f32:-1:-1:44", "0,,,3\n4,5,6,7\n8,9,10,11\n"},
      {"csv:32:f32:-1:-1:44", "1,2\r\n3,4\r5,6\n\n\n7,8"},
      {"csv:32:f32:0:-1:9", "1\t\t3\t4\n5\t6\t7\t\n"},  // C12-F3: empty cells with a white-space delimiter (TAB, space)
      {"csv:32:f32:-1:-1:32", "1  3 \n4 5 6 7\n"},
  };
  for (auto &d : docs) run_token_doc(G, "corpus", d.fmt, d.doc, 3, true);
}

// corpus documents together with the table they render (C12 oracle: `row` ops with the expected row of each line)
static void corpus_tables(Gen &G) {
  auto e = [](const char *t) { return num_tag(Lex{t, true}); };
  struct Line { std::string text, exp; };
  struct { const char *fmt; std::vector<Line> lines; } docs[] = {
      // C12-F3: an empty cell is absent but numbered, with a white-space delimiter too
      {"csv:32:f32:0:-1:9", {{"1\t\t3\t4\n", e("1") + " ~ ~ ~ 1,2 " + e("3") + "," + e("4")},
                             {"5\t6\t7\t\n", e("5") + " ~ ~ ~ 0,1 " + e("6") + "," + e("7")}}},
      {"csv:32:f32:-1:-1:32", {{"1  3 \n", "~ ~ ~ ~ 0,2 " + e("1") + "," + e("3")},
                               {"4 5 6 7\n", "~ ~ ~ ~ 0,1,2,3 " + e("4") + "," + e("5") + "," + e("6") + "," + e("7")}}},
      {"csv:32:i32:1:-1:9", {{"\t7\t\t9\n", "e7 ~ ~ ~ 2 e9"}}},
      {"csv:32:f32:0:1:44", {{"1,0.5,3,,5\n", e("1") + " " + e("0.5") + " ~ ~ 0,2 " + e("3") + "," + e("5")}}},
  };
  for (auto &d : docs) {
    Case c;
    c.kind = std::string("corpus-table ") + d.fmt;
    std::string doc;
    for (auto &l : d.lines) { c.ops.push_back("row " + vh::hex(l.text) + " " + l.exp); doc += l.text; }
    G.battery(&c, d.fmt, doc, 3);
    G.R->run_case(c);
  }
}

int main(int argc, char **argv) {
  vh::Runner R;
  R.parse(argc, argv);
  ParseHarness H;
  H.extra = &R.extra;
  R.h = &H;
  for (int i = 1; i < argc; ++i)
    if (std::string(argv[i]) == "--prop" && i + 1 < argc) H.prop = argv[i + 1];
  g_maxthread = std::max(omp_get_num_procs() / 2 - 4, 1);  // what TextParserBase allows on this host
  if (g_maxthread > 4) g_maxthread = 4;
  R.extra["max_parser_threads"] = g_maxthread;
#ifdef VH_WITH_DATACC
  g_real_dir = R.out_dir;
#endif
  if (R.run_replay()) { R.finish(); return 0; }
  vh::Rng rng(R.seed);
  Gen G{&R, &rng, !R.thorough()};
#ifdef VH_WITH_DATACC
  {
    g_real_dir = R.out_dir;
    size_t n = R.thorough() ? 3000 : 300;
    static const char *kinds[] = {"svm", "fm", "csv"};
    for (size_t i = 0; i < n; ++i) gen_create_doc(G, kinds[i % 3], H.prop == "C12");
    R.finish();
    return 0;
  }
#endif
  corpus(G);
  if (H.prop == "C12") {
    corpus_tables(G);
    size_t n = R.thorough() ? 6000 : 500;
    for (size_t i = 0; i < n; ++i) {
      int level = i % 4 == 0 ? 3 : 2;
      switch (i % 3) {
        case 0: gen_svm_fm_case(G, false, level); break;
        case 1: gen_svm_fm_case(G, true, level); break;
        default: gen_csv_case(G, level);
      }
    }
  } else {
    size_t maxlen = R.thorough() ? 4 : 3;
    gen_exhaustive(G, "svm:32:0", kSvmTokens, sizeof(kSvmTokens) / sizeof(*kSvmTokens), maxlen, "");
    gen_exhaustive(G, "svm:32:1", kSvmTokens, sizeof(kSvmTokens) / sizeof(*kSvmTokens), maxlen - 1, "\n1 1:1\n");
    gen_exhaustive(G, "fm:32:0", kFmTokens, sizeof(kFmTokens) / sizeof(*kFmTokens), maxlen, "");
    gen_exhaustive(G, "fm:64:1", kFmTokens, sizeof(kFmTokens) / sizeof(*kFmTokens), maxlen - 1, "\n1 1:1:1\n");
    gen_exhaustive(G, "csv:32:f32:-1:-1:44", kCsvTokens, sizeof(kCsvTokens) / sizeof(*kCsvTokens), maxlen, "");
    gen_exhaustive(G, "csv:32:i32:0:-1:44", kCsvTokens, sizeof(kCsvTokens) / sizeof(*kCsvTokens), maxlen - 1, "\n1,2\n");
    size_t n = R.thorough() ? 6000 : 700;
    for (size_t i = 0; i < n; ++i) {
      static const char *kinds[] = {"svm", "fm", "csv"};
      gen_random_doc(G, kinds[i % 3], i % 5 == 0 ? 3 : 2);
      if (i % (R.thorough() ? 20 : 35) == 0) gen_threaded_doc(G, kinds[(i / 5) % 3]);
    }
  }
  R.finish();
  return 0;
}
