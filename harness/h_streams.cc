// Correspondence harness + oracle for C19: the REAL MemoryStringStream / MemoryFixedSizeStream
// (include/dmlc/memory_io.h), the local FileStream obtained from dmlc::Stream::Create on real temporary
// files (under --out), and dmlc::ostream / dmlc::istream (include/dmlc/io.h) over a recording Stream.
//
// Line protocol: see lean/Driver/Streams.lean.  Oracle: a reference std::string + cursor written here,
// independent of the Lean model.
//
// Safety: every case on a memory stream is executed by a forked worker process (one pipe round trip per
// case).  If the worker is killed by ASan/UBSan/a signal while it executes an operation, the result of
// that operation is `ub:oob`, the remaining operations of the case are `dead`, and a new worker is
// forked for the next case.  So an out-of-bounds memcpy of the real code is observed, not predicted.
#include <bits/stdc++.h>
#include <sanitizer/common_interface_defs.h>
#include <fcntl.h>
#include <sys/wait.h>
#include <unistd.h>
// private members of the adaptors (buf_, overflow, pptr/gptr) are observed, nothing is modified
#define private public
#define protected public
#include <dmlc/io.h>
#include <dmlc/memory_io.h>
#undef private
#undef protected
#include "common/proto.h"

using vh::Case;
typedef unsigned long long ull;

// keep the process small (the worker is forked from it); options given in ASAN_OPTIONS still win
// and the sanitizer reports of a dying worker cheap (no symbolizer start-up per report)
extern "C" const char *__asan_default_options() { return "quarantine_size_mb=8:detect_leaks=0:symbolize=0"; }
extern "C" const char *__ubsan_default_options() { return "symbolize=0"; }

static const uint64_t kTop = ~0ull;

// read-only access to the protected put/get pointers of a std::streambuf (pointer-to-member loophole)
struct SbPeek : std::streambuf {
  static long long put_off(const std::streambuf &b) { return (b.*(&SbPeek::pptr))() - (b.*(&SbPeek::pbase))(); }
  static long long get_off(const std::streambuf &b) { return (b.*(&SbPeek::gptr))() - (b.*(&SbPeek::eback))(); }
  static long long get_end(const std::streambuf &b) { return (b.*(&SbPeek::egptr))() - (b.*(&SbPeek::eback))(); }
};

// ------------------------------------------------------------------------------------------------
// recording stream under the adaptors: a plain growable byte array with a cursor
// ------------------------------------------------------------------------------------------------
struct RecStream : dmlc::SeekStream {
  std::string data;
  size_t cur = 0;
  int id = 0;
  std::vector<std::pair<int, std::string>> *glog = nullptr;   // shared log of Write calls (stream id, bytes)
  std::vector<std::pair<int, std::string>> *grlog = nullptr;  // shared log of Read calls (stream id, bytes delivered)
  std::vector<std::string> wlog;                    // bytes of every Write call
  std::vector<std::pair<size_t, size_t>> rlog;      // (position, bytes delivered) of every Read call
  size_t total_w = 0, total_r = 0;
  size_t Read(void *p, size_t n) override {
    size_t k = cur < data.size() ? std::min(n, data.size() - cur) : 0;
    if (k) memcpy(p, data.data() + cur, k);
    rlog.push_back(std::make_pair(cur, k));
    if (grlog) grlog->push_back(std::make_pair(id, data.substr(std::min(cur, data.size()), k)));
    cur += k;
    total_r += k;
    return k;
  }
  size_t Write(const void *p, size_t n) override {
    wlog.push_back(std::string(static_cast<const char *>(p), n));
    if (glog) glog->push_back(std::make_pair(id, wlog.back()));
    if (n) {
      if (data.size() < cur) data.resize(cur, '\0');
      if (data.size() < cur + n) data.resize(cur + n, '\0');
      memcpy(&data[cur], p, n);
      cur += n;
    }
    total_w += n;
    return n;
  }
  void Seek(size_t pos) override { cur = pos; }
  size_t Tell() override { return cur; }
};

// ------------------------------------------------------------------------------------------------
// reference model used by the oracle: byte array + cursor
// ------------------------------------------------------------------------------------------------
enum Kind { kNone, kMemStr, kMemFixed, kFile, kOStream, kIStream };

struct Ref {
  Kind kind = kNone;
  std::string data;
  uint64_t cur = 0;
};

struct StreamsHarness : vh::Harness {
  std::string out_dir;
  Kind kind = kNone;
  // stores
  std::string str;
  std::vector<char> fbuf;
  std::unique_ptr<dmlc::SeekStream> strm;
  std::string path;
  uint64_t n_forks = 0, n_ub = 0;
  // worker process for the memory-stream cases
  bool is_worker = false;
  pid_t wpid = -1;
  FILE *w_to = nullptr, *w_from = nullptr;
  const Case *cur_case = nullptr;  // for the death callback: the case and the op being executed
  size_t cur_op = 0;
  std::vector<std::string> pre;   // results computed by the worker for the current case
  size_t pre_i = 0;
  bool use_pre = false;
  uint64_t str_max = std::string().max_size();
  // adaptors
  static const int kNS = 3;        // recording streams 0..2; stream 0 is attached first
  RecStream recs[kNS];
  std::vector<std::pair<int, std::string>> glog, grlog;
  std::vector<std::pair<int, size_t>> attach_log;   // istream: (stream, its cursor) at every set_stream
  int attached = 0;
  size_t nstreams = kNS;
  std::unique_ptr<dmlc::ostream> os;
  std::unique_ptr<dmlc::istream> is;
  bool destroyed = false;
  size_t wseen = 0;

  void reset_case() {
    strm.reset();
    os.reset();
    is.reset();
    kind = kNone;
    destroyed = false;
    glog.clear();
    grlog.clear();
    attach_log.clear();
    attached = 0;
    nstreams = kNS;
    for (int k = 0; k < kNS; ++k) {
      recs[k] = RecStream();
      recs[k].id = k;
      recs[k].glog = &glog;
      recs[k].grlog = &grlog;
    }
    wseen = 0;
    use_pre = false;
  }

  // once this many operations have ended in `ub:oob` the property is violated beyond doubt: the remaining
  // memory-stream cases that seek beyond 2^63 are not run any more (each costs a sanitizer report + fork)
  uint64_t ub_cap = 150, n_skipped = 0;
  bool skip_case(const Case &c) const {
    if (n_ub < ub_cap || c.ops.empty() || c.kind == "replay") return false;
    if (c.ops[0].compare(0, 8, "open mem") != 0) return false;
    for (auto &o : c.ops)
      if (o.size() >= 24 && o.compare(0, 5, "seek ") == 0) return true;
    return false;
  }

  void begin_case(const Case &c) override {
    reset_case();
    cur_case = &c;
    cur_op = 0;
    if (is_worker || c.ops.empty()) return;
    auto w0 = vh::split_ws(c.ops[0]);
    if (w0.size() == 3 && w0[0] == "open" && (w0[1] == "memstr" || w0[1] == "memfixed")) {
      pre = via_worker(c.ops);
      pre_i = 0;
      use_pre = true;
    }
  }

  // ---- worker process --------------------------------------------------------------------------
  void spawn_worker() {
    int to[2], from[2];
    if (pipe(to) || pipe(from)) { perror("pipe"); exit(3); }
    fflush(nullptr);
    ++n_forks;
    pid_t pid = fork();
    if (pid < 0) { perror("fork"); exit(3); }
    if (pid == 0) {
      close(to[1]);
      close(from[0]);
      int lg = open((out_dir + "/c19_worker_stderr.txt").c_str(), O_WRONLY | O_CREAT | O_TRUNC, 0644);
      if (lg >= 0) { dup2(lg, 2); dup2(lg, 1); }
      is_worker = true;
      FILE *in = fdopen(to[0], "r"), *out = fdopen(from[1], "w");
      char *line = nullptr;
      size_t cap = 0;
      while (getline(&line, &cap, in) > 0) {
        size_t n = strtoull(line, nullptr, 10);
        std::vector<std::string> ops;
        for (size_t i = 0; i < n; ++i) {
          ssize_t k = getline(&line, &cap, in);
          if (k <= 0) _exit(0);
          if (line[k - 1] == '\n') line[k - 1] = 0;
          ops.push_back(line);
        }
        reset_case();
        for (auto &op : ops) {
          std::string r = exec(vh::split_ws(op));
          fputs(r.c_str(), out);
          fputc('\n', out);
          fflush(out);   // a later crash must not lose the results already produced
        }
      }
      _exit(0);
    }
    close(to[0]);
    close(from[1]);
    wpid = pid;
    w_to = fdopen(to[1], "w");
    w_from = fdopen(from[0], "r");
  }

  void reap_worker() {
    if (w_to) fclose(w_to);
    if (w_from) fclose(w_from);
    w_to = w_from = nullptr;
    if (wpid > 0) {
      int st;
      while (waitpid(wpid, &st, 0) < 0 && errno == EINTR) {}
    }
    wpid = -1;
  }

  std::vector<std::string> via_worker(const std::vector<std::string> &ops) {
    if (wpid < 0) spawn_worker();
    fprintf(w_to, "%zu\n", ops.size());
    for (auto &op : ops) { fputs(op.c_str(), w_to); fputc('\n', w_to); }
    fflush(w_to);
    std::vector<std::string> res;
    char *line = nullptr;
    size_t cap = 0;
    while (res.size() < ops.size()) {
      ssize_t k = getline(&line, &cap, w_from);
      if (k <= 0) break;
      if (line[k - 1] == '\n') line[k - 1] = 0;
      res.push_back(line);
    }
    free(line);
    if (res.size() < ops.size()) {   // the worker died inside operation res.size()
      ++n_ub;
      reap_worker();
      res.push_back("ub:oob");
      while (res.size() < ops.size()) res.push_back("dead");
    }
    return res;
  }

  size_t store_len() const { return kind == kMemStr ? str.size() : fbuf.size(); }

  std::string at() {
    return " @" + std::to_string((ull)strm->Tell());
  }
  // big files (ops `open filebig <len> <seed>`, `readh <n>`): content from a 64-bit LCG, results as FNV-1a hashes
  static std::string lcg_bytes(uint64_t len, uint64_t seed) {
    std::string o(len, '\0');
    uint64_t x = seed;
    for (uint64_t i = 0; i < len; ++i) {
      x = x * 6364136223846793005ULL + 1442695040888963407ULL;
      o[i] = static_cast<char>(x >> 56);
    }
    return o;
  }
  static std::string fnv_hex(const char *p, size_t n) {
    uint64_t h = 14695981039346656037ULL;
    for (size_t i = 0; i < n; ++i) h = (h ^ static_cast<unsigned char>(p[i])) * 1099511628211ULL;
    char b[32];
    snprintf(b, sizeof b, "%llx", (ull)h);
    return b;
  }

  std::string exec_store(const std::vector<std::string> &w) {
    if (w[0] == "dump" && w.size() == 1) {
      if (kind == kMemStr) return "bytes " + vh::hex(str);
      if (kind == kMemFixed) return "bytes " + vh::hex(std::string(fbuf.begin(), fbuf.end()));
      if (kind == kFile && !strm) {
        std::ifstream in(path, std::ios::binary);
        std::string all((std::istreambuf_iterator<char>(in)), std::istreambuf_iterator<char>());
        return "bytes " + vh::hex(all);
      }
      return "bad-op";
    }
    if (kind == kFile && w[0] == "close" && w.size() == 1 && strm) {
      strm.reset();
      return "ok";
    }
    if (!strm) return "bad-op";
    dmlc::SeekStream *s = strm.get();
    try {
      if (w[0] == "tell" && w.size() == 1) return "pos " + std::to_string((ull)s->Tell());
      if (w[0] == "seek" && w.size() == 2) {
        s->Seek(strtoull(w[1].c_str(), nullptr, 10));
        return "ok" + at();
      }
      if (w[0] == "read" && w.size() == 2) {
        uint64_t n = strtoull(w[1].c_str(), nullptr, 10);
        size_t room = kind == kFile ? (size_t)n : (size_t)std::min<uint64_t>(n, store_len() + 64);
        std::string dest(room, '\xEE');
        size_t ret = s->Read(&dest[0], n);
        return "r " + std::to_string((ull)ret) + " " + vh::hex(dest.substr(0, std::min<uint64_t>(ret, room))) + at();
      }
      if (w[0] == "readh" && w.size() == 2 && kind == kFile) {
        uint64_t n = strtoull(w[1].c_str(), nullptr, 10);
        if (n > (64u << 20)) return "bad-op";
        std::string dest((size_t)n, '\xEE');
        size_t ret = s->Read(&dest[0], n);
        return "rh " + std::to_string((ull)ret) + " " + fnv_hex(dest.data(), std::min<uint64_t>(ret, n)) + at();
      }
      if (w[0] == "write" && w.size() == 2) {
        std::string bs = vh::unhex(w[1]);
        uint64_t n = bs.size();
        size_t ret = s->Write(bs.data(), n);
        return "w " + std::to_string((ull)ret) + at();
      }
    } catch (const dmlc::Error &) {
      return "err:check" + at();
    } catch (const std::length_error &) {
      return "err:range" + at();
    } catch (const std::bad_alloc &) {
      return "err:alloc" + at();
    }
    return "bad-op";
  }

  std::string calls_since() {
    std::string o = "calls " + std::to_string((ull)(glog.size() - wseen));
    for (size_t i = wseen; i < glog.size(); ++i) o += " " + std::to_string(glog[i].first) + ":" + vh::hex(glog[i].second);
    wseen = glog.size();
    return o;
  }

  std::string exec_ostream(const std::vector<std::string> &w) {
    if (w[0] == "udump" && w.size() == 1) {
      std::string o = "bytes";
      for (int k = 0; k < kNS; ++k) o += " " + vh::hex(recs[k].data) + " @" + std::to_string((ull)recs[k].cur);
      return o;
    }
    if (destroyed || !os) return "bad-op";
    if (w[0] == "put" && w.size() == 2 && w[1].size() == 2) {
      os->put(vh::unhex(w[1])[0]);
    } else if (w[0] == "write" && (w.size() == 2 || w.size() == 3)) {
      std::string bs = vh::unhex(w[1]);
      if (w.size() == 3 && w[2] == "s") *os << bs;
      else os->write(bs.data(), bs.size());
    } else if (w[0] == "flush" && w.size() == 1) {
      os->flush();
    } else if (w[0] == "reattach" && w.size() == 1) {
      os->set_stream(&recs[attached]);
    } else if (w[0] == "sstream" && w.size() == 2) {
      size_t j = strtoull(w[1].c_str(), nullptr, 10);
      if (j >= (size_t)kNS) return "bad-op";
      os->set_stream(&recs[j]);
      attached = static_cast<int>(j);
    } else if (w[0] == "oveof" && w.size() == 1) {
      os->buf_.overflow(EOF);
    } else if (w[0] == "useek" && w.size() == 2) {
      recs[attached].Seek(strtoull(w[1].c_str(), nullptr, 10));
    } else if (w[0] == "destroy" && w.size() == 1) {
      os.reset();
      destroyed = true;
      return calls_since() + " destroyed";
    } else {
      return "bad-op";
    }
    std::string r = calls_since() + " bw=" + std::to_string((ull)os->bytes_written()) + " pp=" +
                    std::to_string(SbPeek::put_off(os->buf_)) + " a=" + std::to_string(attached);
    if (os->rdstate() != std::ios_base::goodbit) r += " st=" + std::to_string((int)os->rdstate());
    return r;
  }

  std::string istate() {
    // rdstate: libstdc++ badbit = 1, eofbit = 2, failbit = 4
    return " br=" + std::to_string((ull)is->bytes_read()) + " g=" +
           std::to_string(SbPeek::get_off(is->buf_)) + " e=" +
           std::to_string(SbPeek::get_end(is->buf_)) + " u=" + std::to_string((ull)recs[attached].cur) +
           " st=" + std::to_string((int)is->rdstate()) + " a=" + std::to_string(attached);
  }

  // `i`: through the std::istream member functions (sentry + state bits); otherwise through rdbuf()
  std::string exec_istream(const std::vector<std::string> &w) {
    if (!is) return "bad-op";
    bool via = w.back() == "i";
    size_t nargs = w.size() - ((w.back() == "r" || w.back() == "i") ? 1 : 0);
    if ((w[0] == "get" || w[0] == "peek") && nargs == 1) {
      int c;
      if (via) c = w[0] == "get" ? is->get() : is->peek();
      else c = w[0] == "get" ? is->rdbuf()->sbumpc() : is->rdbuf()->sgetc();
      if (c == EOF) return "c eof" + istate();
      return "c " + vh::hex(std::string(1, static_cast<char>(c))) + istate();
    }
    if (w[0] == "read" && nargs == 2) {
      size_t n = strtoull(w[1].c_str(), nullptr, 10);
      std::string dest(n, '\xEE');
      size_t k;
      if (via) {
        is->read(&dest[0], n);
        k = is->gcount();
      } else {
        k = is->rdbuf()->sgetn(&dest[0], n);
      }
      return "b " + vh::hex(dest.substr(0, k)) + istate();
    }
    if (w[0] == "clear" && w.size() == 1) {
      is->clear();
      return "ok" + istate();
    }
    if (w[0] == "sstream" && w.size() == 2) {
      size_t j = strtoull(w[1].c_str(), nullptr, 10);
      if (j >= nstreams) return "bad-op";
      attach_log.push_back(std::make_pair(static_cast<int>(j), recs[j].cur));
      is->set_stream(&recs[j]);
      attached = static_cast<int>(j);
      return "ok" + istate();
    }
    if (w[0] == "useek" && w.size() == 2) {
      recs[attached].Seek(strtoull(w[1].c_str(), nullptr, 10));
      return "ok" + istate();
    }
    if (w[0] == "useekat" && w.size() == 3) {
      size_t j = strtoull(w[1].c_str(), nullptr, 10);
      if (j >= nstreams) return "bad-op";
      recs[j].Seek(strtoull(w[2].c_str(), nullptr, 10));
      return "ok" + istate();
    }
    return "bad-op";
  }

  std::string exec(const std::vector<std::string> &w) override {
    ++cur_op;
    if (use_pre) return pre_i < pre.size() ? pre[pre_i++] : "bad-op";
    if (w.empty()) return "bad-op";
    if (kind == kNone) {
      if (w[0] != "open") return "bad-op";
      if (w.size() == 3 && w[1] == "memstr") {
        str = vh::unhex(w[2]);
        str.reserve(64);  // heap storage: an access in front of the buffer hits an ASan redzone
        strm.reset(new dmlc::MemoryStringStream(&str));
        kind = kMemStr;
        return "ok";
      }
      if (w.size() == 3 && w[1] == "memfixed") {
        std::string b = vh::unhex(w[2]);
        std::vector<char>(b.begin(), b.end()).swap(fbuf);
        strm.reset(new dmlc::MemoryFixedSizeStream(fbuf.data(), fbuf.size()));
        kind = kMemFixed;
        return "ok";
      }
      if (w.size() == 3 && (w[1] == "file" || w[1] == "filew")) {
        // `file`: existing content, opened "r+"; `filew`: the same file opened "w+" (truncated: an empty byte array)
        path = out_dir + "/c19_file.bin";
        std::string b = vh::unhex(w[2]);
        FILE *f = fopen(path.c_str(), "wb");
        if (!f) { perror("tmp file"); exit(3); }
        if (!b.empty() && fwrite(b.data(), 1, b.size(), f) != b.size()) { perror("tmp file"); exit(3); }
        fclose(f);
        dmlc::Stream *st = dmlc::Stream::Create(path.c_str(), w[1] == "file" ? "r+" : "w+");
        dmlc::SeekStream *ss = dynamic_cast<dmlc::SeekStream *>(st);
        if (!ss) { fprintf(stderr, "Stream::Create did not return a SeekStream\n"); exit(3); }
        strm.reset(ss);
        kind = kFile;
        return "ok";
      }
      if (w.size() == 4 && w[1] == "filebig") {
        // a file of <len> pseudo-random bytes (several MiB: requests larger than any internal piece size), opened "r+"
        path = out_dir + "/c19_file.bin";
        std::string b = lcg_bytes(strtoull(w[2].c_str(), nullptr, 10), strtoull(w[3].c_str(), nullptr, 10));
        FILE *f = fopen(path.c_str(), "wb");
        if (!f) { perror("tmp file"); exit(3); }
        if (!b.empty() && fwrite(b.data(), 1, b.size(), f) != b.size()) { perror("tmp file"); exit(3); }
        fclose(f);
        dmlc::SeekStream *ss = dynamic_cast<dmlc::SeekStream *>(dmlc::Stream::Create(path.c_str(), "r+"));
        if (!ss) { fprintf(stderr, "Stream::Create did not return a SeekStream\n"); exit(3); }
        strm.reset(ss);
        kind = kFile;
        return "ok";
      }
      if (w.size() == 3 && (w[1] == "filer" || w[1] == "filewo")) {
        // the other ways into LocalFileSystem::Open: a "file://" URI, mode "r" through SeekStream::CreateForRead
        // (`filer`: existing content, read only) and mode "w" through Stream::Create (`filewo`: truncated, write only)
        path = out_dir + "/c19_file.bin";
        std::string b = vh::unhex(w[2]);
        FILE *f = fopen(path.c_str(), "wb");
        if (!f) { perror("tmp file"); exit(3); }
        if (!b.empty() && fwrite(b.data(), 1, b.size(), f) != b.size()) { perror("tmp file"); exit(3); }
        fclose(f);
        std::string uri = "file://" + path;
        dmlc::SeekStream *ss = w[1] == "filer" ? dmlc::SeekStream::CreateForRead(uri.c_str())
                                                : dynamic_cast<dmlc::SeekStream *>(dmlc::Stream::Create(uri.c_str(), "w"));
        if (!ss) { fprintf(stderr, "no SeekStream for %s\n", uri.c_str()); exit(3); }
        strm.reset(ss);
        kind = kFile;
        return "ok";
      }
      if (w.size() == 3 && w[1] == "ostream") {
        os.reset(new dmlc::ostream(&recs[0], strtoull(w[2].c_str(), nullptr, 10)));
        kind = kOStream;
        return "ok";
      }
      if (w.size() >= 4 && w.size() <= 3 + (size_t)kNS && w[1] == "istream") {
        nstreams = w.size() - 3;
        for (size_t k = 0; k < nstreams; ++k) recs[k].data = vh::unhex(w[3 + k]);
        is.reset(new dmlc::istream(&recs[0], strtoull(w[2].c_str(), nullptr, 10)));
        kind = kIStream;
        return "ok";
      }
      return "bad-op";
    }
    if (kind == kOStream) return exec_ostream(w);
    if (kind == kIStream) return exec_istream(w);
    return exec_store(w);
  }

  // ---- oracle ------------------------------------------------------------------------------
  static bool starts(const std::string &s, const char *p) { return s.compare(0, strlen(p), p) == 0; }
  static std::string tail_at(const std::string &s) {
    size_t i = s.rfind(" @");
    return i == std::string::npos ? "" : s.substr(i);
  }

  void oracle_store(const Case &c, const std::vector<std::string> &res, std::vector<std::string> *fail) {
    auto w0 = vh::split_ws(c.ops[0]);
    Ref r;
    r.kind = w0[1] == "memstr" ? kMemStr : w0[1] == "memfixed" ? kMemFixed : kFile;
    r.data = (w0[1] == "filew" || w0[1] == "filewo") ? std::string() : vh::unhex(w0[2]);
    if (w0[1] == "filebig") r.data = lcg_bytes(strtoull(w0[2].c_str(), nullptr, 10), strtoull(w0[3].c_str(), nullptr, 10));
    bool closed = false;
    for (size_t i = 1; i < c.ops.size(); ++i) {
      auto w = vh::split_ws(c.ops[i]);
      const std::string &got = res[i];
      std::string want, cls = "none";
      bool raise = false, loose_ret = false;
      const uint64_t len = r.data.size();
      std::string at = " @" + std::to_string((ull)r.cur);
      if (w[0] == "dump") {
        if (r.kind == kFile && !closed) continue;
        want = "bytes " + vh::hex(r.data);
      } else if (w[0] == "close" && r.kind == kFile) {
        closed = true;
        want = "ok";
      } else if (closed) {
        continue;
      } else if (w[0] == "tell") {
        want = "pos " + std::to_string((ull)r.cur);
      } else if (w[0] == "seek" && w.size() == 2) {
        uint64_t p = strtoull(w[1].c_str(), nullptr, 10);
        if (r.kind == kFile && p >= (1ull << 63)) {
          raise = true;
        } else {
          r.cur = p;
          want = "ok @" + std::to_string((ull)p);
        }
      } else if (w[0] == "readh" && w.size() == 2) {
        uint64_t n = strtoull(w[1].c_str(), nullptr, 10);
        uint64_t k = r.cur > len ? 0 : std::min<uint64_t>(n, len - r.cur);
        want = "rh " + std::to_string((ull)k) + " " + fnv_hex(r.data.data() + (k ? r.cur : 0), k) + " @" + std::to_string((ull)(r.cur + k));
        r.cur += k;
      } else if (w[0] == "read" && w.size() == 2) {
        uint64_t n = strtoull(w[1].c_str(), nullptr, 10);
        if (got == "ub:oob" && n > 0 && n > kTop - r.cur && r.kind == kMemFixed) cls = "memfixed-wrap-oob";
        if (r.cur > len) {
          if (r.kind == kFile) want = "r 0 -" + at;
          else raise = true;  // documented contract of the memory streams: CHECK(curr_ptr_ <= size)
        } else {
          uint64_t k = std::min<uint64_t>(n, len - r.cur);
          if (r.kind == kMemFixed && n > len - r.cur && got == "err:check" + at) cls = "memfixed-read-raises";
          want = "r " + std::to_string((ull)k) + " " + vh::hex(r.data.substr(r.cur, k)) + " @" +
                 std::to_string((ull)(r.cur + k));
          r.cur += k;
        }
      } else if (w[0] == "write" && w.size() == 2) {
        std::string bs = vh::unhex(w[1]);
        uint64_t n = bs.size();
        bool wraps = n > 0 && n > kTop - r.cur;
        if (got == "ub:oob" && wraps && r.kind == kMemFixed) cls = "memfixed-wrap-oob";
        if (got == "ub:oob" && wraps && r.kind == kMemStr) cls = "memstr-wrap-oob";
        if (n == 0) {
          want = "w 0" + at;
        } else if (r.kind == kMemFixed && (r.cur > len || n > len - r.cur)) {
          raise = true;
        } else if (r.kind == kMemStr && (wraps || r.cur + n > str_max)) {
          raise = true;
        } else {
          if (r.data.size() < r.cur) r.data.resize(r.cur, '\0');
          if (r.data.size() < r.cur + n) r.data.resize(r.cur + n, '\0');
          memcpy(&r.data[r.cur], bs.data(), n);
          r.cur += n;
          want = "w " + std::to_string((ull)n) + " @" + std::to_string((ull)r.cur);
          loose_ret = r.kind == kFile;  // the value FileStream::Write returns is not part of C19
        }
      } else {
        continue;
      }
      bool ok;
      if (raise) ok = starts(got, "err:") && tail_at(got) == at;
      else if (loose_ret) ok = starts(got, "w ") && tail_at(got) == tail_at(want);
      else ok = got == want;
      if (!ok) {
        fail->push_back("class=" + cls + " prop=C19 " + w0[1] + " op " + std::to_string(i) + " `" + c.ops[i].substr(0, 60) +
                        "`: got `" + got.substr(0, 80) + "`, byte-array reference " +
                        (raise ? "requires an exception and an unchanged cursor" + at : "gives `" + want.substr(0, 80) + "`"));
        return;  // the states have diverged: later differences are consequences
      }
    }
  }

  // "calls n j:hex j:hex ..." -> (stream, bytes) pairs
  static std::vector<std::pair<int, std::string>> call_list(const std::string &r) {
    auto w = vh::split_ws(r);
    std::vector<std::pair<int, std::string>> cs;
    if (w.size() < 2 || w[0] != "calls") return cs;
    size_t n = strtoull(w[1].c_str(), nullptr, 10);
    for (size_t i = 0; i < n && 2 + i < w.size(); ++i) {
      size_t colon = w[2 + i].find(':');
      if (colon == std::string::npos) { cs.push_back(std::make_pair(-1, std::string())); continue; }
      cs.push_back(std::make_pair(atoi(w[2 + i].c_str()), vh::unhex(w[2 + i].substr(colon + 1))));
    }
    return cs;
  }
  static long long field(const std::string &r, const char *key) {
    size_t i = r.find(key);
    return i == std::string::npos ? -1 : atoll(r.c_str() + i + strlen(key));
  }

  // every stream receives exactly the bytes inserted while it was attached, in order, complete after
  // flush / set_stream / destruction; bytes_written() counts all bytes handed over
  void oracle_ostream(const Case &c, const std::vector<std::string> &res, std::vector<std::string> *fail) {
    std::string inserted[kNS], received[kNS];
    int a = 0;
    bool seeks = false;
    for (size_t i = 1; i < c.ops.size(); ++i) {
      auto w = vh::split_ws(c.ops[i]);
      const std::string &got = res[i];
      if (got == "bad-op") continue;
      if (w[0] == "udump") {
        std::string want = "bytes";
        for (int k = 0; k < kNS; ++k) want += " " + vh::hex(inserted[k]) + " @" + std::to_string((ull)inserted[k].size());
        if (!seeks && destroyed && got != want)
          fail->push_back("class=none prop=C19 ostream: wrapped streams hold `" + got.substr(0, 90) + "` after destruction, expected `" +
                          want.substr(0, 90) + "`");
        continue;
      }
      if (!starts(got, "calls ")) {
        fail->push_back("class=none prop=C19 ostream op " + std::to_string(i) + " `" + c.ops[i].substr(0, 40) + "`: " + got);
        return;
      }
      const int a0 = a;
      if (w[0] == "put") inserted[a0] += vh::unhex(w[1]);
      if (w[0] == "write") inserted[a0] += vh::unhex(w[1]);
      if (w[0] == "useek") seeks = true;
      if (w[0] == "sstream") a = atoi(w[1].c_str());
      std::string msg;
      size_t total = 0;
      for (auto &x : call_list(got)) {
        if (x.first != a0) msg = "a Write call went to stream " + std::to_string(x.first) + " while stream " + std::to_string(a0) + " was attached";
        else received[a0] += x.second;
      }
      for (int k = 0; k < kNS; ++k) total += received[k].size();
      bool synced = w[0] == "flush" || w[0] == "destroy" || w[0] == "reattach" || w[0] == "oveof" || w[0] == "sstream";
      if (!msg.empty()) {
      } else if (received[a0].size() > inserted[a0].size() || inserted[a0].compare(0, received[a0].size(), received[a0]) != 0)
        msg = "bytes handed to stream " + std::to_string(a0) + " are not a prefix of the bytes inserted while it was attached";
      else if (synced && received[a0] != inserted[a0])
        msg = "after " + w[0] + " stream " + std::to_string(a0) + " has received " + std::to_string(received[a0].size()) + " of " +
              std::to_string(inserted[a0].size()) + " bytes inserted while it was attached";
      else if (w[0] != "destroy" && field(got, "bw=") != (long long)total)
        msg = "bytes_written() = " + std::to_string(field(got, "bw=")) + ", streams received " + std::to_string(total);
      else if (w[0] != "destroy" && field(got, " a=") != a)
        msg = "wrong stream attached";
      else if (got.find(" st=") != std::string::npos)
        msg = "ostream left the good state";
      if (!msg.empty()) {
        fail->push_back("class=none prop=C19 ostream op " + std::to_string(i) + " `" + c.ops[i].substr(0, 40) + "`: " + msg);
        return;
      }
    }
  }

  // in-order consumer over what each attached stream provides from the moment it is attached; state bits as
  // documented for std::istream (get: eof|fail at the end, peek: eof, read: eof|fail when short, a stream that
  // is not good() delivers nothing and sets failbit); set_stream "resets states"
  void oracle_istream(const Case &c, const std::vector<std::string> &res, std::vector<std::string> *fail) {
    auto w0 = vh::split_ws(c.ops[0]);
    std::vector<std::string> data;
    for (size_t k = 3; k < w0.size(); ++k) data.push_back(vh::unhex(w0[k]));
    std::string rest = data[0];
    bool known = true;           // false after the attached stream was repositioned behind the adaptor's back
    bool eofb = false, failb = false;
    int a = 0;
    size_t extracted = 0, lost = 0, nattach = 0;
    long long prev_buffered = 0;
    for (size_t i = 1; i < c.ops.size(); ++i) {
      auto w = vh::split_ws(c.ops[i]);
      const std::string &got = res[i];
      if (got == "bad-op") continue;
      std::string msg;
      auto gw = vh::split_ws(got);
      const bool via = w.back() == "i";
      long long br = field(got, " br="), g = field(got, " g="), e = field(got, " e="), st = field(got, " st=");
      if (w[0] == "useek" || (w[0] == "useekat" && atoi(w[1].c_str()) == a)) {
        known = false;
      } else if (w[0] == "useekat") {
      } else if (w[0] == "clear") {
        eofb = failb = false;
      } else if (w[0] == "sstream") {
        size_t j = strtoull(w[1].c_str(), nullptr, 10);
        if (nattach >= attach_log.size() || attach_log[nattach].first != (int)j) { msg = "harness attach log out of step"; }
        else {
          size_t pos = attach_log[nattach++].second;
          rest = pos < data[j].size() ? data[j].substr(pos) : "";
          known = true;
          eofb = failb = false;
          a = static_cast<int>(j);
          lost += prev_buffered;
        }
      } else if (gw.size() < 2 || (gw[0] != "c" && gw[0] != "b")) {
        msg = got;
      } else if (w[0] == "get" || w[0] == "peek" || w[0] == "read") {
        const bool blocked = via && (eofb || failb);
        const bool isread = w[0] == "read";
        size_t n = isread ? strtoull(w[1].c_str(), nullptr, 10) : 1;
        std::string b = gw[1] == "eof" ? "" : vh::unhex(gw[1]);
        if (w[0] != "peek") extracted += b.size();
        if (blocked) {
          failb = true;
          if (!b.empty()) msg = "a stream that is not good() delivered bytes";
        } else if (known) {
          std::string want = rest.substr(0, n);
          if (b != want)
            msg = "delivered " + gw[1].substr(0, 60) + ", the attached stream provides " + (want.empty() ? "nothing (EOF)" : vh::hex(want).substr(0, 60));
          if (w[0] != "peek") rest = rest.substr(want.size());
          if (via) {
            if (w[0] == "get" && want.empty()) eofb = failb = true;
            if (w[0] == "peek" && want.empty()) eofb = true;
            if (isread && want.size() != n) eofb = failb = true;
          }
        } else {
          if (b.size() > n) msg = "more bytes than requested";
          eofb = (st & 2) != 0;   // cannot be predicted: resynchronise
          failb = (st & 4) != 0;
        }
      }
      if (msg.empty()) {
        long long want_st = (eofb ? 2 : 0) + (failb ? 4 : 0);
        if (st != want_st) msg = "rdstate() = " + std::to_string(st) + ", expected " + std::to_string(want_st) + " (eofbit=2, failbit=4)";
        else if (field(got, " a=") != a) msg = "wrong stream attached";
        else if (br < (long long)(extracted + lost)) msg = "bytes_read() smaller than the number of bytes extracted";
        else if (e - g != br - (long long)extracted - (long long)lost) msg = "bytes_read() != extracted + buffered + dropped by set_stream";
      }
      prev_buffered = e - g;
      if (!msg.empty()) {
        fail->push_back("class=none prop=C19 istream op " + std::to_string(i) + " `" + c.ops[i].substr(0, 40) + "`: " + msg);
        return;
      }
    }
    size_t total_r = 0;
    for (int k = 0; k < kNS; ++k) total_r += recs[k].total_r;
    if (is && (size_t)is->bytes_read() != total_r)
      fail->push_back("class=none prop=C19 istream: bytes_read() = " + std::to_string((ull)is->bytes_read()) +
                      ", streams delivered " + std::to_string((ull)total_r));
  }

  void end_case(const Case &c, const std::vector<std::string> &res, std::vector<std::string> *fail) override {
    if (c.ops.empty()) return;
    auto w0 = vh::split_ws(c.ops[0]);
    if (w0.size() < 3 || w0[0] != "open" || res[0] != "ok") return;
    if (w0[1] == "filebig" && w0.size() == 4) { oracle_store(c, res, fail); return; }
    if (w0[1] == "memstr" || w0[1] == "memfixed" || w0[1] == "file" || w0[1] == "filew" || w0[1] == "filer" || w0[1] == "filewo")
      oracle_store(c, res, fail);
    else if (w0[1] == "ostream") oracle_ostream(c, res, fail);
    else if (w0[1] == "istream" && w0.size() >= 4) oracle_istream(c, res, fail);
  }

  std::string shape(const Case &c, const std::vector<std::string> &res) override {
    if (c.ops.size() < 2) return "";
    auto w0 = vh::split_ws(c.ops[0]);
    if (w0.size() < 2) return "";
    std::string s = w0[1];
    bool err = false, ub = false, big = false, shortr = false, over = false, multi = false, eof = false;
    for (size_t i = 1; i < c.ops.size(); ++i) {
      const std::string &r = res[i];
      if (starts(r, "err:")) err = true;
      if (r == "ub:oob") ub = true;
      if (c.ops[i].size() > 22 && starts(c.ops[i], "seek ")) big = true;
      if (starts(c.ops[i], "read ") && starts(r, "r ")) {
        auto w = vh::split_ws(c.ops[i]);
        auto g = vh::split_ws(r);
        if (g.size() > 1 && w[1] != g[1]) shortr = true;
      }
      if (starts(r, "calls ") && !starts(r, "calls 0")) over = true;
      if (starts(r, "calls ") && !starts(r, "calls 0") && !starts(r, "calls 1")) multi = true;
      if (starts(r, "c eof")) eof = true;
    }
    if (w0[1] == "ostream" || w0[1] == "istream") s += w0[2] == "0" ? "+buf0" : w0[2] == "1" ? "+buf1" : w0[2] == "1024" ? "+buf1024" : "+bufN";
    if (err) s += "+raise";
    if (ub) s += "+ub";
    if (big) s += "+hugepos";
    if (shortr) s += "+short-read";
    if (over) s += "+stream-write";
    if (multi) s += "+multi-call";
    if (eof) s += "+eof";
    if (c.ops.size() > 50) s += "+long";
    return s;
  }
};

// If a sanitizer kills the harness itself (an adaptor case: those run in-process), complete the record of
// the case being executed in ops.txt, so that the check reports exactly that case as the replay.
static vh::Runner *g_R = nullptr;
static StreamsHarness *g_H = nullptr;
static void on_sanitizer_death() {
  if (!g_R || !g_H || g_H->is_worker || !g_H->cur_case || !g_R->f_ops) return;
  const Case &c = *g_H->cur_case;
  for (size_t i = g_H->cur_op ? g_H->cur_op - 1 : 0; i < c.ops.size(); ++i) {
    fputs(c.ops[i].c_str(), g_R->f_ops);
    fputc('\n', g_R->f_ops);
  }
  fflush(g_R->f_ops);
  if (g_R->f_impl) fflush(g_R->f_impl);
}

// ------------------------------------------------------------------------------------------------
// generators
// ------------------------------------------------------------------------------------------------
static std::string U(uint64_t v) { return std::to_string((ull)v); }

static std::string rand_bytes(vh::Rng &rng, size_t n) {
  std::string s(n, 0);
  for (auto &ch : s) ch = static_cast<char>(rng.chance(1, 8) ? (rng.chance(1, 2) ? 0xff : 0) : 'a' + rng.below(26));
  return s;
}

// all sequences of length 1..depth over `alpha`
template <typename F>
static void sequences(const std::vector<std::string> &alpha, size_t depth, F f) {
  std::vector<size_t> idx;
  std::function<void()> rec = [&]() {
    if (!idx.empty()) {
      std::vector<std::string> ops;
      for (size_t i : idx) ops.push_back(alpha[i]);
      f(ops);
    }
    if (idx.size() == depth) return;
    for (size_t a = 0; a < alpha.size(); ++a) {
      idx.push_back(a);
      rec();
      idx.pop_back();
    }
  };
  rec();
}

int main(int argc, char **argv) {
  vh::Runner R;
  R.parse(argc, argv);
  StreamsHarness H;
  H.out_dir = R.out_dir;
  R.h = &H;
  g_R = &R;
  g_H = &H;
  __sanitizer_set_death_callback(on_sanitizer_death);
  if (H.str_max != 4611686018427387903ull) {
    fprintf(stderr, "std::string::max_size() = %llu differs from the model constant strMax\n", (ull)H.str_max);
    return 3;
  }
  auto done = [&]() {
    H.reap_worker();
    R.extra["worker_processes"] = H.n_forks;
    R.extra["cases_skipped_after_ub_cap"] = H.n_skipped;
    R.extra["ub_outcomes"] = H.n_ub;
    R.finish();
    if (!H.path.empty()) remove(H.path.c_str());
    return 0;
  };
  if (R.run_replay()) return done();
  vh::Rng rng(R.seed);
  const bool T = R.thorough();
  if (T) H.ub_cap = 600;
  auto run = [&](const Case &c) {
    if (H.skip_case(c)) { ++H.n_skipped; return; }
    R.run_case(c);
  };
  const uint64_t P63 = 1ull << 63;

  // ---- (0) corpus: the canonical histories of the findings C19-F1..F3 and a few plain ones --------------
  {
    const char *corpus[][6] = {
        {"open memfixed 30313233", "seek 2", "read 5", "tell", "dump", nullptr},
        {"open memfixed 30313233", "seek 18446744073709551614", "write 01020304", "dump", nullptr, nullptr},
        {"open memstr 414243", "seek 18446744073709551614", "write 626364", "dump", nullptr, nullptr},
        {"open memfixed 30313233", "seek 5", "read 18446744073709551615", "dump", nullptr, nullptr},
        {"open memstr -", "write 616263", "seek 1", "read 5", "dump", nullptr},
        {"open file 4142", "seek 4", "write 7a", "close", "dump", nullptr},
    };
    for (auto &row : corpus) {
      Case c;
      c.kind = "corpus";
      for (const char *op : row)
        if (op) c.ops.push_back(op);
      run(c);
    }
  }
  // ---- (1) the three stores: exhaustive short histories ------------------------------------------
  struct Cfg { const char *open; size_t len; };
  const std::vector<Cfg> cfgs = {{"open memstr -", 0},          {"open memstr 414243", 3},  {"open memfixed 30313233", 4},
                                 {"open memfixed -", 0},        {"open memfixed 30", 1},    {"open file 4142", 2},
                                 {"open file -", 0},            {"open filew 4142", 0}};
  for (size_t ci = 0; ci < cfgs.size(); ++ci) {
    const Cfg &cf = cfgs[ci];
    const bool file = strstr(cf.open, "file") != nullptr;
    std::vector<std::string> full = {"read 2", "read 5", "write 61", "write 626364", "tell", "seek 0", "seek 2",
                                     "seek " + U(cf.len ? cf.len - 1 : 1), "seek " + U(cf.len), "seek " + U(cf.len + 1),
                                     "seek " + U(P63), "seek " + U(kTop - 1)};
    if (!file) {
      full.push_back("seek " + U(kTop));
      full.push_back("read " + U(kTop));
    }
    std::sort(full.begin(), full.end());
    full.erase(std::unique(full.begin(), full.end()), full.end());
    const bool primary = ci == 0 || ci == 2 || ci == 5;
    size_t depth = T ? 4 : 3;
    sequences(full, depth, [&](const std::vector<std::string> &ops) {
      Case c;
      c.kind = std::string(cf.open + 5, strcspn(cf.open + 5, " ")) + " exhaustive";
      c.ops.push_back(cf.open);
      for (auto &o : ops) c.ops.push_back(o);
      if (file) c.ops.push_back("close");
      c.ops.push_back("dump");
      run(c);
    });
    // deeper over a small alphabet
    if (primary) {
      std::vector<std::string> small = {"read 2", "write 6162", "seek 1", "seek 3", file ? "seek " + U(P63) : "seek " + U(kTop)};
      if (!file) small.push_back("write 7a");
      sequences(small, T ? 6 : 5, [&](const std::vector<std::string> &ops) {
        if (ops.size() < 4) return;
        Case c;
        c.kind = std::string(cf.open + 5, strcspn(cf.open + 5, " ")) + " exhaustive-deep";
        c.ops.push_back(cf.open);
        for (auto &o : ops) c.ops.push_back(o);
        if (file) c.ops.push_back("close");
        c.ops.push_back("dump");
        run(c);
      });
    }
  }
  // ---- (2) the three stores: long random histories -----------------------------------------------
  for (int k = 0; k < 3; ++k) {
    size_t ncases = T ? 150 : 25;
    for (size_t it = 0; it < ncases; ++it) {
      Case c;
      const char *name = k == 0 ? "memstr" : k == 1 ? "memfixed" : (it % 3 == 2 ? "filew" : "file");
      c.kind = std::string(name) + " random";
      size_t init = k == 1 ? rng.below(rng.chance(1, 4) ? 300 : 40) : rng.below(20);
      std::string content = rand_bytes(rng, init);
      c.ops.push_back(std::string("open ") + name + " " + vh::hex(content));
      if (k == 2 && it % 3 == 2) init = 0;
      uint64_t len = init, cur = 0;  // rough tracking, only to aim positions near the end
      size_t nops = (T ? 400 : 150) + rng.below(it % 5 == 0 ? (T ? 6000 : 2500) : 300);
      for (size_t j = 0; j < nops; ++j) {
        unsigned d = rng.below(100);
        if (d < 30) {
          uint64_t n = rng.chance(1, 12) ? rng.below(400) : rng.below(24);
          if (k != 2 && rng.chance(1, 40)) n = rng.chance(1, 2) ? kTop : P63 + rng.below(5);
          c.ops.push_back("read " + U(n));
          if (cur <= len) cur += std::min<uint64_t>(n, len - cur);
        } else if (d < 62) {
          size_t n = rng.chance(1, 15) ? rng.below(300) : rng.below(20);
          c.ops.push_back("write " + vh::hex(rand_bytes(rng, n)));
          bool fits = k != 1 || (cur <= len && n <= len - cur);
          if (n && fits && cur < P63) { cur += n; len = std::max(len, cur); }
        } else if (d < 92) {
          uint64_t p;
          unsigned e = rng.below(20);
          if (e < 8) p = rng.below(len + 1);
          else if (e < 11) p = len;
          else if (e < 13) p = len + 1 + rng.below(k == 1 ? 3 : 6);
          else if (e < 15) p = len ? len - 1 : 0;
          else if (e < 16) p = 0;
          else if (e < 17) p = P63 + rng.below(3);
          else if (e < 19) p = kTop - rng.below(k == 2 ? 3 : 17);
          else p = cur + rng.below(3);
          c.ops.push_back("seek " + U(p));
          if (k != 2 || p < P63) cur = p;
        } else if (d < 97) {
          c.ops.push_back("tell");
        } else if (k != 2) {
          c.ops.push_back("dump");
        } else {
          c.ops.push_back("tell");
        }
      }
      if (k == 2) c.ops.push_back("close");
      c.ops.push_back("dump");
      run(c);
    }
  }
  // ---- (2b) read-only / write-only local files opened through "file://" URIs ---------------------------
  for (int k = 0; k < 2; ++k) {
    size_t ncases = T ? 60 : 12;
    for (size_t it = 0; it < ncases; ++it) {
      Case c;
      const char *name = k == 0 ? "filer" : "filewo";
      c.kind = std::string(name) + " random";
      size_t init = rng.below(rng.chance(1, 4) ? 300 : 30);
      c.ops.push_back(std::string("open ") + name + " " + vh::hex(rand_bytes(rng, init)));
      uint64_t len = k == 0 ? init : 0, cur = 0;
      size_t nops = 40 + rng.below(T ? 600 : 200);
      for (size_t j = 0; j < nops; ++j) {
        unsigned d = rng.below(100);
        if (d < 55) {
          if (k == 0) {
            uint64_t n = rng.chance(1, 12) ? rng.below(400) : rng.below(24);
            c.ops.push_back("read " + U(n));
            if (cur <= len) cur += std::min<uint64_t>(n, len - cur);
          } else {
            size_t n = rng.chance(1, 15) ? rng.below(300) : rng.below(20);
            c.ops.push_back("write " + vh::hex(rand_bytes(rng, n)));
            if (n) { cur += n; len = std::max(len, cur); }
          }
        } else if (d < 90) {
          uint64_t p = rng.chance(1, 6) ? len + 1 + rng.below(5) : rng.below(len + 1);
          c.ops.push_back("seek " + U(p));
          cur = p;
        } else {
          c.ops.push_back("tell");
        }
      }
      c.ops.push_back("close");
      c.ops.push_back("dump");
      run(c);
    }
  }
  // ---- (2c) files of several MiB, requests of more than a MiB (results compared as hashes) ----------------
  {
    const uint64_t MiB = 1u << 20;
    size_t ncases = T ? 8 : 3;
    for (size_t it = 0; it < ncases; ++it) {
      Case c;
      c.kind = "filebig random";
      uint64_t len = it == 0 ? 2 * MiB + MiB / 2 : it == 1 ? 2 * MiB : MiB + 1 + rng.below(3 * MiB);
      c.ops.push_back("open filebig " + U(len) + " " + U(rng.next() >> 1));
      c.ops.push_back("readh " + U(4 * MiB));                 // one request for more than the whole file
      c.ops.push_back("tell");
      c.ops.push_back("readh 5");                             // at the end: 0 bytes
      for (int j = 0; j < 6; ++j) {
        uint64_t p = rng.below(len + 1);
        c.ops.push_back("seek " + U(p));
        c.ops.push_back("readh " + U(rng.chance(1, 2) ? MiB + rng.below(2 * MiB) : rng.below(3) * MiB + rng.below(7)));
        c.ops.push_back("tell");
      }
      c.ops.push_back("seek " + U(len - 3));
      c.ops.push_back("write 010203040506");                  // grows the file by 3 bytes
      c.ops.push_back("seek " + U(MiB - 2));
      c.ops.push_back("readh " + U(3 * MiB));
      c.ops.push_back("close");
      run(c);
    }
  }
  // ---- (3) dmlc::ostream ---------------------------------------------------------------------------
  std::vector<size_t> bufsizes;
  for (size_t b = 0; b <= 17; ++b) bufsizes.push_back(b);
  bufsizes.push_back(1024);
  for (size_t b : bufsizes) {
    size_t cap = b == 0 ? 2 : b;
    std::set<size_t> lens = {0, 1, 2, cap - 1, cap, cap + 1, 2 * cap + 1};
    std::vector<std::string> alpha = {"put 61", "put ff", "flush", "reattach", "oveof", "useek 0", "sstream 1", "sstream 0"};
    int tag = 0;
    for (size_t n : lens) {
      std::string s;
      for (size_t i = 0; i < n; ++i) s.push_back(static_cast<char>('A' + (i + tag) % 26));
      if (n >= 2) s[n / 2] = '\xff';
      alpha.push_back("write " + vh::hex(s) + (tag % 2 ? " s" : " w"));
      ++tag;
    }
    size_t depth = T ? (b <= 3 ? 4 : 3) : ((b <= 4 || b == 17) ? 3 : 2);
    if (b == 1024) depth = T ? 3 : 2;
    sequences(alpha, depth, [&](const std::vector<std::string> &ops) {
      Case c;
      c.kind = "ostream exhaustive";
      c.ops.push_back("open ostream " + U(b));
      for (auto &o : ops) c.ops.push_back(o);
      c.ops.push_back("destroy");
      c.ops.push_back("udump");
      run(c);
    });
    size_t nr = T ? 60 : 12;
    for (size_t it = 0; it < nr; ++it) {
      Case c;
      c.kind = "ostream random";
      c.ops.push_back("open ostream " + U(b));
      size_t nops = 20 + rng.below(it % 4 == 0 ? 600 : 60);
      bool allow_seek = it % 3 == 0;
      for (size_t j = 0; j < nops; ++j) {
        unsigned d = rng.below(100);
        if (d < 35) c.ops.push_back("put " + vh::hex(rand_bytes(rng, 1)));
        else if (d < 80) {
          size_t n = rng.chance(1, 6) ? rng.below(3 * cap + 2) : rng.below(std::min<size_t>(cap + 3, 40));
          if (b == 1024 && rng.chance(1, 5)) n = 1020 + rng.below(10) + (rng.chance(1, 3) ? 1024 : 0);
          c.ops.push_back("write " + vh::hex(rand_bytes(rng, n)) + (rng.chance(1, 2) ? " s" : " w"));
        } else if (d < 90) c.ops.push_back("flush");
        else if (d < 92) c.ops.push_back("reattach");
        else if (d < 94) c.ops.push_back("sstream " + U(rng.below(3)));
        else if (d < 95) c.ops.push_back("oveof");
        else if (allow_seek) c.ops.push_back("useek " + U(rng.below(30)));
        else c.ops.push_back("flush");
      }
      if (rng.chance(3, 4)) c.ops.push_back("destroy");
      c.ops.push_back("udump");
      run(c);
    }
  }
  // ---- (4) dmlc::istream ---------------------------------------------------------------------------
  for (size_t b : bufsizes) {
    size_t cap = b == 0 ? 2 : b;
    std::set<size_t> dlens = {0, 1, 2, cap - 1, cap, cap + 1, 2 * cap, 2 * cap + 1};
    if (b != 1024) dlens.insert(37);
    std::vector<std::string> alpha = {"get i", "get r", "peek i", "read 0 i", "read 1 r", "read 2 i",
                                      "read " + U(cap) + " r", "read " + U(cap + 1) + " i", "read 5000 i", "clear", "sstream 1",
                                      "useek 0", "useek 1"};
    // streams 1 and 2 of every istream case
    std::string d1, d2 = "Q";
    for (size_t i = 0; i < cap + 2; ++i) d1.push_back(static_cast<char>(i == 1 ? 0xff : 'A' + i % 26));
    const std::string others = " " + vh::hex(d1) + " " + vh::hex(d2);
    // set_stream scenarios: before EOF, exactly at EOF, after EOF (state bits set), to the same stream after Seek,
    // to another stream, several switches
    for (size_t dl : std::set<size_t>{0, 1, cap, cap + 1, 2 * cap + 1}) {
      std::string data;
      for (size_t i = 0; i < dl; ++i) data.push_back(static_cast<char>(i % 7 == 3 ? 0xff : 'a' + i % 26));
      const std::vector<std::vector<std::string>> before = {
          {}, {"get i"}, {"read " + U(cap) + " i"}, {"read " + U(dl) + " i"}, {"read " + U(dl) + " r", "peek i"},
          {"read 5000 i"}, {"read 5000 i", "get i"}, {"read 5000 r", "get i"}, {"peek i"}};
      const std::vector<std::vector<std::string>> sw = {
          {"sstream 1"}, {"sstream 0"}, {"useek 0", "sstream 0"}, {"useekat 0 1", "sstream 0"}, {"sstream 1", "sstream 2"},
          {"sstream 1", "read 2 i", "useekat 0 0", "sstream 0"}, {"sstream 2", "read 5000 i", "sstream 1"},
          {"useekat 1 " + U(cap + 2), "sstream 1"}};
      const std::vector<std::vector<std::string>> after = {{"get i"}, {"read 5000 i"}, {"peek i", "get r"}, {"read " + U(cap + 1) + " i", "get i"}};
      for (auto &pb : before)
        for (auto &ps : sw)
          for (auto &pa : after) {
            Case c;
            c.kind = "istream set_stream";
            c.ops.push_back("open istream " + U(b) + " " + vh::hex(data) + others);
            for (auto &o : pb) c.ops.push_back(o);
            for (auto &o : ps) c.ops.push_back(o);
            for (auto &o : pa) c.ops.push_back(o);
            c.ops.push_back("read 5000 r");
            c.ops.push_back("get i");
            run(c);
          }
    }
    for (size_t dl : dlens) {
      std::string data;
      for (size_t i = 0; i < dl; ++i) data.push_back(static_cast<char>(i % 7 == 3 ? 0xff : 'a' + i % 26));
      alpha.back() = "useek " + U(dl);
      const bool edge = dl == cap + 1 || dl == 2 * cap + 1;
      size_t depth = T ? ((b <= 3 && edge) ? 4 : 3) : (((b <= 3 || b == 5) && edge) ? 3 : 2);
      if (b == 1024) depth = 2;
      sequences(alpha, depth, [&](const std::vector<std::string> &ops) {
        Case c;
        c.kind = "istream exhaustive";
        c.ops.push_back("open istream " + U(b) + " " + vh::hex(data) + others);
        for (auto &o : ops) c.ops.push_back(o);
        c.ops.push_back("read 5000 r");
        c.ops.push_back("get i");
        run(c);
      });
    }
    size_t nr = T ? 60 : 12;
    for (size_t it = 0; it < nr; ++it) {
      Case c;
      c.kind = "istream random";
      size_t dl = rng.below(it % 4 == 0 ? 5000 : 8 * cap + 3);
      c.ops.push_back("open istream " + U(b) + " " + vh::hex(rand_bytes(rng, dl)) + " " + vh::hex(rand_bytes(rng, rng.below(3 * cap + 2))) +
                      " " + vh::hex(rand_bytes(rng, rng.below(40))));
      bool allow_seek = it % 3 == 0;
      size_t nops = 20 + rng.below(it % 4 == 0 ? 800 : 80);
      for (size_t j = 0; j < nops; ++j) {
        unsigned d = rng.below(100);
        std::string how = rng.chance(1, 2) ? " i" : " r";
        if (d < 32) c.ops.push_back("get" + how);
        else if (d < 45) c.ops.push_back("peek" + how);
        else if (d < 53) c.ops.push_back("clear");
        else if (d < 57) c.ops.push_back("sstream " + U(rng.below(3)));
        else if (d < 60) c.ops.push_back("useekat " + U(rng.below(3)) + " " + U(rng.below(dl + 3)));
        else if (d < 95 || !allow_seek) {
          size_t n = rng.chance(1, 6) ? rng.below(3 * cap + 2) : rng.below(std::min<size_t>(cap + 3, 40));
          c.ops.push_back("read " + U(n) + how);
        } else c.ops.push_back("useek " + U(rng.below(dl + 3)));
      }
      c.ops.push_back("read 100000 r");
      c.ops.push_back("get i");
      run(c);
    }
  }
  return done();
}
