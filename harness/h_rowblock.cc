// Correspondence harness + oracle for C13 (row blocks are structurally sound; containers and row iterators
// preserve rows).  Runs the REAL RowBlockContainer<uint32_t|uint64_t,float>, RowBlock::Slice / operator[],
// LibSVMParser / LibFMParser / CSVParser::ParseBlock (unit tests' subclass trick), BasicRowIter and DiskRowIter
// (constructed the way data.cc's CreateIter_ does, on real temp files inside --out).
//
// Oracle (independent of the Lean model): reference rows in plain std::vector<RRow>, compared after every
// read; every handed-out block is checked for structural soundness against the real vector extents; every
// element is read through RowBlock::operator[] / Row accessors only after its address was checked against the
// owning vector, so a too-short array is an observed out-of-bounds read (`ub:oob`), not a silent pass.
#include <fcntl.h>
#include <signal.h>
#include <sys/wait.h>
#include <unistd.h>
#include <algorithm>
#include <chrono>
#include <cmath>
#include <functional>
#include <map>
#include <memory>
#include <mutex>
#include <thread>
#include <dmlc/data.h>
#include <dmlc/io.h>
#include <dmlc/memory_io.h>
#include <dmlc/threadediter.h>
#include <dmlc/timer.h>
#include <data/row_block.h>
#include <data/parser.h>
#include <data/libsvm_parser.h>
#include <data/libfm_parser.h>
#include <data/csv_parser.h>
#include <io/uri_spec.h>
#define private public
#include <data/basic_row_iter.h>
#include <data/disk_row_iter.h>
#undef private
#include "common/proto.h"

namespace dmlc {
namespace data {
DMLC_REGISTER_PARAMETER(LibSVMParserParam);
DMLC_REGISTER_PARAMETER(LibFMParserParam);
DMLC_REGISTER_PARAMETER(CSVParserParam);
}  // namespace data
}  // namespace dmlc

using dmlc::RowBlock;
using dmlc::data::RowBlockContainer;
using vh::Case;

static const uint32_t kOneF = 0x3f800000u;
static float f_of(uint32_t b) { float f; memcpy(&f, &b, 4); return f; }
static uint32_t b_of(float f) { uint32_t b; memcpy(&b, &f, 4); return b; }

// ------------------------------------------------------------------------------------------------
// reference rows and descriptors
// ------------------------------------------------------------------------------------------------
struct Ent { bool hf = false; uint64_t f = 0; uint64_t i = 0; bool hv = false; uint32_t v = 0; };
struct RRow {
  bool hl = false; uint32_t l = 0;
  bool hw = false; uint32_t w = 0;
  bool hq = false; uint64_t q = 0;
  std::vector<Ent> e;
  bool fatal = false;
};

static std::vector<std::string> split_on(const std::string &s, char c) {
  std::vector<std::string> o;
  size_t a = 0;
  while (true) {
    size_t p = s.find(c, a);
    if (p == std::string::npos) { o.push_back(s.substr(a)); break; }
    o.push_back(s.substr(a, p - a));
    a = p + 1;
  }
  return o;
}
static bool hex_u64(const std::string &s, uint64_t *o) {
  if (s.empty()) return false;
  uint64_t v = 0;
  for (char ch : s) {
    int d = ch >= '0' && ch <= '9' ? ch - '0' : ch >= 'a' && ch <= 'f' ? ch - 'a' + 10 : ch >= 'A' && ch <= 'F' ? ch - 'A' + 10 : -1;
    if (d < 0) return false;
    v = v * 16 + d;
  }
  *o = v;
  return true;
}
static bool dec_u64(const std::string &s, uint64_t *o) {
  if (s.empty()) return false;
  uint64_t v = 0;
  for (char ch : s) {
    if (ch < '0' || ch > '9') return false;
    v = v * 10 + (ch - '0');
  }
  *o = v;
  return true;
}
static bool parse_row(const std::string &d, RRow *r) {
  auto p = split_on(d, '/');
  if (p.size() == 5 && p[4] == "!") { r->fatal = true; p.pop_back(); }
  if (p.size() != 4) return false;
  uint64_t t;
  if (p[0] != "-") { if (!hex_u64(p[0], &t)) return false; r->hl = true; r->l = static_cast<uint32_t>(t); }
  if (p[1] != "-") { if (!hex_u64(p[1], &t)) return false; r->hw = true; r->w = static_cast<uint32_t>(t); }
  if (p[2] != "-") { if (!dec_u64(p[2], &t)) return false; r->hq = true; r->q = t; }
  if (p[3] != "-") {
    for (auto &es : split_on(p[3], ',')) {
      auto q = split_on(es, ':');
      if (q.size() != 3) return false;
      Ent e;
      if (q[0] != "-") { if (!dec_u64(q[0], &e.f)) return false; e.hf = true; }
      if (!dec_u64(q[1], &e.i)) return false;
      if (q[2] != "-") { if (!hex_u64(q[2], &t)) return false; e.hv = true; e.v = static_cast<uint32_t>(t); }
      r->e.push_back(e);
    }
  }
  return true;
}
static bool parse_rows(const std::string &d, std::vector<RRow> *out) {
  out->clear();
  if (d == "-") return true;
  for (auto &s : split_on(d, ';')) {
    RRow r;
    if (!parse_row(s, &r)) return false;
    out->push_back(r);
  }
  return true;
}
static std::string hex8(uint32_t v) { char b[16]; snprintf(b, sizeof b, "%08x", v); return b; }
static std::string show_row(const RRow &r) {
  std::string s = (r.hl ? hex8(r.l) : "-") + "/" + (r.hw ? hex8(r.w) : "-") + "/" + (r.hq ? std::to_string(r.q) : "-") + "/";
  if (r.e.empty()) return s + "-" + (r.fatal ? "/!" : "");
  for (size_t k = 0; k < r.e.size(); ++k) {
    const Ent &e = r.e[k];
    s += (k ? "," : "") + (e.hf ? std::to_string(e.f) : std::string("-")) + ":" + std::to_string(e.i) + ":" + (e.hv ? hex8(e.v) : "-");
  }
  return s + (r.fatal ? "/!" : "");
}
static std::string show_rows(const std::vector<RRow> &rs) {
  if (rs.empty()) return "-";
  std::string s;
  for (size_t i = 0; i < rs.size(); ++i) s += (i ? ";" : "") + show_row(rs[i]);
  return s;
}
// 0 = nobody, 1 = everybody, 2 = mixed
static int uni(size_t with, size_t total) { return with == 0 ? 0 : with == total ? 1 : 2; }
struct Presence { int l, w, q, f, v; bool mixed() const { return l == 2 || w == 2 || q == 2 || f == 2 || v == 2; } };
static Presence presence(const std::vector<RRow> &rs) {
  size_t n = rs.size(), ne = 0, cl = 0, cw = 0, cq = 0, cf = 0, cv = 0;
  for (auto &r : rs) {
    cl += r.hl; cw += r.hw; cq += r.hq;
    for (auto &e : r.e) { ++ne; cf += e.hf; cv += e.hv; }
  }
  return Presence{uni(cl, n), uni(cw, n), uni(cq, n), uni(cf, ne), uni(cv, ne)};
}
static bool row_uniform(const RRow &r) {
  for (auto &e : r.e) if (e.hf != r.e[0].hf || e.hv != r.e[0].hv) return false;
  return !r.fatal;
}
// a row as the container stores it when it arrives through Push(Row): weight and qid are materialised
static RRow stored_by_push_row(RRow r) {
  if (!r.hw) { r.hw = true; r.w = kOneF; }
  if (!r.hq) { r.hq = true; r.q = 0; }
  return r;
}
// row equality at the level of the Row accessors (get_weight / get_qid defaults), presence-exact for label and,
// when the row has entries, for field and value
static bool same_row(const RRow &a, const RRow &b) {
  if (a.hl != b.hl || (a.hl && a.l != b.l)) return false;
  if ((a.hw ? a.w : kOneF) != (b.hw ? b.w : kOneF)) return false;
  if ((a.hq ? a.q : 0) != (b.hq ? b.q : 0)) return false;
  if (a.e.size() != b.e.size()) return false;
  for (size_t k = 0; k < a.e.size(); ++k) {
    const Ent &x = a.e[k], &y = b.e[k];
    if (x.i != y.i || x.hf != y.hf || (x.hf && x.f != y.f) || x.hv != y.hv || (x.hv && x.v != y.v)) return false;
  }
  return true;
}
static bool same_rows(const std::vector<RRow> &a, const std::vector<RRow> &b) {
  if (a.size() != b.size()) return false;
  for (size_t i = 0; i < a.size(); ++i) if (!same_row(a[i], b[i])) return false;
  return true;
}

// ------------------------------------------------------------------------------------------------
// source blocks: exact-size heap arrays (so ASan sees any over-read by the library)
// ------------------------------------------------------------------------------------------------
template <typename I>
struct Src {
  std::unique_ptr<size_t[]> off;
  std::unique_ptr<float[]> lab, wgt, val;
  std::unique_ptr<uint64_t[]> qid;
  std::unique_ptr<I[]> fld, idx;
  RowBlock<I, float> blk;
  explicit Src(const std::vector<RRow> &rows) {
    size_t n = rows.size(), ne = 0;
    for (auto &r : rows) ne += r.e.size();
    Presence p = presence(rows);
    off.reset(new size_t[n + 1]);
    off[0] = 0;
    if (p.l == 1) lab.reset(new float[n]);
    if (p.w == 1) wgt.reset(new float[n]);
    if (p.q == 1) qid.reset(new uint64_t[n]);
    if (p.f == 1) fld.reset(new I[ne]);
    if (ne) idx.reset(new I[ne]);
    if (p.v == 1) val.reset(new float[ne]);
    size_t k = 0;
    for (size_t i = 0; i < n; ++i) {
      if (lab) lab[i] = f_of(rows[i].l);
      if (wgt) wgt[i] = f_of(rows[i].w);
      if (qid) qid[i] = rows[i].q;
      for (auto &e : rows[i].e) {
        if (fld) fld[k] = static_cast<I>(e.f);
        idx[k] = static_cast<I>(e.i);
        if (val) val[k] = f_of(e.v);
        ++k;
      }
      off[i + 1] = k;
    }
    blk.size = n; blk.offset = off.get(); blk.label = lab.get(); blk.weight = wgt.get(); blk.qid = qid.get();
    blk.field = fld.get(); blk.index = idx.get(); blk.value = val.get();
  }
};
static bool fits(const std::vector<RRow> &rows, int w) {
  if (w == 8) return true;
  for (auto &r : rows) for (auto &e : r.e) if (e.i > 0xffffffffULL || (e.hf && e.f > 0xffffffffULL)) return false;
  return true;
}
static bool block_uniform(const std::vector<RRow> &rows) {
  for (auto &r : rows) if (r.fatal) return false;
  return !presence(rows).mixed();
}

// ------------------------------------------------------------------------------------------------
// reading blocks with extent checks
// ------------------------------------------------------------------------------------------------
template <typename T>
static bool within(const T *p, size_t n, const std::vector<T> &v) {
  if (n == 0) return true;
  if (p == nullptr || v.empty()) return false;
  const T *lo = v.data(), *hi = v.data() + v.size();
  return p >= lo && p <= hi && n <= static_cast<size_t>(hi - p);
}
enum RdStatus { RD_OK, RD_CHECK, RD_OOB };
template <typename CI>
static RdStatus read_row(const RowBlock<CI, float> &b, size_t i, const RowBlockContainer<CI, float> &c, RRow *out) {
  if (i < b.size && !within(b.offset + i, 2, c.offset)) return RD_OOB;
  try {
    dmlc::Row<CI, float> r = b[i];
    *out = RRow();
    if (r.label != nullptr) { if (!within(r.label, 1, c.label)) return RD_OOB; out->hl = true; out->l = b_of(r.get_label()); }
    if (r.weight != nullptr) { if (!within(r.weight, 1, c.weight)) return RD_OOB; out->hw = true; out->w = b_of(r.get_weight()); }
    if (r.qid != nullptr) { if (!within(r.qid, 1, c.qid)) return RD_OOB; out->hq = true; out->q = r.get_qid(); }
    size_t n = r.length;
    if (n == 0) return RD_OK;
    if (r.field != nullptr && !within(r.field, n, c.field)) return RD_OOB;
    if (!within(r.index, n, c.index)) return RD_OOB;
    if (r.value != nullptr && !within(r.value, n, c.value)) return RD_OOB;
    for (size_t k = 0; k < n; ++k) {
      Ent e;
      if (r.field != nullptr) { e.hf = true; e.f = r.get_field(k); }
      e.i = r.get_index(k);
      if (r.value != nullptr) { e.hv = true; e.v = b_of(r.get_value(k)); }
      out->e.push_back(e);
    }
    return RD_OK;
  } catch (const dmlc::Error &) {
    return RD_CHECK;
  }
}
template <typename CI>
static RdStatus read_block(const RowBlock<CI, float> &b, const RowBlockContainer<CI, float> &c, std::vector<RRow> *out) {
  for (size_t i = 0; i < b.size; ++i) {
    RRow r;
    RdStatus st = read_row(b, i, c, &r);
    if (st != RD_OK) return st;
    out->push_back(r);
  }
  return RD_OK;
}
// the soundness predicate of C13, computed on the real pointers and vector extents
template <typename CI>
static std::string unsound(const RowBlock<CI, float> &b, const RowBlockContainer<CI, float> &c) {
  if (!within(b.offset, b.size + 1, c.offset)) return "offset array shorter than size+1";
  for (size_t i = 0; i < b.size; ++i) if (b.offset[i] > b.offset[i + 1]) return "offsets decrease";
  if (b.label != nullptr && !within(b.label, b.size, c.label)) return "label shorter than the rows";
  if (b.weight != nullptr && !within(b.weight, b.size, c.weight)) return "weight shorter than the rows";
  if (b.qid != nullptr && !within(b.qid, b.size, c.qid)) return "qid shorter than the rows";
  size_t last = b.offset[b.size];
  if (b.field != nullptr && !within(b.field, last, c.field)) return "field shorter than the entries";
  if (!within(b.index, last, c.index)) return "index shorter than the entries";
  if (b.value != nullptr && !within(b.value, last, c.value)) return "value shorter than the entries";
  return "";
}

// Risky operations (kinds known to leave an array on some versions of the code) are first tried in a forked
// child.  A kind that survived 5 probes without ever crashing is no longer probed (fork under ASan is slow);
// a kind that crashed once is always probed.
struct ProbeStat { int survived = 0; int crashed = 0; };
static std::map<std::string, ProbeStat> g_probe;
static bool g_in_child = false;
// libasan calls this weak hook before it starts to format an error report: leave the probe child at once
extern "C" void __asan_on_error() { if (g_in_child) _exit(77); }
static bool crashes_raw(const std::function<void()> &fn);
// A kind that survived 5 probes and never crashed is no longer probed (fork under ASan is slow); a kind that
// crashed 3 times and never survived is presumed to crash (the operation is then not executed at all).
static bool crashes(const std::string &kind, const std::function<void()> &fn) {
  ProbeStat &p = g_probe[kind];
  if (p.crashed == 0 && p.survived >= 5) return false;
  if (p.survived == 0 && p.crashed >= 3) return true;
  bool c = crashes_raw(fn);
  if (c) ++p.crashed; else ++p.survived;
  return c;
}
// run fn in a forked child; true = the child crashed (sanitizer report / signal)
static bool crashes_raw(const std::function<void()> &fn) {
  fflush(nullptr);
  pid_t pid = fork();
  if (pid < 0) return false;
  if (pid == 0) {
    g_in_child = true;
    signal(SIGSEGV, [](int) { _exit(78); });
    signal(SIGBUS, [](int) { _exit(78); });
    int dn = open("/dev/null", O_WRONLY);
    if (dn >= 0) { dup2(dn, 2); dup2(dn, 1); }
    try { fn(); } catch (...) {}
    _exit(0);
  }
  int st = 0;
  waitpid(pid, &st, 0);
  return !(WIFEXITED(st) && WEXITSTATUS(st) == 0);
}

// ------------------------------------------------------------------------------------------------
// parsers (unit tests' subclass trick) and a scripted parser for the iterators
// ------------------------------------------------------------------------------------------------
template <typename I>
struct SvmP : dmlc::data::LibSVMParser<I, float> {
  SvmP() : dmlc::data::LibSVMParser<I, float>(nullptr, std::map<std::string, std::string>(), 1) {}
  void Call(const char *b, const char *e, RowBlockContainer<I, float> *out) { this->ParseBlock(b, e, out); }
};
template <typename I>
struct FmP : dmlc::data::LibFMParser<I, float> {
  FmP() : dmlc::data::LibFMParser<I, float>(nullptr, std::map<std::string, std::string>(), 1) {}
  void Call(const char *b, const char *e, RowBlockContainer<I, float> *out) { this->ParseBlock(b, e, out); }
};
template <typename I>
struct CsvP : dmlc::data::CSVParser<I, float> {
  explicit CsvP(const std::map<std::string, std::string> &a) : dmlc::data::CSVParser<I, float>(nullptr, a, 1) {}
  void Call(const char *b, const char *e, RowBlockContainer<I, float> *out) { this->ParseBlock(b, e, out); }
};
// "csv:<label_column>:<weight_column>" -> constructor arguments
static std::map<std::string, std::string> csv_args(const std::string &fmt) {
  std::map<std::string, std::string> a;
  auto p = split_on(fmt, ':');
  if (p.size() > 1 && p[1] != "-1") a["label_column"] = p[1];
  if (p.size() > 2 && p[2] != "-1") a["weight_column"] = p[2];
  return a;
}
template <typename I>
struct ScriptParser : dmlc::Parser<I, float> {
  std::vector<std::unique_ptr<Src<I>>> blocks;
  size_t at = 0;
  bool *consulted;
  explicit ScriptParser(bool *flag) : consulted(flag) {}
  void BeforeFirst() override { at = 0; *consulted = true; }
  bool Next() override { *consulted = true; if (at < blocks.size()) { ++at; return true; } return false; }
  const RowBlock<I, float> &Value() const override { return blocks[at - 1]->blk; }
  size_t BytesRead() const override { return 0; }
};
// synthetic parser for the page-size case: blocks generated from a formula, never described in the protocol
struct BigParser : dmlc::Parser<uint32_t, float> {
  size_t nblocks, rows, ents, at = 0;
  std::vector<size_t> off; std::vector<float> lab, val; std::vector<uint32_t> idx;
  RowBlock<uint32_t, float> blk;
  static uint32_t idx_of(size_t g, size_t k) { return static_cast<uint32_t>((g * 2654435761ULL + k * 40503ULL) % 1000003ULL); }
  static float val_of(size_t g, size_t k) { return static_cast<float>((g * 7 + k * 3) % 1021) * 0.5f; }
  BigParser(size_t nb, size_t r, size_t e) : nblocks(nb), rows(r), ents(e) {}
  void BeforeFirst() override { at = 0; }
  bool Next() override {
    if (at >= nblocks) return false;
    off.assign(1, 0); lab.clear(); val.clear(); idx.clear();
    for (size_t i = 0; i < rows; ++i) {
      size_t g = at * rows + i;
      lab.push_back(static_cast<float>(g % 65536));
      for (size_t k = 0; k < ents; ++k) { idx.push_back(idx_of(g, k)); val.push_back(val_of(g, k)); }
      off.push_back(idx.size());
    }
    blk.size = rows; blk.offset = off.data(); blk.label = lab.data(); blk.weight = nullptr; blk.qid = nullptr;
    blk.field = nullptr; blk.index = idx.data(); blk.value = val.data();
    ++at;
    return true;
  }
  const RowBlock<uint32_t, float> &Value() const override { return blk; }
  size_t BytesRead() const override { return 0; }
};

// ------------------------------------------------------------------------------------------------
struct RbHarness : vh::Harness {
  std::string out_dir;
  uint64_t file_no = 0;
  int iw = 4;
  RowBlockContainer<uint32_t, float> c32;
  RowBlockContainer<uint64_t, float> c64;
  std::string stream;      // Save/Load byte stream
  size_t rpos = 0;
  // oracle state
  std::vector<RRow> exp;   // rows the container must hold
  bool exp_valid = true;   // false after an operation that legitimately leaves the container unspecified
  bool from_parser = false;
  struct Image { size_t start, len; std::vector<RRow> rows; bool valid; };
  std::vector<Image> images;
  std::vector<std::string> fails;
  std::set<std::string> kinds;
  bool in_probe = false;

  void begin_case(const Case &) override {
    iw = 4;
    c32.Clear(); c64.Clear();
    stream.clear(); rpos = 0;
    exp.clear(); exp_valid = true; from_parser = false;
    images.clear(); fails.clear(); kinds.clear();
  }
  void fail(const std::string &cls, const std::string &msg) { fails.push_back("class=" + cls + " prop=C13 " + msg); }
  std::string cls_for(const std::string &result) const {
    return (result == "err:check" && presence(exp).mixed() && !from_parser) ? "mixed-presence-push" : "none";
  }

  // -------------------------------------------------------------------------------- container ops
  template <typename CI> RowBlockContainer<CI, float> &cont();

  template <typename CI, typename I>
  std::string do_push_row(const RRow &r) {
    auto &c = cont<CI>();
    std::vector<RRow> one{r};
    Src<I> s(one);
    dmlc::Row<I, float> row = s.blk[0];
    auto op = [&]() { c.Push(row); };
    if (row.label == nullptr && crashes("row-without-label", op)) return "ub:oob";
    try { op(); } catch (const dmlc::Error &) { return "err:check"; }
    return "ok";
  }
  template <typename CI, typename I>
  std::string do_push_block(const std::vector<RRow> &rows, bool slice, size_t bg, size_t en) {
    auto &c = cont<CI>();
    Src<I> s(rows);
    RowBlock<I, float> b = s.blk;
    if (slice) {
      try { b = s.blk.Slice(bg, en); } catch (const dmlc::Error &) { return "err:check"; }
    }
    auto op = [&]() { c.Push(b); };
    if (s.blk.label == nullptr && b.size != 0 && crashes("block-without-label", op)) return "ub:oob";
    if (b.field != nullptr && c.field.size() != c.index.size() && crashes("field-into-fieldless", op)) return "ub:oob";
    if ((c.offset.empty() || c.offset.back() != c.index.size()) && crashes("after-failed-push", op)) return "ub:oob";
    try { op(); } catch (const dmlc::Error &) { return "err:check"; }
    return "ok";
  }
  template <typename CI>
  std::string do_read(const std::string &what, size_t a, size_t b2) {
    auto &c = cont<CI>();
    RowBlock<CI, float> b;
    try { b = c.GetBlock(); } catch (const dmlc::Error &) { return "err:check"; }
    if (what == "getblock") {
      std::string u = unsound(b, c);
      if (!u.empty()) fail("none", "GetBlock handed out an unsound block: " + u);
      char buf[160];
      snprintf(buf, sizeof buf, "block size=%zu l=%d w=%d q=%d f=%d i=%d v=%d", b.size, b.label != nullptr,
               b.weight != nullptr, b.qid != nullptr, b.field != nullptr, b.index != nullptr, b.value != nullptr);
      return buf;
    }
    if (what == "readrow") {
      RRow r;
      RdStatus st = read_row(b, a, c, &r);
      return st == RD_OK ? "row " + show_row(r) : st == RD_CHECK ? "err:check" : "ub:oob";
    }
    if (what == "readslice") {
      try { b = b.Slice(a, b2); } catch (const dmlc::Error &) { return "err:check"; }
    }
    std::vector<RRow> rs;
    RdStatus st = read_block(b, c, &rs);
    return st == RD_OK ? "rows " + show_rows(rs) : st == RD_CHECK ? "err:check" : "ub:oob";
  }
  template <typename CI>
  std::string do_sizes() {
    auto &c = cont<CI>();
    char buf[256];
    snprintf(buf, sizeof buf, "sizes o=%zu l=%zu w=%zu q=%zu f=%zu i=%zu v=%zu mf=%llu mi=%llu", c.offset.size(),
             c.label.size(), c.weight.size(), c.qid.size(), c.field.size(), c.index.size(), c.value.size(),
             (unsigned long long)c.max_field, (unsigned long long)c.max_index);
    return buf;
  }
  template <typename CI>
  std::string do_save() {
    auto &c = cont<CI>();
    std::string img;
    dmlc::MemoryStringStream ms(&img);
    dmlc::Stream *st = &ms;
    c.Save(st);
    images.push_back(Image{stream.size(), img.size(), exp, exp_valid});
    stream += img;
    return "saved " + std::to_string(img.size());
  }
  template <typename CI>
  std::string do_load() {
    auto &c = cont<CI>();
    std::string input = stream.substr(rpos);
    dmlc::MemoryStringStream ms(&input);
    dmlc::SeekStream *st = &ms;
    std::string res;
    try {
      if (c.Load(st)) res = "ok " + std::to_string(st->Tell());
      else res = "eof";
    } catch (const dmlc::Error &) {
      res = "err:check";
    } catch (const std::exception &) {       // e.g. std::length_error from a nonsensical element count
      res = "err:invalid";
      fail("none", "Load raised a C++ exception that is not dmlc::Error");
    }
    // oracle
    const Image *im = nullptr;
    for (auto &x : images) if (x.start == rpos) im = &x;
    bool complete = im && im->start + im->len <= stream.size();
    if (res.compare(0, 2, "ok") == 0) {
      if (!im) fail("none", "Load succeeded at a position where no saved image starts");
      else if (complete && st->Tell() != im->len) fail("none", "Load consumed " + std::to_string(st->Tell()) + " bytes of an image of " + std::to_string(im->len));
      if (im) { exp = im->rows; exp_valid = im->valid; from_parser = false; }
      rpos += st->Tell();
    } else {
      if (complete) fail("none", "Load of a complete saved image answered " + res);
      if (res == "eof" && rpos != stream.size() && !im) fail("none", "Load answered end-of-file in the middle of the stream");
      c.Clear();            // a failed Load leaves the vectors unspecified: the protocol clears
      exp.clear(); exp_valid = true; from_parser = false;
      rpos = stream.size();
    }
    return res;
  }

  // -------------------------------------------------------------------------------- parsers
  template <typename CI>
  bool run_parse(const std::string &fmt, const std::string &text, RowBlockContainer<CI, float> *out) {
    std::string f = split_on(fmt, ':')[0];
    // the chunk buffers the parsers get in production (InputSplitBase::Chunk) are followed by a zeroed
    // 32-bit word; reads of the text side beyond `end` are C11's subject, not C13's
    std::vector<char> buf(text.begin(), text.end());
    buf.resize(text.size() + 8, '\0');
    const char *b = buf.data(), *e = buf.data() + text.size();
    try {
      if (f == "svm") { SvmP<CI> p; p.Call(b, e, out); }
      else if (f == "fm") { FmP<CI> p; p.Call(b, e, out); }
      else { CsvP<CI> p(csv_args(fmt)); p.Call(b, e, out); }
    } catch (const dmlc::Error &) {
      return false;
    }
    return true;
  }
  // what ParserImpl::Next does with a parsed container; reports every unsound hand-out
  template <typename CI>
  void check_handout(const RowBlockContainer<CI, float> &c, const std::string &ctx) {
    if (c.Size() == 0) return;
    RowBlock<CI, float> b;
    try { b = c.GetBlock(); } catch (const dmlc::Error &) { kinds.insert("parser-error"); return; }
    std::string u = unsound(b, c);
    if (!u.empty()) { fail("none", ctx + ": parser handed out an unsound block: " + u); return; }
    std::vector<RRow> rs;
    if (read_block(b, c, &rs) != RD_OK) fail("none", ctx + ": reading the handed-out block through operator[] leaves an array");
  }
  template <typename CI>
  std::string do_parse(const std::string &fmt, const std::string &text, const std::vector<RRow> *lines) {
    auto &c = cont<CI>();
    bool ok = run_parse<CI>(fmt, text, &c);
    if (!ok) {
      c.Clear();
      kinds.insert("parser-error");
      exp.clear(); exp_valid = true; from_parser = false;
      if (lines) {
        bool expect_err = false;
        for (auto &l : *lines) expect_err = expect_err || l.fatal;
        Presence p = presence(*lines);
        std::string f = split_on(fmt, ':')[0];
        if (f == "csv" && (p.l == 2 || p.w == 2)) expect_err = true;
        if (!expect_err) fail("none", "ParseBlock raised dmlc::Error on a well-formed block");
      }
      return lines ? "err:check" : "checked";
    }
    check_handout(c, "ParseBlock(" + fmt + ")");
    if (lines) {
      exp = *lines; exp_valid = true; from_parser = true;
      for (auto &l : *lines) if (l.fatal) fail("none", "csv line without delimiter was accepted");
      return "ok";
    }
    c.Clear();
    exp.clear(); exp_valid = true; from_parser = false;
    return "checked";
  }

  // -------------------------------------------------------------------------------- iterators
  template <typename CI, typename Iter>
  std::string passes(Iter *it, const RowBlockContainer<CI, float> *(*owner)(Iter *), size_t npass,
                     std::vector<std::vector<RRow>> *out, size_t *nblocks) {
    for (size_t p = 0; p < npass; ++p) {
      it->BeforeFirst();
      std::vector<RRow> rs;
      size_t nb = 0;
      while (it->Next()) {
        const RowBlock<CI, float> &b = it->Value();
        const RowBlockContainer<CI, float> *c = owner(it);
        std::string u = unsound(b, *c);
        if (!u.empty()) { fail("none", "row iterator handed out an unsound block: " + u); return "ub:oob"; }
        RdStatus st = read_block(b, *c, &rs);
        if (st != RD_OK) return st == RD_CHECK ? "err:check" : "ub:oob";
        ++nb;
      }
      if (p == 0) *nblocks = nb;
      out->push_back(rs);
    }
    return "";
  }
  template <typename CI>
  static const RowBlockContainer<CI, float> *basic_owner(dmlc::data::BasicRowIter<CI, float> *it) { return &it->data_; }
  template <typename CI>
  static const RowBlockContainer<CI, float> *disk_owner(dmlc::data::DiskRowIter<CI, float> *it) { return &it->iter_.Value(); }

  static std::string show_passes(const std::vector<std::vector<RRow>> &ps) {
    std::string s;
    for (size_t i = 0; i < ps.size(); ++i) s += (i ? " | pass " : "pass ") + show_rows(ps[i]);
    return s;
  }
  void judge_passes(const std::string &res, const std::vector<std::vector<RRow>> &ps, const std::vector<RRow> &want,
                    bool mixed_is_error_ok, const std::string &ctx) {
    Presence p = presence(want);
    if (res.empty()) {
      for (size_t i = 0; i < ps.size(); ++i)
        if (!same_rows(ps[i], want)) {
          fail(p.mixed() && !mixed_is_error_ok ? "none" : "none", ctx + ": pass " + std::to_string(i + 1) + " delivers " + show_rows(ps[i]).substr(0, 160) +
               " instead of " + show_rows(want).substr(0, 160));
          return;
        }
    } else if (res == "err:check") {
      if (!p.mixed()) fail("none", ctx + ": dmlc::Error although every optional array is uniformly present or absent");
      else if (!mixed_is_error_ok) fail("mixed-presence-push", ctx + ": blocks with different optional arrays cannot be combined (dmlc::Error)");
    } else {
      fail("none", ctx + ": " + res);
    }
  }
  template <typename CI>
  std::string do_iter_script(bool disk, size_t reuse, size_t npass, const std::vector<std::vector<RRow>> &blocks) {
    std::vector<RRow> want;
    for (auto &b : blocks) for (auto &r : b) want.push_back(r);
    bool labelless = false;
    for (auto &r : want) labelless = labelless || !r.hl;
    if (labelless && !in_probe) {
      in_probe = true;
      bool c = crashes("iter-without-label", [&]() { do_iter_script<CI>(disk, reuse, npass, blocks); });
      in_probe = false;
      if (c) { fail("none", "row iterator over blocks without label leaves an array"); return "ub:oob"; }
    }
    std::vector<std::vector<RRow>> ps;
    size_t nb = 0;
    std::string res;
    bool consulted = false;
    auto mk = [&](bool fill) {
      auto *sp = new ScriptParser<CI>(&consulted);
      if (fill) for (auto &b : blocks) sp->blocks.emplace_back(new Src<CI>(b));
      return sp;
    };
    try {
      if (!disk) {
        dmlc::data::BasicRowIter<CI, float> it(mk(true));
        res = passes<CI>(&it, &basic_owner<CI>, npass, &ps, &nb);
      } else {
        std::string path = out_dir + "/cache_" + std::to_string(++file_no) + ".bin";
        unlink(path.c_str());
        {
          dmlc::data::DiskRowIter<CI, float> it(mk(true), path.c_str(), true);
          res = passes<CI>(&it, &disk_owner<CI>, npass, &ps, &nb);
        }
        for (size_t k = 0; k < reuse && res.empty(); ++k) {
          consulted = false;
          dmlc::data::DiskRowIter<CI, float> it2(mk(false), path.c_str(), true);
          size_t nb2 = 0;
          res = passes<CI>(&it2, &disk_owner<CI>, npass, &ps, &nb2);
          if (consulted) fail("none", "cache reuse: the parser was consulted although the cache file exists");
        }
        unlink(path.c_str());
      }
    } catch (const dmlc::Error &) {
      res = "err:check";
    }
    judge_passes(res, ps, want, false, disk ? "DiskRowIter" : "BasicRowIter");
    if (!res.empty()) return res;
    return (disk ? "pages " + std::to_string(nb) + " " : std::string()) + show_passes(ps);
  }
  template <typename CI>
  dmlc::Parser<CI, float> *make_file_parser(const std::string &fmt, const std::string &path) {
    std::string f = split_on(fmt, ':')[0];
    dmlc::InputSplit *source = dmlc::InputSplit::Create(path.c_str(), 0, 1, "text");
    std::map<std::string, std::string> none;
    if (f == "svm") return new dmlc::data::ThreadedParser<CI, float>(new dmlc::data::LibSVMParser<CI, float>(source, none, 2));
    if (f == "fm") return new dmlc::data::ThreadedParser<CI, float>(new dmlc::data::LibFMParser<CI, float>(source, none, 2));
    return new dmlc::data::CSVParser<CI, float>(source, csv_args(fmt), 2);
  }
  // the body of data.cc's CreateIter_ (URISpec, parser, BasicRowIter or DiskRowIter with reuse_cache = true)
  template <typename CI>
  std::string do_iter_file(const std::string &fmt, size_t cache, size_t npass, const std::string &text,
                           const std::vector<RRow> &lines) {
    bool labelless = false;
    for (auto &r : lines) labelless = labelless || !r.hl;
    if (labelless && !in_probe) {
      in_probe = true;
      bool c = crashes("iterfile-without-label", [&]() { do_iter_file<CI>(fmt, cache, npass, text, lines); });
      in_probe = false;
      if (c) { fail("none", "RowBlockIter over a document without label column leaves an array"); return "ub:oob"; }
    }
    if (presence(lines).mixed() && !in_probe) {
      in_probe = true;
      bool c = crashes("iterfile-mixed", [&]() { do_iter_file<CI>(fmt, cache, npass, text, lines); });
      in_probe = false;
      if (c) { fail("none", "RowBlockIter over a document whose rows carry an optional part only partly leaves an array"); return "ub:oob"; }
    }
    std::string path = out_dir + "/doc_" + std::to_string(++file_no) + ".txt";
    { std::ofstream f(path, std::ios::binary); f << text; }
    std::string cpath = out_dir + "/doc_" + std::to_string(file_no) + ".cache";
    unlink(cpath.c_str());
    std::string uri = cache ? path + "#" + cpath : path;
    std::vector<std::vector<RRow>> ps;
    size_t nb = 0;
    std::string res;
    try {
      dmlc::io::URISpec spec(uri, 0, 1);
      if (spec.cache_file.empty()) {
        dmlc::data::BasicRowIter<CI, float> it(make_file_parser<CI>(fmt, spec.uri));
        res = passes<CI>(&it, &basic_owner<CI>, npass, &ps, &nb);
      } else {
        for (size_t k = 0; k < cache && res.empty(); ++k) {
          dmlc::data::DiskRowIter<CI, float> it(make_file_parser<CI>(fmt, spec.uri), spec.cache_file.c_str(), true);
          res = passes<CI>(&it, &disk_owner<CI>, npass, &ps, &nb);
        }
      }
    } catch (const dmlc::Error &) {
      res = "err:check";
    }
    unlink(path.c_str());
    unlink(cpath.c_str());
    bool fatal = false;
    for (auto &l : lines) fatal = fatal || l.fatal;
    if (fatal) { if (res != "err:check") fail("none", "document with a delimiter-less csv line was accepted"); }
    else judge_passes(res, ps, lines, true, "RowBlockIter(" + fmt + (cache ? ",#cache)" : ")"));
    return res.empty() ? show_passes(ps) : res;
  }
  // page-size case: MemCostBytes() >= kPageSize is reached for real (64 MB); compared by formula, not by protocol
  std::string do_disk_big(size_t nblocks, size_t rows, size_t ents) {
    std::string path = out_dir + "/big_" + std::to_string(++file_no) + ".bin";
    unlink(path.c_str());
    std::string res = "pages";
    try {
      dmlc::data::DiskRowIter<uint32_t, float> it(new BigParser(nblocks, rows, ents), path.c_str(), true);
      for (int pass = 0; pass < 2; ++pass) {
        it.BeforeFirst();
        size_t g = 0;
        while (it.Next()) {
          const RowBlock<uint32_t, float> &b = it.Value();
          const auto &c = it.iter_.Value();
          std::string u = unsound(b, c);
          if (!u.empty()) { fail("none", "DiskRowIter page unsound: " + u); break; }
          if (pass == 0) res += " " + std::to_string(b.size);
          for (size_t i = 0; i < b.size; ++i, ++g) {
            auto r = b[i];
            bool ok = r.length == ents && r.get_label() == static_cast<float>(g % 65536) && r.weight == nullptr;
            for (size_t k = 0; ok && k < ents; ++k)
              ok = r.get_index(k) == BigParser::idx_of(g, k) && r.get_value(k) == BigParser::val_of(g, k);
            if (!ok) { fail("none", "DiskRowIter: row " + std::to_string(g) + " differs after the page-wise cache (pass " + std::to_string(pass + 1) + ")"); i = b.size; }
          }
        }
        if (g != nblocks * rows) fail("none", "DiskRowIter: pass " + std::to_string(pass + 1) + " delivers " + std::to_string(g) + " of " + std::to_string(nblocks * rows) + " rows");
      }
    } catch (const dmlc::Error &) {
      res = "err:check";
      fail("none", "DiskRowIter raised dmlc::Error on uniform blocks");
    }
    unlink(path.c_str());
    return res;
  }

  // -------------------------------------------------------------------------------- exec
#define DISPATCH(expr32, expr64) (iw == 4 ? (expr32) : (expr64))
  std::string exec(const std::vector<std::string> &w) override {
    if (w.empty()) return "bad-op";
    const std::string &op = w[0];
    kinds.insert(op);
    uint64_t a = 0, b = 0, sw = 0;
    if (op == "new" && w.size() == 2) {
      if (w[1] != "4" && w[1] != "8") return "bad-op";
      iw = w[1] == "4" ? 4 : 8;
      c32.Clear(); c64.Clear(); stream.clear(); rpos = 0; exp.clear(); exp_valid = true; from_parser = false; images.clear();
      return "ok";
    }
    if (op == "pushrow" && w.size() == 3) {
      RRow r;
      if (!dec_u64(w[1], &sw) || !parse_row(w[2], &r) || !row_uniform(r)) return "bad-op";
      std::vector<RRow> one{r};
      if ((sw != 4 && sw != 8) || !fits(one, sw) || (iw == 8 && sw == 4)) return "bad-op";
      std::string res = iw == 8 ? do_push_row<uint64_t, uint64_t>(r)
                        : sw == 4 ? do_push_row<uint32_t, uint32_t>(r) : do_push_row<uint32_t, uint64_t>(r);
      judge_push(res, one, 0, 1, false);
      if (res == "ok" && exp_valid) exp.back() = stored_by_push_row(exp.back());
      return res;
    }
    if ((op == "pushblock" && w.size() == 3) || (op == "pushslice" && w.size() == 5)) {
      bool sl = op == "pushslice";
      std::vector<RRow> rows;
      if (!dec_u64(w[1], &sw) || !parse_rows(w.back(), &rows) || !block_uniform(rows)) return "bad-op";
      if (sl && (!dec_u64(w[2], &a) || !dec_u64(w[3], &b))) return "bad-op";
      if ((sw != 4 && sw != 8) || !fits(rows, sw) || (iw == 8 && sw == 4)) return "bad-op";
      std::string res = iw == 8 ? do_push_block<uint64_t, uint64_t>(rows, sl, a, b)
                        : sw == 4 ? do_push_block<uint32_t, uint32_t>(rows, sl, a, b)
                                  : do_push_block<uint32_t, uint64_t>(rows, sl, a, b);
      judge_push(res, rows, sl ? a : 0, sl ? b : rows.size(), sl);
      return res;
    }
    if (op == "clear") {
      DISPATCH(c32.Clear(), c64.Clear());
      exp.clear(); exp_valid = true; from_parser = false;
      return "ok";
    }
    if (op == "getblock" || op == "readall" || (op == "readrow" && w.size() == 2) || (op == "readslice" && w.size() == 3)) {
      if (op == "readrow" && !dec_u64(w[1], &a)) return "bad-op";
      if (op == "readslice" && (!dec_u64(w[1], &a) || !dec_u64(w[2], &b))) return "bad-op";
      std::string res = DISPATCH(do_read<uint32_t>(op, a, b), do_read<uint64_t>(op, a, b));
      judge_read(op, a, b, res);
      return res;
    }
    if (op == "sizes") return DISPATCH(do_sizes<uint32_t>(), do_sizes<uint64_t>());
    if (op == "save") return DISPATCH(do_save<uint32_t>(), do_save<uint64_t>());
    if (op == "dump") return "bytes " + vh::hex(stream);
    if (op == "rewind") { rpos = 0; return "ok"; }
    if (op == "trunc" && w.size() == 2) {
      if (!dec_u64(w[1], &a) || a > stream.size()) return "bad-op";
      stream.resize(stream.size() - a);
      rpos = std::min(rpos, stream.size());
      return "ok";
    }
    if (op == "load") return DISPATCH(do_load<uint32_t>(), do_load<uint64_t>());
    if (op == "parse" && w.size() == 4) {
      std::vector<RRow> lines;
      if (!parse_rows(w[3], &lines)) return "bad-op";
      std::string text = vh::unhex(w[2]);
      return DISPATCH(do_parse<uint32_t>(w[1], text, &lines), do_parse<uint64_t>(w[1], text, &lines));
    }
    if (op == "ptext" && w.size() == 3) {
      std::string text = vh::unhex(w[2]);
      return DISPATCH(do_parse<uint32_t>(w[1], text, nullptr), do_parse<uint64_t>(w[1], text, nullptr));
    }
    if ((op == "iterbasic" || op == "iterdisk") && w.size() >= 3) {
      bool disk = op == "iterdisk";
      if (!dec_u64(w[1], &a) || !dec_u64(w[2], &b)) return "bad-op";
      std::vector<std::vector<RRow>> blocks;
      for (size_t k = 3; k < w.size(); ++k) {
        std::vector<RRow> rows;
        if (!parse_rows(w[k], &rows) || !block_uniform(rows) || !fits(rows, disk ? iw : static_cast<int>(a))) return "bad-op";
        blocks.push_back(rows);
      }
      if (!disk && static_cast<int>(a) != iw) return "bad-op";
      return DISPATCH(do_iter_script<uint32_t>(disk, disk ? a : 0, b, blocks), do_iter_script<uint64_t>(disk, disk ? a : 0, b, blocks));
    }
    if (op == "iterfile" && w.size() == 6) {
      std::vector<RRow> lines;
      if (!dec_u64(w[2], &a) || !dec_u64(w[3], &b) || !parse_rows(w[5], &lines)) return "bad-op";
      std::string text = vh::unhex(w[4]);
      return DISPATCH(do_iter_file<uint32_t>(w[1], a, b, text, lines), do_iter_file<uint64_t>(w[1], a, b, text, lines));
    }
    if (op == "diskbig" && w.size() == 4) {
      uint64_t e = 0;
      if (!dec_u64(w[1], &a) || !dec_u64(w[2], &b) || !dec_u64(w[3], &e)) return "bad-op";
      return do_disk_big(a, b, e);
    }
    return "bad-op";
  }

  // -------------------------------------------------------------------------------- oracle per op
  void judge_push(const std::string &res, const std::vector<RRow> &rows, size_t bg, size_t en, bool slice) {
    bool bad_slice = slice && !(bg <= en && en <= rows.size());
    uint64_t lim = iw == 4 ? 0xffffffffULL : ~0ULL;
    bool overflow = false;
    if (!bad_slice)
      for (size_t i = bg; i < en; ++i)
        for (auto &e : rows[i].e) overflow = overflow || e.i > lim || (e.hf && e.f > lim);
    if (res == "ok") {
      if (bad_slice) fail("none", "Slice accepted an invalid range");
      if (overflow) fail("none", "an index beyond the container's index type was accepted");
      if (!bad_slice) for (size_t i = bg; i < en; ++i) exp.push_back(rows[i]);
      from_parser = false;
    } else if (res == "err:check") {
      if (!bad_slice && !overflow) fail("none", "Push raised dmlc::Error on a valid block");
      if (!bad_slice) exp_valid = false;   // a Push that throws half-way leaves the container unspecified
    } else {
      fail("none", "Push leaves the bounds of an array (" + res + ")");
      exp_valid = false;
    }
  }
  void judge_read(const std::string &op, size_t a, size_t b, const std::string &res) {
    if (!exp_valid) {
      if (res == "ub:oob") fail("none", op + " on a container left by a failed Push reads outside an array");
      return;
    }
    Presence p = presence(exp);
    if (res == "ub:oob") { fail("none", op + ": a handed-out row reads outside its array"); return; }
    if (op == "getblock") {
      if (res == "err:check") {
        if (!p.mixed()) fail("none", "GetBlock raised dmlc::Error on a consistent container");
        else if (!from_parser) fail("mixed-presence-push", "pushes with different optional arrays present leave the container unusable (GetBlock raises dmlc::Error)");
      } else if (p.mixed() && from_parser) {
        fail("none", "parser handed out a block although an optional array covers only part of the rows");
      }
      return;
    }
    if (res == "err:check") {
      bool legit = (op == "readrow" && a >= exp.size()) || (op == "readslice" && !(a <= b && b <= exp.size()));
      if (p.mixed()) {
        if (!from_parser) fail("mixed-presence-push", "pushes with different optional arrays present leave the container unusable (GetBlock raises dmlc::Error)");
      } else if (!legit) {
        fail("none", op + " raised dmlc::Error on a consistent container");
      }
      return;
    }
    std::vector<RRow> got, want;
    size_t sp = res.find(' ');
    if (sp == std::string::npos || !parse_rows(res.substr(sp + 1), &got)) { fail("none", op + ": unreadable result " + res.substr(0, 80)); return; }
    if (op == "readall") want = exp;
    else if (op == "readrow") { if (a < exp.size()) want.push_back(exp[a]); }
    else if (a <= b && b <= exp.size()) want.assign(exp.begin() + a, exp.begin() + b);
    if (p.mixed() && from_parser) { fail("none", "parser handed out rows although an optional array covers only part of the rows"); return; }
    if (!same_rows(got, want))
      fail("none", op + " returns " + show_rows(got).substr(0, 200) + " but the rows pushed are " + show_rows(want).substr(0, 200));
  }

  void end_case(const Case &, const std::vector<std::string> &, std::vector<std::string> *failures) override {
    for (auto &f : fails) failures->push_back(f);
  }
  std::string shape(const Case &c, const std::vector<std::string> &res) override {
    bool any = false, err = false, oob = false;
    for (auto &r : res) { any = any || r != "ok"; err = err || r == "err:check"; oob = oob || r == "ub:oob"; }
    if (!any) return "";
    std::string s = c.kind.substr(0, c.kind.find(' '));
    if (err) s += "+error";
    if (oob) s += "+oob";
    return s;
  }
};
template <> RowBlockContainer<uint32_t, float> &RbHarness::cont<uint32_t>() { return c32; }
template <> RowBlockContainer<uint64_t, float> &RbHarness::cont<uint64_t>() { return c64; }

// ------------------------------------------------------------------------------------------------
// generators
// ------------------------------------------------------------------------------------------------
struct FTxt { const char *txt; uint32_t bits; };
static const FTxt kF[] = {{"1", 0x3f800000}, {"0", 0x00000000}, {"-1", 0xbf800000}, {"0.5", 0x3f000000},
                          {"2.5", 0x40200000}, {"3", 0x40400000}, {"100", 0x42c80000}, {"-0.25", 0xbe800000},
                          {"7", 0x40e00000}, {"12", 0x41400000}};
static const size_t kNF = sizeof(kF) / sizeof(kF[0]);
static const char *txt_of(uint32_t bits) {
  for (auto &f : kF) if (f.bits == bits) return f.txt;
  return "1";
}

// block of the given shape (entries per row) and presence; values are distinct and derived from `salt`
static std::vector<RRow> make_block(const std::vector<int> &shape, bool hl, bool hw, bool hq, bool hf, bool hv, unsigned salt) {
  std::vector<RRow> rows;
  unsigned k = salt * 16;
  for (size_t i = 0; i < shape.size(); ++i) {
    RRow r;
    r.hl = hl; r.l = kF[(salt + i) % kNF].bits;
    r.hw = hw; r.w = kF[(salt + i + 3) % kNF].bits;
    r.hq = hq; r.q = 100 + salt * 10 + i;
    for (int j = 0; j < shape[i]; ++j, ++k) {
      Ent e;
      e.hf = hf; e.f = 50 + k;
      e.i = 1 + k * 3;
      e.hv = hv; e.v = kF[(k + 4) % kNF].bits;
      r.e.push_back(e);
    }
    rows.push_back(r);
  }
  return rows;
}
static std::vector<std::vector<int>> shapes(int max_rows, int max_ents) {
  std::vector<std::vector<int>> out{{}};
  std::vector<std::vector<int>> cur{{}};
  for (int n = 1; n <= max_rows; ++n) {
    std::vector<std::vector<int>> nxt;
    for (auto &s : cur)
      for (int e = 0; e <= max_ents; ++e) { auto t = s; t.push_back(e); nxt.push_back(t); }
    for (auto &s : nxt) out.push_back(s);
    cur.swap(nxt);
  }
  return out;
}
struct Pres { bool l, w, q, f, v; };
static Pres pres_of(unsigned m) { return Pres{(m & 1) != 0, (m & 2) != 0, (m & 4) != 0, (m & 8) != 0, (m & 16) != 0}; }
static std::vector<RRow> block_of(const std::vector<int> &sh, unsigned m, unsigned salt) {
  Pres p = pres_of(m);
  return make_block(sh, p.l, p.w, p.q, p.f, p.v, salt);
}
static void add_reads(Case *c, size_t nrows) {
  c->ops.push_back("sizes");
  c->ops.push_back("getblock");
  c->ops.push_back("readall");
  for (size_t i = 0; i <= nrows && i < 4; ++i) c->ops.push_back("readrow " + std::to_string(i));
}

// text rendering of emissions --------------------------------------------------------------------
static std::string svm_text(const std::vector<RRow> &lines, vh::Rng *rng) {
  std::string t;
  for (auto &l : lines) {
    t += txt_of(l.l);
    if (l.hw) t += std::string(":") + txt_of(l.w);
    if (l.hq) t += " qid:" + std::to_string(l.q);
    for (auto &e : l.e) {
      t += (rng && rng->chance(1, 6)) ? "  " : " ";
      t += std::to_string(e.i);
      if (e.hv) t += std::string(":") + txt_of(e.v);
    }
    t += (rng && rng->chance(1, 8)) ? "\r\n" : "\n";
  }
  return t;
}
static std::string fm_text(const std::vector<RRow> &lines, vh::Rng *rng) {
  std::string t;
  for (auto &l : lines) {
    t += txt_of(l.l);
    if (l.hw) t += std::string(":") + txt_of(l.w);
    for (auto &e : l.e) {
      t += " " + std::to_string(e.f) + ":" + std::to_string(e.i);
      if (e.hv) t += std::string(":") + txt_of(e.v);
    }
    t += (rng && rng->chance(1, 8)) ? "\r\n" : "\n";
  }
  return t;
}
// one csv line of `ncols` cells; the role of a cell is its column (label_column, weight_column, else feature).
// Returns what the line makes the parser push.
static RRow csv_line(size_t ncols, int lc, int wc, vh::Rng *rng, bool allow_empty, bool allow_nan, std::string *text) {
  RRow r;
  uint64_t idx = 0;
  for (size_t col = 0; col < ncols; ++col) {
    if (col) *text += ",";
    const FTxt &f = kF[rng->below(kNF)];
    if (static_cast<int>(col) == lc) { *text += f.txt; r.hl = true; r.l = f.bits; }
    else if (static_cast<int>(col) == wc) {
      if (allow_nan && rng->chance(1, 6)) *text += "nan";
      else { *text += f.txt; r.hw = true; r.w = f.bits; }
    } else if (allow_empty && col + 1 < ncols && rng->chance(1, 7)) {
      ++idx;                      // empty cell: the feature index advances, nothing is stored
    } else {
      *text += f.txt;
      Ent e; e.i = idx++; e.hv = true; e.v = f.bits;
      r.e.push_back(e);
    }
  }
  if (idx == 0) r.fatal = true;   // LOG(FATAL) "Delimiter ... is not found in the line"
  *text += "\n";
  return r;
}

int main(int argc, char **argv) {
  vh::Runner R;
  R.parse(argc, argv);
  RbHarness H;
  H.out_dir = R.out_dir;
  R.h = &H;
  if (R.run_replay()) { R.finish(); return 0; }
  vh::Rng rng(R.seed);
  const bool T = R.thorough();
  auto all_shapes = shapes(3, 2);      // 40 shapes
  auto small_shapes = shapes(2, 1);    // 7 shapes

  // (0) the canonical histories of the findings (findings/C13.json), first, so that on a tree without the
  //     repairs the first violations reported name one defect each
  {
    std::vector<RRow> ls;
    parse_rows("3f800000/40000000/-/-:1:3f800000;40400000/-/-/-:1:3f800000", &ls);
    Case a;
    a.kind = "canonical F1 parser hands out a short weight array";
    a.ops = {"new 4", "parse svm " + vh::hex("1:2 1:1\n3 1:1\n") + " " + show_rows(ls), "getblock", "readall"};
    R.run_case(a);
    Case b;
    b.kind = "canonical F2 slice pushed from position 0";
    b.ops = {"new 4", "pushslice 4 1 3 3f800000/-/-/-:1:-;00000000/-/-/-:4:-;bf800000/-/-/-:7:-", "readall"};
    R.run_case(b);
    Case b2;
    b2.kind = "canonical F2 field written at offset.back()";
    b2.ops = {"new 4", "pushblock 4 3f800000/-/-/50:1:-", "pushblock 4 40000000/-/-/51:2:-,52:3:-", "readall"};
    R.run_case(b2);
    Case c;
    c.kind = "canonical F4 block without label";
    c.ops = {"new 4", "iterfile csv:-1:-1 0 2 " + vh::hex("1,2\n3,4\n") + " -/-/-/-:0:3f800000,-:1:40000000;-/-/-/-:0:40400000,-:1:40800000"};
    R.run_case(c);
    Case d;
    d.kind = "canonical F3 mixed presence";
    d.ops = {"new 4", "pushrow 4 3f800000/-/-/-:1:-", "pushblock 4 40000000/-/-/-:2:-", "getblock"};
    R.run_case(d);
  }
  // (1) every small block x every presence combination x every slice, pushed into an empty container
  {
    unsigned salt = 0;
    for (auto &sh : all_shapes)
      for (unsigned m = 0; m < 32; ++m) {
        std::vector<RRow> blk = block_of(sh, m, ++salt % 7);
        std::string d = show_rows(blk);
        size_t n = blk.size();
        for (size_t b = 0; b <= n; ++b)
          for (size_t e = b; e <= n; ++e) {
            if (!T && n == 3 && (m & 1) == 0 && !(b == 1 && e == 3)) continue;   // quick: label-less 3-row blocks only [1,3)
            Case c;
            c.kind = "slice1";
            c.ops.push_back("new 4");
            if (b == 0 && e == n) c.ops.push_back("pushblock 4 " + d);
            else c.ops.push_back("pushslice 4 " + std::to_string(b) + " " + std::to_string(e) + " " + d);
            add_reads(&c, e - b);
            R.run_case(c);
          }
      }
    // invalid slice ranges
    std::vector<RRow> blk = block_of({1, 2}, 31, 1);
    for (auto be : {std::make_pair(2, 1), std::make_pair(0, 3), std::make_pair(3, 3)}) {
      Case c;
      c.kind = "slice1 invalid";
      c.ops = {"new 4", "pushslice 4 " + std::to_string(be.first) + " " + std::to_string(be.second) + " " + show_rows(blk), "readall"};
      R.run_case(c);
    }
  }
  // (2) two pushes: {row | block} then {row | block | slice}; same presence exhaustively, mixed presence sampled
  {
    auto second = [&](Case base, const std::vector<RRow> &B, int w) {
      size_t n = B.size();
      for (size_t b = 0; b <= n; ++b)
        for (size_t e = b; e <= n; ++e) {
          Case c = base;
          c.ops.push_back("pushslice " + std::to_string(w) + " " + std::to_string(b) + " " + std::to_string(e) + " " + show_rows(B));
          add_reads(&c, 4);
          if (n >= 1) c.ops.push_back("readslice 1 " + std::to_string(std::min<size_t>(3, 1 + (e - b))));
          R.run_case(c);
        }
      if (n >= 1 && row_uniform(B[0])) {
        Case c = base;
        c.ops.push_back("pushrow " + std::to_string(w) + " " + show_row(B[0]));
        add_reads(&c, 4);
        R.run_case(c);
      }
    };
    for (unsigned m = 0; m < 32; ++m)
      for (size_t ia = 0; ia < small_shapes.size(); ++ia)
        for (size_t ib = 0; ib < small_shapes.size(); ++ib) {
          if (!T && (ia + ib + m) % 2) continue;
          std::vector<RRow> A = block_of(small_shapes[ia], m, 1), B = block_of(small_shapes[ib], m, 2);
          Case base;
          base.kind = "push2 same-presence";
          base.ops = {"new 4", "pushblock 4 " + show_rows(A)};
          second(base, B, 4);
          if (!A.empty()) {
            Case b2;
            b2.kind = "push2 row-first";
            b2.ops = {"new 4", "pushrow 4 " + show_row(A[0])};
            second(b2, B, 4);
          }
        }
    size_t nmix = T ? 6000 : 700;
    for (size_t it = 0; it < nmix; ++it) {
      unsigned ma = rng.below(32), mb = rng.below(32);
      std::vector<RRow> A = block_of(small_shapes[1 + rng.below(small_shapes.size() - 1)], ma, 3);
      std::vector<RRow> B = block_of(all_shapes[1 + rng.below(all_shapes.size() - 1)], mb, 4);
      Case c;
      c.kind = "push2 mixed-presence";
      c.ops.push_back("new 4");
      c.ops.push_back(rng.chance(1, 3) ? "pushrow 4 " + show_row(A[0]) : "pushblock 4 " + show_rows(A));
      size_t n = B.size(), b = rng.below(n + 1), e = b + rng.below(n - b + 1);
      c.ops.push_back(rng.chance(1, 4) ? "pushrow 4 " + show_row(B[0])
                                       : "pushslice 4 " + std::to_string(b) + " " + std::to_string(e) + " " + show_rows(B));
      add_reads(&c, 3);
      R.run_case(c);
    }
  }
  // (3) Save / Load: every small block, two images in one stream, every truncation of a small image
  {
    unsigned salt = 0;
    for (auto &sh : all_shapes)
      for (unsigned m = 0; m < 32; ++m) {
        if (!T && (sh.size() == 3) && (m % 3)) continue;
        for (int w : {4, 8}) {
          if (w == 8 && !T && (m % 5)) continue;
          std::vector<RRow> blk = block_of(sh, m, ++salt % 5);
          Case c;
          c.kind = "saveload";
          c.ops = {"new " + std::to_string(w), "pushblock " + std::to_string(w) + " " + show_rows(blk), "save", "dump", "clear"};
          c.ops.push_back("pushrow " + std::to_string(w) + " " + show_row(make_block({1}, true, true, true, false, true, 6)[0]));
          c.ops.push_back("save");
          c.ops.push_back("clear");
          c.ops.push_back("load");
          add_reads(&c, blk.size());
          c.ops.push_back("load");
          c.ops.push_back("readall");
          c.ops.push_back("load");
          c.ops.push_back("sizes");
          R.run_case(c);
        }
      }
    for (unsigned m : {0u, 1u, 17u, 31u, 9u}) {
      std::vector<RRow> blk = block_of({1, 2}, m, 2);
      for (int w : {4, 8}) {
        Case probe;
        size_t len = 8 * 7 + 8 * 3 + 2 * w;   // lower bound; the loop below stops at bad-op
        for (size_t k = 1; k <= len + 120; ++k) {
          if (!T && k > 12 && k % 7) continue;
          Case c;
          c.kind = "saveload truncated";
          c.ops = {"new " + std::to_string(w), "pushblock " + std::to_string(w) + " " + show_rows(blk), "save",
                   "trunc " + std::to_string(k), "clear", "load", "sizes", "readall", "load"};
          R.run_case(c);
        }
      }
    }
  }
  // (4) random longer histories (both container index types, 64-bit sources into 32-bit containers)
  {
    size_t nrand = T ? 6000 : 600;
    for (size_t it = 0; it < nrand; ++it) {
      Case c;
      c.kind = "random";
      int w = rng.chance(1, 4) ? 8 : 4;
      c.ops.push_back("new " + std::to_string(w));
      unsigned m = rng.below(32);
      bool allow_mix = rng.chance(1, 5);
      size_t nops = 3 + rng.below(T ? 14 : 9);
      for (size_t k = 0; k < nops; ++k) {
        unsigned mm = allow_mix && rng.chance(1, 3) ? rng.below(32) : m;
        int sw = w == 8 ? 8 : (rng.chance(1, 3) ? 8 : 4);
        std::vector<RRow> B = block_of(all_shapes[rng.below(all_shapes.size())], mm, rng.below(9));
        if (sw == 8 && rng.chance(1, 6) && !B.empty() && !B[0].e.empty()) B[0].e[0].i = 0x100000000ULL + rng.below(5);
        if (sw == 8 && rng.chance(1, 10) && !B.empty() && !B[0].e.empty() && B[0].e[0].hf) B[0].e.back().f = 0xffffffffULL + rng.below(2);
        size_t n = B.size(), b = rng.below(n + 1), e = b + rng.below(n - b + 1);
        switch (rng.below(12)) {
          case 0: case 1: c.ops.push_back("pushblock " + std::to_string(sw) + " " + show_rows(B)); break;
          case 2: case 3: case 4:
            c.ops.push_back("pushslice " + std::to_string(sw) + " " + std::to_string(b) + " " + std::to_string(e) + " " + show_rows(B)); break;
          case 5: case 6: if (!B.empty()) c.ops.push_back("pushrow " + std::to_string(sw) + " " + show_row(B[rng.below(n)])); break;
          case 7: c.ops.push_back("readall"); break;
          case 8: c.ops.push_back("save"); if (rng.chance(1, 2)) c.ops.push_back("clear"); break;
          case 9: c.ops.push_back("load"); break;
          case 10: if (rng.chance(1, 3)) { c.ops.push_back("clear"); m = rng.below(32); } else c.ops.push_back("getblock"); break;
          default: c.ops.push_back("readslice " + std::to_string(rng.below(4)) + " " + std::to_string(rng.below(6))); break;
        }
      }
      add_reads(&c, 2);
      c.ops.push_back("rewind");
      c.ops.push_back("load");
      c.ops.push_back("readall");
      R.run_case(c);
    }
  }
  // (5) parsers: well-formed lines with every mix of optional parts; ParseBlock + hand-out
  {
    // line kinds: weight x qid x entry list (0,1,2 entries, each with/without value)
    std::vector<RRow> svm_kinds, fm_kinds;
    const std::vector<std::vector<int>> elists = {{}, {0}, {1}, {0, 0}, {0, 1}, {1, 0}, {1, 1}};
    unsigned k = 0;
    for (int hw = 0; hw < 2; ++hw)
      for (int hq = 0; hq < 2; ++hq)
        for (auto &el : elists) {
          RRow r;
          r.hl = true; r.l = kF[k % kNF].bits;
          r.hw = hw; r.w = kF[(k + 2) % kNF].bits;
          r.hq = hq; r.q = 3 + k;
          for (size_t j = 0; j < el.size(); ++j) { Ent e; e.i = 1 + (k + j * 5) % 9; e.hv = el[j]; e.v = kF[(k + j + 1) % kNF].bits; r.e.push_back(e); }
          ++k;
          svm_kinds.push_back(r);
          if (!hq) { RRow f = r; for (auto &e : f.e) { e.hf = true; e.f = 2 + e.i % 3; } fm_kinds.push_back(f); }
        }
    auto run_lines = [&](const std::string &fmt, const std::vector<RRow> &lines, const std::string &text) {
      Case c;
      c.kind = "parse " + fmt;
      c.ops = {"new 4", "parse " + fmt + " " + vh::hex(text) + " " + show_rows(lines), "sizes", "getblock", "readall"};
      R.run_case(c);
    };
    for (int pass = 0; pass < 2; ++pass) {
      const std::vector<RRow> &kinds = pass ? fm_kinds : svm_kinds;
      std::string fmt = pass ? "fm" : "svm";
      for (auto &a : kinds) run_lines(fmt, {a}, pass ? fm_text({a}, nullptr) : svm_text({a}, nullptr));
      for (auto &a : kinds)
        for (auto &b : kinds) {
          if (!T && rng.chance(1, 2)) continue;
          run_lines(fmt, {a, b}, pass ? fm_text({a, b}, nullptr) : svm_text({a, b}, nullptr));
        }
      size_t n3 = T ? 4000 : 400;
      for (size_t it = 0; it < n3; ++it) {
        std::vector<RRow> ls;
        size_t n = 3 + rng.below(3);
        bool uniform = rng.chance(1, 2);
        const RRow &proto = kinds[rng.below(kinds.size())];
        for (size_t j = 0; j < n; ++j) {
          RRow r = kinds[rng.below(kinds.size())];
          if (uniform) { r.hw = proto.hw; r.hq = proto.hq; for (auto &e : r.e) e.hv = proto.e.empty() ? true : proto.e[0].hv; }
          ls.push_back(r);
        }
        run_lines(fmt, ls, pass ? fm_text(ls, &rng) : svm_text(ls, &rng));
      }
    }
    // the canonical failing input of DESIGN F7
    {
      std::vector<RRow> ls;
      parse_rows("3f800000/40000000/-/-:1:3f800000;40400000/-/-/-:1:3f800000", &ls);
      Case c;
      c.kind = "parse svm F7";
      c.ops = {"new 4", "parse svm " + vh::hex("1:2 1:1\n3 1:1\n") + " " + show_rows(ls), "sizes", "getblock", "readall"};
      R.run_case(c);
    }
    // csv
    size_t ncsv = T ? 5000 : 700;
    for (size_t it = 0; it < ncsv; ++it) {
      int lc = static_cast<int>(rng.below(4)) - 1, wc = static_cast<int>(rng.below(5)) - 1;
      if (wc == lc) wc = -1;
      std::string fmt = "csv:" + std::to_string(lc) + ":" + std::to_string(wc);
      size_t n = 1 + rng.below(4);
      size_t ncols = 1 + rng.below(5);
      bool regular = rng.chance(2, 3);
      std::vector<RRow> ls;
      std::string text;
      for (size_t j = 0; j < n; ++j)
        ls.push_back(csv_line(regular ? ncols : 1 + rng.below(5), lc, wc, &rng, true, !regular, &text));
      Case c;
      c.kind = "parse csv";
      c.ops = {"new 4", "parse " + fmt + " " + vh::hex(text) + " " + show_rows(ls), "sizes", "getblock", "readall"};
      R.run_case(c);
    }
    // malformed / arbitrary token texts: only the oracle speaks (sound block or dmlc::Error)
    const char *toks[] = {"1", "2", "0.5", "1:2", "3:4:5", "1:", ":", ":2", "qid:3", "qid:", "qid", "#", "# x", " ", "  ", "\t",
                          "\n", "\r\n", "\r", "-", "+", "nan", "inf", "1e", "e5", ",", ",,", ";", "a", "1:2:", "::", "7:8:9:1",
                          "-1", "1.5:0.5", "4294967295:1", "4294967296:1", "\xEF\xBB\xBF", "0x10", "1 1:1", "3 qid:1 2:3"};
    const size_t ntok = sizeof(toks) / sizeof(toks[0]);
    size_t nbad = T ? 12000 : 1500;
    for (size_t it = 0; it < nbad; ++it) {
      std::string text;
      size_t n = 1 + rng.below(14);
      for (size_t j = 0; j < n; ++j) {
        text += toks[rng.below(rng.chance(1, 2) ? 8 : ntok)];
        if (rng.chance(1, 2)) text += rng.chance(3, 4) ? " " : "\n";
      }
      if (rng.chance(1, 2)) text += "\n";
      // a UTF-8 BOM as the very last bytes of a block makes CSVParser::ParseBlock set lend = end + 1 and scan
      // past the chunk (text-side defect, reported to C11); keep the BOM but never last
      if (text.size() >= 3 && text.compare(text.size() - 3, 3, "\xEF\xBB\xBF") == 0) text += "1\n";
      std::string fmt = it % 3 == 0 ? "svm" : it % 3 == 1 ? "fm" : "csv:" + std::to_string(static_cast<int>(rng.below(3)) - 1) + ":" + std::to_string(rng.chance(1, 3) ? 3 : -1);
      Case c;
      c.kind = "ptext " + fmt.substr(0, 3);
      c.ops = {"new " + std::string(rng.chance(1, 5) ? "8" : "4"), "ptext " + fmt + " " + vh::hex(text)};
      R.run_case(c);
    }
  }
  // (6) iterators over scripted parsers (BasicRowIter / DiskRowIter, passes 1..3, cache reuse)
  {
    size_t nit = T ? 1500 : 220;
    for (size_t it = 0; it < nit; ++it) {
      int w = rng.chance(1, 4) ? 8 : 4;
      unsigned m = rng.below(32);
      bool mix = rng.chance(1, 8);
      size_t nb = rng.below(4);
      std::string blocks;
      for (size_t j = 0; j < nb; ++j) {
        std::vector<RRow> B = block_of(all_shapes[rng.below(all_shapes.size())], mix && j ? rng.below(32) : m, j + 1);
        if (B.empty() && rng.chance(1, 2)) B = block_of({1}, m, j + 1);
        blocks += " " + show_rows(B);
      }
      size_t npass = 1 + rng.below(3);
      Case c;
      c.kind = it % 2 ? "iterdisk" : "iterbasic";
      c.ops.push_back("new " + std::to_string(w));
      if (it % 2) c.ops.push_back("iterdisk " + std::to_string(rng.below(2)) + " " + std::to_string(npass) + blocks);
      else c.ops.push_back("iterbasic " + std::to_string(w) + " " + std::to_string(npass) + blocks);
      R.run_case(c);
    }
  }
  // (7) RowBlockIter on real files: documents with uniform (and some mixed) optional parts, with and without #cache
  {
    size_t nf = T ? 600 : 90;
    for (size_t it = 0; it < nf; ++it) {
      int kind = it % 3;
      std::vector<RRow> ls;
      std::string text, fmt;
      size_t n = rng.below(40) < 2 ? 0 : 1 + rng.below(T ? 60 : 14);
      bool hw = rng.chance(1, 2), hq = rng.chance(1, 2), hv = rng.chance(2, 3);
      bool mix = rng.chance(1, 7);
      if (kind < 2) {
        fmt = kind ? "fm" : "svm";
        for (size_t j = 0; j < n; ++j) {
          RRow r;
          r.hl = true; r.l = kF[rng.below(kNF)].bits;
          bool w1 = mix && rng.chance(1, 3) ? !hw : hw;
          r.hw = w1; r.w = kF[rng.below(kNF)].bits;
          r.hq = kind == 0 && hq; r.q = rng.below(50);
          size_t ne = rng.below(4);
          for (size_t q = 0; q < ne; ++q) { Ent e; e.hf = kind == 1; e.f = rng.below(5); e.i = rng.below(30); e.hv = hv; e.v = kF[rng.below(kNF)].bits; r.e.push_back(e); }
          ls.push_back(r);
        }
        text = kind ? fm_text(ls, &rng) : svm_text(ls, &rng);
      } else {
        int lc = rng.chance(1, 2) ? -1 : static_cast<int>(rng.below(3)), wc = rng.chance(1, 3) ? 3 : -1;
        fmt = "csv:" + std::to_string(lc) + ":" + std::to_string(wc);
        size_t ncols = 2 + rng.below(4) + (lc >= 0) + (wc >= 0);
        for (size_t j = 0; j < n; ++j) ls.push_back(csv_line(ncols, lc, wc, &rng, true, false, &text));
      }
      if (text.empty()) text = "\n";
      Case c;
      c.kind = "iterfile " + fmt.substr(0, 3);
      c.ops.push_back("new " + std::string(rng.chance(1, 4) ? "8" : "4"));
      c.ops.push_back("iterfile " + fmt + " " + std::to_string(rng.below(3)) + " " + std::to_string(1 + rng.below(3)) + " " +
                      vh::hex(text) + " " + show_rows(ls));
      R.run_case(c);
    }
  }
  // (8) the real page size: blocks of ~8 MB until MemCostBytes() >= kPageSize (64 MB) is crossed
  {
    Case c;
    c.kind = "diskbig";
    c.ops = {"new 4", T ? "diskbig 19 1000 1000" : "diskbig 10 1000 1000"};
    R.run_case(c);
  }
  R.finish();
  return 0;
}
