#!/usr/bin/env python3
"""Correspondence harness + oracle for C20 (tracker link maps).  Script harness: same contract as
harness/common/proto.h (vh::Runner): writes ops.txt / impl.txt / oracle.txt / stats.json into --out.

Runs the REAL code: `RabitTracker.get_link_map(n)` (and, as internal observations, `get_tree`,
`find_share_ring`) imported from $VERIF_REPO/tracker, on an instance created with `__new__` (no socket).
The iteration orders of the child sets `set(tree_map[r]) - {parent_map[r]}` are evaluated in this same
interpreter and sent to the model as `ord` lines, so CPython's set order is observed, not modelled.

Oracle (independent of the Lean model; reference = the property text, checked directly on the returned
dicts with union-find / explicit walks):
  1 tree neighbourhoods symmetric, 2 no self-links / duplicates, 3 connected and acyclic (union-find,
  n-1 edges, degree sum 2(n-1)), 4 rank 0 is the root (parent -1), every other parent is a neighbour
  and leads to the root, 5 ring: every rank has exactly one predecessor and one successor, 6 the ring
  is one cycle through all n ranks in rank order, 7 all links name valid ranks (keys = 0..n-1).
"""
import json
import os
import sys

REPO = os.environ.get('VERIF_REPO', '/repo')
sys.path.insert(0, os.path.join(REPO, 'tracker'))
import logging  # noqa: E402
logging.disable(logging.CRITICAL)
from dmlc_tracker.tracker import RabitTracker  # noqa: E402

PROP = 'C20'
MASK = (1 << 64) - 1


class Rng:
    """splitmix64, same stream as vh::Rng"""

    def __init__(self, seed):
        self.s = (seed * 0x9E3779B97F4A7C15 + 0x1234567) & MASK

    def next(self):
        self.s = (self.s + 0x9E3779B97F4A7C15) & MASK
        z = self.s
        z = ((z ^ (z >> 30)) * 0xBF58476D1CE4E5B9) & MASK
        z = ((z ^ (z >> 27)) * 0x94D049BB133111EB) & MASK
        return z ^ (z >> 31)

    def below(self, n):
        return self.next() % n if n else 0


class _Sock:
    def close(self):
        pass


def new_tracker():
    t = RabitTracker.__new__(RabitTracker)
    t.sock = _Sock()          # silences __del__
    return t


def err_name(e):
    if isinstance(e, AssertionError):
        return 'err:assert'
    if isinstance(e, KeyError):
        return 'err:key'
    if isinstance(e, IndexError):
        return 'err:index'
    if isinstance(e, RecursionError):
        return 'err:depth'
    return 'err:' + type(e).__name__


def show_nats(l):
    return ','.join(str(int(x)) for x in l) if len(l) else '-'


def show_dict(tag, f, d):
    return ' '.join([tag] + ['%d:%s' % (k, f(d[k])) for k in sorted(d)])


# ------------------------------------------------------------------------------------------------
# implementation side
# ------------------------------------------------------------------------------------------------
class Impl:
    def __init__(self):
        self.t = new_tracker()
        self.begin()

    def begin(self):
        self.n = 0
        self.res = None
        self.tp = ({}, {})

    def child_orders(self, n):
        """CPython's iteration order of the child set of every node with >= 2 elements in it"""
        tm, pm = self.t.get_tree(n)
        out = []
        for r in range(n):
            cs = list(set(tm[r]) - set([pm[r]]))
            if len(cs) >= 2:
                out.append((r, cs))
        return out

    def exec(self, w):
        try:
            if len(w) == 2 and w[0] == 'n':
                self.n = int(w[1])
                self.res = None
                self.tp = self.t.get_tree(self.n)
                return 'ok'
            if len(w) >= 2 and w[0] == 'ord':
                r = int(w[1])
                cs = [int(x) for x in w[2:]]
                tm, pm = self.tp
                mine = set(tm[r]) - set([pm[r]]) if r in tm else None
                return 'ok' if mine is not None and sorted(mine) == sorted(cs) and len(cs) == len(mine) else 'bad-ord'
            if w == ['tree0']:
                return show_dict('tree0', show_nats, self.tp[0])
            if w == ['parent0']:
                return show_dict('parent0', lambda p: str(int(p)), self.tp[1])
            if w == ['rlst']:
                try:
                    tm, pm = self.t.get_tree(self.n)
                    return ' '.join(['rlst'] + [str(x) for x in self.t.find_share_ring(tm, pm, 0)])
                except Exception as e:  # noqa: BLE001
                    return err_name(e)
            if w == ['linkmap']:
                try:
                    self.res = ('ok', self.t.get_link_map(self.n))
                    return 'ok'
                except Exception as e:  # noqa: BLE001
                    self.res = ('err', err_name(e))
                    return self.res[1]
            if w in (['tree'], ['parent'], ['ring']):
                if self.res is None:
                    return 'no-linkmap'
                if self.res[0] == 'err':
                    return self.res[1]
                tree, parent, ring = self.res[1]
                if w == ['tree']:
                    return show_dict('tree', show_nats, tree)
                if w == ['parent']:
                    return show_dict('parent', lambda p: str(int(p)), parent)
                return show_dict('ring', lambda p: '%d,%d' % (p[0], p[1]), ring)
        except (ValueError, TypeError):
            return 'bad-op'
        return 'bad-op'


# ------------------------------------------------------------------------------------------------
# oracle: the property, checked on what get_link_map(n) returns
# ------------------------------------------------------------------------------------------------
def is_rank(x, n):
    return isinstance(x, int) and not isinstance(x, bool) and 0 <= x < n


def oracle(n, tracker):
    """list of violated clauses (strings) for worker count n >= 1.  The link maps must be a function of n alone: the
    same tracker object is asked twice in a row (a tracker serves many jobs), both answers are checked"""
    first = oracle_once(n, tracker)
    if first:
        return first
    return ['second call on the same tracker object: ' + b for b in oracle_once(n, tracker)]


def oracle_once(n, tracker):
    bad = []
    try:
        res = tracker.get_link_map(n)
    except Exception as e:  # noqa: BLE001 - an assert / KeyError inside get_link_map breaks "for every n"
        return ['get_link_map(%d) raised %s' % (n, err_name(e))]
    try:
        tree, parent, ring = res
    except (TypeError, ValueError):
        return ['get_link_map(%d) did not return three maps' % n]
    want_keys = list(range(n))
    for name, d in (('tree_map', tree), ('parent_map', parent), ('ring_map', ring)):
        if sorted(d.keys(), key=lambda x: (str(type(x)), x)) != want_keys:
            bad.append('valid-ranks: keys of %s are not exactly 0..%d' % (name, n - 1))
    if bad:
        return bad
    # 7 all links name valid ranks; 2 no self-links, no duplicates
    for a in range(n):
        nb = tree[a]
        for b in nb:
            if not is_rank(b, n):
                bad.append('valid-ranks: tree_map[%d] contains %r' % (a, b))
        if a in nb:
            bad.append('self-link: %d in tree_map[%d]' % (a, a))
        if len(set(nb)) != len(nb):
            bad.append('duplicate: tree_map[%d] = %r' % (a, nb))
        if len(bad) > 8:
            return bad
    if bad:
        return bad
    # 1 symmetric
    nbs = [set(tree[a]) for a in range(n)]
    for a in range(n):
        for b in tree[a]:
            if a not in nbs[b]:
                bad.append('symmetry: %d in tree_map[%d] but %d not in tree_map[%d]' % (b, a, a, b))
                if len(bad) > 8:
                    return bad
    # 3 connected and acyclic: union-find over the undirected edges
    uf = list(range(n))

    def find(x):
        while uf[x] != x:
            uf[x] = uf[uf[x]]
            x = uf[x]
        return x
    edges = 0
    cyc = False
    for a in range(n):
        for b in tree[a]:
            if a < b:
                edges += 1
                ra, rb = find(a), find(b)
                if ra == rb:
                    cyc = True
                else:
                    uf[ra] = rb
    comps = len(set(find(x) for x in range(n)))
    if cyc:
        bad.append('acyclic: the tree links contain a cycle')
    if comps != 1:
        bad.append('connected: %d components' % comps)
    if edges != n - 1:
        bad.append('edge-count: %d undirected edges, want %d' % (edges, n - 1))
    if sum(len(tree[a]) for a in range(n)) != 2 * (n - 1):
        bad.append('degree-sum: %d, want %d' % (sum(len(tree[a]) for a in range(n)), 2 * (n - 1)))
    # 4 root and parents
    if parent[0] != -1:
        bad.append('root: parent_map[0] = %r, want -1' % (parent[0],))
    depth = {0: 0}
    for r in range(1, n):
        p = parent[r]
        if not is_rank(p, n):
            bad.append('parent: parent_map[%d] = %r is not a rank' % (r, p))
        elif p not in nbs[r]:
            bad.append('parent: parent_map[%d] = %d is not a neighbour of %d' % (r, p, r))
        if len(bad) > 8:
            return bad
    if not bad:
        for r in range(1, n):
            path = []
            x = r
            while x not in depth and len(path) <= n:
                path.append(x)
                x = parent[x]
                if not is_rank(x, n):
                    break
            if x not in depth:
                bad.append('parent-chain: following parent_map from %d does not reach rank 0' % r)
                break
            d = depth[x]
            for y in reversed(path):
                d += 1
                depth[y] = d
    # 5/6 ring
    for r in range(n):
        e = ring[r]
        if not (isinstance(e, tuple) and len(e) == 2 and is_rank(e[0], n) and is_rank(e[1], n)):
            bad.append('valid-ranks: ring_map[%d] = %r' % (r, e))
            return bad
    succ_of = {}
    pred_of = {}
    for r in range(n):
        succ_of.setdefault(ring[r][0], []).append(r)   # r is the successor named by ... its predecessor's view
        pred_of.setdefault(ring[r][1], []).append(r)
    for r in range(n):
        # exactly one rank names r as its predecessor, exactly one names r as its successor, consistently
        if ring[ring[r][1]][0] != r or ring[ring[r][0]][1] != r:
            bad.append('ring-consistency: rank %d has (prev,next)=%r but next.prev=%d, prev.next=%d' % (
                r, ring[r], ring[ring[r][1]][0], ring[ring[r][0]][1]))
            break
        if len(succ_of.get(r, [])) != 1 or len(pred_of.get(r, [])) != 1:
            bad.append('ring-degree: rank %d is predecessor of %r and successor of %r' % (
                r, succ_of.get(r, []), pred_of.get(r, [])))
            break
    seen = set()
    x = 0
    steps = 0
    while x not in seen and steps <= n:
        seen.add(x)
        x = ring[x][1]
        steps += 1
    if x != 0 or len(seen) != n:
        bad.append('single-cycle: walking next from 0 visits %d of %d ranks' % (len(seen), n))
    for r in range(n):
        if ring[r][1] != (r + 1) % n or ring[r][0] != (r - 1) % n:
            bad.append('rank-order: ring_map[%d] = %r, want (%d, %d)' % (r, ring[r], (r - 1) % n, (r + 1) % n))
            break
    return bad


# ------------------------------------------------------------------------------------------------
# runner (the Python twin of vh::Runner)
# ------------------------------------------------------------------------------------------------
def fnv(s, h=1469598103934665603):
    for c in s.encode():
        h ^= c
        h = (h * 1099511628211) & MASK
    return h


class Runner:
    def __init__(self, out, seed, tier):
        self.out, self.seed, self.tier = out, seed, tier
        self.f_ops = open(os.path.join(out, 'ops.txt'), 'w')
        self.f_impl = open(os.path.join(out, 'impl.txt'), 'w')
        self.f_or = open(os.path.join(out, 'oracle.txt'), 'w')
        self.n_cases = self.n_ops = self.n_fail = 0
        self.hist = {}
        self.distinct = set()
        self.samples = []
        self.extra = {}
        self.impl = Impl()
        self.oracle_tracker = new_tracker()

    def bump(self, k, v=1):
        self.extra[k] = self.extra.get(k, 0) + v

    def run_case(self, kind, ops):
        self.n_cases += 1
        self.f_ops.write('case %d %s\n' % (self.n_cases, kind))
        self.f_impl.write('case %d %s\n' % (self.n_cases, kind))
        self.impl.begin()
        hh = fnv(kind)
        for op in ops:
            self.n_ops += 1
            r = self.impl.exec(op.split())
            self.f_ops.write(op + '\n')
            self.f_impl.write(r + '\n')
            hh = fnv(op, hh)
        # oracle: on the worker count of the case (the property quantifies over n >= 1 only)
        n = self.impl.n
        fails = []
        if n >= 1:
            fails = oracle(n, self.oracle_tracker)
            self.bump('oracle_evaluations')
            self.bump('oracle_nodes', n)
        for f in fails[:10]:
            self.n_fail += 1
            self.f_or.write('ORACLE-FAIL case=%d class=none prop=%s n=%d %s\n' % (self.n_cases, PROP, n, f))
        full = any(o == 'linkmap' for o in ops)
        if n < 1:
            sh = ''
        else:
            b = n.bit_length()
            sh = ('model+oracle' if full else 'oracle-only') + ' n in [%d,%d)' % (1 << (b - 1), 1 << b)
        self.hist[sh or 'trivial'] = self.hist.get(sh or 'trivial', 0) + 1
        if sh:
            self.distinct.add(hh)
        if len(self.samples) < 5 and sh and (self.n_cases % 7 == 1 or not self.samples):
            self.samples.append(' | '.join([kind] + [o[:120] for o in ops[:6]]))

    def finish(self):
        self.f_ops.close()
        self.f_impl.close()
        self.f_or.close()
        with open(os.path.join(self.out, 'stats.json'), 'w') as fh:
            json.dump({'cases': self.n_cases, 'ops': self.n_ops, 'oracle_failures': self.n_fail,
                       'distinct_nontrivial': len(self.distinct), 'histogram': self.hist,
                       'extra': self.extra, 'samples': self.samples}, fh, indent=1)


def full_case(r, n):
    """all observations, compared with the model"""
    ops = ['n %d' % n]
    orders = r.impl.child_orders(n)
    swapped = 0
    for node, cs in orders:
        ops.append('ord %d %s' % (node, ' '.join(str(c) for c in cs)))
        if cs != sorted(cs):
            swapped += 1
    r.bump('nodes_with_two_children', len(orders))
    r.bump('nodes_iterated_in_descending_order', swapped)
    ops += ['tree0', 'parent0', 'rlst', 'linkmap', 'tree', 'parent', 'ring']
    r.run_case('linkmap n=%d' % n, ops)


def oracle_only_case(r, n):
    """model driver too slow for this n: implementation + oracle only (one cheap op for the model)"""
    r.run_case('oracle-only n=%d' % n, ['n %d' % n])


def generate(r):
    rng = Rng(r.seed)
    if r.tier != 'thorough':
        for n in range(1, 513):
            full_case(r, n)
        # a few larger counts, oracle only (seeded)
        for _ in range(4):
            oracle_only_case(r, 513 + rng.below(4096 - 513))
        # boundary family around the powers of two (tree levels fill up / a new level starts): oracle only.
        # quick: all 2^k + d, |d| <= 3, k = 10..14, and one seeded k in 15..16; thorough: k up to 17
        for k in range(10, 15):
            for d in range(-3, 4):
                oracle_only_case(r, (1 << k) + d)
        k = 15 + rng.below(2)
        for d in range(-3, 4):
            oracle_only_case(r, (1 << k) + d)
        revisit(r, rng, 40)
        return
    full_upto = 1024
    pick = rng.below(16)
    for n in range(1, 4097):
        if n <= full_upto or n % 16 == pick or (n & (n - 1)) == 0 or (n & (n + 1)) == 0 or ((n - 1) & (n - 2)) == 0:
            full_case(r, n)
        else:
            oracle_only_case(r, n)
    big = [4097, 8191, 8192, 8193, 65535, 65536, 65537, 99999, 100000]
    for k in range(13, 18):
        for d in range(-3, 4):
            big.append((1 << k) + d)
    for _ in range(12):
        big.append(4097 + rng.below(100000 - 4097 + 1))
    full_case(r, 4097 + rng.below(4096))
    for n in big:
        oracle_only_case(r, n)
    revisit(r, rng, 200)


def revisit(r, rng, count):
    """after the (ascending) sweep: small worker counts again, in random order, on the tracker objects that have by now
    served thousands of larger jobs -- the maps must not depend on what the object (or the class) was asked before"""
    for _ in range(count):
        n = 1 + rng.below(96) if rng.below(4) else 1 + rng.below(2048)
        full_case(r, n) if n <= 512 else oracle_only_case(r, n)


def run_replay(r, path):
    kind = 'replay'
    ops = []
    have = False
    for line in open(path):
        line = line.rstrip('\n')
        if not line:
            continue
        if line.startswith('case '):
            if have:
                r.run_case(kind, ops)
            w = line.split()
            kind = ' '.join(w[2:]) or 'replay'
            ops = []
            have = True
            continue
        ops.append(line)
        have = True
    if have:
        r.run_case(kind, ops)


def main(argv):
    out = None
    seed = 1
    tier = 'quick'
    replay = None
    i = 1
    while i < len(argv):
        a = argv[i]
        if a == '--out' and i + 1 < len(argv):
            out = argv[i + 1]
            i += 1
        elif a == '--seed' and i + 1 < len(argv):
            seed = int(argv[i + 1])
            i += 1
        elif a == '--tier' and i + 1 < len(argv):
            tier = argv[i + 1]
            i += 1
        elif a == '--replay' and i + 1 < len(argv):
            replay = argv[i + 1]
            i += 1
        i += 1
    if not out:
        sys.stderr.write('--out required\n')
        return 2
    r = Runner(out, seed, tier)
    if replay:
        run_replay(r, replay)
    else:
        generate(r)
    r.finish()
    return 0


if __name__ == '__main__':
    sys.exit(main(sys.argv))
