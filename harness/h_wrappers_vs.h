// Shared between harness/h_wrappers.cc (native threads, forked children) and harness/h_wrappers_vs.cc
// (the same wrappers compiled against the controlled scheduler): the entry/exit monitor that is put
// around the base split, and the interface of the scheduler-controlled executions.
#ifndef VERIF_H_WRAPPERS_VS_H_
#define VERIF_H_WRAPPERS_VS_H_
#include <dmlc/io.h>
#include <atomic>
#include <cstdint>
#include <functional>
#include <mutex>
#include <string>
#include <vector>
#include <io/input_split_base.h>

namespace wmon {

// Who is inside the base split / inside a chunk.  role 0 = the calling thread, 1 = the prefetch thread.
// Both sides publish first and look at the other side afterwards (seq_cst): of two overlapping sections
// at least one sees the other.
struct Monitor {
  std::atomic<int> depth[2];
  std::atomic<const char *> what[2];
  std::atomic<void *> chunk[2];
  std::atomic<long> base_entries[2];
  std::mutex mu;
  std::vector<std::string> violations;
  std::function<int()> role;
  std::function<void()> pause;     // executed inside every monitored section (a scheduling point / a delay)
  Monitor() {
    for (int i = 0; i < 2; ++i) { depth[i] = 0; what[i] = ""; chunk[i] = nullptr; base_entries[i] = 0; }
  }
  void violate(const std::string &s) {
    std::lock_guard<std::mutex> g(mu);
    if (violations.size() < 4) violations.push_back(s);
  }
};

struct Section {
  Monitor *m;
  int r;
  bool base;
  void *c, *prev;
  Section(Monitor *mon, const char *w, bool is_base, void *ch) : m(mon), r(0), base(is_base), c(ch), prev(nullptr) {
    if (!m) return;
    r = m->role() ? 1 : 0;
    static const char *who[2] = {"caller", "prefetch-thread"};
    if (base) {
      if (m->depth[r].fetch_add(1) == 0) m->what[r] = w;
      ++m->base_entries[r];
      if (m->depth[1 - r].load() > 0)
        m->violate(std::string("base-overlap ") + who[r] + " enters " + m->what[r].load() + " while " + who[1 - r] +
                   " is inside " + m->what[1 - r].load());
    }
    if (c) {
      prev = m->chunk[r].exchange(c);
      if (m->chunk[1 - r].load() == c)
        m->violate(std::string("chunk-overlap ") + who[r] + " touches a chunk in " + w + " that " + who[1 - r] + " is using");
    }
    if (m->pause) m->pause();
  }
  ~Section() {
    if (!m) return;
    if (c) m->chunk[r].store(prev);
    if (base) m->depth[r].fetch_sub(1);
  }
};

// a LineSplitter / RecordIOSplitter whose state-touching entry points report to the monitor
template <class B>
struct Mon : B {
  using B::B;
  Monitor *mon = nullptr;
  typedef dmlc::io::InputSplitBase::Chunk Chunk;
  void set_buffer_words(size_t w) { this->buffer_size_ = w; }
  bool NextChunkEx(Chunk *chunk) override {
    Section s(mon, "NextChunkEx", true, chunk);
    return B::NextChunkEx(chunk);
  }
  void BeforeFirst() override {
    Section s(mon, "BeforeFirst", true, nullptr);
    B::BeforeFirst();
  }
  void ResetPartition(unsigned rank, unsigned nsplit) override {
    Section s(mon, "ResetPartition", true, nullptr);
    B::ResetPartition(rank, nsplit);
  }
  bool ExtractNextRecord(dmlc::InputSplit::Blob *out_rec, Chunk *chunk) override {
    Section s(mon, "ExtractNextRecord", false, chunk);
    return B::ExtractNextRecord(out_rec, chunk);
  }
};

}  // namespace wmon

namespace wvs {

struct Spec {
  bool text = true;
  std::vector<std::string> files;   // raw bytes of file i
  unsigned k = 0, n = 1;
  size_t w = 1, batch = 1;
  std::vector<std::string> ops;     // rec chunk bf "reset k n" drain-rec drain-chunk (consumer program, caller thread)
};

struct Out {
  std::vector<std::string> results;     // one per op (same text as the native harness prints)
  std::vector<std::string> violations;  // monitor reports
  std::string status;                   // completed | deadlock | step-limit | stuck
  std::string schedule;                 // choice list, comma separated
  std::string blocked;
  int steps = 0, preemptions = 0;
  long overlap_windows = 0;             // scheduling points taken inside a monitored base section
};

// strategy: "replay" (arg = schedule), "pct" (seed, depth), "random" (seed)
Out run_replay(const Spec &sp, const std::string &schedule);
Out run_pct(const Spec &sp, uint64_t seed, int depth);
Out run_random(const Spec &sp, uint64_t seed);
// exhaustive DFS with a preemption bound; cb returns false to stop; returns true when the bounded tree was exhausted
bool run_dfs(const Spec &sp, int bound, long max_exec, const std::function<bool(const Out &)> &cb);

}  // namespace wvs
#endif  // VERIF_H_WRAPPERS_VS_H_
