// Scheduler-controlled executions of the UNMODIFIED ThreadedInputSplit (src/io/threaded_input_split.h over
// include/dmlc/threadediter.h) for property C10.  std::mutex / condition_variable / atomic / thread are
// substituted by the shim classes of common/vsched.h while these two headers are read; the classes are
// renamed (ThreadedIter -> ThreadedIterVS, ...) in this TU only, so that they can live in one binary with
// the natively compiled wrappers of h_wrappers.cc and of $REPO/src/io.cc.
// The base split is a monitored LineSplitter / RecordIOSplitter over the in-memory filesystem; every
// monitored section contains a scheduling point, so the explorer can place the other thread inside it.
#include <algorithm>
#include <atomic>
#include <condition_variable>
#include <cstdio>
#include <cstdlib>
#include <cstring>
#include <deque>
#include <exception>
#include <functional>
#include <iostream>
#include <map>
#include <memory>
#include <mutex>
#include <queue>
#include <set>
#include <sstream>
#include <stdexcept>
#include <string>
#include <thread>
#include <utility>
#include <vector>

#include <dmlc/base.h>
#include <dmlc/data.h>
#include <dmlc/filesystem.h>
#include <dmlc/io.h>
#include <dmlc/logging.h>
#include <dmlc/recordio.h>

#include "common/memfs.h"
#include "common/proto.h"
#include "h_wrappers_vs.h"
#include <io/input_split_base.h>
#include <io/line_split.h>
#include <io/recordio_split.h>

#include "common/vsched.h"
#define VSCHED_SUBSTITUTE_BEGIN
#include "common/vsched.h"
#define ScopedThread ScopedThreadVS
#define ThreadedIter ThreadedIterVS
#define ThreadedInputSplit ThreadedInputSplitVS
#define private public
#include <dmlc/threadediter.h>
#include <io/threaded_input_split.h>
#undef private
#undef ScopedThread
#undef ThreadedIter
#undef ThreadedInputSplit
#define VSCHED_SUBSTITUTE_END
#include "common/vsched.h"

namespace wvs {
namespace {

using dmlc::InputSplit;
using dmlc::io::InputSplitBase;
typedef dmlc::io::ThreadedInputSplitVS TSplit;

struct Exec {
  Spec spec;
  vh::MemFS fs;
  wmon::Monitor mon;
  std::unique_ptr<TSplit> split;
  std::vector<std::string> results;
  long windows = 0;
  bool in_section[2] = {false, false};
};

std::string uri_of(const Spec &sp) {
  std::vector<std::string> names;
  for (size_t i = 0; i < sp.files.size(); ++i) names.push_back("/m/f" + std::to_string(i));
  return vh::MemFS::JoinUri(names);
}

std::string one(Exec *X, TSplit *s, bool rec) {
  InputSplit::Blob b;
  bool ok = rec ? s->NextRecord(&b) : s->NextChunk(&b);
  if (!ok) return "false";
  // the consumer reads the blob out of the lent chunk
  wmon::Section sec(&X->mon, "blob-copy", false, s->tmp_chunk_);
  return std::string(rec ? "rec " : "chunk ") + vh::hex(std::string(static_cast<const char *>(b.dptr), b.size));
}

void main_body(Exec *X) {
  const Spec &sp = X->spec;
  bool poisoned = false;
  InputSplitBase *base = nullptr;
  try {
    std::string u = uri_of(sp);
    if (sp.text) {
      auto *m = new wmon::Mon<dmlc::io::LineSplitter>(&X->fs, u.c_str(), sp.k, sp.n);
      m->mon = &X->mon;
      m->set_buffer_words(sp.w);
      base = m;
    } else {
      auto *m = new wmon::Mon<dmlc::io::RecordIOSplitter>(&X->fs, u.c_str(), sp.k, sp.n, false);
      m->mon = &X->mon;
      m->set_buffer_words(sp.w);
      base = m;
    }
    X->split.reset(new TSplit(base, sp.batch));
  } catch (const dmlc::Error &) {
    poisoned = true;
  }
  for (const std::string &op : sp.ops) {
    if (poisoned) { X->results.push_back(X->split ? "poisoned" : "no-object"); continue; }
    vs::yield_point("op");
    auto w = vh::split_ws(op);
    std::string r = "bad-op";
    try {
      TSplit *s = X->split.get();
      if (w[0] == "rec") r = one(X, s, true);
      else if (w[0] == "chunk") r = one(X, s, false);
      else if (w[0] == "bf") { s->BeforeFirst(); r = "ok"; }
      else if (w[0] == "reset" && w.size() == 3) {
        s->ResetPartition(strtoul(w[1].c_str(), nullptr, 10), strtoul(w[2].c_str(), nullptr, 10));
        r = "ok";
      } else if (w[0] == "drain" && w.size() >= 2) {
        r = "blobs";
        size_t cnt = 0;
        for (;;) {
          std::string b = one(X, s, w[1] == "rec");
          if (b == "false") break;
          r += " " + b.substr(b.find(' ') + 1);
          if (++cnt > 10000) { r = "runaway"; break; }
        }
        if (r != "runaway") r += " end";
      }
    } catch (const dmlc::Error &) {
      r = "err:check";
      poisoned = true;
    }
    X->results.push_back(r);
  }
  X->split.reset();   // the destructor joins the prefetch thread: must run on a controlled thread
}

vs::Program make_program(const Spec &sp, Exec **out) {
  std::shared_ptr<Exec> X(new Exec);
  X->spec = sp;
  for (size_t i = 0; i < sp.files.size(); ++i) X->fs.Put("/m/f" + std::to_string(i), sp.files[i]);
  Exec *raw = X.get();
  X->mon.role = []() { return vs::self() == 0 ? 0 : 1; };
  X->mon.pause = [raw]() {
    ++raw->windows;
    vs::yield_point("base");
  };
  vs::Program p;
  p.threads.push_back([raw]() { main_body(raw); });
  p.state = X;
  *out = raw;
  return p;
}

Out run_with(const Spec &sp, vs::Chooser &ch) {
  vs::RunOptions ro;
  ro.max_steps = 6000;
  ro.stuck_ms = 15000;
  Exec *X = nullptr;
  std::shared_ptr<void> keep;
  vs::Factory f = [&]() {
    vs::Program p = make_program(sp, &X);
    keep = p.state;
    return p;
  };
  // the base split's constructor is executed by T0 inside the run; buffer size is applied there too
  vs::Result res = vs::run(f, ch, ro);
  Out o;
  o.status = vs::status_name(res.status);
  o.steps = static_cast<int>(res.trace.size());
  o.preemptions = res.preemptions;
  std::string s = res.schedule();
  std::replace(s.begin(), s.end(), ' ', ',');
  o.schedule = s;
  for (auto &b : res.blocked) o.blocked += (o.blocked.empty() ? "" : "; ") + b;
  for (auto &u : res.uncaught) o.violations.push_back("uncaught " + u);
  for (auto &e : res.errors) o.violations.push_back("misuse " + e);
  if (X) {
    o.results = X->results;
    o.overlap_windows = X->windows;
    std::lock_guard<std::mutex> g(X->mon.mu);
    for (auto &v : X->mon.violations) o.violations.push_back(v);
  }
  while (o.results.size() < sp.ops.size()) o.results.push_back("hang");
  if (res.status != vs::COMPLETED) (void)new std::shared_ptr<void>(keep);   // abandoned: parked threads still use it
  return o;
}

}  // namespace

Out run_replay(const Spec &sp, const std::string &schedule) {
  std::string s = schedule;
  std::replace(s.begin(), s.end(), ',', ' ');
  vs::ReplayChooser ch(vs::parse_schedule(s));
  return run_with(sp, ch);
}
Out run_pct(const Spec &sp, uint64_t seed, int depth) {
  vs::PctChooser ch(seed, depth, 150);
  return run_with(sp, ch);
}
Out run_random(const Spec &sp, uint64_t seed) {
  vs::RandomChooser ch(seed, 1000000);
  return run_with(sp, ch);
}
bool run_dfs(const Spec &sp, int bound, long max_exec, const std::function<bool(const Out &)> &cb) {
  vs::DfsChooser ch(bound);
  long n = 0;
  int dead = 0;
  for (;;) {
    Out o = run_with(sp, ch);
    ++n;
    if (o.status != "completed") ++dead;
    if (!cb(o)) return false;
    if (dead >= 2) return false;
    if (max_exec >= 0 && n >= max_exec) return false;
    if (!ch.next()) return true;
  }
}

}  // namespace wvs
