"""Tiny C/C++/Python expression parser and Lean pretty-printer used by translate.py.

Supported: integer literals (dec/hex/octal-zero, suffixes U L UL ULL), character literals, identifiers
(with :: . -> joined into one name), unary ! ~ - , binary * / % + - << >> < <= > >= == != & ^ | && || ,
ternary ?:, calls std::min/std::max/min/max, sizeof(T) for fixed-width types, static_cast<T>(e),
C-style casts to the fixed-width unsigned types, Python's `//`, `and`, `or`, `not`.

Every arithmetic node is typed with a width (32 or 64; Python: unbounded = 0) and emitted with the
wrap-around of that width, so the Lean definition has the C++ unsigned semantics.
"""
import re

TOK = re.compile(r"""
   (?P<num>0[xX][0-9a-fA-F]+[uUlL]*|\d+\.?\d*(?:[eE][+-]?\d+)?[uUlLfF]*)
 | (?P<chr>'(?:\\.|[^'\\])')
 | (?P<id>[A-Za-z_][A-Za-z_0-9]*(?:(?:::|\.|->)[A-Za-z_][A-Za-z_0-9]*)*)
 | (?P<op>//|<<|>>|<=|>=|==|!=|&&|\|\||[-+*/%<>&|^~!?:(),\[\]])
 | (?P<ws>\s+)
""", re.X)

SIZEOF = {'uint32_t': 4, 'int32_t': 4, 'int': 4, 'unsigned': 4, 'uint64_t': 8, 'int64_t': 8,
          'size_t': 8, 'char': 1, 'uint8_t': 1, 'float': 4, 'double': 8, 'real_t': 4,
          'uint16_t': 2, 'long': 8}
CAST_W = {'uint32_t': 32, 'unsigned': 32, 'uint64_t': 64, 'size_t': 64, 'int': 32, 'uint8_t': 8,
          'char': 8, 'unsignedchar': 8, 'int64_t': 64, 'long': 64}
ESC = {'n': 10, 'r': 13, 't': 9, '0': 0, '\\': 92, "'": 39, '"': 34, 'f': 12, 'v': 11, 'b': 8, 'a': 7}


class ParseError(Exception):
    pass


def tokenize(s):
    out = []
    pos = 0
    while pos < len(s):
        m = TOK.match(s, pos)
        if not m:
            raise ParseError('cannot tokenize at %r' % s[pos:pos + 20])
        pos = m.end()
        if m.lastgroup == 'ws':
            continue
        out.append((m.lastgroup, m.group()))
    return out


class Node:
    def __init__(self, kind, *args, w=32, boolean=False):
        self.kind, self.args, self.w, self.boolean = kind, args, w, boolean


class Parser:
    def __init__(self, text, python=False):
        self.toks = tokenize(text)
        self.i = 0
        self.python = python

    def peek(self):
        return self.toks[self.i] if self.i < len(self.toks) else (None, None)

    def eat(self, val=None):
        k, v = self.peek()
        if val is not None and v != val:
            raise ParseError('expected %r got %r' % (val, v))
        self.i += 1
        return k, v

    def parse(self):
        e = self.ternary()
        if self.i != len(self.toks):
            raise ParseError('trailing tokens %r' % (self.toks[self.i:],))
        return e

    def ternary(self):
        c = self.binary(0)
        if self.peek()[1] == '?':
            self.eat()
            a = self.ternary()
            self.eat(':')
            b = self.ternary()
            return Node('ite', c, a, b, w=None)
        if self.python and self.peek()[1] == 'if':
            self.eat()
            cond = self.binary(0)
            self.eat('else')
            b = self.ternary()
            return Node('ite', cond, c, b, w=None)
        return c

    LEVELS = [['||', 'or'], ['&&', 'and'], ['|'], ['^'], ['&'], ['==', '!='], ['<', '<=', '>', '>='],
              ['<<', '>>'], ['+', '-'], ['*', '/', '%', '//']]

    def binary(self, lvl):
        if lvl == len(self.LEVELS):
            return self.unary()
        lhs = self.binary(lvl + 1)
        while self.peek()[1] in self.LEVELS[lvl]:
            op = self.eat()[1]
            rhs = self.binary(lvl + 1)
            if op in ('||', 'or', '&&', 'and', '==', '!=', '<', '<=', '>', '>='):
                lhs = Node('bin', op, lhs, rhs, boolean=True)
            else:
                lhs = Node('bin', op, lhs, rhs, w=None)
        return lhs

    def unary(self):
        k, v = self.peek()
        if v in ('!', 'not'):
            self.eat()
            return Node('not', self.unary(), boolean=True)
        if v == '~':
            self.eat()
            e = self.unary()
            return Node('bnot', e, w=None)
        if v == '-':
            self.eat()
            e = self.unary()
            return Node('neg', e, w=None)
        if v == '+':
            self.eat()
            return self.unary()
        return self.postfix()

    def postfix(self):
        k, v = self.eat()
        if k == 'num':
            m = re.match(r'(0[xX][0-9a-fA-F]+|\d+)([uUlL]*)$', v)
            if not m:
                raise ParseError('unsupported literal ' + v)
            body, suf = m.groups()
            if body.lower().startswith('0x'):
                n = int(body, 16)
            elif len(body) > 1 and body[0] == '0' and not self.python:
                n = int(body, 8)
            else:
                n = int(body)
            w = 64 if 'l' in suf.lower() else 32
            if n >= 2 ** 32:
                w = 64
            if self.python:
                w = 0
            return Node('lit', n, w=w)
        if k == 'chr':
            body = v[1:-1]
            n = ESC[body[1]] if body[0] == '\\' else ord(body)
            return Node('lit', n, w=32)
        if v == '(':
            # C-style cast?
            save = self.i
            names = []
            while self.peek()[0] == 'id':
                names.append(self.eat()[1])
            if names and self.peek()[1] == ')' and ''.join(names).replace('std::', '') in CAST_W:
                self.eat(')')
                e = self.unary()
                return Node('cast', e, w=CAST_W[''.join(names).replace('std::', '')])
            self.i = save
            e = self.ternary()
            self.eat(')')
            return e
        if k == 'id':
            if v == 'sizeof':
                self.eat('(')
                names = []
                while self.peek()[1] != ')':
                    names.append(self.eat()[1])
                self.eat(')')
                t = ''.join(names).replace('std::', '')
                if t not in SIZEOF:
                    raise ParseError('sizeof(%s) unknown' % t)
                return Node('lit', SIZEOF[t], w=0 if self.python else 64)
            if v == 'static_cast':
                self.eat('<')
                names = []
                while self.peek()[1] != '>':
                    names.append(self.eat()[1])
                self.eat('>')
                self.eat('(')
                e = self.ternary()
                self.eat(')')
                t = ''.join(names).replace('std::', '')
                if t not in CAST_W:
                    raise ParseError('cast to %s unsupported' % t)
                return Node('cast', e, w=CAST_W[t])
            if self.peek()[1] == '(':
                self.eat('(')
                args = []
                if self.peek()[1] != ')':
                    args.append(self.ternary())
                    while self.peek()[1] == ',':
                        self.eat()
                        args.append(self.ternary())
                self.eat(')')
                name = v.replace('std::', '')
                return Node('call', name, *args, w=None)
            if self.peek()[1] == '[':
                self.eat('[')
                idx = self.ternary()
                self.eat(']')
                return Node('index', v, idx, w=32)
            return Node('var', v, w=None)
        raise ParseError('unexpected token %r' % v)


def parse(text, python=False):
    return Parser(text, python).parse()


def emit(n, env, consts=None):
    """env: C identifier -> (lean name, width, is_bool). Returns Lean source of type Nat or Bool."""
    consts = consts or {}
    k = n.kind
    if k == 'lit':
        return str(n.args[0])
    if k == 'var':
        name = n.args[0]
        if name in ('true', 'True'):
            n.boolean = True
            return 'true'
        if name in ('false', 'False'):
            n.boolean = True
            return 'false'
        if name not in env:
            raise ParseError('unknown identifier %s' % name)
        lean, w, isb = env[name]
        n.w, n.boolean = w, isb
        return lean
    if k == 'index':
        name = '%s[]' % n.args[0]
        if name not in env:
            raise ParseError('unknown array %s' % n.args[0])
        lean, w, isb = env[name]
        n.w, n.boolean = w, isb
        return '(%s %s)' % (lean, emit(n.args[1], env))
    if k == 'cast':
        e = emit(n.args[0], env)
        return wrap(e, n.w)
    if k == 'not':
        return '(!%s)' % as_bool(n.args[0], env)
    if k == 'neg':
        e = emit(n.args[0], env)
        w = max(n.args[0].w or 32, 32)
        n.w = w
        return '(%s 0 %s)' % ('sub32' if w == 32 else 'sub64', e)
    if k == 'bnot':
        e = emit(n.args[0], env)
        w = max(n.args[0].w or 32, 32)
        n.w = w
        return '(%d - %s)' % (2 ** w - 1, e)
    if k == 'ite':
        c = as_bool(n.args[0], env)
        a, b = emit(n.args[1], env), emit(n.args[2], env)
        n.w = max(n.args[1].w or 0, n.args[2].w or 0)
        n.boolean = n.args[1].boolean and n.args[2].boolean
        return '(if %s then %s else %s)' % (c, a, b)
    if k == 'call':
        name = n.args[0]
        args = [emit(a, env) for a in n.args[1:]]
        ws = [a.w or 0 for a in n.args[1:]]
        if name in ('min', 'max') and len(args) == 2:
            n.w = max(ws)
            return '(%s %s %s)' % (name, args[0], args[1])
        key = name + '()'
        if key in env:
            lean, w, isb = env[key]
            n.w, n.boolean = w, isb
            return '(%s %s)' % (lean, ' '.join(args))
        raise ParseError('unknown function %s' % name)
    if k == 'bin':
        op, a, b = n.args
        if op in ('||', 'or'):
            return '(%s || %s)' % (as_bool(a, env), as_bool(b, env))
        if op in ('&&', 'and'):
            return '(%s && %s)' % (as_bool(a, env), as_bool(b, env))
        ea, eb = emit(a, env), emit(b, env)
        if op in ('==', '!=') and a.boolean and b.boolean:
            return '(%s %s %s)' % (ea, op, eb)
        if op in ('==', '!=', '<', '<=', '>', '>='):
            lop = {'==': '==', '!=': '!=', '<': '<', '<=': '≤', '>': '>', '>=': '≥'}[op]
            if op in ('==', '!='):
                return '(%s %s %s)' % (ea, lop, eb)
            return '(decide (%s %s %s))' % (ea, lop, eb)
        wa, wb = a.w, b.w
        pyth = (wa == 0 or wb == 0) and not (wa and wb)
        if wa is None or wb is None:
            raise ParseError('untyped operand')
        if op in ('<<', '>>'):
            w = 0 if wa == 0 else max(wa, 32)
        else:
            w = 0 if (wa == 0 or wb == 0) else max(wa, wb, 32)
        n.w = w
        if op == '+':
            return wrap('(%s + %s)' % (ea, eb), w)
        if op == '*':
            return wrap('(%s * %s)' % (ea, eb), w)
        if op == '-':
            if w == 0:
                return '(%s - %s)' % (ea, eb)
            return '(%s %s %s)' % ('sub32' if w == 32 else 'sub64', ea, eb)
        if op in ('/', '//'):
            return '(%s / %s)' % (ea, eb)
        if op == '%':
            return '(%s %% %s)' % (ea, eb)
        if op == '<<':
            return wrap('(%s <<< %s)' % (ea, eb), w)
        if op == '>>':
            return '(%s >>> %s)' % (ea, eb)
        if op == '&':
            return '(%s &&& %s)' % (ea, eb)
        if op == '|':
            return '(%s ||| %s)' % (ea, eb)
        if op == '^':
            return '(%s ^^^ %s)' % (ea, eb)
    raise ParseError('cannot emit %s' % k)


def wrap(e, w):
    if w == 32:
        return '(u32 %s)' % e
    if w == 64:
        return '(u64 %s)' % e
    if w == 8:
        return '(%s %% 256)' % e
    return e


def as_bool(n, env):
    e = emit(n, env)
    if n.boolean:
        return e
    return '(%s != 0)' % e


def to_lean(text, env, python=False):
    n = parse(text, python)
    s = emit(n, env)
    return s, n.boolean
