#!/usr/bin/env python3
"""merge findings/<Cxx>.json fragments into known_findings.json (integrator only; never at check time)
usage: merge_findings.py Cxx [finding-id=commit ...]"""
import json, os, sys
V = os.path.dirname(os.path.dirname(os.path.abspath(__file__)))
kf = json.load(open(os.path.join(V, 'known_findings.json')))
prop = sys.argv[1]
commits = dict(a.split('=') for a in sys.argv[2:])
frag = os.path.join(V, 'findings', prop + '.json')
new = json.load(open(frag))['findings']
have = {f['id']: f for f in kf['findings']}
for f in new:
    if f['id'] in commits:
        f['commit'] = commits[f['id']]
    have[f['id']] = f
kf['findings'] = sorted(have.values(), key=lambda f: f['id'])
json.dump(kf, open(os.path.join(V, 'known_findings.json'), 'w'), indent=1)
os.remove(frag)
print('merged', [f['id'] for f in new])
