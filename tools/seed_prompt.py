#!/usr/bin/env python3
"""prints the prompt for a fresh sub-agent that seeds a property-breaking change (gets ONLY the property text)"""
import json, sys
pid, wt = sys.argv[1], sys.argv[2]
nchg = sys.argv[3] if len(sys.argv) > 3 else '2'
p = next(json.loads(l) for l in open('/verif/properties.jsonl') if json.loads(l)['id'] == pid)
print(f"""You are a mutation author for a robustness study of the open-source C++ library dmlc-core. You have your own scratch git worktree of the repository at {wt} (a detached checkout; work ONLY inside it; do not touch /repo, do not look at /verif or any other directory — your result must be independent of any existing verification tooling). The repository builds with CMake+Ninja and has a googletest suite: configure and build inside your worktree with `cmake -G Ninja -S {wt} -B {wt}/_build -DGOOGLE_TEST=ON >/dev/null && cmake --build {wt}/_build` and run `ctest --test-dir {wt}/_build -j8 --timeout 900` (71 tests pass on the unchanged tree; there is no network).

Property (this is all you get):
  Title: {p['title']}
  Statement: {p['statement']}
  Quantified over: {p['quantifier']['text']}
  Code it is anchored in: {', '.join(p['anchors']['files'])}

Task: produce {nchg} DIFFERENT small source changes to the library (each an independent patch against the unchanged worktree, touching library sources under include/ or src/ or tracker/, never the tests) such that each change
  (a) still compiles and the existing test suite still passes (all 71 tests),
  (b) BREAKS the property above, and
  (c) needs something specific to manifest — a particular unusual input, a multi-step sequence of operations, a particular interleaving/fault point, a boundary size, or two cooperating sites that each look fine alone — NOT something ordinary use would expose at once (a change that breaks every call is useless). Realistic bugs a maintainer could plausibly introduce are best (off-by-one at a boundary, a wrong constant in a rarely taken branch, a dropped corner-case guard, a refactoring that forgets one state variable).
For each change also write a demonstration: a small standalone C++ (or Python, if the property is about Python code) program or gtest file that exercises the library through its public API, FAILS (non-zero exit / assertion) with the change applied and PASSES on the unchanged tree. Verify all of (a), (b) and the demonstration yourself by actually building and running, with and without the change.

Deliver, for change i = 1..{nchg}, in {wt}/out/<i>/ : `patch.diff` (output of `git diff` in the worktree with only that change applied), the demonstration source `demo.cc` (or demo.py) plus `build_and_run.sh` (how to compile/run it against a dmlc-core source tree given as $1, e.g. g++ -std=c++14 -I$1/include -I$1/src demo.cc $1/src/….cc -pthread), and `meta.json` with keys: "property": "{pid}", "summary" (one line: what the change does), "needs" (what specific input/sequence/schedule is required for it to manifest), "ran" (the commands you ran and their outcomes: suite passes with change, demo fails with change, demo passes without). Leave the worktree itself with NO change applied at the end (git checkout -- .), keep only the out/ directory. Final answer: <= 12 lines summarising the changes and confirming the verification you did.""")
