#!/usr/bin/env python3
"""Which lines of a property's anchored source files does the correspondence harness execute?

usage: coverage.py <Cxx> [--tier quick|thorough] [--seed N] [--keep]

Builds the harness of the property once more with gcov instrumentation (-O0 --coverage, no sanitizers) in a scratch
directory under /tmp, runs it exactly as ./check does (corpus + main round), and prints, for every file the property
is anchored in (properties.jsonl `anchors.files`), the executable lines that were never reached.  This is a
development aid for finding blind spots of the generators (a seeded change hides best in a line no case reaches);
it is not part of any registered check and leaves nothing behind unless --keep is given.
"""
import importlib.util
import json
import os
import re
import shutil
import subprocess
import sys

HERE = os.path.dirname(os.path.abspath(__file__))
VERIF = os.path.dirname(HERE)
REPO = os.environ.get('VERIF_REPO', '/repo')
sys.path.insert(0, HERE)


def load_cfg(prop):
    spec = importlib.util.spec_from_file_location('p', os.path.join(HERE, 'props', prop + '.py'))
    m = importlib.util.module_from_spec(spec)
    spec.loader.exec_module(m)
    return m.CONFIG


def main():
    args = sys.argv[1:]
    prop = args[0]
    tier = args[args.index('--tier') + 1] if '--tier' in args else 'quick'
    seed = args[args.index('--seed') + 1] if '--seed' in args else '1'
    cfg = load_cfg(prop)
    anchors = next(json.loads(l) for l in open(os.path.join(VERIF, 'properties.jsonl')) if json.loads(l)['id'] == prop)['anchors']['files']
    work = '/tmp/cov-' + prop
    shutil.rmtree(work, ignore_errors=True)
    os.makedirs(work)
    harnesses = [cfg['harness']] + list(cfg.get('extra', []))
    executed, executable = {}, {}
    for hi, h in enumerate(harnesses):
        if 'srcs' not in h:
            print('harness %s is a script: skipped' % h.get('name'))
            continue
        flags = ['-std=c++14', '-O0', '-g', '--coverage', '-pthread', '-I' + REPO + '/include', '-I' + REPO + '/src',
                 '-I' + VERIF + '/harness', '-DDMLC_LOG_STACK_TRACE=0', '-DDMLC_USE_S3=0', '-DDMLC_USE_HDFS=0',
                 '-DDMLC_USE_AZURE=0', '-DDMLC_CORE_VERIF=1', '-DVH_COVERAGE=1'] + list(h.get('flags', []))
        bdir = os.path.join(work, 'b%d' % hi)
        os.makedirs(bdir)
        objs = []
        procs = []
        for s in h['srcs']:
            src = s.replace('$REPO', REPO)
            if not os.path.isabs(src):
                src = os.path.join(VERIF, src)
            obj = os.path.join(bdir, os.path.basename(src).replace('.', '_') + '.o')
            objs.append(obj)
            procs.append(subprocess.Popen(['g++'] + flags + ['-c', src, '-o', obj]))
        for p in procs:
            if p.wait() != 0:
                sys.exit('compile failed')
        binp = os.path.join(bdir, 'h.bin')
        stub = os.path.join(bdir, 'san_stub.cc')   # harnesses that hook the sanitizer runtime still link without it
        open(stub, 'w').write('extern "C" void __sanitizer_set_death_callback(void (*)()) {}\n')
        if subprocess.run(['g++'] + flags + objs + [stub, '-o', binp] + list(h.get('libs', []))).returncode != 0:
            sys.exit('link failed')
        out = os.path.join(bdir, 'out')
        os.makedirs(out)
        hargs = [a.replace('$VERIF', VERIF) for a in h.get('args', [])]
        corpus = os.path.join(VERIF, 'corpus', prop)
        if os.path.isdir(corpus) and hi == 0:
            for f in sorted(os.listdir(corpus)):
                subprocess.run([binp, '--out', out, '--seed', seed, '--tier', tier, '--replay', os.path.join(corpus, f)] + hargs,
                               stdout=subprocess.DEVNULL, stderr=subprocess.DEVNULL, timeout=3000)
        r = subprocess.run([binp, '--out', out, '--seed', seed, '--tier', tier] + hargs, stdout=subprocess.DEVNULL,
                           stderr=subprocess.PIPE, text=True, timeout=6000)
        if r.returncode != 0:
            print('harness exit', r.returncode, r.stderr[-500:])
        gfiles = []
        for oi, obj in enumerate(objs):   # one directory per object: a header compiled into several TUs gives several reports
            gdir = os.path.join(bdir, 'g%d' % oi)
            os.makedirs(gdir)
            subprocess.run(['gcov', '-p', '-o', bdir, obj], cwd=gdir, capture_output=True, text=True)
            gfiles += [os.path.join(gdir, f) for f in os.listdir(gdir) if f.endswith('.gcov')]
        for gf in gfiles:
            lines = open(gf, errors='replace').read().split('\n')
            m = re.match(r'\s*-:\s*0:Source:(.*)', lines[0])
            if not m:
                continue
            srcp = os.path.realpath(os.path.join(bdir, m.group(1)))
            rel = os.path.relpath(srcp, os.path.realpath(REPO))
            if rel.startswith('..') or rel not in anchors:
                continue
            ex = executed.setdefault(rel, set())
            exable = executable.setdefault(rel, set())
            for l in lines[1:]:
                mm = re.match(r'\s*([^:]+):\s*(\d+):', l)
                if not mm:
                    continue
                cnt, ln = mm.group(1).strip(), int(mm.group(2))
                if cnt == '-':
                    continue
                exable.add(ln)
                if cnt not in ('#####', '=====') and not cnt.startswith('0'):
                    ex.add(ln)
    report = {}
    for rel in sorted(executable):
        miss = sorted(executable[rel] - executed[rel])
        tot = len(executable[rel])
        print('%-40s %4d/%4d lines executed' % (rel, tot - len(miss), tot))
        src = open(os.path.join(REPO, rel), errors='replace').read().split('\n')
        for ln in miss:
            print('    %5d  %s' % (ln, src[ln - 1].rstrip()[:110]))
        report[rel] = {'executable': tot, 'executed': tot - len(miss), 'missed_lines': miss}
    for a in anchors:
        if a not in executable:
            print('%-40s not compiled into the harness (or no executable line instantiated)' % a)
    json.dump(report, open(os.path.join(VERIF, '.work', 'coverage-%s.json' % prop), 'w'), indent=1)
    if '--keep' not in args:
        shutil.rmtree(work, ignore_errors=True)


if __name__ == '__main__':
    main()
