CONFIG = {
    'subs': ['Tracker'],
    'props_modules': ['DmlcModel.Props.C20', 'DmlcModel.Props.C20Witness'],
    'driver': 'Tracker',
    'harness': {'name': 'tracker', 'cmd': ['python3', '$VERIF/harness/tracker_harness.py']},
    'rule': 'cases = worker counts n: quick every n in 1..512 (model + oracle) and 4 seeded n < 4096 (oracle only); '
            'thorough every n in 1..4096 (oracle on all; model comparison on all n <= 1024, on every 16th n and around '
            'powers of two above) and 21 fixed/seeded n up to 10^5 (oracle only, plus one seeded n in 4097..8192 with model). '
            'Per case the real get_link_map(n), get_tree(n), find_share_ring(.., 0) outputs and CPython\'s iteration order of '
            'every two-element child set are compared with the model; a case is non-trivial when n >= 1; distinct = distinct '
            'hash of the op list',
    'assumptions': ['CPython set iteration order is arbitrary (the theorems quantify over every order; the harness feeds the '
                    'observed order to the model)', 'n >= 1 (get_link_map(0) raises KeyError in code and model alike)'],
    'trusted_base': ['modelled by hand, tied by correspondence only: control flow of get_neighbor / get_tree / find_share_ring / '
                     'get_ring / get_link_map; Python dict semantics (insertion-ordered association list)'],
    'partial': [],
}

MANIFEST = {
    'text': 'Lean 4 theorems, for every worker count n >= 1 and every iteration order of the child sets, over an executable '
            'model of get_link_map: the ring list is a permutation of 0..n-1, the relabelling is a bijection fixing 0, the '
            'returned ring is (r-1, r+1) mod n, the returned tree is symmetric, loop- and duplicate-free with n-1 edges, '
            'rooted at 0 with parents that are neighbours and lead to 0, and no assert / KeyError fires. Arithmetic is '
            'regenerated from tracker.py each run; the model is tied to the real Python code by differential execution; an '
            'independent union-find oracle checks the property on the real output.',
    'design_ref': 'DESIGN.md section 7 C20',
    'note': 'Trusted: Lean kernel, translator, correspondence on the n that are run; control flow and dict semantics hand-modelled; '
            'set iteration order taken from the running interpreter.',
    'technique': 'Lean 4 proof (induction over the tree recursion) + translator + differential correspondence',
}
