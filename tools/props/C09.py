_COMMON_RULE = ('case = (consumer program, producer script, schedule) run on the UNMODIFIED threadediter.h under the controlled '
                'scheduler: programs over {Next-hold, Recycle i, Next()/Value(), BeforeFirst, Destroy} for 1-2 consumer threads, '
                'producer lengths 0..4, capacities 1..3; every program: seeded PCT + random schedules incl. spurious wake-ups; a '
                'seeded selection of programs (8 quick / 40 thorough): every schedule, up to a cap per program, with <= 2 (quick) / <= 3 (thorough) '
                'preemptions at model granularity (one decision per critical section / unlocked synchronisation operation), '
                '<= 1 preemption + 1 spurious wake-up, and, for the oracles alone, schedules that preempt at EVERY shim operation '
                '("fine" cases, no model lines); after every model-level step the implementation\'s (queue size, free cells, '
                'nwait_consumer, nwait_producer, produce_end, producer_sig, sig_processed), the operation and every value '
                'returned are compared with the model replaying the same choices; non-trivial = every case (>= 2 threads); '
                'distinct = distinct hash of program + choice list')
_ASSUME = ['sequentially consistent atomics; std::mutex / std::condition_variable semantics as implemented by harness/common/vsched.h '
           '(wait = release + enter wait set, notify_one wakes any one waiter, spurious wake-ups allowed)',
           'a critical section under mutex_ is one transition (justified in DmlcModel/TIter/Model.lean; the "fine" schedules '
           'exercise the interleavings inside critical sections against the oracles)',
           'clients respect the documented contract: BeforeFirst / Destroy / Next() / Value() are not called concurrently with '
           'any other call; Recycle is given a cell the caller holds',
           'max_capacity >= 1 (for deadlock freedom)']
_TRUST = ['modelled by hand, tied by correspondence only: control flow of the producer loop, its catch block, Next, Recycle, '
          'BeforeFirst, Destroy at the granularity of synchronisation operations; the counter abstraction of consumer threads',
          'harness/common/vsched.h (controlled scheduler substituting the std synchronisation types)']

CONFIG = {
    'subs': ['TIter'],
    'props_modules': ['DmlcModel.Props.C09', 'DmlcModel.Props.C09Witness'],
    'driver': 'TIter',
    'harness': {'name': 'titer', 'srcs': ['harness/h_titer.cc'], 'args': ['--prop', 'C09']},
    'shrink': False,
    'rule': _COMMON_RULE + '; C09 scripts throw at every position: the k-th produce call of the first or second pass, or the '
            'rewind callback, as dmlc::Error and as std::exception; programs end in Destroy at every step (idle, mid-prefetch, '
            'cells held, after an error, twice) and call Next / Recycle / BeforeFirst after it',
    'assumptions': _ASSUME + ['DCHECK is compiled out (as in every build without NDEBUG, see the note)'],
    'trusted_base': _TRUST,
    'partial': [],
}

MANIFEST = {
    'text': 'Same Lean 4 transition system as C07 with source and rewind scripts that may throw at any position. Theorems over '
            'every reachable state: the consumers hold an in-order prefix of what was produced before the failing call, nothing '
            'is produced after the failure, no Next reports a normal end after it, once the exception is recorded every '
            'returning call returns the error, no state with a thread stuck inside Next / Recycle / BeforeFirst / Destroy '
            '(repaired BeforeFirst), Destroy joins an exited producer and frees every cell at most once and never a lent one. '
            'A Lean witness shows the pinned BeforeFirst hanging (C09Witness); the same schedule deadlocks the real pinned code '
            'under the controlled scheduler.',
    'design_ref': 'DESIGN.md section 7 C09, section 6 F3',
    'note': 'Finding C09-F1 (fixes/C09-1.diff): the pinned BeforeFirst checks the exception only before taking the lock; the '
            'model reads the presence of the re-check from the source (Gen item bfRecheck) and C09_no_hang needs it. '
            'Termination: no stuck state (C09_no_hang) + well-founded progress measure (C09_termination, C09_all_calls_return); '
            'spurious wake-ups are not counted as progress. A cell the producer holds when its callback throws is '
            'leaked by the C++ (ghost list `lost`); not part of the property.',
    'technique': 'Lean 4 proof (inductive invariants of a transition system) + refutation witness + source-to-Lean translator + '
                 'controlled-scheduler differential correspondence',
}
