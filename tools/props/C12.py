CONFIG = {
    'subs': ['Parse', 'StrToNum'],
    'props_modules': ['DmlcModel.Props.C12', 'DmlcModel.Props.C12Fm', 'DmlcModel.Props.C12Csv'],
    'driver': 'Parse',
    'harness': {'name': 'parsers',
                'srcs': ['harness/h_parsers.cc', '$REPO/src/io/line_split.cc', '$REPO/src/io/input_split_base.cc',
                         '$REPO/src/io/filesys.cc'],
                'flags': ['-fopenmp', '-DDMLC_CORE_VERIF_BUFFER_WORDS=1'],
                'args': ['--prop', 'C12']},
    'rule': 'cases = random row tables (labels, optional weights / qids, indices, optional fields / values; csv: label / weight '
            'column, empty cells, float / int32 / int64 cells) x random renderings (separators over space / tab, EOL \\n \\r '
            '\\r\\n and doubled, blank and comment lines, trailing # comments, blanks before EOL, number spellings with sign / '
            'fraction / exponent / leading zeros; csv delimiters , ; | tab space :) x indexing_mode 0/1 x 32/64-bit indices x '
            'the C11 configurations (ParseBlock, each line alone, FillData threads, LineSplitter pipelines); plus the corpus; a '
            'case is non-trivial when the document is non-empty; distinct = distinct hash of the op list',
    'assumptions': ['the numeric conversions are a parameter of the model (contract Conv.Exact: a well-formed lexeme followed '
                    'by a delimiter converts to the value of the lexeme alone); numeric accuracy of the conversions is C14',
                    'values are compared exactly when the decimal is exactly representable in binary32, else within 4e-7 relative',
                    'an empty csv cell is a cell with no bytes; a cell of blanks only is not generated (dmlc::strtof reports '
                    'the skipped blanks as a conversion, C14 finding F8d)',
                    'indexing_mode >= 0; indices >= 1 under 1-based mode'],
    'trusted_base': ['modelled by hand, tied by correspondence only: control flow of the parsers (as C11)'],
    'partial': ['C12_libsvm and C12_libfm are proved in full (every table / style / mode / index width / local + exact conversion); '
                'the one restriction of the Style: every rendered line, the last one included, ends with an end-of-line string',
                'C12_csv is proved with hypotheses added to C12_csv_statement (each forced by a counterexample on the model, listed at '
                'the head of Props/C12Csv.lean): rows have a feature column and non-empty label / weight cells (a table row always has a '
                'label), label_column != weight_column, no NaN weight, pads cover the cells, the cell conversion skips leading blanks '
                'as strtof does, the delimiter is not NUL.  (A5), no empty cell with a white-space delimiter, was finding C12-F3: '
                'repaired by fixes/C12-3.diff, the hypothesis is gone'],
}

# the same harness source built a second time WITHOUT sanitizers and linked with the real src/data.cc + src/io.cc:
# Parser<I,D>::Create (factory registry, URI arguments, thread count, ThreadedParser wrapper) on real files
CONFIG['extra'] = [{
    'driver': 'Parse',
    'harness': {'name': 'parsers-create',
                'srcs': ['harness/h_parsers.cc', '$REPO/src/data.cc', '$REPO/src/io.cc', '$REPO/src/io/local_filesys.cc',
                         '$REPO/src/io/filesys.cc', '$REPO/src/io/line_split.cc', '$REPO/src/io/recordio_split.cc',
                         '$REPO/src/io/indexed_recordio_split.cc', '$REPO/src/io/input_split_base.cc', '$REPO/src/recordio.cc'],
                'flags': ['-fopenmp', '-DVH_WITH_DATACC=1', '-DDMLC_CORE_VERIF_BUFFER_WORDS=4'],
                'sanitize': False,
                'args': ['--prop', 'C12'],
                'timeout': 600},
}]

MANIFEST = {
    'text': 'Lean 4 theorems: for every table, every rendering style and every exact conversion the model of ParseBlock returns '
            'exactly the rows of the table (libsvm, libfm, csv), on top of the C11 line decomposition; model regenerated / tied to '
            'the code as for C11; independent oracle: random tables x random renderings must come back row for row from the real '
            'parsers under every chunking / threading configuration (expected values from libc strtof).',
    'design_ref': 'DESIGN.md section 7 C12, section 6 F12',
    'note': 'Trusted: Lean kernel, translator, correspondence on sampled cases only; numeric accuracy delegated to C14.',
    'technique': 'Lean 4 proof (renderer / parser round trip by induction over rows and entries) + source-to-Lean translator + '
                 'differential correspondence with a table-driven oracle',
}
