HARNESS = {'name': 'wrappers',
           'srcs': ['harness/h_wrappers.cc', 'harness/h_wrappers_vs.cc', '$REPO/src/io/input_split_base.cc',
                    '$REPO/src/io/line_split.cc', '$REPO/src/io/recordio_split.cc', '$REPO/src/recordio.cc', '$REPO/src/io.cc',
                    '$REPO/src/io/local_filesys.cc', '$REPO/src/io/filesys.cc', '$REPO/src/io/indexed_recordio_split.cc'],
           # H1: 4-word default chunk buffers (InputSplit::Create path becomes multi-chunk on small files);
           # _GLIBCXX_SANITIZE_VECTOR: ASan also reports stores past a vector's size() inside its capacity
           'flags': ['-DDMLC_CORE_VERIF_BUFFER_WORDS=4', '-D_GLIBCXX_SANITIZE_VECTOR'],
           'args': ['--prop', 'C10'],
           'timeout': 1500}

CONFIG = {
    'subs': ['Wrap', 'Split', 'RecordIO', 'TIter'],
    'props_modules': ['DmlcModel.Props.C10', 'DmlcModel.Props.C10Witness'],
    'driver': 'Wrap',
    'harness': HARNESS,
    'rule': 'cases = consumer histories over {NextRecord, NextChunk, drain, BeforeFirst, ResetPartition(k,n), destroy, '
            'destroy-and-reopen-with-same-cache, dump cache file} on ThreadedInputSplit / CachedInputSplit constructed over '
            'small-buffer LineSplitter / RecordIOSplitter (in-memory files, entry/exit monitor around the base split) and on '
            'InputSplit::Create over real files with and without #cachefile (1-3 parts: cache-file naming). Native runs (real '
            'threads, ASan+UBSan, vector annotations) each in a forked child: corpus of the defect shapes, every history of '
            'length <=3 (thorough 4) over a 6-op alphabet x {text, recordio} x {threaded, cached}, random inputs (multi-file, '
            'records larger than the buffer, magic-laden payloads) with histories up to 14 (30) ops. Controlled scheduler: DFS '
            'with preemption bound 2 (3) over 8 consumer programs incl. bf / reset, plus PCT / uniform random schedules on '
            'random programs; every base-split call contains a scheduling point. Non-trivial = a wrapper was constructed.',
    'assumptions': ['BaseFacts: a pass of the base split over partition (k, n) is one chunk list B k n whatever happened before the '
                    'rewind; instantiated with the Split model (Wrap/Base.lean: splitPass = NextChunk blobs of a freshly constructed '
                    'split, the driver runs it) and proved from C05_reset_mkSt as C10_base_pass (C05_beforeFirst + C05_range_stable '
                    'for BeforeFirst). Not proved, tied by correspondence + chunk/cache-file oracle: NextChunkEx into an iterator '
                    'cell yields the same bytes as NextChunk through the split\'s own tmp_chunk_',
                    'the ThreadedIter facts (TIterFacts) are discharged from Props.C07 / Props.C08 (Wrap/TIterLink.lean): '
                    'C10_threaded_transparent and C10_race_free hold for every reachable state of DmlcModel.TIter; termination of '
                    'the calls is not claimed (C07 proves deadlock freedom only)',
                    'sequentially consistent memory; a data race is an overlap of the modelled access points (entry/exit of base '
                    'split methods, chunk extraction / blob reading); TSan was not run',
                    'chunk lengths < 2^64 (size_t); little-endian host (cache length prefix)',
                    'a source failure (dmlc::Error from the base split) during the destructor\'s drain leaves a partial cache '
                    'file; the theorems are about failure-free base passes'],
    'trusted_base': ['modelled by hand, tied by correspondence only (results of every operation incl. cache file bytes, under '
                     'native and explored schedules): control flow of CachedInputSplit / ThreadedInputSplit; which thread calls '
                     'the base split is read from the source (Gen items resetOnCaller / resetInRewind / bfRecycles)',
                     'the ThreadedIter transition system is DmlcModel.TIter (tied to the code by the C07-C09 harness)'],
    'partial': [],
}

MANIFEST = {
    'text': 'Lean 4 theorems: the cache reader\'s buffer (expression regenerated from the source) holds every chunk plus its '
            'terminator; the cache file format round-trips for every chunk list; CachedInputSplit as a state machine over an '
            'arbitrary base chunk sequence delivers the base pass in pass 1, restarts over all chunks after BeforeFirst in any '
            'reachable state, and a later object reusing a completed file replays all chunks; ThreadedInputSplit = the '
            'ThreadedIter transition system with the base split as source: every pass under every schedule is an initial segment '
            '/ the whole of the base chunk sequence (corollary of the C07/C08 theorems), and the calling '
            'thread never overlaps the prefetch thread inside the base split or on a lent chunk. Model tied to the real wrappers '
            'by differential execution (native threads in forked children under ASan with annotated vectors; schedule '
            'exploration under a controlled scheduler with an entry/exit monitor in the base split); independent oracle: stream '
            'of every pass = stream of an unwrapped split, cache file = (u64 length, bytes)*, no monitor overlap, no sanitizer '
            'report.',
    'design_ref': 'DESIGN.md section 7 C10, section 6 F4 F5',
    'note': 'F4 (cache reader buffer half the size it reads into) repaired by fixes/C10-1.diff, F5 (ResetPartition touches the '
            'base split on the caller thread) by fixes/C10-2.diff; both are read from the source each run and the theorems need '
            'the repairs. C10-F3 (a cache file left by an object destroyed during its first pass was reused as if complete) '
            'repaired by fixes/C10-3.diff (destructor finishes the pass; Gen item dtorDrains). TSan not run.',
    'technique': 'Lean 4 proof (state-machine invariant for the cache; corollary of the ThreadedIter invariants for the '
                 'prefetcher) + source-to-Lean translator + differential correspondence (native + explored schedules) + '
                 'sanitizers',
}
