HARNESS = {'name': 'split',
           'srcs': ['harness/h_split.cc', '$REPO/src/io/input_split_base.cc', '$REPO/src/io/line_split.cc',
                    '$REPO/src/io/recordio_split.cc', '$REPO/src/recordio.cc', '$REPO/src/io.cc',
                    '$REPO/src/io/local_filesys.cc', '$REPO/src/io/filesys.cc', '$REPO/src/io/indexed_recordio_split.cc'],
           'flags': ['-DDMLC_CORE_VERIF_BUFFER_WORDS=4'],
           'args': ['--prop', 'C03']}

CONFIG = {
    'subs': ['Split', 'RecordIO'],
    'props_modules': ['DmlcModel.Props.C03', 'DmlcModel.Props.C03Witness', 'DmlcModel.Props.C03Files'],
    'driver': 'Split',
    'harness': HARNESS,
    'rule': 'cases = file lists x cover groups (for one (n, w, mode): parts k = 0..n-1, each constructed and consumed to '
            'the end). Exhaustive: all lists of <=2 (thorough: 3) non-empty files of total <=5 (6) bytes over {a,\\n,\\r} x every '
            'n in 1..total+2 x w in 1..2 (1..4) words x NextRecord / NextChunk; corpus of the layouts named in the property; '
            'random: up to 8 files, long lines, \\n / \\r\\n / \\r / mixed, missing final newline, buffers up to 40 words, mixed '
            'consumption, SingleThreadedInputSplit; default 8 MB buffer and InputSplit::Create on real files; URI cases: random '
            'directory trees (depth <= 3, empty files) x ;-lists of files / directories / trailing slashes / missing names / duplicates '
            '/ empty pieces / scheme prefix, file list (names, sizes, file_offset_) compared with the model and with an independent '
            'expansion, then covered. Non-trivial = at '
            'least one state tuple observed; labels: carry-over (overflow_ non-empty), buffer-doubling, empty-part, multi-file.',
    'assumptions': ['files are non-empty and NUL-free (property text); total size < 2^55 bytes, num_parts < 2^32, buffer < 2^56 '
                    'words so that the size_t arithmetic (partition step, offset_curr_ + size, buffer doubling) does not wrap',
                    'a stream Read returns min(size, remaining) bytes (MemFS; FileStream on regular files): the model visits '
                    'each file once in the Read loop',
                    'file-list construction (Init / InitInputFileInfo / ConvertToURIs / StripEnd / URI parsing / recursive listing) is '
                    'modelled over an abstract file system = harness/common/memfs.h (key-ordered listing; directories = proper '
                    '/-prefixes of file names); the std::regex branch of ConvertToURIs is modelled with an abstract matcher and run '
                    'with literal equality (names without regex metacharacters only); LocalFileSystem / readdir order is not modelled'],
    'trusted_base': ['modelled by hand, tied by correspondence only (results and internal state after every operation): control '
                     'flow of ResetPartition, BeforeFirst, Read, ReadChunk, Chunk::Load, NextRecord, NextChunk, LineSplitter::*'],
    'partial': [],
}

MANIFEST = {
    'text': 'Lean 4 theorems over an executable model of InputSplitBase + LineSplitter (partition arithmetic and all tests '
            'regenerated from the source each run); model tied to the real LineSplitter over an in-memory filesystem by '
            'differential execution including internal state (offsets, carry-over length, chunk window, buffer capacity); '
            'independent oracle: canonical lines of all parts = non-empty lines of the files, every chunk ends at an EOL.',
    'design_ref': 'DESIGN.md section 7 C03',
    'note': 'Trusted: Lean kernel, translator, correspondence on sampled cases only; control flow hand-modelled.',
    'technique': 'Lean 4 proof (layered: boundary snapping, read stream, chunk sequence, extraction, cut/telescoping) + '
                 'source-to-Lean translator + differential correspondence with state + exhaustive small-input enumeration',
}
