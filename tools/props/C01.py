CONFIG = {
    'subs': ['RecordIO', 'Split'],
    'props_modules': ['DmlcModel.Props.C01', 'DmlcModel.Props.C01Witness'],
    'driver': 'RecordIO',
    'harness': {'name': 'recordio', 'srcs': ['harness/h_recordio.cc', '$REPO/src/io/recordio_split.cc', '$REPO/src/io/input_split_base.cc',
                         '$REPO/src/io/filesys.cc', '$REPO/src/io/local_filesys.cc', '$REPO/src/io.cc',
                         '$REPO/src/io/line_split.cc', '$REPO/src/io/indexed_recordio_split.cc'],
                'flags': ['-DDMLC_CORE_VERIF_BUFFER_WORDS=4'], 'args': ['--prop', 'C01']},
    'rule': 'cases = record sequences (exhaustive over a magic-centred word alphabet x tail 0-3 for <=3 words, '
            'all sequences of <=3 records over a 7-record set, random magic-laden sequences, long records, '
            'malformed streams); a case is non-trivial when it writes at least one record; distinct = distinct '
            'hash of the op list',
    'assumptions': ['little-endian host', 'MemoryStringStream::Write appends exactly the bytes given (C19)'],
    'trusted_base': ['modelled by hand, tied by correspondence only: control flow of WriteRecord / NextRecord'],
    'partial': [],
}

MANIFEST = {
    'text': 'Lean 4 theorems over an executable model of WriteRecord/NextRecord (round trip for every record list, '
            'length multiple of 4, exception counter, size limit), model arithmetic regenerated from the source each run, '
            'model tied to the code by differential execution on structured cases; independent oracle on the implementation.',
    'design_ref': 'DESIGN.md section 7 C01',
    'note': 'Trusted: Lean kernel, translator, correspondence on sampled cases only; control flow hand-modelled; little-endian host.',
    'technique': 'Lean 4 proof (induction over the writer loop) + source-to-Lean translator + differential correspondence',
}
