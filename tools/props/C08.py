_COMMON_RULE = ('case = (consumer program, producer script, schedule) run on the UNMODIFIED threadediter.h under the controlled '
                'scheduler: programs over {Next-hold, Recycle i, Next()/Value(), BeforeFirst, Destroy} for 1-2 consumer threads, '
                'producer lengths 0..4, capacities 1..3; every program: seeded PCT + random schedules incl. spurious wake-ups; a '
                'seeded selection of programs (8 quick / 40 thorough): every schedule, up to a cap per program, with <= 2 (quick) / <= 3 (thorough) '
                'preemptions at model granularity (one decision per critical section / unlocked synchronisation operation), '
                '<= 1 preemption + 1 spurious wake-up, and, for the oracles alone, schedules that preempt at EVERY shim operation '
                '("fine" cases, no model lines); after every model-level step the implementation\'s (queue size, free cells, '
                'nwait_consumer, nwait_producer, produce_end, producer_sig, sig_processed), the operation and every value '
                'returned are compared with the model replaying the same choices; non-trivial = every case (>= 2 threads); '
                'distinct = distinct hash of program + choice list')
_ASSUME = ['sequentially consistent atomics; std::mutex / std::condition_variable semantics as implemented by harness/common/vsched.h '
           '(wait = release + enter wait set, notify_one wakes any one waiter, spurious wake-ups allowed)',
           'a critical section under mutex_ is one transition (justified in DmlcModel/TIter/Model.lean; the "fine" schedules '
           'exercise the interleavings inside critical sections against the oracles)',
           'clients respect the documented contract: BeforeFirst / Destroy / Next() / Value() are not called concurrently with '
           'any other call; Recycle is given a cell the caller holds',
           'max_capacity >= 1 (for deadlock freedom)']
_TRUST = ['modelled by hand, tied by correspondence only: control flow of the producer loop, its catch block, Next, Recycle, '
          'BeforeFirst, Destroy at the granularity of synchronisation operations; the counter abstraction of consumer threads',
          'harness/common/vsched.h (controlled scheduler substituting the std synchronisation types)']

CONFIG = {
    'subs': ['TIter'],
    'props_modules': ['DmlcModel.Props.C08', 'DmlcModel.Props.C08Witness'],
    'driver': 'TIter',
    'harness': {'name': 'titer', 'srcs': ['harness/h_titer.cc'], 'args': ['--prop', 'C08']},
    'shrink': False,
    'rule': _COMMON_RULE + '; C08 programs mix Next, Recycle, Next()/Value() with BeforeFirst as first / last operation, twice '
            'in a row, with prefetched items, with a held cell, after the end, between two consumer-thread phases, and a source '
            'whose passes have different lengths',
    'assumptions': _ASSUME,
    'trusted_base': _TRUST,
    'partial': [],
}

MANIFEST = {
    'text': 'Same Lean 4 transition system and invariant as C07. Theorems over every reachable state: when BeforeFirst returns '
            'the producer has been rewound for this call (pass = pass at call + 1) and nothing of the new pass has been '
            'delivered, every delivered / queued / in-flight item belongs to the current pass (no stale item ever after), the '
            'rewind callback runs exactly once per posted command, no other call overlaps, no deadlock. Correspondence and '
            'oracles on programs with BeforeFirst at every point of consumption under the controlled scheduler.',
    'design_ref': 'DESIGN.md section 7 C08',
    'note': 'Trusted base as C07. BeforeFirst returns: deadlock freedom + well-founded progress measure (C08_returns); spurious '
            'wake-ups are not counted as progress.',
    'technique': 'Lean 4 proof (inductive invariants of a transition system) + source-to-Lean translator + controlled-scheduler '
                 'differential correspondence',
}
