_COMMON_RULE = ('case = (consumer program, producer script, schedule) run on the UNMODIFIED threadediter.h under the controlled '
                'scheduler: programs over {Next-hold, Recycle i, Next()/Value(), BeforeFirst, Destroy} for 1-2 consumer threads, '
                'producer lengths 0..4, capacities 1..3; every program: seeded PCT + random schedules incl. spurious wake-ups; a '
                'seeded selection of programs (8 quick / 40 thorough): every schedule, up to a cap per program, with <= 2 (quick) / <= 3 (thorough) '
                'preemptions at model granularity (one decision per critical section / unlocked synchronisation operation), '
                '<= 1 preemption + 1 spurious wake-up, and, for the oracles alone, schedules that preempt at EVERY shim operation '
                '("fine" cases, no model lines); after every model-level step the implementation\'s (queue size, free cells, '
                'nwait_consumer, nwait_producer, produce_end, producer_sig, sig_processed), the operation and every value '
                'returned are compared with the model replaying the same choices; non-trivial = every case (>= 2 threads); '
                'distinct = distinct hash of program + choice list')
_ASSUME = ['sequentially consistent atomics; std::mutex / std::condition_variable semantics as implemented by harness/common/vsched.h '
           '(wait = release + enter wait set, notify_one wakes any one waiter, spurious wake-ups allowed)',
           'a critical section under mutex_ is one transition (justified in DmlcModel/TIter/Model.lean; the "fine" schedules '
           'exercise the interleavings inside critical sections against the oracles)',
           'clients respect the documented contract: BeforeFirst / Destroy / Next() / Value() are not called concurrently with '
           'any other call; Recycle is given a cell the caller holds',
           'max_capacity >= 1 (for deadlock freedom)']
_TRUST = ['modelled by hand, tied by correspondence only: control flow of the producer loop, its catch block, Next, Recycle, '
          'BeforeFirst, Destroy at the granularity of synchronisation operations; the counter abstraction of consumer threads',
          'harness/common/vsched.h (controlled scheduler substituting the std synchronisation types)']
# C07 only: the life cycle (Init again after Destroy)
_TRUST_LIFE = ['life cycle: `reinit` models Init as the assignments extracted from the source (Gen initStores) + a new producer '
               'thread; the harness cases `fine life2` run on real threads (schedule not controlled, outcome schedule independent) '
               'and are judged by the oracle only; `C07_second_life` transfers the Reachable theorems to the second life']

CONFIG = {
    'subs': ['TIter'],
    'props_modules': ['DmlcModel.Props.C07', 'DmlcModel.Props.C07Witness', 'DmlcModel.Props.C07Lifecycle'],
    'driver': 'TIter',
    'harness': {'name': 'titer', 'srcs': ['harness/h_titer.cc'], 'args': ['--prop', 'C07']},
    'shrink': False,   # a case is a complete schedule; removing steps from it does not give a schedule
    'rule': _COMMON_RULE,
    'assumptions': _ASSUME,
    'trusted_base': _TRUST + _TRUST_LIFE,
    'partial': [],
}

MANIFEST = {
    'text': 'Lean 4 inductive invariant (about 70 clauses in 7 groups, each preserved by each of the 21 transition kinds) of a '
            'transition system of ThreadedIter at the granularity of its synchronisation operations: any schedule, any number '
            'of consumer threads, spurious wake-ups, arbitrary source script. Theorems: delivered ++ queued ++ in-flight = '
            'produced (order, exactly once), Next returns false only after the end with everything delivered, every cell in '
            'exactly one place (never lent twice, never handed to the producer while lent), allocations <= max_capacity + max '
            'simultaneously lent, no CHECK fires, no undefined pop, deadlock freedom, and termination: a lexicographic '
            'five-component measure decreases with every non-spurious transition of the calls in progress, so every such '
            'execution is finite and ends with every started call returned. Wait predicates and notify conditions are '
            're-extracted from threadediter.h on every run; the model is replayed step for step against the real code under a '
            'controlled scheduler; independent trace oracles. Life cycle: after a completed Destroy, Init (its assignments read from '
            'the source) puts the object exactly into the initial state, so a second life of the object is an execution of the same '
            'system (C07_reinit_is_init, C07_second_life); second-life cases on real threads with an oracle.',
    'design_ref': 'DESIGN.md section 7 C07, sections 2 (Concurrency) and 3.3',
    'note': 'Trusted: Lean kernel, translator, vsched.h semantics, correspondence on explored schedules only, control flow '
            'hand-modelled, sequential consistency. Liveness = deadlock freedom in every reachable state + well-foundedness of the '
            'progress relation (spurious wake-ups and the start of further calls are not progress events: a schedule that '
            'only ever wakes threads spuriously, or a client that keeps starting calls, is outside the claim).',
    'technique': 'Lean 4 proof (inductive invariants of a transition system, counter abstraction) + source-to-Lean translator + '
                 'controlled-scheduler differential correspondence',
}
