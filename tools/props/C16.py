CONFIG = {
    'subs': ['Json'],
    'props_modules': ['DmlcModel.Props.C16', 'DmlcModel.Props.C16Witness'],
    'driver': 'Json',
    'harness': {'name': 'json', 'srcs': ['harness/h_json.cc'], 'args': ['--prop', 'C16']},
    'rule': 'cases = (a) round trips: for each of 41 concrete C++ types (string, (u)int16/32/64, bool, pair, vector, list, '
            'map<string,T>, unordered_map<string,T>, dmlc::any with 3 registered types, 4 classes with Save/Load incl. optional '
            'fields, a POD class and field names that need escaping; nested) many generated values with strings/keys over all '
            '256 bytes emphasising quote, backslash, CR/LF/TAB, other control characters, brackets, braces, commas, colons, '
            'blanks: write, read the text back (also with trailing input), recognise the text; (b) reference documents from an '
            'independent emitter (free whitespace incl. VT/FF/CR, permuted members, omitted optional fields, +/leading-zero '
            'numbers) read by the reader alone; (c) malformed stream: every truncation, byte flips/substitutions/deletions, '
            'token deletion/duplication of valid documents, documents read as another type, random token soup, each read '
            'under a 2 s watchdog; a case is non-trivial when it executes at least one op; distinct = distinct hash of the op list',
    'assumptions': ['libstdc++ "C" locale, default format flags: operator>> / operator<< on integers and bool as modelled in '
                    'DmlcModel/Json/IStreamInt.lean; isspace = {9..13, 32}',
                    'std::istream over a memory buffer: get/peek return EOF exactly at the end of the text',
                    'classes follow the Save/Load convention of the json.h documentation: Save = BeginObject(); '
                    'WriteObjectKeyValue(name_i, field_i) in declaration order; EndObject(); Load = JSONObjectReadHelper with the '
                    'same names; absent optional fields keep the value of a default-constructed object',
                    'std::map iterates in increasing unsigned-byte key order; an unordered_map iterates in some order of its '
                    'distinct keys (the harness passes the observed order to the model)'],
    'trusted_base': ['modelled by hand, tied by correspondence only: control flow of JSONWriter / JSONReader / the Handler '
                     'templates / JSONObjectReadHelper::ReadAllFields / Handler<any>',
                     'memory safety of std::istream / std::string is the library\'s; the harness runs under ASan+UBSan'],
    'partial': [],
}

MANIFEST = {
    'text': 'Lean 4 theorems over an executable model of JSONWriter/JSONReader and the Handler family for a schema language of '
            'nested C++ types: round trip for every type and value (strings and keys over all 256 bytes; unordered_map up to key '
            'order), well-formedness of the output against an independent RFC 8259 recogniser when no string holds a control '
            'character other than TAB/LF/CR, totality of the reader with fuel adequacy (no hang), only value-or-dmlc::Error '
            'outcomes, balanced scope stacks; escape tables, separators, layout rules and counters regenerated from json.h each '
            'run; model tied to the code by differential execution incl. a malformed-input stream; independent oracle.',
    'design_ref': 'DESIGN.md section 7 C16, section 6 F9',
    'note': 'Trusted: Lean kernel, translator, correspondence on sampled cases only; libstdc++ integer extraction is modelled '
            '(IStreamInt.lean), not verified. Finding C16-F9 (object keys written unescaped) is repaired by fixes/C16-1.diff; '
            'the theorems are about the repaired code. Control characters other than TAB/LF/CR are written raw (outside the '
            'property\'s well-formedness promise; the round trip still holds for them).',
    'technique': 'Lean 4 proof (mutual structural induction over the schema, fuel adequacy for the reader loops) + '
                 'source-to-Lean translator + differential correspondence + sanitizer-instrumented malformed-input stream',
}
