CONFIG = {
    'subs': ['Ser', 'RowBlock'],
    'props_modules': ['DmlcModel.Props.C15', 'DmlcModel.Props.C15Witness', 'DmlcModel.Props.C15RowBlock'],
    'driver': 'Ser',
    'harness': {'name': 'ser', 'srcs': ['harness/h_ser.cc', 'harness/h_ser_le.cc', 'harness/h_ser_be.cc'],
                'args': ['--prop', 'C15']},
    'rule': 'cases = (type, value) pairs over 75 concrete C++ types (64 in the swap build; std::u16string / std::u32string in the default build, presented as V(u2) / V(u4); incl. the real '
            'dmlc::data::RowBlockContainer<uint32_t|uint64_t,float>::Save/Load presented as the class of its nine members; depth <= 3: arithmetic 1/2/4/8 '
            'bytes incl. float/double bit patterns, string, pair, vector/list/deque, set/multiset/unordered_set, '
            'map/multimap/unordered_map, classes with Save/Load, POD structs) x both byte-order builds, each with the '
            'ops enc (bytes vs reference layout), rt (round trip + consumption with a random tail), rtd x3 (the same read '
            'into an object that already holds another / a smaller / the same value), truncall (every '
            'truncation point); seq = 2-5 values back to back; dec-elems / dec-count = streams that are not the image '
            '(each read into a fresh and into a pre-populated object: dec, decd) '
            'of a container; random + boundary contents (empty containers, NUL / 0xff bytes, extreme integers, NaN '
            'payloads); a case is non-trivial when it has at least one op; distinct = distinct hash of the op list',
    'assumptions': ['little-endian x86-64 host (a big-endian host is represented by the swap build on this host and '
                    'by C15_cross_host_partial in the model)',
                    'libstdc++: std::pair is not std::is_pod; alignment of an arithmetic type = its size',
                    'MemoryStringStream::Write appends / Read returns min(n, remaining) bytes (C19)',
                    'a container has fewer than 2^64 elements and sizeof(T) * n does not wrap',
                    'padding bytes of a raw std::pair object are unspecified memory: the model writes zeros and the '
                    'harness masks them before comparing',
                    'iteration order of unordered containers is observed, not modelled: values compared as multisets'],
    'trusted_base': ['modelled by hand, tied by correspondence only: control flow of the handlers in serializer.h '
                     '(handler selection conditions, count width, ByteSwap index arithmetic and the swap conditions are '
                     'extracted from the source on every run)',
                     'std::set / std::map / multi / unordered insert semantics and operator< of the key types (modelled)',
                     'RowBlockContainer<uint32_t|uint64_t,float>::Save/Load is presented to the driver as the class of its nine '
                     'members (copies between the container and the tuple are harness code); its Bad-RowBlock-format exception is '
                     'shown as Read == false; the RowBlock model of the same function is tied to the Ser model by '
                     'C15_rowblock_is_serializer_class'],
    'partial': [],
}

MANIFEST = {
    'text': 'Lean 4 theorems, by structural induction over a universe of serialisable types, about an executable model of '
            'Stream::Write<T>/Read<T> and the Handler<T> chain: exact round trip with arbitrary following bytes, '
            'back-to-back streams, every strict prefix makes Read return false (all types, both swap settings); bytes = an '
            'independently written layout function of the stream byte order only, and cross-host readability, for all '
            'POD-free types (finding C15-F1 fixed). Handler '
            'selection conditions, count width and ByteSwap arithmetic are regenerated from the source each run; the '
            'model is tied to the code by differential execution of two builds of the real serializer (default and '
            'DMLC_IO_USE_LITTLE_ENDIAN=0) linked into one harness; independent reference encoder as oracle. The library\'s own class with Save/Load, RowBlockContainer, is checked as an instance (real code in the harness; '
            'theorems: round trip, prefix determines the result, no strict prefix loads, image = serializer encoding of its nine members, '
            'host independent).',
    'design_ref': 'DESIGN.md section 7 C15',
    'note': 'Trusted: Lean kernel, translator, correspondence on sampled cases only; control flow hand-modelled; '
            'little-endian host; std container insertion semantics modelled.',
    'technique': 'Lean 4 proof (structural induction over the type universe) + source-to-Lean translator + differential '
                 'correspondence on two byte-order builds',
}
