CONFIG = {
    'subs': ['StrToNum'],
    'props_modules': ['DmlcModel.Props.C14', 'DmlcModel.Props.C14Witness'],
    'driver': 'StrToNum',
    # No ASan: the harness places every C string at the end of an mmap'ed region followed by a PROT_NONE
    # page and turns the SIGSEGV of an over-read into the result `ub:oob` (sigsetjmp/siglongjmp); ASan would
    # intercept the signal.  UBSan in trap mode: signed overflow etc. raise SIGILL -> result `ub:overflow`.
    'harness': {'name': 'strtonum', 'srcs': ['harness/h_strtonum.cc'], 'sanitize': False,
                'flags': ['-fsanitize=undefined', '-fsanitize-undefined-trap-on-error'], 'args': []},
    'shrink': True,
    'rule': 'cases = one string each, several ops (strtof/strtod/*_check_range/stof/stod with prior errno 0/ERANGE/EINVAL, '
            'atof, integer parsers, Str2Type): unit-test and DESIGN F8 literals; exhaustive strings of length <= 5 '
            '(thorough <= 6) over {0,1,9,+,-,.,e,E,f,i,n,a,space,x}; boundary families around FLT/DBL MAX/MIN with the '
            'decimal point shifted by -12..12; random long mantissas/exponents (1e4 quick, 1e6 thorough); inf/nan '
            'spellings with decorations; integer digit strings around the type limits; random token-alphabet bytes. '
            'A case is non-trivial when its string starts with a number; distinct = distinct hash of the op list',
    'assumptions': ['IEEE-754 binary32/binary64 round-to-nearest-even arithmetic on x86-64 SSE2 without contraction',
                    'C locale; `long` is 64 bits; `char` comparisons only against ASCII constants',
                    'strings shorter than 2^31 bytes (digit_cnt is an int)'],
    'trusted_base': ['modelled by hand, tied by correspondence only: control flow of ParseFloat / ParseSignedInt / '
                     'ParseUnsignedInt / stof / stod',
                     'the Rat + rnd model of IEEE arithmetic (DmlcModel.StrToNum.Model.rnd)',
                     'oracle reference: glibc strtold/strtod/strtof on the decimal lexeme, __int128 arithmetic'],
    'partial': ['C14_stof_no_spurious_partial', 'C14_stof_no_spurious_exp_partial', 'C14_accuracy_partial'],
}

MANIFEST = {
    'text': 'Lean 4 theorems over an executable statement-by-statement model of ParseFloat (exact Rat arithmetic with an '
            'explicit round-to-nearest-even function), the integer parsers and stof/stod: no read past the NUL, end index = '
            'longest numeric prefix, locality, exact integers, invalid_argument iff no number, never inf from stof, no '
            'spurious throw (partial: inf/nan spellings, exponent-free decimals, and decimals with <= 19 fraction digits and exponent field <= 38/308), accuracy 1e-6/1e-14 by a forward error analysis over Rat (partial: same fragment; the scaling factors 10^E are checked for every E by kernel evaluation). Character classes, '
            'constants and step arithmetic regenerated from the source each run; model tied to the code by differential '
            'execution (bit patterns, end offsets, errno, exceptions) on a guard-paged buffer; independent oracle (glibc, '
            '__int128, exception table).',
    'design_ref': 'DESIGN.md section 7 C14, section 6 F8',
    'note': 'Model and full theorems follow the repaired code (fixes/C14-1..6). Open classes: exp-field-range, '
            'frac-leading-zeros-19, near-max-overflow (the last 4 tol below the largest normal value). Trusted: Lean kernel, translator, correspondence on sampled cases, Rat+rnd model of IEEE.',
    'technique': 'Lean 4 proof (loop = takeWhile/foldl specification lemmas) + source-to-Lean translator + differential '
                 'correspondence + reference oracle',
}
