CONFIG = {
    'subs': ['Param', 'Json', 'StrToNum'],
    'props_modules': ['DmlcModel.Props.C17', 'DmlcModel.Props.C17Witness'],
    'driver': 'Param',
    'harness': {'name': 'param', 'srcs': ['harness/h_param.cc'], 'args': ['--prop', 'C17']},
    'rule': 'cases = op sequences (Init / RunUpdate under the three unknown-key options / InitAllowUnknown / '
            'UpdateAllowUnknown / __DICT__ / UpdateDict / Save+Load) on two registered structs (17 fields covering the '
            'eleven field kinds with and without ranges and aliases; 6 fields with required ones); argument lists of '
            'length 0..8 (one protocol line per argument, so that shrinking shortens the list) with keys from names, '
            'aliases, hidden-style, near-miss and random names, repetitions, values from per-type pools (valid, '
            'boundary, out of range, wrong type, empty, blanks, None, enum names, 5L, -1, nan/inf), some calls with '
            'errno preset to ERANGE; plus a fixed corpus (every field x 80 texts, keys x options, JSON texts) and '
            'direct istringstream extractions; a case is non-trivial when it makes at least one call; distinct = '
            'distinct hash of the op list',
    'assumptions': [
        'libstdc++ "C"-locale num_get / istream sentry behaviour as modelled in Param/IStream.lean (checked by the ext ops)',
        'float/double fields: theorems are generic in the conversion pair (FloatOps); the driver instance and '
        'C17_float_field_roundtrip use the C14 model of dmlc::stof/stod (StrToNum.sto); Save/Load go through the C16 '
        'model of json.h (Json.writeTop/readTop at map<string,string>)',
        'printing side of float fields (libc %.9g / %.17g emits a decimal lexeme that is the P-digit rounding of the '
        'value) is a hypothesis of the float round trip; the driver mirrors it exactly (FloatImpl.printG)',
        'glibc printf %.9g / %.17g prints the exactly rounded decimal expansion',
        'a value-initialised struct (P p = P()) is the start state of every case',
    ],
    'trusted_base': [
        'modelled by hand, tied by correspondence only: control flow of FieldEntry<T>::Set/Check, RunUpdate, RunInit, '
        'GetDict, optional<T> extraction, the JSON map writer/reader',
        'schema descriptor read out of the ParamManager internals by the harness (private members opened in the harness TU)',
    ],
    'partial': [],
}

MANIFEST = {
    'text': 'Lean 4 theorems over an executable model of dmlc::Parameter (per-type Set/Check, RunUpdate with the three '
            'unknown-key policies, RunInit defaults / required fields, __DICT__, Save/Load) for every well-formed schema, '
            'argument list and policy: field = parse of the last occurrence else default, error iff first offending '
            'argument / missing required field, hidden-key policy, Update frame, dictionary and JSON round trips; '
            'branch conditions and literal tables regenerated from parameter.h / optional.h each run; model tied to the '
            'code by differential execution on generated op sequences (fields compared as bit patterns); independent '
            'reference interpreter of the declared schema as oracle.',
    'design_ref': 'DESIGN.md section 7 C17',
    'note': 'Trusted: Lean kernel, translator, correspondence on sampled cases only; control flow hand-modelled; float '
            'conversion abstract in the theorems (C14 covers it). Known findings: C14 defects of stof/stod seen through '
            'float fields (stale errno, partial literals, overflow to inf, nan( CHECK).',
    'technique': 'Lean 4 proof (induction over the argument list) + source-to-Lean translator + differential correspondence',
}
