import importlib.util
import os

_spec = importlib.util.spec_from_file_location('_c03cfg', os.path.join(os.path.dirname(os.path.abspath(__file__)), 'C03.py'))
_m = importlib.util.module_from_spec(_spec)
_spec.loader.exec_module(_m)
HARNESS = dict(_m.HARNESS, args=['--prop', 'C05'])

CONFIG = {
    'subs': ['Split', 'RecordIO', 'Wrap', 'TIter'],
    'props_modules': ['DmlcModel.Props.C05', 'DmlcModel.Props.C05Witness', 'DmlcModel.Props.C05Shuffle', 'DmlcModel.Props.C05ShuffleText', 'DmlcModel.Props.C05ShuffleRec'],
    'driver': 'Split',
    'harness': HARNESS,
    'rule': 'cases = operation histories on one split object, always ending in a full drain. Exhaustive: every history of '
            'length <=4 (thorough: 5) over {NextRecord, NextChunk, HintChunkSize, BeforeFirst, ResetPartition(k,n) for 5 '
            '(k,n) pairs incl. a part that receives no bytes and parts that become empty only after snapping} on 3 inputs '
            '(text 1 file w=2, text 3 files w=1, recordio 2 files w=3), bare and behind SingleThreadedInputSplit (histories '
            'without bf/reset only up to length 2); random: histories of up to 40 ops on random text / recordio inputs, '
            'random (k,n) incl. k >= n. Oracle after each bf / reset: delivered canonical records = (prefix of) the stream of '
            'a freshly constructed split for the same (k,n). InputSplitShuffle (real files, 1-3 parts x 1-4 shuffle parts, text and '
            'recordio): histories over {NextRecord, drain, BeforeFirst, ResetPartition}; the generator predicts every shuffle '
            'order with its own mt19937 + std::shuffle; oracle: records after each call = the m sub-parts of the selected part '
            'read through plain InputSplit::Create.',
    'assumptions': ['as C03 / C04 (size_t ranges: offsets < 2^64, total size < 2^62/2^63 where stated)',
                    'blob-for-blob equality with a fresh object is stated for equal buffer size (C05_reset, C05_beforeFirst, any '
                    'format, bare and behind SingleThreadedInputSplit); for the text format the canonical lines are additionally '
                    'shown equal for ANY buffer size / consumption mode (C05_reset_text_as_fresh); for recordio that step is '
                    'C04_buffer_independent',
                    'the prefetching wrapper (ThreadedInputSplit) is covered by C10, not here',
                    'the theorems need fix C05-1 in the source (Gen items rpEmptyClears / bfEmptyClears = true, by rfl)'],
    'trusted_base': ['modelled by hand, tied by correspondence only: control flow of InputSplitBase, the two splitters and '
                     'SingleThreadedInputSplit; InputSplitShuffle (its NextRecord / NextChunk / BeforeFirst bodies are compared '
                     'textually with the modelled shape on every run, Gen item shuffleShapeOk); the inner split of '
                     'InputSplitShuffle is represented by its C05 / C10 contract'],
    'partial': [],
}

MANIFEST = {
    'text': 'Lean 4 theorems over the InputSplitBase state machine (step : state -> op -> state x output): BeforeFirst and '
            'ResetPartition establish a Clean state (no chunk, no carry-over, position at the part start) from ANY state, and '
            'the stream of a Clean state depends only on the part; model tied to the real classes (bare and behind '
            'SingleThreadedInputSplit) by differential execution of operation histories with internal state; oracle: stream '
            'after each reset = stream of a freshly constructed split.',
    'design_ref': 'DESIGN.md section 7 C05, section 6 F1',
    'note': 'Defect F1 (stale chunk / carry-over after a reset to an empty part; heap-buffer-overflow for recordio) is '
            'repaired by fixes/C05-1.diff; whether the repair is present is read from the source each run (Gen items '
            'rpEmptyClears / bfEmptyClears) and the theorems need it.',
    'technique': 'Lean 4 proof (invariant over the state machine) + source-to-Lean translator + differential correspondence of '
                 'exhaustive short and random long operation histories',
}


# C05 behind the PREFETCHING wrapper (ThreadedInputSplit): served by the C10 harness in --prop C05 mode (same cached
# binary as C10; histories over {rec, chunk, bf, reset k n, hint} on the threaded wrapper, constructed directly and through
# InputSplit::Create, text and recordio; oracle: stream after bf/reset = stream of a fresh unwrapped split)
CONFIG['extra'] = [{
    'driver': 'Wrap',
    'harness': {'name': 'wrappers',
                'srcs': ['harness/h_wrappers.cc', 'harness/h_wrappers_vs.cc', '$REPO/src/io/input_split_base.cc',
                         '$REPO/src/io/line_split.cc', '$REPO/src/io/recordio_split.cc', '$REPO/src/recordio.cc', '$REPO/src/io.cc',
                         '$REPO/src/io/local_filesys.cc', '$REPO/src/io/filesys.cc', '$REPO/src/io/indexed_recordio_split.cc'],
                'flags': ['-DDMLC_CORE_VERIF_BUFFER_WORDS=4', '-D_GLIBCXX_SANITIZE_VECTOR'],
                'args': ['--prop', 'C05'],
                'timeout': 600},
}]
