CONFIG = {
    'subs': ['RecordIO', 'Split'],
    'props_modules': ['DmlcModel.Props.C02', 'DmlcModel.Props.C02Witness'],
    'driver': 'RecordIO',
    'harness': {'name': 'recordio', 'srcs': ['harness/h_recordio.cc', '$REPO/src/io/recordio_split.cc', '$REPO/src/io/input_split_base.cc',
                         '$REPO/src/io/filesys.cc', '$REPO/src/io/local_filesys.cc', '$REPO/src/io.cc',
                         '$REPO/src/io/line_split.cc', '$REPO/src/io/indexed_recordio_split.cc'],
                'flags': ['-DDMLC_CORE_VERIF_BUFFER_WORDS=4'], 'args': ['--prop', 'C02']},
    'rule': 'cases as C01 (record sequences over a magic-centred word alphabet, exhaustive for small bounds, random '
            'beyond) plus, per case, a scan from every aligned offset and every chunk-reader part k of n for '
            'n = 1..words+2 (capped at 14); non-trivial = at least one record written; distinct = hash of the op list',
    'assumptions': ['little-endian host', 'chunks are whole-record images (what NextChunk returns, C04)',
                    'Fits: (size+3)*num_parts < 2^64 and num_parts+1 < 2^32 (otherwise the C++ arithmetic wraps)'],
    'trusted_base': ['modelled by hand, tied by correspondence only: control flow of FindNextRecordIOHead / '
                     'RecordIOChunkReader (constructor, NextRecord fast path and reassembly loop)'],
    'partial': [],
}

MANIFEST = {
    'text': 'Lean 4 theorems for every record list: record-image shape (magic only as part header; heads only at record '
            'starts), FindNextRecordIOHead from any aligned offset = next record start, one chunk-reader NextRecord at a '
            'record start returns that record, parts 0..n-1 return consecutive runs whose concatenation is the record list '
            '(for all n under a no-wrap guard). Arithmetic kernels regenerated from the source each run; model tied to the '
            'code by differential execution incl. every aligned scan offset and every part count; independent oracle.',
    'design_ref': 'DESIGN.md section 7 C02',
    'note': 'Trusted: Lean kernel, translator, correspondence on sampled cases only; control flow hand-modelled; chunks are '
            'whole-record images; little-endian host.',
    'technique': 'Lean 4 proof (induction over the writer loop + telescoping of part windows) + source-to-Lean translator + '
                 'differential correspondence',
}
