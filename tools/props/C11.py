CONFIG = {
    'subs': ['Parse', 'StrToNum'],
    'props_modules': ['DmlcModel.Props.C11', 'DmlcModel.Props.C11Witness', 'DmlcModel.Props.C11Pipeline', 'DmlcModel.Props.C11Threaded'],
    'driver': 'Parse',
    'harness': {'name': 'parsers',
                'srcs': ['harness/h_parsers.cc', '$REPO/src/io/line_split.cc', '$REPO/src/io/input_split_base.cc',
                         '$REPO/src/io/filesys.cc'],
                'flags': ['-fopenmp', '-DDMLC_CORE_VERIF_BUFFER_WORDS=1'],
                'args': ['--prop', 'C11']},
    'rule': 'cases = documents (corpus of the finding witnesses and unit-test documents; every token string of length <= 3 '
            '(thorough: 4) over a 12-13 token alphabet per format, alone and in front of a fixed tail; random multi-line '
            'documents whose lines mostly share one shape) x configurations (ParseBlock with NUL / foreign trailing bytes, each '
            'line alone, FillData with 2..max threads, LineSplitter pipelines with 1-16 word buffers x 1-4 parts x 1..max '
            'threads, indexing_mode 0/1, 32/64-bit indices, csv float/int32/int64; the same pipelines behind the prefetching '
            'ThreadedParser read by a slow consumer that lets the parsing thread run until it blocks before looking at Value(), '
            'long documents with more chunks than prefetch cells); a case is non-trivial when the '
            'document is non-empty; distinct = distinct hash of the op list',
    'assumptions': ['the numeric conversions are a parameter of the model (contract Conv.Local: the result depends only on '
                    'the run of non-EOL, non-NUL bytes at the start position); the executable driver takes strtof / ParseUnsignedInt from '
                    'the C14 model DmlcModel.StrToNum.Model (Gen/StrToNum regenerated with this check) and emulates libc atoll / '
                    'strtoll in ConvSimple',
                    'C11_pipeline composes with C03 (DmlcModel.Props.C03 / DmlcModel.Split): same hypotheses on the files as C03',
                    'x86-64, binary32 round-to-nearest-even, char compared as byte values < 0x80 only',
                    'indexing_mode >= 0 (auto-detection excluded by the property)'],
    'trusted_base': ['modelled by hand, tied by correspondence only: control flow of ParsePair / ParseTriple / '
                     'IgnoreCommentAndBlank / the three ParseBlock bodies / BackFindEndLine / FillData / ParserImpl::Next / ThreadedParser::Next '
                     '(loop models in Parse/ParserNext.lean; the iterator under ThreadedParser is represented by its delivery order, C07) / '
                     'GetBlock / operator[]; dmlc::strtof / ParseUnsignedInt as modelled by C14 (StrToNum), libc atoll / strtoll as emulated in ConvSimple'],
    'partial': ['C11_pipeline (files -> parts -> chunks -> FillData slices -> rows) carries no residual size hypothesis any more '
                '(every chunk is at most 2 * totalSize + 1 bytes long: Parse/ChunkBound.lean part_chunks_length); only a modelling '
                'assumption remains: the memory behind a chunk is modelled as an arbitrary non-empty function of the chunk',
                'csv theorems carry the extra hypothesis that the text has no NUL byte inside (files are NUL-free in C11_pipeline)'],
}

# the same harness source built a second time WITHOUT sanitizers and linked with the real src/data.cc + src/io.cc:
# Parser<I,D>::Create (factory registry, URI arguments, thread count, ThreadedParser wrapper) on real files
CONFIG['extra'] = [{
    'driver': 'Parse',
    'harness': {'name': 'parsers-create',
                'srcs': ['harness/h_parsers.cc', '$REPO/src/data.cc', '$REPO/src/io.cc', '$REPO/src/io/local_filesys.cc',
                         '$REPO/src/io/filesys.cc', '$REPO/src/io/line_split.cc', '$REPO/src/io/recordio_split.cc',
                         '$REPO/src/io/indexed_recordio_split.cc', '$REPO/src/io/input_split_base.cc', '$REPO/src/recordio.cc'],
                'flags': ['-fopenmp', '-DVH_WITH_DATACC=1', '-DDMLC_CORE_VERIF_BUFFER_WORDS=4'],
                'sanitize': False,
                'args': ['--prop', 'C11'],
                'timeout': 600},
}]

MANIFEST = {
    'text': 'Lean 4 theorems over an executable model of the libsvm / libfm / csv ParseBlock bodies, FillData thread slicing '
            'and ParserImpl::Next, generic in the numeric conversion: a block parses to the concatenation of its lines parsed '
            'alone, hence invariance under thread slices, chunk cuts and parts, blank and comment lines give no rows, bytes '
            'after the block are irrelevant. Character classes, slice arithmetic and every plain decision regenerated from the '
            'source on each run; model tied to the real parsers by differential execution (exact-size buffers with chosen '
            'trailing bytes, real LineSplitter pipelines); independent oracle: rows of the document = rows of each line alone.',
    'design_ref': 'DESIGN.md section 7 C11, section 6 F6',
    'note': 'Trusted: Lean kernel, translator, correspondence on sampled cases only; control flow hand-modelled; numeric '
            'conversions abstracted by a locality contract; chunk cuts at EOL assumed from C03.',
    'technique': 'Lean 4 proof (pointer loops -> list specification, induction over the line loop) + source-to-Lean translator '
                 '+ differential correspondence',
}
