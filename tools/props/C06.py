CONFIG = {
    'subs': ['Indexed', 'RecordIO', 'Split'],
    'props_modules': ['DmlcModel.Props.C06', 'DmlcModel.Props.C06Witness'],
    'driver': 'Indexed',
    'harness': {'name': 'indexed',
                'srcs': ['harness/h_indexed.cc', '$REPO/src/io/input_split_base.cc', '$REPO/src/io/indexed_recordio_split.cc',
                         '$REPO/src/io/line_split.cc', '$REPO/src/io/recordio_split.cc', '$REPO/src/recordio.cc',
                         '$REPO/src/io.cc', '$REPO/src/io/local_filesys.cc', '$REPO/src/io/filesys.cc'],
                # H1: 3-word chunk buffers instead of 8 MB: smaller than any record image, so every Chunk::Load / Append
                # of a pass has to grow (reallocate) its vector at least once and later passes reuse the grown one -
                # both paths of the buffer management run under ASan; _GLIBCXX_SANITIZE_VECTOR makes ASan also see
                # accesses between size() and capacity() of the chunk / index / permutation vectors
                'flags': ['-DDMLC_CORE_VERIF_BUFFER_WORDS=3', '-D_GLIBCXX_SANITIZE_VECTOR'],
                'args': ['--prop', 'C06']},
    'rule': 'cases = one indexed RecordIO file (N records written by the real RecordIOWriter over a magic-laden word '
            'alphabet with tails 0-3, index lines "id\\toffset" in random order) x operation histories on one object at a '
            'time: bare IndexedRecordIOSplitter over the in-memory filesystem (placement-new into 0xA5-filled memory so that '
            'never-assigned members are recognisable), the same behind the real ThreadedInputSplit, and '
            'InputSplit::Create(.., "indexed_recordio", shuffle, seed, batch) on real files (25 quick / 120 thorough cases). '
            '(A) cover: every N <= 4 (thorough 7) x n in 1..N+2 x batch in 1..N+1 x shuffle on/off x {NextRecord, '
            'NextBatch(b), NextChunk} bare and {NextRecord, NextChunk} wrapped: all parts k constructed and drained, every '
            'third also after BeforeFirst; (B) exhaustive histories of length <= 3 (thorough 4) over {rec, batch 1, batch 2, '
            'chunk, bf, reset 0 1, reset 1 2, reset 2 3, reset 3 4} x 3 initial parts (one empty) x batch 1..2 x shuffle on/off, '
            'N = 3; (C) 2500 (thorough 12000) random histories of <= 5 (8) ops over {rec, batch b, chunk, drain*, bf, reset k n '
            '(also k >= n)}, 3 seeds. Non-trivial = at least one pass started; labels: bare / wrapped / create, sequential / '
            'shuffled, empty-slice, reset, carry (n_overflow_ non-zero observed).',
    'assumptions': ['one data file (the property speaks of "an indexed RecordIO file"), non-empty, below 2^62 bytes; records '
                    'shorter than 2^29 bytes; num_parts and batch sizes below 2^32 and >= 1; part < num_parts',
                    'std::shuffle / std::mt19937 are not modelled: every BeforeFirst of the model receives the permutation the '
                    'harness recomputed with its own std::mt19937(111 + seed) + std::shuffle over the slice the property '
                    'defines; the theorems hold for every permutation',
                    'the prefetch thread of ThreadedInputSplit only decides when NextBatchEx(batch) is called; the model calls '
                    'it when the consumer needs a chunk. On that path the harness observes records and concatenated chunk '
                    'bytes, which do not depend on the prefetch depth (C06_batch_independent); ResetPartition on the wrapped '
                    'object is issued only after the producer is parked (the race itself is C10 / F5)',
                    'a stream Read returns min(size, remaining) bytes (MemFS; FileStream on regular files)',
                    'the three repairs of defect F2 are in the tree (fixes/C06-1..3.diff); their presence is read from the '
                    'source each run and the proofs stop compiling without them'],
    'trusted_base': ['modelled by hand, tied by correspondence only (results and internal state index_begin_/index_end_/'
                     'current_index_/n_overflow_/offsets/index_.size()/buffer_size_/chunk capacity and fill after every '
                     'operation): control flow of ReadIndexFile, ResetPartition, BeforeFirst, NextBatchEx, NextBatch, NextChunk, '
                     'NextRecord, ExtractNextRecord, the overriding ReadChunk, InputSplitBase::Read / BeforeFirst, '
                     'Chunk::Load / Append, consumer side of ThreadedInputSplit',
                     'ExtractNextRecord is proved equal to the C04 model of RecordIOSplitter::ExtractNextRecord '
                     '(Indexed/Extract.lean) and inherits Split.recExtract_spec'],
    'partial': [],
    'timeout': 1500,
}

MANIFEST = {
    'text': 'Lean 4 theorems over an executable model of IndexedRecordIOSplitter + the InputSplitBase pieces it runs on + the '
            'consumer side of ThreadedInputSplit (all slice / batch / carry arithmetic regenerated from the source each run): '
            'for every record list, index-line order, num_parts, part, batch size, shuffle result and every history of '
            'NextRecord / NextBatch / NextChunk / BeforeFirst / ResetPartition calls the object keeps an invariant (so no '
            'uninitialised read, out-of-range access or failed CHECK is reachable), part k yields exactly slice k of width '
            'ceil(N/n) (the slices tile the record list), a shuffled pass yields the slice in the order of the shuffle result, '
            'independently of batch size and pull style, also after any number of ResetPartition calls and for empty slices. '
            'Model tied to the real classes (bare, wrapped, InputSplit::Create on files) by differential execution of '
            'histories with internal state; independent oracle on the implementation (reference slices, own mt19937 stream, '
            'poisoned-memory detector for uninitialised members).',
    'design_ref': 'DESIGN.md section 7 C06, section 6 F2',
    'note': 'Defect F2 is repaired by fixes/C06-1.diff (one end sentinel, appended by ReadIndexFile), C06-2.diff (a part without '
            'records becomes an empty range instead of keeping uninitialised / stale members) and C06-3.diff (NextRecord goes '
            'through NextBatchEx like NextBatch / NextChunk instead of loading buffer_size_ words across record boundaries); '
            'on a tree without them the check reports the failing histories as VIOLATIONs and the proofs do not compile. '
            'Trusted: Lean kernel, translator, correspondence on sampled cases only; control flow hand-modelled; std::shuffle as '
            'an arbitrary permutation; single data file.',
    'technique': 'Lean 4 proof (state invariant over operation histories, byte-range lemmas over the RecordIO writer model, '
                 'reuse of the C04 extraction lemma) + source-to-Lean translator + differential correspondence with internal '
                 'state + exhaustive short / random long histories under ASan/UBSan with poisoned-memory construction',
}
