import importlib.util
import os

_spec = importlib.util.spec_from_file_location('_c03cfg', os.path.join(os.path.dirname(os.path.abspath(__file__)), 'C03.py'))
_m = importlib.util.module_from_spec(_spec)
_spec.loader.exec_module(_m)
HARNESS = dict(_m.HARNESS, args=['--prop', 'C04'])

CONFIG = {
    'subs': ['Split', 'RecordIO'],
    'props_modules': ['DmlcModel.Props.C04', 'DmlcModel.Props.C04Witness', 'DmlcModel.Props.C04Chunk', 'DmlcModel.Props.C04Files'],
    'driver': 'Split',
    'harness': HARNESS,
    'rule': 'cases = lists of RecordIO files written by the real RecordIOWriter x cover groups (parts 0..n-1 constructed and '
            'consumed). Exhaustive: 1-2 files of 1-2 records from the 7-record magic-laden set of C01 x n in 1..min(words+2,9) '
            'x w in 2..3 words x NextRecord / NextChunk+RecordIOChunkReader(q parts, q in 1..3); random: up to 6 files, '
            'records of up to 30 words over the C01 word alphabet + tails, buffers up to 60 words, q up to words/2, mixed '
            'consumption, SingleThreadedInputSplit; default 8 MB buffer and InputSplit::Create on real files; malformed '
            'files (correspondence of the CHECK paths only).',
    'assumptions': ['files are images of record lists written by RecordIOWriter (each record < 2^29 bytes); buffers of at '
                    'least 2 words (a 1-word buffer fails the CHECK in FindLastRecordBegin, by design of the code)',
                    'little-endian host', 'a stream Read returns min(size, remaining) bytes'],
    'trusted_base': ['modelled by hand, tied by correspondence only: control flow of InputSplitBase (as C03) and '
                     'RecordIOSplitter::SeekRecordBegin / FindLastRecordBegin / ExtractNextRecord'],
    # all C04_* theorems are proved at full strength, including the link to C02 (Props/C04Chunk.lean:
    # C04_parts_cover_chunk_reader composes C04_chunks_whole_records with C02_tiling).
    'partial': [],
}

MANIFEST = {
    'text': 'Lean 4 theorems over the InputSplitBase model instantiated with the RecordIOSplitter format (reusing the C01 '
            'writer / chunk-reader model), tied to the real RecordIOSplitter over files written by the real writer by '
            'differential execution with internal state; independent oracle: delivered records = written records in order, '
            'chunks are whole records (independent header walk), RecordIOChunkReader over the chunks agrees.',
    'design_ref': 'DESIGN.md section 7 C04',
    'note': 'Trusted: Lean kernel, translator, correspondence on sampled cases only; control flow hand-modelled; little-endian host.',
    'technique': 'Lean 4 proof (format-generic split theorem instantiated) + source-to-Lean translator + differential correspondence',
}
