CONFIG = {
    'subs': ['CQueue'],
    'props_modules': ['DmlcModel.Props.C18', 'DmlcModel.Props.C18Witness'],
    'driver': 'CQueue',
    'harness': {'name': 'cqueue', 'srcs': ['harness/h_cqueue.cc'], 'args': [], 'flags': ['-D_GLIBCXX_ASSERTIONS']},
    'shrink': False,   # a case is a complete schedule; removing steps from it does not give a schedule
    'rule': 'case = (program, schedule): programs of 1-3 pushers (Push/PushFront, priorities with ties), 1-3 poppers, '
            'optional killer(s) on the FIFO and the priority queue, 1-2 waiters/signallers/resetters on ManualEvent, '
            'each plus a finaliser thread that runs at quiescence; sequential histories (one worker thread, forced schedule): every '
            'sequence of <= 5 pushes over 5 priorities then pops, pops in the middle over 4 priorities, every FIFO string over '
            '{Push, PushFront, Pop} of length <= 7, seeded random histories of 20-70 calls; schedules = all interleavings at synchronisation '
            'operations with <= 2 (quick) / <= 3 (thorough) preemptions and <= 1 spurious wake-up (DFS, capped per '
            'program, see extra), plus seeded random and PCT schedules with <= 3 spurious wake-ups; a case is '
            'non-trivial always (every case runs >= 2 threads); distinct = distinct hash of program + choice list',
    'assumptions': ['sequentially consistent atomics; std::mutex / std::condition_variable semantics as implemented by '
                    'harness/common/vsched.h (wait = release + enter wait set, notify_one wakes any one waiter, '
                    'spurious wake-ups allowed)',
                    'std::push_heap / std::pop_heap hand out SOME element of maximal priority (the driver is told which)'],
    'trusted_base': ['modelled by hand, tied by correspondence only: control flow of Push/PushFront/Pop/SignalForKill/Size '
                     'and ManualEvent::wait/signal/reset at the granularity of synchronisation operations',
                     'harness/common/vsched.h (controlled scheduler substituting the std synchronisation types)'],
    'partial': [],
}

MANIFEST = {
    'text': 'Lean 4 inductive invariants over counter-abstraction transition systems of ConcurrentBlockingQueue (FIFO and '
            'priority) and ManualEvent, one event per synchronisation operation, any number of threads, spurious wake-ups '
            'allowed: exactly-once FIFO delivery in effect order, priority order, no lost wake-up, kill, no undefined '
            'pop, deadlock freedom, ManualEvent safety and liveness; wait predicates / notify conditions re-extracted '
            'from the source each run; the model is replayed step for step against the real code under a controlled '
            'scheduler (all schedules up to a preemption bound incl. spurious wake-ups); independent trace oracle.',
    'design_ref': 'DESIGN.md section 7 C18, section 3.3',
    'note': 'Trusted: Lean kernel, translator, vsched.h semantics of mutex/condvar, correspondence on explored schedules '
            'only; control flow hand-modelled. ManualEvent::wait of the pinned tree lacks the re-check (finding C18-F1, '
            'fixes/C18-1.diff); model and theorems follow the fixed code.',
    'technique': 'Lean 4 proof (inductive invariants of a transition system) + source-to-Lean translator + controlled-scheduler '
                 'differential correspondence',
}
