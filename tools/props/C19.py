CONFIG = {
    'subs': ['Streams'],
    'props_modules': ['DmlcModel.Props.C19', 'DmlcModel.Props.C19Witness'],
    'driver': 'Streams',
    'harness': {
        'name': 'streams',
        'srcs': ['harness/h_streams.cc', '$REPO/src/io.cc', '$REPO/src/io/local_filesys.cc', '$REPO/src/io/filesys.cc',
                 '$REPO/src/io/input_split_base.cc', '$REPO/src/io/line_split.cc', '$REPO/src/io/recordio_split.cc',
                 '$REPO/src/io/indexed_recordio_split.cc', '$REPO/src/recordio.cc'],
        'args': ['--prop', 'C19'],
    },
    'rule': 'cases = operation histories on one object: (1) every history of <= 3 (quick) / <= 4 (thorough) calls over '
            '{read 2, read 5, read 2^64-1, write 1 byte, write 3 bytes, tell, seek p} with p in {0, 2, len-1, len, len+1, 2^63, '
            '2^64-2, 2^64-1} on MemoryStringStream (empty / 3 bytes), MemoryFixedSizeStream (0 / 1 / 4 bytes) and the local '
            'FileStream (real temporary file, empty / 2 bytes), plus every history of 4-5 (quick) / 4-6 (thorough) calls over a '
            '5-6 letter alphabet; (2) random histories of 150-6000 calls per store with positions aimed at the end of the data '
            'and at 2^63 / 2^64-k, and (2b) read-only / write-only local files opened through file:// URIs '
            '(SeekStream::CreateForRead mode r, Stream::Create mode w), (2c) files of 1-4 MiB with read requests of up to 4 MiB (results compared '
            'as count + FNV-1a hash + position); (3) dmlc::ostream with buffer sizes 0..17 and 1024: every sequence of <= 2-4 operations over '
            '{put, write of 0/1/2/cap-1/cap/cap+1/2cap+1 bytes via write() or operator<<, flush, set_stream to the same / another of three '
            'recording streams, overflow(EOF), seek of the wrapped stream} followed by destruction, plus random sequences of up to 600 '
            'operations; (4) dmlc::istream over three recording streams, '
            'same buffer sizes, stream lengths {0,1,2,cap-1,cap,cap+1,2cap,2cap+1,37}: every sequence of <= 2-4 operations over '
            '{get, peek, read of 0/1/2/cap/cap+1/5000 bytes via the istream members (state bits observed, no implicit clear) or its '
            'rdbuf, clear, set_stream, seek of the wrapped stream} followed by a drain; set_stream scenarios (9 prefixes: before / exactly at / '
            'after EOF with eofbit/failbit set x 8 switches: other stream, same stream, same stream after Seek, several switches x 4 '
            'continuations); plus random sequences of up to 800 operations with set_stream/clear/seeks of detached streams. Memory-stream cases run in a forked worker so that a '
            'sanitizer abort is observed as the result ub:oob. A case is non-trivial when it performs at least one call after '
            'open; distinct = distinct hash of the op list.',
    'assumptions': [
        'size_t is 64 bits, long is 64 bits (LP64); std::string::max_size() = 2^62-1 (asserted by the harness)',
        'memory is available for every std::string::resize up to max_size() (the model never reports bad_alloc)',
        'file offsets stay within what the file system supports (the model lets fseek succeed for every offset < 2^63); '
        'the FILE* is in update mode and glibc allows switching between reading and writing without an intervening seek',
        'dmlc::ostream / dmlc::istream buffer size < 2^31 (pbump takes an int)',
    ],
    'trusted_base': [
        'modelled by hand, tied by correspondence only: control flow of Read/Write/Seek/Tell of the three streams, of '
        'OutBuf::sync/overflow/set_stream and InBuf::underflow',
        'contract of libstdc++ std::streambuf as modelled in Streams/Model.lean: sputc stores into [pptr, epptr) else calls '
        'overflow(c); default xsputn alternates filling the put area and overflow(next char); pubsync calls sync; sgetc/sbumpc '
        'use [gptr, egptr) else underflow/uflow; default uflow = underflow + gbump(1); default xsgetn alternates copying '
        'the get area and uflow; ostream::put/write/flush/operator<< and istream::get/peek/read map 1:1 to these; '
        'std::istream state bits as modelled: a sentry on a stream that is not good() sets failbit and extracts nothing, get sets '
        'eofbit|failbit at the end, peek eofbit, read eofbit|failbit when short; basic_ios::rdbuf(sb) clears the state',
        'contract of stdio as modelled (fread/fwrite/fseek/ftell on a byte array with a position; holes read as zeros; a '
        'negative offset makes fseek fail)',
        'ASan/UBSan in the harness worker process decide whether the real code performed an out-of-bounds access',
    ],
    'partial': [],
}

MANIFEST = {
    'text': 'Lean 4 refinement theorems: for every history of Read/Write/Seek/Tell the executable models of MemoryStringStream, '
            'MemoryFixedSizeStream and FileStream (64-bit wrap-around arithmetic regenerated from the source each run) produce '
            'the same results and final contents as a byte array with a cursor and never touch memory outside the buffer; '
            'for every buffer size and every sequence of insertions/flushes the OutBuf model hands the wrapped stream exactly '
            'the inserted bytes in order and counts them; for every buffer size and every sequence of extractions the InBuf '
            'model delivers the stream\'s bytes in order, counts the bytes pulled and reports EOF exactly at exhaustion. Models '
            'tied to the real classes by differential execution (real temp files, sanitizer-observed memcpy bounds), '
            'independent byte-array oracle in the harness.',
    'design_ref': 'DESIGN.md section 7 C19, section 6 F11',
    'note': 'Trusted: Lean kernel, translator, correspondence on sampled histories only; libstdc++ streambuf protocol and stdio '
            'are modelled contracts; three defects of the pinned tree (position wrap-around in both memory streams, '
            'MemoryFixedSizeStream::Read raising instead of a short read) are repaired by fixes/C19-1.diff and fixes/C19-2.diff.',
    'technique': 'Lean 4 proof (refinement by induction over operation histories; loop invariants for xsputn/xsgetn) + '
                 'source-to-Lean translator + differential correspondence',
}
