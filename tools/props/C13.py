CONFIG = {
    'subs': ['RowBlock'],
    'props_modules': ['DmlcModel.Props.C13', 'DmlcModel.Props.C13Witness'],
    'driver': 'RowBlock',
    'harness': {'name': 'rowblock',
                'srcs': ['harness/h_rowblock.cc', '$REPO/src/io.cc', '$REPO/src/io/local_filesys.cc',
                         '$REPO/src/io/filesys.cc', '$REPO/src/io/line_split.cc', '$REPO/src/io/recordio_split.cc',
                         '$REPO/src/io/indexed_recordio_split.cc', '$REPO/src/io/input_split_base.cc'],
                # memcpy(dst, src, 0) with NULL arguments (empty vectors) is treated as a no-op
                'flags': ['-fno-sanitize=nonnull-attribute', '-DDMLC_CORE_VERIF_BUFFER_WORDS=4096'],
                'args': ['--prop', 'C13']},
    'rule': 'cases = op histories {new, pushrow, pushblock, pushslice b e, clear, save, load, trunc, getblock, readrow, '
            'readall, readslice, sizes} over every block of <=3 rows x <=2 entries x 32 presence combinations '
            '(label/weight/qid/field/value) x every slice, all two-push histories over the <=2x<=1 blocks with equal '
            'presence, sampled mixed-presence pairs, save/load incl. every truncation, random longer histories on '
            'uint32 and uint64 containers with 64-bit sources; ParseBlock of the three text parsers on structured '
            'lines with every mix of weight/qid/value per line plus random token texts; BasicRowIter/DiskRowIter '
            'over scripted parsers and over real files (with and without #cache, passes 1..3, cache reuse); one '
            'real 64 MB page crossing. non-trivial = at least one result other than "ok"; distinct = hash of the op list',
    'assumptions': ['little-endian host', 'float label/value (DType = real_t); IndexType uint32_t or uint64_t',
                    'memcpy with a zero length is a no-op even for NULL arguments',
                    'MemoryStringStream / local FileStream read and write exactly the bytes given (C19)',
                    'ThreadedIter delivers the loader results in order (C07/C08): DiskRowIter is modelled sequentially',
                    'row equality is taken at the level of the Row accessors: an absent weight equals 1.0f and an '
                    'absent qid equals 0 (Push(Row) materialises both); label, field and value presence is exact'],
    'trusted_base': ['modelled by hand, tied by correspondence only: control flow of Push/GetBlock/Save/Load/Slice/'
                     'operator[]/BuildCache and the push discipline of the three ParseBlock functions',
                     'the text side of the parsers is abstract here (list of per-line emissions); C11/C12 tie text to emissions',
                     'RowBlockIter::Create is exercised through a transcription of data.cc CreateIter_ in the harness '
                     '(URISpec + parser construction + BasicRowIter/DiskRowIter), not by linking data.cc',
                     'the 64 MB page case is compared with a size-level shadow of the model (driver bigPages)'],
    # proved with the decidable hypothesis Compatible / HasSig (= complement of the open class mixed-presence-push);
    # the full statement C13_push_block_statement is refuted on a witness (C13_push_block_statement_false)
    'partial': ['C13_push_block', 'C13_push_row', 'C13_iter_basic', 'C13_iter_disk', 'C13_iter_disk_kPageSize'],
}

MANIFEST = {
    'text': 'Lean 4 theorems over an executable model of RowBlockContainer (Push row/block/slice, GetBlock, Save/Load), '
            'RowBlock::Slice/operator[], the push discipline and end-of-block CHECKs of the libsvm/libfm/csv ParseBlock, '
            'BasicRowIter and DiskRowIter: handed-out blocks are sound or dmlc::Error is raised, pushes/slices/save-load/'
            'iterator passes preserve every row in order; index expressions and CHECKs regenerated from the source each '
            'run; model tied to the code by differential execution; independent oracle with extent-checked reads.',
    'design_ref': 'DESIGN.md section 7 C13, section 6 F7',
    'note': 'Trusted: Lean kernel, translator, correspondence on sampled cases only; parser text side abstract; '
            'mixed-presence push sequences are an open finding class (Compatible hypothesis explicit in the theorems).',
    'technique': 'Lean 4 proof (list/offset induction) + source-to-Lean translator + differential correspondence + ASan harness',
}
