#!/usr/bin/env python3
"""Entry point of every registered check:  ./check Cxx [--tier quick|thorough] [--replay FILE]
                                            ./check --setup

Pipeline (DESIGN.md section 1):  translate -> prove (+ axiom audit, source grep) -> build harness ->
correspond (implementation vs `modeldrv`) -> oracle -> verdict + evidence.
"""
import fcntl
import glob
import json
import os
import re
import shutil
import subprocess
import sys
import time

HERE = os.path.dirname(os.path.abspath(__file__))
VERIF = os.path.dirname(HERE)
sys.path.insert(0, HERE)
import build  # noqa: E402
import translate  # noqa: E402
from registry import PROPS  # noqa: E402

LEAN = os.path.join(VERIF, 'lean')
WORK = os.path.join(VERIF, '.work')
ALLOWED_AXIOMS = {'propext', 'Classical.choice', 'Quot.sound'}
FORBIDDEN = re.compile(r'\bsorry\b|\badmit\b|^\s*axiom\s|native_decide|bv_decide|implemented_by|\bunsafe\s|maxHeartbeats\s+0\b',
                       re.M)


def log(*a):
    print(*a, flush=True)


def strip_comments(src):
    src = re.sub(r'/-.*?-/', '', src, flags=re.S)
    return re.sub(r'--[^\n]*', '', src)


class Lock:
    def __init__(self, name):
        os.makedirs(WORK, exist_ok=True)
        self.path = os.path.join(WORK, name + '.lock')

    def __enter__(self):
        self.fh = open(self.path, 'w')
        fcntl.flock(self.fh, fcntl.LOCK_EX)
        return self

    def __exit__(self, *a):
        fcntl.flock(self.fh, fcntl.LOCK_UN)
        self.fh.close()


def lake(args, timeout=3000):
    p = subprocess.run(['lake'] + args, cwd=LEAN, capture_output=True, text=True, timeout=timeout)
    return p.returncode, p.stdout + p.stderr


def lean_files_of(cfg):
    """source files whose text is grepped for forbidden constructs"""
    fs = [os.path.join(LEAN, 'DmlcModel', 'Basic.lean')]
    for sub in cfg['subs']:
        fs += sorted(glob.glob(os.path.join(LEAN, 'DmlcModel', sub, '*.lean')))
        g = os.path.join(LEAN, 'DmlcModel', 'Gen', sub + '.lean')
        if os.path.exists(g):
            fs.append(g)
    for m in cfg['props_modules']:
        fs.append(os.path.join(LEAN, *m.split('.')) + '.lean')
    return fs


def theorems_of(cfg):
    """names of the property theorems (every `theorem` in the Props modules)"""
    names = []
    for m in cfg['props_modules']:
        path = os.path.join(LEAN, *m.split('.')) + '.lean'
        if not os.path.exists(path):
            continue
        src = strip_comments(open(path).read())
        ns = re.findall(r'^namespace\s+(\S+)', src, re.M)
        prefix = (ns[0] + '.') if ns else ''
        for t in re.findall(r'^(?:protected\s+)?theorem\s+(\S+)', src, re.M):
            names.append((m, prefix + t))
    return names


def first_error_theorems(out):
    """map lake error lines to the enclosing declaration, best effort"""
    res = []
    for m in re.finditer(r'error: (\S+?\.lean):(\d+):(\d+): ([^\n]*)', out):
        f, line = m.group(1), int(m.group(2))
        path = f if os.path.isabs(f) else os.path.join(LEAN, f)
        decl = '?'
        try:
            lines = open(path).read().split('\n')
            for i in range(min(line, len(lines)) - 1, -1, -1):
                mm = re.match(r'\s*(?:private\s+|protected\s+)?(?:theorem|lemma|def|example|instance)\s+(\S+)', lines[i])
                if mm:
                    decl = mm.group(1)
                    break
        except OSError:
            pass
        res.append('%s:%d %s: %s' % (os.path.relpath(path, LEAN), line, decl, m.group(4)[:160]))
    return res[:12]


def prove(cfg, tier, work):
    """returns dict(ok, obligations=[{name, ok, axioms}], errors=[...], driver_ok)"""
    res = {'ok': True, 'obligations': [], 'errors': [], 'driver_ok': True}
    if True:  # caller holds Lock('lake') across translate + prove (Gen files are shared between runs)
        targets = list(cfg['props_modules'])
        rc, out = lake(['build'] + targets)
        if rc != 0:
            res['ok'] = False
            res['errors'] += first_error_theorems(out) or [out[-1500:]]
        rc2, out2 = lake(['build', 'drv-' + cfg['driver']] + ['drv-' + e['driver'] for e in cfg.get('extra', [])])
        if rc2 != 0:
            res['driver_ok'] = False
            res['errors'] += ['modeldrv: ' + e for e in (first_error_theorems(out2) or [out2[-800:]])]
        # axiom audit
        thms = theorems_of(cfg)
        if rc == 0 and thms:
            audit = os.path.join(work, 'Audit.lean')
            with open(audit, 'w') as fh:
                for m in sorted(set(m for m, _ in thms)):
                    fh.write('import %s\n' % m)
                for _, t in thms:
                    fh.write('#print axioms %s\n' % t)
            p = subprocess.run(['lake', 'env', 'lean', audit], cwd=LEAN, capture_output=True, text=True)
            txt = p.stdout + p.stderr
            for _, t in thms:
                m = re.search(r"'%s' depends on axioms: \[([^\]]*)\]" % re.escape(t), txt)
                m0 = re.search(r"'%s' does not depend on any axioms" % re.escape(t), txt)
                if m:
                    ax = [a.strip() for a in m.group(1).replace('\n', ' ').split(',') if a.strip()]
                elif m0:
                    ax = []
                else:
                    ax = None
                ok = ax is not None and set(ax) <= ALLOWED_AXIOMS
                res['obligations'].append({'name': t, 'kind': 'theorem', 'ok': ok, 'axioms': ax})
                if not ok:
                    res['ok'] = False
                    res['errors'].append('axiom audit: %s -> %s' % (t, ax if ax is not None else 'not found'))
        else:
            for _, t in thms:
                res['obligations'].append({'name': t, 'kind': 'theorem', 'ok': False, 'axioms': None})
        if tier == 'thorough' and rc == 0:
            for m in cfg['props_modules']:
                p = subprocess.run(['lake', 'env', 'leanchecker', m], cwd=LEAN, capture_output=True, text=True)
                ok = p.returncode == 0
                res['obligations'].append({'name': 'leanchecker ' + m, 'kind': 'recheck', 'ok': ok, 'axioms': None})
                if not ok:
                    res['ok'] = False
                    res['errors'].append('leanchecker %s: %s' % (m, (p.stdout + p.stderr)[-300:]))
    # forbidden constructs
    for f in lean_files_of(cfg):
        if not os.path.exists(f):
            continue
        hits = FORBIDDEN.findall(strip_comments(open(f).read()))
        if hits:
            res['ok'] = False
            res['errors'].append('forbidden construct %s in %s' % (sorted(set(h.strip() for h in hits)), os.path.relpath(f, VERIF)))
    return res


def harness_binary(hc):
    """C++ harness: hash-keyed build against /repo; script harness: hc['cmd'] (list; $VERIF expanded)"""
    if 'cmd' in hc:
        return [a.replace('$VERIF', VERIF) for a in hc['cmd']]
    return build.build(hc['name'], hc['srcs'], hc.get('flags', ()), hc.get('sanitize', True), hc.get('libs', ()))


def run_harness(cfg, binp, tier, seed, work, replay_ops=None, extra_args=()):
    out = os.path.join(work, 'h')
    shutil.rmtree(out, ignore_errors=True)
    os.makedirs(out)
    cmd = list(cfg['harness'].get('runner', [])) + (binp if isinstance(binp, list) else [binp])
    cmd += ['--out', out, '--seed', str(seed), '--tier', tier]
    cmd += list(cfg['harness'].get('args', [])) + list(extra_args)
    if replay_ops is not None:
        rp = os.path.join(work, 'replay_ops.txt')
        with open(rp, 'w') as fh:
            fh.write('\n'.join(replay_ops) + '\n')
        cmd += ['--replay', rp]
    env = dict(os.environ)
    env.setdefault('ASAN_OPTIONS', 'detect_leaks=0:abort_on_error=0')
    env.setdefault('UBSAN_OPTIONS', 'print_stacktrace=1')
    t0 = time.time()
    limit = cfg['harness'].get('timeout_thorough', 3000) if tier == 'thorough' else cfg['harness'].get('timeout', 900)
    try:
        p = subprocess.run(cmd, capture_output=True, text=True, env=env, cwd=work, timeout=limit)
    except subprocess.TimeoutExpired as e:
        # a harness that does not finish is a result (the implementation hangs or crawls on some case):
        # the partially written protocol files name the case it was working on
        tail = ''
        for part in (e.stdout, e.stderr):
            if part:
                tail += part if isinstance(part, str) else part.decode('utf-8', 'replace')
        return {'rc': 124, 'out': out, 'stderr': ('TIMEOUT: harness did not finish within %d s\n' % limit) + tail[-3000:],
                'wall': time.time() - t0}
    return {'rc': p.returncode, 'out': out, 'stderr': (p.stdout + p.stderr)[-4000:], 'wall': time.time() - t0}


def read_cases(path):
    """split a protocol file into cases: list of (header, [lines])"""
    cases = []
    cur = None
    with open(path, errors='replace') as fh:
        for line in fh:
            line = line.rstrip('\n')
            if line.startswith('case '):
                cur = (line, [])
                cases.append(cur)
            elif cur is not None:
                cur[1].append(line)
    return cases


def correspond(cfg, hres, work):
    """run modeldrv on ops.txt, compare with impl.txt. returns dict(ok, n_cases, diverging=[...])"""
    ops = os.path.join(hres['out'], 'ops.txt')
    impl = os.path.join(hres['out'], 'impl.txt')
    model = os.path.join(hres['out'], 'model.txt')
    drv = os.path.join(LEAN, '.lake', 'build', 'bin', 'drv-' + cfg['driver'])
    res = {'ok': True, 'diverging': [], 'n_lines': 0}
    try:
        with open(ops) as fin, open(model, 'w') as fout:
            p = subprocess.run([drv], stdin=fin, stdout=fout, stderr=subprocess.PIPE, text=True,
                               timeout=cfg.get('driver_timeout', 1200))
    except subprocess.TimeoutExpired:
        # the executable model did not answer in time: the correspondence is not established
        res['ok'] = False
        res['diverging'].append({'what': 'modeldrv did not finish within its time limit on the operations of this round'})
        return res
    if p.returncode != 0:
        res['ok'] = False
        res['diverging'].append({'what': 'modeldrv exited with %d: %s' % (p.returncode, p.stderr[-500:])})
        return res
    same = subprocess.run(['cmp', '-s', model, impl]).returncode == 0
    res['n_lines'] = sum(1 for _ in open(impl, errors='replace'))
    if same:
        return res
    res['ok'] = False
    ci, cm, co = read_cases(impl), read_cases(model), read_cases(ops)
    for idx in range(min(len(ci), len(cm), len(co))):
        if ci[idx] != cm[idx]:
            k = 0
            a, b = ci[idx][1], cm[idx][1]
            while k < min(len(a), len(b)) and a[k] == b[k]:
                k += 1
            res['diverging'].append({'case': co[idx][0], 'ops': co[idx][1], 'impl': a, 'model': b, 'first_diff_op': k})
            if len(res['diverging']) >= 5:
                break
    if not res['diverging']:
        res['diverging'].append({'what': 'streams differ in length: impl %d cases, model %d cases' % (len(ci), len(cm))})
    return res


def load_findings():
    out = []
    p = os.path.join(VERIF, 'known_findings.json')
    if os.path.exists(p):
        out += json.load(open(p)).get('findings', [])
    # per-property fragments (merged into known_findings.json by the integrator)
    for f in sorted(glob.glob(os.path.join(VERIF, 'findings', '*.json'))):
        try:
            out += json.load(open(f)).get('findings', [])
        except ValueError:
            pass
    return out


def oracle_failures(hres, prop):
    fails = []
    p = os.path.join(hres['out'], 'oracle.txt')
    if not os.path.exists(p):
        return fails
    for line in open(p, errors='replace'):
        m = re.match(r'ORACLE-FAIL case=(\d+) class=(\S+) (?:prop=(\S+) )?(.*)', line.rstrip('\n'))
        if not m:
            continue
        if m.group(3) and m.group(3) != prop:
            continue
        fails.append({'case': int(m.group(1)), 'class': m.group(2), 'msg': m.group(4)})
    return fails


def case_ops(hres, case_no):
    ops = os.path.join(hres['out'], 'ops.txt')
    impl = os.path.join(hres['out'], 'impl.txt')
    want = 'case %d ' % case_no
    out = {'header': None, 'ops': [], 'impl': []}
    for path, key in ((ops, 'ops'), (impl, 'impl')):
        on = False
        with open(path, errors='replace') as fh:
            for line in fh:
                if line.startswith('case '):
                    if on:
                        break
                    on = line.startswith(want) or line.rstrip('\n') == want.strip()
                    if on:
                        out['header'] = line.rstrip('\n')
                    continue
                if on:
                    out[key].append(line.rstrip('\n'))
    return out


def write_replay(prop, seed, n, payload):
    d = os.path.join(VERIF, 'replays')
    os.makedirs(d, exist_ok=True)
    path = os.path.join(d, '%s-%s-%d.json' % (prop, seed, n))
    with open(path, 'w') as fh:
        json.dump(payload, fh, indent=1)
    return os.path.relpath(path, VERIF)


def shrink_ops(cfg, binp, work, prop, header, ops, still_fails, budget_s=40):
    """greedy delta debugging on the op list; still_fails(ops) -> bool"""
    t0 = time.time()
    cur = list(ops)
    n = 2
    while len(cur) >= 2 and time.time() - t0 < budget_s:
        chunk = max(1, len(cur) // n)
        reduced = False
        for i in range(0, len(cur), chunk):
            cand = cur[:i] + cur[i + chunk:]
            if cand and still_fails(cand):
                cur = cand
                n = max(n - 1, 2)
                reduced = True
                break
            if time.time() - t0 > budget_s:
                break
        if not reduced:
            if chunk == 1:
                break
            n = min(len(cur), n * 2)
    return cur


def run_check(prop, tier, seed, replay=None):
    t0 = time.time()
    cfg = PROPS[prop]
    work = os.path.join(WORK, '%s-%d' % (prop, os.getpid()))
    shutil.rmtree(work, ignore_errors=True)
    os.makedirs(work)
    violations = []        # list of (replay_path, suffix)
    known_hit = {}
    notes = []
    nrep = [0]

    def add_violation(payload, suffix=''):
        nrep[0] += 1
        path = write_replay(prop, seed, nrep[0], payload)
        violations.append((path, suffix))

    # 1. translate + 2. prove under ONE lock: Gen/<Sub>.lean is shared, so another run (possibly with a
    # different VERIF_REPO) must not regenerate it between this run's translate and build
    with Lock('lake'):
        trep = translate.run(cfg['subs'])
        pres = prove(cfg, tier, work)
    gen_items = [r for sub in cfg['subs'] for r in trep.get(sub, [])]
    gen_bad = [r for r in gen_items if not r['ok']]
    obligations = [{'name': 'extraction of ' + r['item'], 'kind': 'translator', 'ok': r['ok']} for r in gen_items]
    obligations += pres['obligations']
    proof_ok = pres['ok'] and not gen_bad

    # 3-5. harness rounds: corpus (if any), the main run, and -- when a proof / extraction /
    # correspondence obligation is broken but the oracle is silent -- a deeper search for a failing input
    hres = None
    cres = None
    fails = []
    stats = {}
    harness_err = None
    try:
        binp = harness_binary(cfg['harness'])
    except build.BuildError as e:
        binp = None
        harness_err = 'harness build failed: %s\n%s' % (e, e.log[-1500:])
    replay_payload = None
    if replay:
        replay_payload = json.load(open(replay))

    def one_round(tag, r_tier, r_seed, rops, sub=None, sub_bin=None):
        w = os.path.join(work, tag)
        os.makedirs(w, exist_ok=True)
        if sub is not None:
            scfg = {'driver': sub['driver'], 'harness': sub['harness']}
            h = run_harness(scfg, sub_bin, r_tier, r_seed, w, rops)
        else:
            scfg = cfg
            h = run_harness(cfg, binp, r_tier, r_seed, w, rops)
        err = None
        if h['rc'] != 0:
            err = 'harness exited with %d: %s' % (h['rc'], h['stderr'][-1500:])
        st = {}
        if os.path.exists(os.path.join(h['out'], 'stats.json')):
            try:
                st = json.load(open(os.path.join(h['out'], 'stats.json')))
            except ValueError:
                st = {}
        c = None
        if pres['driver_ok'] and os.path.exists(os.path.join(h['out'], 'ops.txt')):
            c = correspond(scfg, h, w)
        return h, c, oracle_failures(h, prop), st, err

    corpus_round = None
    extra_used = [None]
    if binp:
        rops = None
        if replay_payload is not None:
            rops = replay_payload.get('ops')
            if rops is not None and replay_payload.get('header'):
                rops = [replay_payload['header']] + rops
        if replay_payload is not None and rops is None:
            notes.append('replay file names a broken obligation, no input: re-running the full check')
        # corpus first (minimised past failures and hand-picked seeds)
        cfiles = sorted(glob.glob(os.path.join(VERIF, 'corpus', prop, '*.txt')))
        if cfiles and rops is None:
            lines = []
            for cf in cfiles:
                body = [ln.rstrip('\n') for ln in open(cf) if ln.strip()]
                if body and not body[0].startswith('case '):
                    lines.append('case 0 corpus:' + os.path.basename(cf))
                lines += body
            corpus_round = one_round('corpus', tier, seed, lines)
        main_rops = rops
        if replay_payload is not None and replay_payload.get('extra_harness') is not None:
            main_rops = ['case 0 skipped-main-harness']   # the replay belongs to an extra harness
        hres, cres, fails, stats, harness_err2 = one_round('main', tier, seed, main_rops)
        harness_err = harness_err or harness_err2
        # further harnesses of the same property (e.g. C05 behind the prefetching wrapper = the Wrap harness)
        main_hres = hres
        for xi, ex in enumerate(cfg.get('extra', [])):
            want = replay_payload.get('extra_harness') if replay_payload is not None else None
            if replay_payload is not None and want != xi:
                continue
            try:
                xbin = harness_binary(ex['harness'])
            except build.BuildError as e:
                harness_err = harness_err or 'extra harness build failed: %s\n%s' % (e, e.log[-1500:])
                continue
            xh, xc, xf, xst, xerr = one_round('extra%d' % xi, tier, seed, rops if want == xi else None, ex, xbin)
            stats['cases'] = int(stats.get('cases', 0)) + int(xst.get('cases', 0))
            stats['ops'] = int(stats.get('ops', 0)) + int(xst.get('ops', 0))
            stats['distinct_nontrivial'] = int(stats.get('distinct_nontrivial', 0)) + int(xst.get('distinct_nontrivial', 0))
            stats.setdefault('extra', {})['extra_harness_%s_cases' % ex['harness']['name']] = int(xst.get('cases', 0))
            if xf or xerr or (xc is not None and not xc['ok']):
                if not fails and not harness_err and (cres is None or cres['ok']):
                    hres, cres, fails, harness_err = xh, xc, xf, xerr
                    extra_used[0] = (xi, ex, xbin)
                    notes.append('failure came from the extra harness %s' % ex['harness']['name'])
        if replay_payload is not None and replay_payload.get('extra_harness') is not None:
            pass
        if corpus_round is not None:
            ch, cc, cf_, cst, cerr = corpus_round
            stats['corpus_cases'] = cst.get('cases', 0)
            if cf_ or cerr or (cc is not None and not cc['ok']):
                # a corpus failure takes precedence: report it through the normal path
                hres, cres, fails, harness_err = ch, cc, cf_, cerr
                notes.append('failure came from the corpus run')
        broken = (not proof_ok) or (cres is not None and not cres['ok'])
        if broken and not fails and not harness_err and rops is None and tier == 'quick':
            # search: deeper generators / other seeds, bounded in time
            t_search = time.time()
            for k in (1, 2):
                if time.time() - t_search > 240:
                    break
                try:
                    sh, sc, sf, sst, serr = one_round('search%d' % k, 'thorough' if k == 1 else 'quick', seed + k, None)
                except subprocess.TimeoutExpired:
                    notes.append('search round %d timed out' % k)
                    continue
                notes.append('search round %d: %d cases, %d oracle failures' % (k, sst.get('cases', 0), len(sf)))
                if sf or serr:
                    hres, fails, harness_err = sh, sf, serr
                    if sc is not None and not sc['ok']:
                        cres = sc
                    break

    # 6. verdict
    findings = [f for f in load_findings() if f.get('property') == prop]
    open_classes = {f['class']: f for f in findings if f.get('status') == 'open'}
    new_fails = []
    for f in fails:
        if f['class'] in open_classes:
            known_hit.setdefault(f['class'], 0)
            known_hit[f['class']] += 1
        else:
            new_fails.append(f)
    for cls, n in known_hit.items():
        log('KNOWN-FINDING: property=%s %s (%d inputs of class %s this run)' % (prop, open_classes[cls].get('what', cls), n, cls))
    seen_cases = set()
    for f in new_fails:
        if f['case'] in seen_cases or len(seen_cases) >= 3:
            continue
        seen_cases.add(f['case'])
        co = case_ops(hres, f['case'])
        ops = co['ops']
        if cfg.get('shrink', True) and len(ops) > 1 and binp and extra_used[0] is None:
            def still(cand, _cls=f['class']):
                w2 = os.path.join(work, 'shrink')
                os.makedirs(w2, exist_ok=True)
                h2 = run_harness(cfg, binp, tier, seed, w2, [co['header']] + cand)
                return any(x['class'] == _cls for x in oracle_failures(h2, prop)) or h2['rc'] != 0 and hres['rc'] != 0
            try:
                ops = shrink_ops(cfg, binp, work, prop, co['header'], ops, still)
            except Exception as e:  # shrinking is best effort
                notes.append('shrink failed: %r' % e)
        payload = {'property': prop, 'kind': 'counterexample', 'header': co['header'], 'ops': ops,
                   'violated': f['msg'], 'class': f['class'], 'seed': seed, 'tier': tier,
                   'impl': co['impl'][:50]}
        if extra_used[0] is not None:
            payload['extra_harness'] = extra_used[0][0]
        add_violation(payload)
    if harness_err and hres is not None and hres['rc'] != 0 and not new_fails:
        # a crash / sanitizer abort of the implementation under the harness is a failing input
        last = None
        try:
            cs = read_cases(os.path.join(hres['out'], 'ops.txt'))
            last = cs[-1] if cs else None
        except OSError:
            pass
        add_violation({'property': prop, 'kind': 'counterexample', 'header': last[0] if last else None,
                       'ops': last[1] if last else [], 'violated': ('implementation did not finish under the harness (hang / timeout)' if hres['rc'] == 124
                                    else 'implementation aborted under the harness (sanitizer / crash)'),
                       'stderr': hres['stderr'][-3000:], 'seed': seed, 'tier': tier})
    elif harness_err and not new_fails:
        add_violation({'property': prop, 'kind': 'broken-obligation', 'obligation': 'harness build against /repo',
                       'detail': harness_err}, 'no-failing-input-found')
    if not new_fails and not (harness_err and hres is not None and hres['rc'] != 0):
        if not proof_ok:
            add_violation({'property': prop, 'kind': 'broken-obligation',
                           'obligation': [o['name'] for o in obligations if not o['ok']],
                           'detail': pres['errors'] + ['extraction failed: %s (%s)' % (r['item'], r.get('error')) for r in gen_bad]},
                          'no-failing-input-found')
        elif cres is not None and not cres['ok']:
            d = cres['diverging'][0]
            add_violation({'property': prop, 'kind': 'broken-obligation',
                           'obligation': 'correspondence %s (model vs implementation)' % cfg['driver'],
                           'header': d.get('case'), 'ops': d.get('ops'), 'impl': d.get('impl'), 'model': d.get('model'),
                           'first_diff_op': d.get('first_diff_op'), 'detail': d.get('what')},
                          'no-failing-input-found')
        elif cres is None and binp and not harness_err:
            add_violation({'property': prop, 'kind': 'broken-obligation', 'obligation': 'modeldrv build',
                           'detail': pres['errors']}, 'no-failing-input-found')

    corr_ok = cres is not None and cres['ok']
    obligations.append({'name': 'correspondence %s' % cfg['driver'], 'kind': 'correspondence', 'ok': bool(corr_ok)})
    obligations.append({'name': 'oracle on implementation outputs', 'kind': 'oracle', 'ok': not new_fails and not harness_err})
    wall = time.time() - t0
    ev = {
        'property_id': prop, 'tier': tier, 'seed': seed, 'level': 'proof',
        'coverage': {
            'obligations': len(obligations),
            'discharged': sum(1 for o in obligations if o['ok']),
            'checker_cmd': 'cd lean && lake build %s drv-<Sub> && lake env lean <generated #print axioms file>%s' % (
                ' '.join(cfg['props_modules']), ' && lake env leanchecker <module>' if tier == 'thorough' else ''),
            'trusted_base': cfg.get('trusted_base', []) + [
                'Lean 4.33.0 kernel; axioms allowed in property theorems: propext, Classical.choice, Quot.sound',
                'tools/translate.py + tools/cexpr.py (source -> Lean for the Gen items)',
                'correspondence harness %s + modeldrv %s: agreement only on the cases run' % (cfg['harness']['name'], cfg['driver'])],
            'theorems': [{'name': o['name'], 'axioms': o.get('axioms')} for o in obligations if o['kind'] == 'theorem'],
            'failed_obligations': [o['name'] for o in obligations if not o['ok']],
            'translator_items': len(gen_items),
            'evaluations': int(stats.get('ops', 0)) or 1,
            'cases': int(stats.get('cases', 0)),
            'distinct_nontrivial': int(stats.get('distinct_nontrivial', 0)),
            'rule': cfg.get('rule', ''),
            'samples': stats.get('samples', []) or ['(no cases run)'],
            'histogram': stats.get('histogram', {}),
            'extra': stats.get('extra', {}),
            'traces_validated_against_impl': int(stats.get('cases', 0)) if corr_ok else 0,
            'correspondence_lines_compared': cres['n_lines'] if cres else 0,
            'known_findings_hit': known_hit,
            'partial_theorems': cfg.get('partial', []),
            'notes': notes,
        },
        'assumptions': cfg.get('assumptions', []),
        'wall_s': round(wall, 2),
        'violations': len(violations),
    }
    # evidence/ describes runs against /repo itself; a run against a scratch copy (VERIF_REPO, used to try seeded
    # changes and candidate fixes) leaves it alone and writes under .work/
    evdir = os.path.join(VERIF, 'evidence')
    if os.path.realpath(os.environ.get('VERIF_REPO', '/repo')) != os.path.realpath('/repo'):
        evdir = os.path.join(VERIF, '.work', 'evidence-scratch')
    if not replay:
        os.makedirs(evdir, exist_ok=True)
        with open(os.path.join(evdir, prop + '.json'), 'w') as fh:
            json.dump(ev, fh, indent=1)
    shutil.rmtree(work, ignore_errors=True)
    for path, suffix in violations:
        log(('VIOLATION property=%s replay=%s %s' % (prop, path, suffix)).rstrip())
    log('%s %s tier=%s seed=%s: %d/%d obligations, %d cases, %d ops, corr=%s, oracle failures new=%d known=%d, %.1fs' % (
        'FAIL' if violations else 'OK', prop, tier, seed, ev['coverage']['discharged'], ev['coverage']['obligations'],
        ev['coverage']['cases'], ev['coverage']['evaluations'], 'ok' if corr_ok else 'NO', len(new_fails),
        sum(known_hit.values()), wall))
    return 1 if violations else 0


def setup():
    t0 = time.time()
    ready_file = os.path.join(HERE, 'ready.txt')
    ready = set(open(ready_file).read().split()) if os.path.exists(ready_file) else set(PROPS)
    props = {k: v for k, v in PROPS.items() if k in ready}
    with Lock('lake'):
        translate.run()
        targets = sorted(set(m for c in props.values() for m in c['props_modules']) |
                         set('drv-' + c['driver'] for c in props.values()) |
                         set('drv-' + e['driver'] for c in props.values() for e in c.get('extra', [])))
        rc, out = lake(['build'] + targets)
    if rc != 0:
        log(out[-3000:])
        log('setup: lake build failed')
        return 1
    seen = set()
    all_h = [cfg['harness'] for cfg in props.values()] + [e['harness'] for cfg in props.values() for e in cfg.get('extra', [])]
    for hc in all_h:
        key = (hc['name'], tuple(hc.get('srcs', ())), tuple(hc.get('flags', ())))
        if key in seen:
            continue
        seen.add(key)
        try:
            harness_binary(hc)
        except build.BuildError as e:
            log('setup: %s\n%s' % (e, e.log[-2000:]))
            return 1
    log('setup ok in %.0fs' % (time.time() - t0))
    return 0


def main(argv):
    if '--setup' in argv:
        return setup()
    prop = None
    tier = os.environ.get('VERIF_TIER', 'quick')
    replay = None
    i = 0
    while i < len(argv):
        a = argv[i]
        if a == '--tier':
            tier = argv[i + 1]
            i += 1
        elif a == '--replay':
            replay = argv[i + 1]
            i += 1
        elif a in PROPS:
            prop = a
        i += 1
    if prop is None:
        log('usage: check Cxx [--tier quick|thorough] [--replay FILE] | --setup')
        return 2
    try:
        seed = int(os.environ.get('VERIF_SEED', '1'))
    except ValueError:
        seed = 1
    return run_check(prop, tier, seed, replay)


if __name__ == '__main__':
    sys.exit(main(sys.argv[1:]))
