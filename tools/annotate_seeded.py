#!/usr/bin/env python3
"""fold confirm.json / result.json into meta.json for the given seeded dirs (or all)"""
import json, glob, os, sys
V = os.path.dirname(os.path.dirname(os.path.abspath(__file__)))
dirs = sys.argv[1:] or sorted(glob.glob(os.path.join(V, 'seeded', '*')))
for d in dirs:
    m = json.load(open(d + '/meta.json'))
    c = json.load(open(d + '/confirm.json')) if os.path.exists(d + '/confirm.json') else None
    r = json.load(open(d + '/result.json')) if os.path.exists(d + '/result.json') else None
    m['confirmed_by_integrator'] = {'how': 'tools/confirm_seeded.sh (scratch worktree /tmp/seedconfirm: build + ctest with the change, demo with and without)', 'result': c}
    m['checks_run'] = {'how': 'tools/run_seeded.py (patch applied to a scratch copy via VERIF_REPO, ./check <prop> --tier quick)', 'result': r}
    json.dump(m, open(d + '/meta.json', 'w'), indent=1)
