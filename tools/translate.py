#!/usr/bin/env python3
"""Source -> Lean translator for the arithmetic kernels, constants and predicates the model rests on.

Each item names a file under /repo, a `scope` regex (where to start looking: usually the function
header), an `expr` regex with ONE capture group (the C/C++/Python expression), the parameters (C
identifier -> Lean name, width, is_bool) and the Lean result type.  The expression is parsed by
cexpr.py and printed as a Lean definition with C++ unsigned wrap-around semantics.

Output: /verif/lean/DmlcModel/Gen/<Sub>.lean (rewritten only if the text changed) and a JSON report of
every item (source text, line, ok/error).  An item that cannot be located or parsed is reported as a
failed obligation "extraction of <item>" -- the Gen file then contains no definition for it and the
Lean build of everything downstream fails.
"""
import json
import os
import re
import sys

HERE = os.path.dirname(os.path.abspath(__file__))
sys.path.insert(0, HERE)
import cexpr  # noqa: E402

VERIF = os.path.dirname(HERE)
REPO = os.environ.get('VERIF_REPO', '/repo')
GEN = os.path.join(VERIF, 'lean', 'DmlcModel', 'Gen')


def P(cname, lean=None, w=32, b=False):
    return (cname, (lean or cname, w, b))


# ---------------------------------------------------------------------------------------------
# item tables.  (name, file, scope regex, expr regex, [params], result 'Nat'|'Bool', python?)
# ---------------------------------------------------------------------------------------------
ITEMS = {}

ITEMS['RecordIO'] = [
    ('kMagic', 'include/dmlc/recordio.h', r'class RecordIOWriter', r'static const uint32_t kMagic = ([^;]+);', [], 'Nat'),
    ('encodeLRec', 'include/dmlc/recordio.h', r'uint32_t EncodeLRec\(uint32_t cflag, uint32_t length\)',
     r'return ([^;]+);', [P('cflag'), P('length')], 'Nat'),
    ('decodeFlag', 'include/dmlc/recordio.h', r'uint32_t DecodeFlag\(uint32_t rec\)', r'return ([^;]+);',
     [P('rec', 'r')], 'Nat'),
    ('decodeLength', 'include/dmlc/recordio.h', r'uint32_t DecodeLength\(uint32_t rec\)', r'return ([^;]+);',
     [P('rec', 'r')], 'Nat'),
    ('sizeOk', 'src/recordio.cc', r'void RecordIOWriter::WriteRecord', r'CHECK\((size < [^;]+?)\)\s*<<',
     [P('size', 'size', 64)], 'Bool'),
    ('wLowerAlign', 'src/recordio.cc', r'void RecordIOWriter::WriteRecord', r'uint32_t lower_align = ([^;]+);',
     [P('len')], 'Nat'),
    ('wUpperAlign', 'src/recordio.cc', r'void RecordIOWriter::WriteRecord', r'uint32_t upper_align = ([^;]+);',
     [P('len')], 'Nat'),
    ('wPartFlag', 'src/recordio.cc', r'void RecordIOWriter::WriteRecord',
     r'uint32_t lrec = EncodeLRec\(([^,]+), i - dptr\);', [P('dptr')], 'Nat'),
    ('wPartLen', 'src/recordio.cc', r'void RecordIOWriter::WriteRecord',
     r'uint32_t lrec = EncodeLRec\([^,]+, (i - dptr)\);', [P('i'), P('dptr')], 'Nat'),
    ('wPartHasData', 'src/recordio.cc', r'void RecordIOWriter::WriteRecord',
     r'if \((i != dptr)\) \{\s*stream_->Write\(bhead \+ dptr, i - dptr\);', [P('i'), P('dptr')], 'Bool'),
    ('wNextDptr', 'src/recordio.cc', r'void RecordIOWriter::WriteRecord', r'dptr = (i \+ 4);', [P('i')], 'Nat'),
    ('wLastFlag', 'src/recordio.cc', r'void RecordIOWriter::WriteRecord',
     r'uint32_t lrec = EncodeLRec\(([^,]+), len - dptr\);', [P('dptr')], 'Nat'),
    ('wLastLen', 'src/recordio.cc', r'void RecordIOWriter::WriteRecord',
     r'uint32_t lrec = EncodeLRec\([^,]+, (len - dptr)\);', [P('len'), P('dptr')], 'Nat'),
    ('wPadLen', 'src/recordio.cc', r'void RecordIOWriter::WriteRecord',
     r'stream_->Write\(&zero, (upper_align - len)\);', [P('upper_align', 'ua'), P('len')], 'Nat'),
    ('wPadNeeded', 'src/recordio.cc', r'void RecordIOWriter::WriteRecord',
     r'if \((upper_align != len)\)', [P('upper_align', 'ua'), P('len')], 'Bool'),
    ('rUpperAlign', 'src/recordio.cc', r'bool RecordIOReader::NextRecord', r'uint32_t upper_align = ([^;]+);',
     [P('len')], 'Nat'),
    ('rStops', 'src/recordio.cc', r'bool RecordIOReader::NextRecord', r'if \((cflag == 0U \|\| cflag == 3U)\)',
     [P('cflag')], 'Bool'),
    ('headAccept', 'src/recordio.cc', r'inline char \*FindNextRecordIOHead', r'if \((cflag == [^{]+?)\) \{',
     [P('cflag')], 'Bool'),
    ('headLoopCond', 'src/recordio.cc', r'inline char \*FindNextRecordIOHead', r'for \(; (p \+ 1 < pend); \+\+p\)',
     [P('p', 'p', 64), P('pend', 'pend', 64)], 'Bool'),
    ('crStepRaw', 'src/recordio.cc', r'RecordIOChunkReader::RecordIOChunkReader\(', r'size_t nstep = ([^;]+);',
     [P('chunk.size', 'size', 64), P('num_parts', 'nparts', 32)], 'Nat'),
    ('crStepAlign', 'src/recordio.cc', r'RecordIOChunkReader::RecordIOChunkReader\(', r'\n\s*nstep = ([^;]+);',
     [P('nstep', 'nstep', 64)], 'Nat'),
    ('crBegin', 'src/recordio.cc', r'RecordIOChunkReader::RecordIOChunkReader\(', r'size_t begin = ([^;]+);',
     [P('chunk.size', 'size', 64), P('nstep', 'nstep', 64), P('part_index', 'k', 32)], 'Nat'),
    ('crEnd', 'src/recordio.cc', r'RecordIOChunkReader::RecordIOChunkReader\(', r'size_t end = ([^;]+);',
     [P('chunk.size', 'size', 64), P('nstep', 'nstep', 64), P('part_index', 'k', 32)], 'Nat'),
    ('crAdvance', 'src/recordio.cc', r'bool RecordIOChunkReader::NextRecord',
     r'pbegin_ \+= (2 \* sizeof\(uint32_t\) \+ \(\(\(clen \+ 3U\) >> 2U\) << 2U\));', [P('clen')], 'Nat'),
    ('crDone', 'src/recordio.cc', r'bool RecordIOChunkReader::NextRecord', r'if \((pbegin_ >= pend_)\)',
     [P('pbegin_', 'pb', 64), P('pend_', 'pe', 64)], 'Bool'),
]


def find_item(text, scope, expr):
    m = re.search(scope, text)
    if not m:
        return None, 'scope not found: ' + scope
    m2 = re.compile(expr, re.S).search(text, m.end())
    if not m2:
        return None, 'expression not found after scope: ' + expr
    line = text.count('\n', 0, m2.start(1)) + 1
    return (m2.group(1).strip(), line), None


def gen_subsystem(sub, items, repo=REPO):
    report = []
    out = ['-- GENERATED by tools/translate.py from %s -- do not edit' % '/repo',
           'import DmlcModel.Basic', '', 'namespace DmlcModel.Gen.%s' % sub, '']
    cache = {}
    for it in items:
        name, f, scope, expr, params, rty = it[:6]
        python = len(it) > 6 and it[6]
        path = os.path.join(repo, f)
        rec = {'item': '%s.%s' % (sub, name), 'file': f}
        try:
            if path not in cache:
                cache[path] = open(path, encoding='utf-8', errors='replace').read()
            got, err = find_item(cache[path], scope, expr)
            if err:
                raise cexpr.ParseError(err)
            src, line = got
            rec['source'], rec['line'] = src, line
            env = dict(params)
            # earlier Gen items are visible as constants/functions
            lean, isb = cexpr.to_lean(' '.join(src.split()), env, python)
            if rty == 'Bool' and not isb:
                lean = '(%s != 0)' % lean
            if rty == 'Nat' and isb:
                lean = '(if %s then 1 else 0)' % lean
            args = ' '.join('(%s : %s)' % (v[0], 'Bool' if v[2] else 'Nat') for _, v in params)
            out.append('/-- %s:%d  `%s` -/' % (f, line, ' '.join(src.split()).replace('-/', '- /')))
            out.append('def %s %s: %s := %s' % (name, args + ' ' if args else '', rty, lean))
            out.append('')
            rec['ok'] = True
            rec['lean'] = lean
        except (cexpr.ParseError, OSError) as e:
            rec['ok'] = False
            rec['error'] = str(e)
            out.append('-- EXTRACTION FAILED for %s: %s' % (name, str(e).replace('\n', ' ')))
            out.append('')
        report.append(rec)
    out.append('end DmlcModel.Gen.%s' % sub)
    text = '\n'.join(out) + '\n'
    os.makedirs(GEN, exist_ok=True)
    dst = os.path.join(GEN, sub + '.lean')
    old = open(dst).read() if os.path.exists(dst) else None
    if old != text:
        with open(dst, 'w') as fh:
            fh.write(text)
    return report


def run(subs=None, repo=REPO):
    reports = {}
    for sub, items in ITEMS.items():
        if subs and sub not in subs:
            continue
        reports[sub] = gen_subsystem(sub, items, repo)
    return reports


if __name__ == '__main__':
    subs = sys.argv[1:] or None
    rep = run(subs)
    bad = [r for rs in rep.values() for r in rs if not r['ok']]
    json.dump(rep, sys.stdout, indent=1)
    print()
    sys.exit(1 if bad else 0)
