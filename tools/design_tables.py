#!/usr/bin/env python3
"""rewrites the generated tables of DESIGN.md section 11 (between the BEGIN/END markers)"""
import glob, json, os, re, subprocess, sys
V = os.path.dirname(os.path.dirname(os.path.abspath(__file__)))
status = subprocess.run([sys.executable, os.path.join(V, 'tools', 'summary.py')], capture_output=True, text=True).stdout
rows = ['| id | property | what the change does | what it needs to manifest | suite with change | demo (with / without) | check result |',
        '|---|---|---|---|---|---|---|']
for d in sorted(glob.glob(os.path.join(V, 'seeded', '*'))):
    m = json.load(open(d + '/meta.json'))
    c = (m.get('confirmed_by_integrator') or {}).get('result') or {}
    r = ((m.get('checks_run') or {}).get('result') or {}).get(m['property'], {})
    vio = (r.get('violations') or [''])[0]
    how = 'MISSED' if r.get('exit') != 1 else ('caught: broken obligation, no-failing-input-found' if 'no-failing-input-found' in vio else 'caught: counterexample replay')
    rows.append('| %s | %s | %s | %s | %s | %s / %s | %s |' % (
        os.path.basename(d), m['property'], str(m.get('summary', ''))[:220].replace('|', '/').replace('\n', ' '),
        str(m.get('needs', ''))[:220].replace('|', '/').replace('\n', ' '),
        'passes' if str(c.get('suite_with_change')) == '0' else str(c.get('suite_with_change')),
        'fails' if c.get('demo_with_change_rc') not in (0, None) else str(c.get('demo_with_change_rc')),
        'passes' if c.get('demo_clean_rc') == 0 else str(c.get('demo_clean_rc')), how))
p = os.path.join(V, 'DESIGN.md')
s = open(p).read()
for tag, body in (('STATUS', status), ('SEEDED', '\n'.join(rows) + '\n')):
    s = re.sub(r'(<!-- BEGIN:%s -->\n).*?(<!-- END:%s -->)' % (tag, tag), lambda m: m.group(1) + body + m.group(2), s, flags=re.S)
open(p, 'w').write(s)
print('tables rewritten')
