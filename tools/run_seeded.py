#!/usr/bin/env python3
"""Run the registered checks against seeded property-breaking changes.

usage: run_seeded.py [--in-repo] [seeded/<id> ...]        (default: all of /verif/seeded/*)
Default mode applies each patch to a scratch copy of /repo's sources (VERIF_REPO) so that other work
using /repo is not disturbed; --in-repo applies it to /repo itself (git apply) and undoes it straight
afterwards (git checkout -- .), which is what the final confirmation uses.
Writes seeded/<id>/result.json: {check: exit code, VIOLATION lines}."""
import json, os, shutil, subprocess, sys, tempfile

VERIF = os.path.dirname(os.path.dirname(os.path.abspath(__file__)))


def run(cmd, **kw):
    return subprocess.run(cmd, capture_output=True, text=True, **kw)


def main():
    args = sys.argv[1:]
    in_repo = '--in-repo' in args
    dirs = [a for a in args if not a.startswith('--')]
    if not dirs:
        dirs = sorted(os.path.join(VERIF, 'seeded', d) for d in os.listdir(os.path.join(VERIF, 'seeded')))
    summary = []
    for d in dirs:
        d = os.path.abspath(d)
        meta = json.load(open(os.path.join(d, 'meta.json')))
        prop = meta['property']
        also = meta.get('also_run', [])
        patch = os.path.join(d, 'patch.diff')
        env = dict(os.environ)
        scratch = None
        if in_repo:
            r = run(['git', '-C', '/repo', 'apply', patch])
            if r.returncode != 0:
                print('cannot apply', patch, r.stderr)
                continue
        else:
            scratch = tempfile.mkdtemp(prefix='seeded-', dir='/tmp')
            for sub in ('include', 'src', 'tracker', 'test'):
                shutil.copytree(os.path.join('/repo', sub), os.path.join(scratch, sub))
            r = run(['patch', '-p1', '-s', '-i', patch], cwd=scratch)
            if r.returncode != 0:
                print('cannot apply', patch, r.stdout, r.stderr)
                shutil.rmtree(scratch)
                continue
            env['VERIF_REPO'] = scratch
        res = {}
        try:
            for p in [prop] + also:
                r = run([os.path.join(VERIF, 'check'), p, '--tier', 'quick'], env=env, cwd=VERIF)
                vio = [l for l in r.stdout.split('\n') if l.startswith('VIOLATION')]
                res[p] = {'exit': r.returncode, 'violations': vio[:3], 'tail': r.stdout.strip().split('\n')[-1][:300]}
        finally:
            if in_repo:
                run(['git', '-C', '/repo', 'checkout', '--', '.'])
            else:
                shutil.rmtree(scratch, ignore_errors=True)
        json.dump(res, open(os.path.join(d, 'result.json'), 'w'), indent=1)
        caught = res.get(prop, {}).get('exit') == 1
        summary.append((os.path.basename(d), prop, 'CAUGHT' if caught else 'MISSED', res[prop]['violations'][:1]))
        print(os.path.basename(d), prop, 'CAUGHT' if caught else 'MISSED', res[prop]['violations'][:1], flush=True)
    # restore Gen files / build state for the clean tree
    for p in sorted(set(s[1] for s in summary)):
        run([os.path.join(VERIF, 'check'), p, '--tier', 'quick'], cwd=VERIF)
    return 0


if __name__ == '__main__':
    sys.exit(main())
