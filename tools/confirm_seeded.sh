#!/bin/bash
# confirm a seeded change: suite passes with it, demo fails with it, demo passes without it.
# usage: confirm_seeded.sh <seeded dir> ; uses one scratch worktree /tmp/seedconfirm (incremental build)
set -u
D=$(realpath "$1"); WT=${SEEDCONFIRM_WT:-/tmp/seedconfirm}
if [ ! -d $WT ]; then git -C /repo worktree add -q --detach $WT HEAD || exit 2; fi
cd $WT && git checkout -q -- . && git clean -fdq -e _build && git checkout -q --detach $(git -C /repo rev-parse HEAD)
( cmake -G Ninja -S $WT -B $WT/_build -DGOOGLE_TEST=ON >/dev/null && cmake --build $WT/_build >/dev/null ) || { echo "clean build failed"; exit 2; }
run_demo() { if [ -f $D/build_and_run.sh ]; then ( cd $D && timeout 600 bash ./build_and_run.sh $WT >$WT.demo.log 2>&1 ); else return 99; fi; }
run_demo; clean_rc=$?
git apply $D/patch.diff || { echo "patch does not apply"; exit 2; }
cmake --build $WT/_build >$WT.build.log 2>&1; b=$?
suite="n/a"; if [ $b -eq 0 ]; then ctest --test-dir $WT/_build -j8 --timeout 900 >$WT.ctest.log 2>&1; suite=$?; fi
run_demo; mut_rc=$?
git checkout -q -- .
echo "{\"build_with_change\": $b, \"suite_with_change\": \"$suite\", \"demo_clean_rc\": $clean_rc, \"demo_with_change_rc\": $mut_rc}" | tee $D/confirm.json
