"""Per-property configuration: every tools/props/Cxx.py defines CONFIG (pipeline) and MANIFEST (texts)."""
import importlib.util
import os

HERE = os.path.dirname(os.path.abspath(__file__))
PROPS = {}
MANIFEST_TEXT = {}
NOT_APPLICABLE = []

for _f in sorted(os.listdir(os.path.join(HERE, 'props'))):
    if _f.endswith('.py') and not _f.startswith('_'):
        _spec = importlib.util.spec_from_file_location('prop_' + _f[:-3], os.path.join(HERE, 'props', _f))
        _m = importlib.util.module_from_spec(_spec)
        _spec.loader.exec_module(_m)
        PROPS[_f[:-3]] = _m.CONFIG
        MANIFEST_TEXT[_f[:-3]] = _m.MANIFEST
