#!/usr/bin/env python3
"""regenerate the plain-text lines of known_findings.json ("lines": one `fixed: property=<id> <commit> <what failed>` per
repaired defect, one `open: property=<id> class=<class> <what fails>` per recorded one) from its `findings` entries"""
import json, os
P = os.path.join(os.path.dirname(os.path.dirname(os.path.abspath(__file__))), 'known_findings.json')
k = json.load(open(P))
lines = []
for f in k['findings']:
    what = ' '.join(f['what'].split())
    if f['status'] == 'fixed':
        lines.append('fixed: property=%s %s %s [%s] %s' % (f['property'], f.get('commit', '?'), f['id'], f['class'], what))
    else:
        lines.append('open: property=%s class=%s %s %s' % (f['property'], f['class'], f['id'], what))
k['lines'] = lines
json.dump(k, open(P, 'w'), indent=1)
print(len(lines), 'lines')
