#!/usr/bin/env python3
"""writes MANIFEST.json from the registry (so the two cannot drift)"""
import json, os, sys
HERE = os.path.dirname(os.path.abspath(__file__))
sys.path.insert(0, HERE)
from registry import PROPS, MANIFEST_TEXT, NOT_APPLICABLE
props = [json.loads(l)['id'] for l in open(os.path.join(HERE, '..', 'properties.jsonl'))]
ready = set(open(os.path.join(HERE, 'ready.txt')).read().split())
PROPS = {k: v for k, v in PROPS.items() if k in ready}
checks = []
for pid in props:
    if pid not in PROPS:
        continue
    t = MANIFEST_TEXT[pid]
    checks.append({
        'property_id': pid,
        'quick_cmd': './check %s --tier quick' % pid,
        'thorough_cmd': './check %s --tier thorough' % pid,
        'evidence_file': 'evidence/%s.json' % pid,
        'replay_cmd_template': './check %s --replay {path}' % pid,
        'engine': 'lean-model+correspondence',
        'level_claimed': {'category': 'proof', 'text': t['text'], 'design_ref': t['design_ref']},
        'level_note': t['note'],
        'technique': t['technique'],
    })
na = [x for x in NOT_APPLICABLE if x['property_id'] not in PROPS]
for pid in props:
    if pid not in PROPS and not any(x['property_id'] == pid for x in na):
        na.append({'property_id': pid, 'reason': 'check not built yet (work in progress; see DESIGN.md section 10)'})
m = {
    'version': 1,
    'setup_cmd': './check --setup',
    'hooks': {'guard': 'DMLC_CORE_VERIF', 'enable': 'harness translation units are compiled with -DDMLC_CORE_VERIF=1 (tools/build.py); harnesses of C03-C06, C10-C13 add -DDMLC_CORE_VERIF_BUFFER_WORDS=<n> (hook H1: small chunk buffers)',
              'baseline_off_cmd': 'cd /repo && cmake -G Ninja -B _build >/dev/null && cmake --build _build && ctest --test-dir _build -j8 --timeout 900',
              'source_commits': ['5a2dcd1 verif hook H1: DMLC_CORE_VERIF_BUFFER_WORDS overrides InputSplitBase::kBufferSize (guarded by DMLC_CORE_VERIF)'], 'add_only': True},
    'engines': [
        {'name': 'lean-model', 'path': 'lean/', 'serves_properties': sorted(PROPS), 'kind_free_text': 'Lean 4 model + property theorems (lake project DmlcModel), axiom audit on every run'},
        {'name': 'translate', 'path': 'tools/translate.py', 'serves_properties': sorted(PROPS), 'kind_free_text': 'source -> Lean translator for constants, bit kernels, predicates (Gen/*.lean regenerated every run)'},
        {'name': 'correspondence-harness', 'path': 'harness/', 'serves_properties': sorted(PROPS), 'kind_free_text': 'C++/Python harnesses running the real code; line protocol diffed against lean_exe modeldrv; independent oracle'},
    ],
    'checks': checks,
    'not_applicable': na,
    'notes': 'All checks: ./check Cxx --tier quick|thorough; VERIF_SEED respected; evidence rewritten on every run; known findings in known_findings.json.',
}
json.dump(m, open(os.path.join(HERE, '..', 'MANIFEST.json'), 'w'), indent=1)
print('MANIFEST.json: %d checks, %d not_applicable' % (len(checks), len(na)))
