"""Hash-keyed build of harness binaries against /repo's current working tree."""
import fcntl
import hashlib
import os
import subprocess
import sys

HERE = os.path.dirname(os.path.abspath(__file__))
VERIF = os.path.dirname(HERE)
REPO = os.environ.get('VERIF_REPO', '/repo')
CACHE = os.path.join(VERIF, '.cache')
CXX = os.environ.get('VERIF_CXX', 'g++')
HOOK_DEFINE = '-DDMLC_CORE_VERIF=1'
BASE_FLAGS = ['-std=c++14', '-O1', '-g0', '-pthread', '-I' + os.path.join(REPO, 'include'),
              '-I' + os.path.join(REPO, 'src'), '-I' + os.path.join(VERIF, 'harness'),
              '-DDMLC_LOG_STACK_TRACE=0', '-DDMLC_USE_S3=0', '-DDMLC_USE_HDFS=0', '-DDMLC_USE_AZURE=0',
              HOOK_DEFINE]
SAN = ['-fsanitize=address,undefined', '-fno-sanitize-recover=all', '-fno-omit-frame-pointer']


class BuildError(Exception):
    def __init__(self, msg, log):
        super().__init__(msg)
        self.log = log


def _cxx_version():
    return subprocess.run([CXX, '--version'], capture_output=True, text=True).stdout.split('\n')[0]


def _deps(src, flags):
    p = subprocess.run([CXX] + flags + ['-MM', src], capture_output=True, text=True)
    if p.returncode != 0:
        raise BuildError('dependency scan failed for ' + src, p.stderr[-4000:])
    toks = p.stdout.replace('\\\n', ' ').split()
    return sorted(set(t for t in toks[1:] if os.path.exists(t)))


def _hash_tu(src, flags):
    h = hashlib.sha256()
    h.update(_cxx_version().encode())
    h.update(' '.join(flags).encode())
    for d in _deps(src, flags):
        h.update(d.encode())
        with open(d, 'rb') as fh:
            h.update(fh.read())
    return h.hexdigest()[:24]


def build(name, srcs, extra_flags=(), sanitize=True, libs=()):
    """Compile each src (path relative to /verif, or absolute / under $REPO) to a cached object and
    link. Returns the binary path. Raises BuildError with the compiler log."""
    os.makedirs(CACHE, exist_ok=True)
    flags = BASE_FLAGS + (SAN if sanitize else []) + list(extra_flags)
    objs = []
    procs = []
    for s in srcs:
        src = s.replace('$REPO', REPO)
        if not os.path.isabs(src):
            src = os.path.join(VERIF, src)
        hv = _hash_tu(src, flags)
        obj = os.path.join(CACHE, '%s-%s-%s.o' % (name, os.path.basename(src).replace('.', '_'), hv))
        objs.append(obj)
        if not os.path.exists(obj):
            tmp = obj + '.tmp%d' % os.getpid()
            procs.append((subprocess.Popen([CXX] + flags + ['-c', src, '-o', tmp], stdout=subprocess.PIPE,
                                           stderr=subprocess.STDOUT, text=True), tmp, obj, src))
    for p, tmp, obj, src in procs:
        out, _ = p.communicate()
        if p.returncode != 0:
            raise BuildError('compile failed: ' + src, out[-6000:])
        os.replace(tmp, obj)
    h = hashlib.sha256(' '.join(objs + list(libs) + flags).encode()).hexdigest()[:24]
    binp = os.path.join(CACHE, '%s-%s.bin' % (name, h))
    if not os.path.exists(binp):
        tmp = binp + '.tmp%d' % os.getpid()
        p = subprocess.run([CXX] + flags + objs + ['-o', tmp] + list(libs), capture_output=True, text=True)
        if p.returncode != 0:
            raise BuildError('link failed: ' + name, (p.stdout + p.stderr)[-6000:])
        os.replace(tmp, binp)
    return binp


def prune(keep_days=2):
    """drop cache entries not touched for a while (disk hygiene)"""
    import time
    if not os.path.isdir(CACHE):
        return
    now = time.time()
    for f in os.listdir(CACHE):
        p = os.path.join(CACHE, f)
        try:
            if now - os.path.getatime(p) > keep_days * 86400:
                os.remove(p)
        except OSError:
            pass


if __name__ == '__main__':
    print(build(sys.argv[1], sys.argv[2:]))
