#!/bin/bash
# collect the out/<i> directories of a seed author's worktree into /verif/seeded/<prop>-s<n> (next free n)
# usage: collect_seeds.sh <prop> <worktree>
set -u
P=$1; WT=$2
for d in $WT/out/*/; do
  [ -f $d/patch.diff ] || continue
  n=1; while [ -d /verif/seeded/$P-s$n ]; do n=$((n+1)); done
  mkdir -p /verif/seeded/$P-s$n
  cp -r $d/. /verif/seeded/$P-s$n/
  echo "$P-s$n <- $d"
done
