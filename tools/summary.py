#!/usr/bin/env python3
"""prints a per-property status table (theorems, partials, Gen items, Lean lines, evidence, seeded results)"""
import glob, json, os, re, sys
V = os.path.dirname(os.path.dirname(os.path.abspath(__file__)))
sys.path.insert(0, os.path.join(V, 'tools'))
from registry import PROPS
rows = []
for pid in sorted(PROPS):
    cfg = PROPS[pid]
    thms = 0
    for m in cfg['props_modules']:
        p = os.path.join(V, 'lean', *m.split('.')) + '.lean'
        if os.path.exists(p):
            thms += len(re.findall(r'^theorem\s', open(p).read(), re.M))
    lines = 0
    for sub in cfg['subs']:
        for f in glob.glob(os.path.join(V, 'lean', 'DmlcModel', sub, '*.lean')):
            lines += sum(1 for _ in open(f))
    ev = {}
    ep = os.path.join(V, 'evidence', pid + '.json')
    if os.path.exists(ep):
        ev = json.load(open(ep))
    cov = ev.get('coverage', {})
    seeded = []
    for d in sorted(glob.glob(os.path.join(V, 'seeded', pid + '-*'))):
        r = os.path.join(d, 'result.json')
        if os.path.exists(r):
            x = json.load(open(r)).get(pid, {})
            seeded.append('caught' if x.get('exit') == 1 else 'MISSED')
    rows.append((pid, thms, len(cfg.get('partial', [])), cov.get('translator_items', '?'), lines,
                 '%s/%s' % (cov.get('discharged', '?'), cov.get('obligations', '?')), cov.get('cases', '?'),
                 ev.get('wall_s', '?'), ','.join(seeded)))
print('| prop | theorems | partial | Gen items | Lean lines (subsystems) | obligations | cases (quick) | wall s | seeded |')
print('|---|---|---|---|---|---|---|---|---|')
for r in rows:
    print('| ' + ' | '.join(str(x) for x in r) + ' |')
