#!/bin/bash
# apply one fix diff to /repo as a "fix:" commit and run the baseline suite.  usage: apply_fix.sh <diff> <subject> [body]
set -e
D=$(realpath "$1"); SUBJ="$2"; BODY="${3:-}"
cd /repo
git apply "$D"
git add -A include src tracker
if [ -n "$BODY" ]; then git commit -q -m "fix: $SUBJ" -m "$BODY"; else git commit -q -m "fix: $SUBJ"; fi
cmake --build _build >/tmp/apply_fix.build.log 2>&1 || { echo "BUILD FAILED"; tail -20 /tmp/apply_fix.build.log; exit 1; }
./_build/test/dmlc_unit_tests >/tmp/apply_fix.test.log 2>&1 || { echo "TESTS FAILED"; tail -20 /tmp/apply_fix.test.log; exit 1; }
echo "$(git log --format=%h -1) $(grep -c '^\[       OK' /tmp/apply_fix.test.log) tests ok: fix: $SUBJ"
