"""Gen items for the StrToNum subsystem (include/dmlc/strtonum.h) -> lean/DmlcModel/Gen/StrToNum.lean.

Plain tuple items are used where tools/cexpr.py can parse the C++ expression as it stands (the
character classes).  Everything else goes through the `X(...)` helper below, a custom extractor that
locates the fragment exactly like a tuple item (scope regex, expression regex with one group), rewrites
the pointer reads (`*p`, `*q`, `p[1]`, `p[2]`) to parameter names and then calls the same cexpr
translator.  Floating literals (which cexpr does not parse) become exact `Rat` constants.
"""
import re
from fractions import Fraction

import cexpr
from translate import P

F = 'include/dmlc/strtonum.h'
PF = r'inline FloatType ParseFloat\(const char \*nptr, char \*\*endptr\) \{'
PS = r'inline SignedIntType ParseSignedInt\('
PU = r'inline UnsignedIntType ParseUnsignedInt\('

# pointer reads -> identifiers
SUBST = [(r'\(\*p\)', 'c'), (r'\*p\b', 'c'), (r'\*q\b', 'c'), (r'\bp\[1\]', 'c1'), (r'\bp\[2\]', 'c2'),
         (r'\bUnsignedIntType\b', 'uint64_t')]
# identifiers that are earlier Gen definitions (constants / functions), visible without being parameters
GLOBALS = {'kStrtofMaxDigits': ('kStrtofMaxDigits', 32, False),
           'isdigit()': ('isdigit', 32, True), 'isalpha()': ('isalpha', 32, True), 'isspace()': ('isspace', 32, True)}


def locate(text, scope, expr):
    m = re.search(scope, text)
    if not m:
        raise ValueError('scope not found: ' + scope)
    m2 = re.compile(expr, re.S).search(text, m.end())
    if not m2:
        raise ValueError('expression not found after scope: ' + expr)
    return m2


def X(name, scope, expr, params, rty, template='{0}'):
    """expression item with pointer-read substitution; `template` builds the C expression from the groups"""
    def custom(text):
        m = locate(text, scope, expr)
        src = template.format(*[' '.join(g.split()) for g in m.groups()])
        c = src
        for a, b in SUBST:
            c = re.sub(a, b, c)
        env = dict(GLOBALS)
        env.update(dict(params))
        lean, isb = cexpr.to_lean(c, env)
        if rty == 'Bool' and not isb:
            lean = '(%s != 0)' % lean
        if rty == 'Nat' and isb:
            lean = '(if %s then 1 else 0)' % lean
        args = ' '.join('(%s : %s)' % (v[0], 'Bool' if v[2] else 'Nat') for _, v in params)
        line = text.count('\n', 0, m.start(1)) + 1
        return '-- %s:%d  `%s`\ndef %s %s: %s := %s' % (F, line, src, name, args + ' ' if args else '', rty, lean)
    return {'name': name, 'file': F, 'custom': custom}


def rat_of_literal(lit):
    """exact value of a C floating literal (suffix stripped) as Lean `Rat` source"""
    body = lit.rstrip('fFlL')
    fr = Fraction(body)
    return '((%d : Rat) / %d)' % (fr.numerator, fr.denominator)


def R(name, scope, expr, doc, need_f_suffix=False):
    """floating literal item: group 1 = the literal"""
    def custom(text):
        m = locate(text, scope, expr)
        lit = m.group(1)
        if need_f_suffix and not lit.endswith(('f', 'F')):
            raise ValueError('literal %s is expected to be a float (f-suffixed) literal' % lit)
        line = text.count('\n', 0, m.start(1)) + 1
        return '-- %s:%d  literal `%s` (%s)\ndef %s : Rat := %s' % (F, line, lit, doc, name, rat_of_literal(lit))
    return {'name': name, 'file': F, 'custom': custom}


def bytes_item(name, scope, expr, doc):
    def custom(text):
        m = locate(text, scope, expr)
        s = m.group(1)
        line = text.count('\n', 0, m.start(1)) + 1
        return '-- %s:%d  string literal "%s" (%s)\ndef %s : List Nat := [%s]' % (
            F, line, s, doc, name, ', '.join(str(ord(ch)) for ch in s))
    return {'name': name, 'file': F, 'custom': custom}


def edge_item():
    """the `expon == kMaxExponent` significand test: comparison operators are taken from the source"""
    rx = (r'if \(expon == kMaxExponent\s*&& \(\(!frac && value (>=|>|<=|<) kMaxSignificandForMaxExponent\)\s*'
          r'\|\| \(frac && value (>=|>|<=|<) kMaxSignificandForNegMaxExponent\)\)\)')
    op = {'>': '>', '>=': '≥', '<': '<', '<=': '≤'}

    def custom(text):
        m = locate(text, PF, rx)
        line = text.count('\n', 0, m.start(1)) + 1
        return ('-- %s:%d  `(!frac && value %s kMaxSignificandForMaxExponent) || (frac && value %s '
                'kMaxSignificandForNegMaxExponent)`\n'
                'def edgeOut (frac : Bool) (value kMax kNegMax : Rat) : Bool := '
                '((!frac && decide (value %s kMax)) || (frac && decide (value %s kNegMax)))') % (
                    F, line, m.group(1), m.group(2), op[m.group(1)], op[m.group(2)])
    return {'name': 'edgeOut', 'file': F, 'custom': custom}


def overflow_item():
    """fix C14-1: the scaled result is tested against +infinity in the range-checking variant"""
    rx = r'value = frac \? \(value / scale\) : \(value \* scale\);.*?if \((CheckRange && value == std::numeric_limits<FloatType>::infinity\(\))\)'

    def custom(text):
        m = locate(text, PF, rx)
        line = text.count('\n', 0, m.start(1)) + 1
        return ('-- %s:%d  `%s`: present (the model tests the scaled result for infinity)\n'
                'def scaledResultChecked : Bool := true') % (F, line, m.group(1))
    return {'name': 'scaledResultChecked', 'file': F, 'custom': custom}


def maxexp_item():
    rx = r'constexpr unsigned kMaxExponent = \(std::is_same<FloatType, double>::value \? (\d+)U : (\d+)U\);'

    def custom(text):
        m = locate(text, PF, rx)
        line = text.count('\n', 0, m.start(1)) + 1
        return ('-- %s:%d  kMaxExponent for double / float\ndef kMaxExponentF64 : Nat := %s\n'
                'def kMaxExponentF32 : Nat := %s') % (F, line, m.group(1), m.group(2))
    return {'name': 'kMaxExponent', 'file': F, 'custom': custom}


def sig_item(name, cname):
    rx = (r'constexpr FloatType ' + cname + r' = static_cast<FloatType>\(\s*std::is_same<FloatType, double>::value '
          r'\? ([0-9.eE+-]+) : ([0-9.eE+-]+)\);')

    def custom(text):
        m = locate(text, PF, rx)
        line = text.count('\n', 0, m.start(1)) + 1
        return ('-- %s:%d  %s: double literals, cast to FloatType\ndef %sF64 : Rat := %s\ndef %sF32 : Rat := %s') % (
            F, line, cname, name, rat_of_literal(m.group(1)), name, rat_of_literal(m.group(2)))
    return {'name': name, 'file': F, 'custom': custom}


ITEMS = [
    # character classes (predicates on a byte given as Nat < 256; all compared constants are < 128, so the
    # signedness of `char` does not matter)
    ('isspace', F, r'inline bool isspace\(char c\)', r'return ([^;]+);', [P('c')], 'Bool'),
    ('isblank', F, r'inline bool isblank\(char c\)', r'return ([^;]+);', [P('c')], 'Bool'),
    ('isdigit', F, r'inline bool isdigit\(char c\)', r'return ([^;]+);', [P('c')], 'Bool'),
    ('isalpha', F, r'inline bool isalpha\(char c\)', r'return ([^;]+);', [P('c')], 'Bool'),
    ('isdigitchars', F, r'inline bool isdigitchars\(char c\)', r'return ([^;]+);', [P('c')], 'Bool'),
    ('kStrtofMaxDigits', F, r'namespace dmlc', r'const int kStrtofMaxDigits = ([^;]+);', [], 'Nat'),
    maxexp_item(),
    sig_item('kMaxSig', 'kMaxSignificandForMaxExponent'),
    sig_item('kNegMaxSig', 'kMaxSignificandForNegMaxExponent'),
    # ParseFloat
    X('isMinus', PF, r"if \((\*p == '-')\) \{\s*sign = false;", [P('c')], 'Bool'),
    X('isPlus', PF, r"\} else if \((\*p == '\+')\) \{", [P('c')], 'Bool'),
    X('lowerOf', PF, r'while \(i < 8 && static_cast<char>\((\(\*p\) \| 32)\) == "infinity"\[i\]\)', [P('c')], 'Nat'),
    bytes_item('infLit', PF, r'while \(i < 8 && static_cast<char>\(\(\*p\) \| 32\) == "(\w+)"\[i\]\)', 'matched case-insensitively'),
    X('infMore', PF, r'while \((i < 8) && static_cast<char>\(\(\*p\) \| 32\) == "infinity"', [P('i')], 'Bool'),
    X('infAccept', PF, r'"infinity"\[i\]\) \{.*?\}\s*if \((i >= 3)\) \{', [P('i')], 'Bool'),
    X('infIsShort', PF, r'if \(i >= 3\) \{\s*if \((i < 8)\) \{', [P('i')], 'Bool'),
    X('infBackoff', PF, r'p -= \((i - 3)\);', [P('i')], 'Nat'),
    bytes_item('nanLit', PF, r'while \(i < 3 && static_cast<char>\(\(\*p\) \| 32\) == "(\w+)"\[i\]\)', 'matched case-insensitively'),
    X('nanMore', PF, r'while \((i < 3) && static_cast<char>\(\(\*p\) \| 32\) == "nan"', [P('i')], 'Bool'),
    X('nanAccept', PF, r'"nan"\[i\]\) \{.*?\}\s*if \((i == 3)\) \{', [P('i')], 'Bool'),
    X('isLParen', PF, r"if \((\*p == '\(')\) \{\s*const char \*q = p \+ 1;", [P('c')], 'Bool'),
    X('nanBodyChar', PF, r"while \((isdigit\(\*q\) \|\| isalpha\(\*q\) \|\| \*q == '_')\) \{", [P('c')], 'Bool'),
    X('isRParen', PF, r"if \((\*q == '\)')\) \{\s*p = q \+ 1;", [P('c')], 'Bool'),
    X('predecStep', PF, r'predec = (predec \* 10ULL \+ static_cast<uint64_t>\(\*p - \'0\'\));',
      [P('predec', 'predec', 64), P('c')], 'Nat'),
    X('isDot', PF, r"if \((\*p == '\.') && \(has_digits", [P('c')], 'Bool'),
    X('dotTaken', PF, r"if \(\*p == '\.' && (\(has_digits \|\| isdigit\(p\[1\]\)\))\) \{",
      [P('has_digits', 'hasDigits', 32, True), P('c1')], 'Bool'),
    X('fracDigitTaken', PF, r'if \((digit_cnt < kStrtofMaxDigits)\) \{', [P('digit_cnt', 'digitCnt')], 'Bool'),
    X('val2Step', PF, r'val2 = (val2 \* 10ULL \+ static_cast<uint64_t>\(\*p - \'0\'\));', [P('val2', 'val2', 64), P('c')], 'Nat'),
    X('pow10Step', PF, r'pow10 \*= (10ULL);', [P('pow10', 'pow10', 64)], 'Nat', template='pow10 * {0}'),
    X('isExpMarker', PF, r"if \(\((\(\*p == 'e'\) \|\| \(\*p == 'E'\))\)\s*&& \(isdigit\(p\[1\]\)", [P('c')], 'Bool'),
    X('expLookahead', PF, r"\(\*p == 'E'\)\)\s*&& (\(isdigit\(p\[1\]\) \|\| \(\(p\[1\] == '-' \|\| p\[1\] == '\+'\) && isdigit\(p\[2\]\)\)\))\) \{",
      [P('c1'), P('c2')], 'Bool'),
    R('kScaleInit', PF, r'FloatType scale = static_cast<FloatType>\(([0-9.eE+-]+f)\);', 'float literal', True),
    X('exponStep', PF, r'expon = (expon \* 10U \+ static_cast<unsigned>\(\*p - \'0\'\));', [P('expon'), P('c')], 'Nat'),
    X('exponTooBig', PF, r'if \((expon > kMaxExponent)\) \{', [P('expon'), P('kMaxExponent')], 'Bool'),
    X('exponIsMax', PF, r'if \((expon == kMaxExponent)\s*&& \(\(!frac', [P('expon'), P('kMaxExponent')], 'Bool'),
    edge_item(),
    X('scaleBigMore', PF, r'while \((expon >= 8U)\) \{', [P('expon')], 'Bool'),
    R('kScaleBig', PF, r'while \(expon >= 8U\) \{\s*scale \*= static_cast<FloatType>\(([0-9.eE+-]+f)\);', 'float literal', True),
    X('scaleBigDec', PF, r'while \(expon >= 8U\) \{.*?expon -= (8U);', [P('expon')], 'Nat', template='expon - {0}'),
    X('scaleSmallMore', PF, r'while \((expon > 0U)\) \{', [P('expon')], 'Bool'),
    R('kScaleSmall', PF, r'while \(expon > 0U\) \{\s*scale \*= static_cast<FloatType>\(([0-9.eE+-]+f)\);', 'float literal', True),
    X('scaleSmallDec', PF, r'while \(expon > 0U\) \{.*?expon -= (1U);', [P('expon')], 'Nat', template='expon - {0}'),
    overflow_item(),
    X('isSuffix', PF, r"// Consume 'f' suffix, if any\s*if \((\*p == 'f' \|\| \*p == 'F')\) \{", [P('c')], 'Bool'),
    X('isSuffixRange', PF, r"errno = ERANGE;\s*if \((\*p == 'f' \|\| \*p == 'F')\) \{", [P('c')], 'Bool'),
    # integer parsers
    X('sBaseOk', PS, r'CHECK\((base <= 10 && base >= 2)\);', [P('base')], 'Bool'),
    X('sStep', PS, r'value = (value \* base_val \+ static_cast<uint64_t>\(\*p - \'0\'\));',
      [P('value', 'value', 64), P('base_val', 'base', 64), P('c')], 'Nat'),
    X('sNegate', PS, r'return static_cast<SignedIntType>\(sign \? value : \((0ULL - value)\)\);', [P('value', 'value', 64)], 'Nat'),
    X('uBaseOk', PU, r'CHECK\((base <= 10 && base >= 2)\);', [P('base')], 'Bool'),
    X('uStep', PU, r'value = (value \* base_val \+ static_cast<UnsignedIntType>\(\*p - \'0\'\));',
      [P('value', 'value', 64), P('base_val', 'base', 64), P('c')], 'Nat'),
]
