"""Gen items for the Wrap subsystem (C10): ThreadedInputSplit / CachedInputSplit / URISpec.

Arithmetic items go through cexpr; the structural ones (which thread performs the base split's
ResetPartition, the order of the two statements of ThreadedInputSplit::BeforeFirst, the cache-file
suffix) are read textually by custom extractors, so that an edit of the C++ changes the Lean
definition the model and the theorems are stated over.
"""
import re

from translate import P

TI = 'src/io/threaded_input_split.h'
CI = 'src/io/cached_input_split.h'
IB = 'src/io/input_split_base.h'
US = 'src/io/uri_spec.h'
TH = 'include/dmlc/threadediter.h'


def _body(text, header_re):
    """text of the brace block that follows the first match of header_re"""
    m = re.search(header_re, text)
    if not m:
        raise ValueError('not found: ' + header_re)
    i = text.index('{', m.end() - 1) if text[m.end() - 1] != '{' else m.end() - 1
    depth = 0
    for j in range(i, len(text)):
        if text[j] == '{':
            depth += 1
        elif text[j] == '}':
            depth -= 1
            if depth == 0:
                return text[i + 1:j]
    raise ValueError('unbalanced braces after ' + header_re)


def _strip(s):
    s = re.sub(r'//[^\n]*', '', s)
    return re.sub(r'/\*.*?\*/', '', s, flags=re.S)


def reset_on_caller(text):
    """does ThreadedInputSplit::ResetPartition call base_->ResetPartition itself (caller thread)?"""
    body = _strip(_body(text, r'virtual void ResetPartition\(unsigned part_index, unsigned num_parts\)\s*\{'))
    direct = re.search(r'\bbase_?\s*->\s*ResetPartition\s*\(', body) is not None
    ctor = _strip(_body(text, r'explicit ThreadedInputSplit\([^)]*\)[^{]*\{'))
    in_rewind = re.search(r'->\s*ResetPartition\s*\(', ctor) is not None
    if not direct and not in_rewind:
        raise ValueError('ResetPartition reaches the base split neither directly nor in the rewind callback')
    if 'BeforeFirst' not in body:
        raise ValueError('ResetPartition no longer calls BeforeFirst')
    return ('-- `true`: ThreadedInputSplit::ResetPartition calls `base_->ResetPartition` on the CALLER thread (pinned\n'
            '-- code, defect F5); `false`: the request is handed to the prefetch thread\'s rewind callback\n'
            'def resetOnCaller : Bool := %s\n'
            '-- the rewind callback of the prefetch iterator applies a pending ResetPartition\n'
            'def resetInRewind : Bool := %s' % ('true' if direct else 'false', 'true' if in_rewind else 'false'))


def bf_order(text):
    """ThreadedInputSplit::BeforeFirst: iter_.BeforeFirst() first, then the lent chunk is recycled"""
    body = _strip(_body(text, r'virtual void BeforeFirst\(\)\s*\{'))
    a = body.find('iter_.BeforeFirst()')
    b = body.find('iter_.Recycle(&tmp_chunk_)')
    if a < 0:
        raise ValueError('iter_.BeforeFirst() not found')
    return ('-- ThreadedInputSplit::BeforeFirst hands the lent chunk back (`iter_.Recycle(&tmp_chunk_)`)\n'
            'def bfRecycles : Bool := %s\n'
            '-- ... and does so AFTER `iter_.BeforeFirst()` returned\n'
            'def bfRecycleAfterRewind : Bool := %s' % ('true' if b >= 0 else 'false', 'true' if 0 <= a < b else 'false'))


def cache_header(text):
    """width of the length prefix: `size_t size = ...; fo_->Write(&size, sizeof(size));` and the reader's twin"""
    pre = _strip(_body(text, r'inline void CachedInputSplit::InitPreprocIter\(void\)\s*\{'))
    rd = _strip(_body(text, r'inline bool CachedInputSplit::InitCachedIter\(void\)\s*\{'))
    mw = re.search(r'(\w+)\s+size\s*=\s*p->end\s*-\s*p->begin;\s*fo_->Write\(&size,\s*sizeof\(size\)\);\s*'
                   r'fo_->Write\(p->begin,\s*size\);', pre)
    mr = re.search(r'(\w+)\s+size;\s*size_t nread = fi_->Read\(&size,\s*sizeof\(size\)\);', rd)
    if not mw or not mr:
        raise ValueError('length-prefix statements not found')
    width = {'size_t': 8, 'uint64_t': 8, 'uint32_t': 4}
    return ('-- bytes of the length prefix the first pass writes before every chunk image\n'
            'def cacheLenBytesW : Nat := %d\n'
            '-- bytes of the length prefix the replay reads\n'
            'def cacheLenBytesR : Nat := %d' % (width[mw.group(1)], width[mr.group(1)]))


def dtor_drains(text):
    """does ~CachedInputSplit finish the first pass (pull the rest through the tee) before closing the file?"""
    body = _strip(_body(text, r'virtual ~CachedInputSplit\(void\)\s*\{'))
    cut = body.find('delete iter_preproc_')
    if cut < 0:
        raise ValueError('destructor no longer deletes iter_preproc_')
    head = body[:cut]
    drains = re.search(r'while \(iter_preproc_->Next\(&tmp_chunk_\)\) \{\s*iter_preproc_->Recycle\(&tmp_chunk_\);', head) is not None
    return ('-- ~CachedInputSplit drains the first-pass iterator into the cache file before it closes it\n'
            'def dtorDrains : Bool := %s' % ('true' if drains else 'false'))


def cache_suffix(text):
    """URISpec: `if (num_parts != 1) os << ".split" << num_parts << ".part" << part_index;` -- the two tags, the
    condition and the ORDER of the two numbers; the numbers are streamed as `unsigned` (full decimal rendering)"""
    body = _strip(_body(text, r'explicit URISpec\([^)]*\)\s*\{'))
    m = re.search(r'std::ostringstream os;\s*os << name_cache\[1\];\s*if \((num_parts != 1)\) \{\s*'
                  r'os << "([^"]*)" << num_parts << "([^"]*)" << part_index;\s*\}\s*this->cache_file = os\.str\(\);', body)
    if not m:
        raise ValueError('cache-file suffix statement (ostringstream << tag << num_parts << tag << part_index) not found')
    return ('-- uri_spec.h: `if (num_parts != 1) os << "%s" << num_parts << "%s" << part_index` (decimal, untruncated)\n'
            'def cacheSuffixNeeded (numParts : Nat) : Bool := numParts != 1\n'
            'def cacheSplitTag : String := "%s"\n'
            'def cachePartTag : String := "%s"' % (m.group(2), m.group(3), m.group(2), m.group(3)))


def default_cap(text):
    m = re.search(r'explicit ThreadedIter\(size_t max_capacity = (\d+)\)', text)
    if not m:
        raise ValueError('default max_capacity not found')
    return '-- ThreadedIter default `max_capacity` (used by the cache replay iterator)\ndef cachedCap : Nat := %s' % m.group(1)


ITEMS = [
    # the buffer the cache reader sizes before reading `size` bytes into it (F4: sizeof(size_t) on the pinned tree)
    ('cacheBufWords', CI, r'inline bool CachedInputSplit::InitCachedIter\(void\)', r'p->data\.resize\(([^;]+)\);',
     [P('size', 'size', 64)], 'Nat'),
    ('crEof', CI, r'inline bool CachedInputSplit::InitCachedIter\(void\)', r'if \((nread == 0)\) \{\s*return false;',
     [P('nread', 'nread', 64)], 'Bool'),
    ('cacheRewindPos', CI, r'inline bool CachedInputSplit::InitCachedIter\(void\)', r'fi_->Seek\(([^)]+)\);', [], 'Nat'),
    ('preprocCap', CI, r'inline void CachedInputSplit::InitPreprocIter\(void\)',
     r'iter_preproc_->set_max_capacity\(([^)]+)\);', [], 'Nat'),
    ('threadedCap', TI, r'explicit ThreadedInputSplit\(', r'iter_\.set_max_capacity\(([^)]+)\);', [], 'Nat'),
    # words a freshly allocated prefetch cell starts with (one spare word for the string terminator)
    ('chunkCtorWords', IB, r'struct Chunk \{', r'explicit Chunk\(size_t buffer_size\) : begin\(NULL\), end\(NULL\), data\(([^)]+)\)',
     [P('buffer_size', 'bufWords', 64)], 'Nat'),
    {'name': 'cachedCap', 'file': TH, 'custom': default_cap},
    {'name': 'cacheLenBytes', 'file': CI, 'custom': cache_header},
    {'name': 'resetOnCaller', 'file': TI, 'custom': reset_on_caller},
    {'name': 'bfOrder', 'file': TI, 'custom': bf_order},
    {'name': 'dtorDrains', 'file': CI, 'custom': dtor_drains},
    {'name': 'cacheSuffix', 'file': US, 'custom': cache_suffix},
]
