"""Gen items for the Split subsystem: InputSplitBase / LineSplitter / RecordIOSplitter
(src/io/input_split_base.{h,cc}, line_split.{h,cc}, recordio_split.{h,cc}).  See tools/translate.py."""
import re

import cexpr
from translate import P, find_item

ISB_H = 'src/io/input_split_base.h'
ISB = 'src/io/input_split_base.cc'
LS_H = 'src/io/line_split.h'
LS = 'src/io/line_split.cc'
RS_H = 'src/io/recordio_split.h'
RS = 'src/io/recordio_split.cc'


def deref(name, file, scope, expr, params, rty, subst):
    """like a plain item, but textual substitutions (regex -> replacement) are applied to the captured
    expression first (pointer dereferences `*p`, `p[0]`, … which the expression parser does not know)"""
    def custom(text):
        got, err = find_item(text, scope, expr)
        if err:
            raise cexpr.ParseError(err)
        src, line = got
        s = ' '.join(src.split())
        for pat, rep in subst:
            s = re.sub(pat, rep, s)
        lean, isb = cexpr.to_lean(s, dict(params))
        if rty == 'Bool' and not isb:
            lean = '(%s != 0)' % lean
        args = ' '.join('(%s : %s)' % (v[0], 'Bool' if v[2] else 'Nat') for _, v in params)
        return '-- %s:%d  `%s`\ndef %s %s: %s := %s' % (file, line, ' '.join(src.split()), name, args + ' ' if args else '', rty, lean)
    return {'name': name, 'file': file, 'custom': custom}


RP = r'void InputSplitBase::ResetPartition\('


def clears(name, scope, cond):
    """Bool item: does the early-return block guarded by `cond` drop tmp_chunk_ and overflow_ before `return`?
    (false on the tree without the C05-1 fix: the model then keeps the stale chunk / carry-over, as the code does)"""
    def custom(text):
        m = re.search(scope, text)
        if not m:
            raise cexpr.ParseError('scope not found: ' + scope)
        m2 = re.compile(cond + r'\s*\{(.*?)return;', re.S).search(text, m.end())
        if not m2:
            raise cexpr.ParseError('early-return block not found: ' + cond)
        body = re.sub(r'//[^\n]*', '', m2.group(1))
        stmts = [' '.join(x.split()) for x in body.split(';') if x.strip()]
        want = ['tmp_chunk_.begin = tmp_chunk_.end = NULL', 'overflow_.clear()']
        if stmts == []:
            val = 'false'
        elif sorted(stmts) == sorted(want):
            val = 'true'
        else:
            raise cexpr.ParseError('unexpected statements in the early-return block: %r' % stmts)
        line = text.count('\n', 0, m2.start(1)) + 1
        return '-- %s:%d  early-return block `%s`\ndef %s : Bool := %s' % (ISB, line, '; '.join(stmts), name, val)
    return {'name': name, 'file': ISB, 'custom': custom}
ITEMS = [
    # ---- partition arithmetic of ResetPartition ------------------------------------------------
    ('rpStepRaw', ISB, RP, r'size_t nstep = ([^;]+);', [P('ntotal', 'ntotal', 64), P('nsplit', 'nsplit', 32)], 'Nat'),
    ('rpStepAlign', ISB, RP, r'\n\s*nstep = ([^;]+);', [P('nstep', 'nstep', 64), P('align_bytes_', 'align', 64)], 'Nat'),
    ('rpBegin', ISB, RP, r'offset_begin_ = ([^;]+);',
     [P('nstep', 'nstep', 64), P('rank', 'rank', 32), P('ntotal', 'ntotal', 64)], 'Nat'),
    ('rpEnd', ISB, RP, r'offset_end_ = ([^;]+);',
     [P('nstep', 'nstep', 64), P('rank', 'rank', 32), P('ntotal', 'ntotal', 64)], 'Nat'),
    ('rpEmpty', ISB, RP, r'if \((offset_begin_ == offset_end_)\) \{',
     [P('offset_begin_', 'ob', 64), P('offset_end_', 'oe', 64)], 'Bool'),
    deref('rpSnapEnd', ISB, RP, r'if \((offset_end_ != file_offset_\[file_ptr_end_\])\)',
          [P('offset_end_', 'oe', 64), P('foAt', 'foAt', 64)], 'Bool', [(r'file_offset_\[file_ptr_end_\]', 'foAt')]),
    deref('rpSnapBegin', ISB, RP, r'if \((offset_begin_ != file_offset_\[file_ptr_\])\)',
          [P('offset_begin_', 'ob', 64), P('foAt', 'foAt', 64)], 'Bool', [(r'file_offset_\[file_ptr_\]', 'foAt')]),
    deref('rpSeekEnd', ISB, RP, r'fs_->Seek\((offset_end_ - file_offset_\[file_ptr_end_\])\);',
          [P('offset_end_', 'oe', 64), P('foAt', 'foAt', 64)], 'Nat', [(r'file_offset_\[file_ptr_end_\]', 'foAt')]),
    deref('rpSeekBegin', ISB, RP, r'fs_->Seek\((offset_begin_ - file_offset_\[file_ptr_\])\);',
          [P('offset_begin_', 'ob', 64), P('foAt', 'foAt', 64)], 'Nat', [(r'file_offset_\[file_ptr_\]', 'foAt')]),
    clears('rpEmptyClears', RP, r'if \(offset_begin_ == offset_end_\)'),
    clears('bfEmptyClears', r'void InputSplitBase::BeforeFirst\(void\)', r'if \(offset_begin_ >= offset_end_\)'),
    # ---- BeforeFirst -----------------------------------------------------------------------------
    ('bfEmpty', ISB, r'void InputSplitBase::BeforeFirst\(void\)', r'if \((offset_begin_ >= offset_end_)\) \{',
     [P('offset_begin_', 'ob', 64), P('offset_end_', 'oe', 64)], 'Bool'),
    ('bfReopen', ISB, r'void InputSplitBase::BeforeFirst\(void\)', r'if \((file_ptr_ != fp)\)',
     [P('file_ptr_', 'filePtr', 64), P('fp', 'fp', 64)], 'Bool'),
    # ---- align arguments of the two splitters ---------------------------------------------------
    ('lineAlign', LS_H, r'LineSplitter\(FileSystem \*fs', r'this->Init\(fs, uri, ([^,)]+)\);', [], 'Nat'),
    ('recAlign', RS_H, r'RecordIOSplitter\(FileSystem \*fs', r'this->Init\(fs, uri, ([^,)]+), recurse_directories\);', [], 'Nat'),
    deref('initAligned', ISB, r'void InputSplitBase::Init\(', r'CHECK\((files_\[i\]\.size % align_bytes == 0)\)',
          [P('fsize', 'size', 64), P('align_bytes', 'align', 64)], 'Bool', [(r'files_\[i\]\.size', 'fsize')]),
    # ---- Read ---------------------------------------------------------------------------------------
    ('rdEmpty', ISB, r'size_t InputSplitBase::Read\(', r'if \((offset_begin_ >= offset_end_)\) \{',
     [P('offset_begin_', 'ob', 64), P('offset_end_', 'oe', 64)], 'Bool'),
    ('rdClip', ISB, r'size_t InputSplitBase::Read\(', r'if \((offset_curr_ \+ size > offset_end_)\) \{',
     [P('offset_curr_', 'oc', 64), P('size', 'size', 64), P('offset_end_', 'oe', 64)], 'Bool'),
    ('rdClipped', ISB, r'size_t InputSplitBase::Read\(', r'size = (offset_end_ - offset_curr_);',
     [P('offset_curr_', 'oc', 64), P('offset_end_', 'oe', 64)], 'Nat'),
    deref('rdOffsetBad', ISB, r'size_t InputSplitBase::Read\(', r'if \((offset_curr_ != file_offset_\[file_ptr_ \+ 1\])\) \{',
          [P('offset_curr_', 'oc', 64), P('foNext', 'foNext', 64)], 'Bool', [(r'file_offset_\[file_ptr_ \+ 1\]', 'foNext')]),
    ('rdLastFile', ISB, r'size_t InputSplitBase::Read\(', r'if \((file_ptr_ \+ 1 >= files_\.size\(\))\) \{',
     [P('file_ptr_', 'fp', 64), P('files_.size()', 'nfiles', 64)], 'Bool'),
    ('rdNewline', ISB, r'size_t InputSplitBase::Read\(', r"buf\[0\] = ('\\n');", [], 'Nat'),
    # ---- ReadChunk ------------------------------------------------------------------------------
    ('rcTooSmall', ISB, r'bool InputSplitBase::ReadChunk\(', r'if \((max_size <= overflow_\.length\(\))\) \{',
     [P('max_size', 'maxSize', 64), P('overflow_.length()', 'olen', 64)], 'Bool'),
    ('rcReadSize', ISB, r'bool InputSplitBase::ReadChunk\(', r'this->Read\([^,]+, (max_size - olen)\);',
     [P('max_size', 'maxSize', 64), P('olen', 'olen', 64)], 'Nat'),
    ('rcNoNewData', ISB, r'bool InputSplitBase::ReadChunk\(', r'if \((nread == olen)\) \{',
     [P('nread', 'nread', 64), P('olen', 'olen', 64)], 'Bool'),
    ('rcNewline', ISB, r'bool InputSplitBase::ReadChunk\(', r"bufptr\[nread\] = ('\\n');", [], 'Nat'),
    ('rcShort', ISB, r'bool InputSplitBase::ReadChunk\(', r'if \((nread != max_size)\) \{',
     [P('nread', 'nread', 64), P('max_size', 'maxSize', 64)], 'Bool'),
    # ---- Chunk ------------------------------------------------------------------------------------
    ('chunkInitWords', ISB_H, r'explicit Chunk\(size_t buffer_size\)', r'data\(([^)]+)\)', [P('buffer_size', 'bufWords', 64)], 'Nat'),
    ('loadResize', ISB, r'bool InputSplitBase::Chunk::Load\(', r'data\.resize\(([^;]+)\);', [P('buffer_size', 'bufWords', 64)], 'Nat'),
    ('loadSize', ISB, r'bool InputSplitBase::Chunk::Load\(', r'size_t size = ([^;]+);', [P('data.size()', 'dataWords', 64)], 'Nat'),
    ('loadGrow', ISB, r'bool InputSplitBase::Chunk::Load\(', r'if \(size == 0\) \{\s*data\.resize\(([^;]+)\);',
     [P('data.size()', 'dataWords', 64)], 'Nat'),
    ('hintWords', ISB_H, r'virtual void HintChunkSize\(size_t chunk_size\)', r'buffer_size_ = ([^;]+);',
     [P('chunk_size', 'chunkSize', 64), P('buffer_size_', 'bufWords', 64)], 'Nat'),
    # ---- LineSplitter -----------------------------------------------------------------------------
    ('lsSeekIsEol', LS, r'size_t LineSplitter::SeekRecordBegin\(', r"if \((c == '\\n' \|\| c == '\\r')\) \{", [P('c', 'c', 32)], 'Bool'),
    ('lsSeekNotEol', LS, r'size_t LineSplitter::SeekRecordBegin\(', r"if \((c != '\\n' && c != '\\r')\) \{", [P('c', 'c', 32)], 'Bool'),
    deref('lsLastIsEol', LS, r'const char \*LineSplitter::FindLastRecordBegin\(', r"if \((\*p == '\\n' \|\| \*p == '\\r')\) \{",
          [P('c', 'c', 32)], 'Bool', [(r'\*p\b', 'c')]),
    deref('lsExtIsEol', LS, r'bool LineSplitter::ExtractNextRecord\(', r"if \((\*p == '\\n' \|\| \*p == '\\r')\) \{",
          [P('c', 'c', 32)], 'Bool', [(r'\*p\b', 'c')]),
    deref('lsExtNotEol', LS, r'bool LineSplitter::ExtractNextRecord\(', r"if \((\*p != '\\n' && \*p != '\\r')\) \{",
          [P('c', 'c', 32)], 'Bool', [(r'\*p\b', 'c')]),
    # ---- RecordIOSplitter -------------------------------------------------------------------------
    ('rsSeekAccept', RS, r'size_t RecordIOSplitter::SeekRecordBegin\(', r'if \((cflag == 0 \|\| cflag == 1)\) \{', [P('cflag')], 'Bool'),
    ('rsSeekBack', RS, r'size_t RecordIOSplitter::SeekRecordBegin\(', r'return (nstep - 2 \* sizeof\(uint32_t\));',
     [P('nstep', 'nstep', 64)], 'Nat'),
    ('rsLastAccept', RS, r'const char \*RecordIOSplitter::FindLastRecordBegin\(', r'if \((cflag == 0 \|\| cflag == 1)\) \{', [P('cflag')], 'Bool'),
    ('rsLastMinWords', RS, r'const char \*RecordIOSplitter::FindLastRecordBegin\(', r'CHECK\(p >= pbegin \+ (\d+)\);', [], 'Nat'),
    ('rsLastStart', RS, r'const char \*RecordIOSplitter::FindLastRecordBegin\(', r'for \(p = (p - 2); p != pbegin; --p\)',
     [P('p', 'p', 64)], 'Nat'),
    ('rsExtHeader', RS, r'bool RecordIOSplitter::ExtractNextRecord\(', r'CHECK\(chunk->begin \+ (2 \* sizeof\(uint32_t\)) <= chunk->end\)', [], 'Nat'),
    ('rsExtAdvance', RS, r'bool RecordIOSplitter::ExtractNextRecord\(',
     r'chunk->begin \+= (2 \* sizeof\(uint32_t\) \+ \(\(\(clen \+ 3U\) >> 2U\) << 2U\));', [P('clen')], 'Nat'),
    ('rsExtSingle', RS, r'bool RecordIOSplitter::ExtractNextRecord\(', r'if \((cflag == 0)\) \{\s*return true;', [P('cflag')], 'Bool'),
    ('rsExtFirst', RS, r'bool RecordIOSplitter::ExtractNextRecord\(', r'CHECK\((cflag == 1U)\)', [P('cflag')], 'Bool'),
    ('rsExtMore', RS, r'bool RecordIOSplitter::ExtractNextRecord\(', r'while \((cflag != 3U)\) \{', [P('cflag')], 'Bool'),
]

# ---- Init / InitInputFileInfo / ConvertToURIs / StripEnd (file-list construction) --------------------
CU = r'std::vector<URI> InputSplitBase::ConvertToURIs\('
II = r'void InputSplitBase::InitInputFileInfo\('
ITEMS += [
    ('cuDelim', ISB, CU, r"const char dlm = ('[^']+');", [], 'Nat'),
    ('cuSlash', ISB, CU, r"path\.name\.rfind\(('[^']+')\)", [], 'Nat'),
    ('cuAsIs', ISB, CU, r'if \((pos == std::string::npos \|\| pos \+ 1 == path\.name\.length\(\))\) \{',
     [P('pos', 'pos', 64), P('std::string::npos', 'npos', 64), P('path.name.length()', 'len', 64)], 'Bool'),
    ('cuStripCh', ISB, CU, r"StripEnd\(dfiles\[i\]\.path\.name, ('[^']+')\)", [], 'Nat'),
    deref('cuRxSkip', ISB, CU, r'if \((dfiles\[i\]\.type != kFile \|\| dfiles\[i\]\.size == 0)\) \{',
          [P('notFile', 'notFile', 32, True), P('size', 'size', 64)], 'Bool',
          [(r'dfiles\[i\]\.type != kFile', 'notFile'), (r'dfiles\[i\]\.size', 'size')]),
    deref('seStrip', ISB, r'std::string InputSplitBase::StripEnd\(', r'while \((str\.length\(\) != 0 && str\[str\.length\(\) - 1\] == ch)\) \{',
          [P('len', 'len', 64), P('last', 'last', 32), P('ch', 'ch', 32)], 'Bool',
          [(r'str\[str\.length\(\) - 1\]', 'last'), (r'str\.length\(\)', 'len')]),
    deref('iiKeepListed', ISB, II, r'if \((dfiles\[i\]\.size != 0 && dfiles\[i\]\.type == kFile)\) \{',
          [P('size', 'size', 64), P('isFile', 'isFile', 32, True)], 'Bool',
          [(r'dfiles\[i\]\.type == kFile', 'isFile'), (r'dfiles\[i\]\.size', 'size')]),
    ('iiKeepFile', ISB, II, r'if \((info\.size != 0)\) \{', [P('info.size', 'size', 64)], 'Bool'),
    ('iiNoneCount', ISB, II, r'CHECK_NE\(files_\.size\(\), (0U)\)', [], 'Nat'),
    deref('initOffset', ISB, r'void InputSplitBase::Init\(', r'file_offset_\[i \+ 1\] = (file_offset_\[i\] \+ files_\[i\]\.size);',
          [P('prev', 'prev', 64), P('size', 'size', 64)], 'Nat',
          [(r'file_offset_\[i\]', 'prev'), (r'files_\[i\]\.size', 'size')]),
]

# ---- InputSplitShuffle (include/dmlc/input_split_shuffle.h) ---------------------------------------------------
ISS = 'include/dmlc/input_split_shuffle.h'


def _block(text, start_re):
    m = re.search(start_re, text)
    if not m:
        raise cexpr.ParseError('not found: ' + start_re)
    i = text.index('{', m.end() - 1)
    depth, j = 0, i
    while j < len(text):
        if text[j] == '{':
            depth += 1
        elif text[j] == '}':
            depth -= 1
            if depth == 0:
                return text[i:j + 1]
        j += 1
    raise cexpr.ParseError('unbalanced braces after ' + start_re)


def shuffle_reset(text):
    """InputSplitShuffle::ResetPartition: the index expression it hands to the inner split, and whether it stores
    the new rank in part_index_ (finding C05-F2: without it the later sub-parts are taken from the old part)"""
    body = re.sub(r'//[^\n]*', '', _block(text, r'virtual void ResetPartition\(unsigned rank, unsigned nsplit\) \{'))
    sets = re.search(r'\bpart_index_ = rank;', body) is not None
    m = re.search(r'int idx = shuffle_indexes_\[0\] \+ rank \* num_shuffle_parts_;\s*source_->ResetPartition\(idx, nsplit \* num_shuffle_parts_\);\s*cur_shuffle_idx_ = 0;', body)
    chk = re.search(r'CHECK\(nsplit == num_parts_\)', body) is not None
    if not m or not chk:
        raise cexpr.ParseError('InputSplitShuffle::ResetPartition does not have the modelled shape')
    return ('-- %s InputSplitShuffle::ResetPartition: `idx = shuffle_indexes_[0] + rank * num_shuffle_parts_`, reset of the\n'
            '-- inner split to (idx, nsplit * num_shuffle_parts_), `cur_shuffle_idx_ = 0` found; `part_index_ = rank;` present?\n'
            'def shuffleResetSetsPart : Bool := %s' % (ISS, 'true' if sets else 'false'))


def shuffle_next(text):
    """InputSplitShuffle::NextRecord / NextChunk / BeforeFirst have the modelled shape (expressions compared textually)"""
    ok = True
    for fn, call in (('NextRecord', 'NextRecord(out_rec)'), ('NextChunk', 'NextChunk(out_chunk)')):
        body = ' '.join(re.sub(r'//[^\n]*', '', _block(text, r'virtual bool %s\(Blob \*out_\w+\) \{' % fn)).split())
        want = ('{ if (num_shuffle_parts_ > 1) { if (!source_->%s) { if (cur_shuffle_idx_ == num_shuffle_parts_ - 1) { return false; } '
                '++cur_shuffle_idx_; int idx = shuffle_indexes_[cur_shuffle_idx_] + part_index_ * num_shuffle_parts_; '
                'source_->ResetPartition(idx, num_parts_ * num_shuffle_parts_); return %s; } else { return true; } } else { '
                'return source_->%s; } }' % (call, call, call))
        ok = ok and body == want
    bf = ' '.join(re.sub(r'//[^\n]*', '', _block(text, r'virtual void BeforeFirst\(void\) \{')).split())
    want_bf = ('{ if (num_shuffle_parts_ > 1) { std::shuffle(shuffle_indexes_.begin(), shuffle_indexes_.end(), trnd_); '
               'int idx = shuffle_indexes_[0] + part_index_ * num_shuffle_parts_; '
               'source_->ResetPartition(idx, num_parts_ * num_shuffle_parts_); cur_shuffle_idx_ = 0; } else { source_->BeforeFirst(); } }')
    ok = ok and bf == want_bf
    return ('-- %s InputSplitShuffle::NextRecord / NextChunk / BeforeFirst: statement-for-statement the shape the model mirrors\n'
            'def shuffleShapeOk : Bool := %s' % (ISS, 'true' if ok else 'false'))


ITEMS += [
    {'name': 'shuffleResetSetsPart', 'file': ISS, 'custom': shuffle_reset},
    {'name': 'shuffleShapeOk', 'file': ISS, 'custom': shuffle_next},
]
