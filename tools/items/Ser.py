"""Gen items for the binary serializer (include/dmlc/serializer.h, endian.h).

Regex items: the index arithmetic of `ByteSwap`, the definition of DMLC_IO_NO_ENDIAN_SWAP.
Custom items: the element-count type of the vector/string handlers, and the compile-time conditions of
the `IfThenElse` chains that select a handler (separately for Write and for Read, so that an edit of one
side only is followed by the model and breaks the `W = R` lemmas).
"""
import re
from translate import P

F = 'include/dmlc/serializer.h'
E = 'include/dmlc/endian.h'

WIDTH = {'uint8_t': 1, 'uint16_t': 2, 'uint32_t': 4, 'uint64_t': 8, 'size_t': 8, 'int': 4, 'unsigned': 4,
         'int32_t': 4, 'int64_t': 8}


def _strip(text):
    text = re.sub(r'/\*.*?\*/', ' ', text, flags=re.S)
    return re.sub(r'//[^\n]*', ' ', text)


def _struct_body(text, header):
    """body of the first `struct <header> {...};` (brace matched)"""
    m = re.search(header, text)
    if not m:
        raise ValueError('struct not found: ' + header)
    i = text.index('{', m.end() - 1)
    depth, j = 0, i
    while j < len(text):
        if text[j] == '{':
            depth += 1
        elif text[j] == '}':
            depth -= 1
            if depth == 0:
                return text[i:j + 1]
        j += 1
    raise ValueError('unbalanced braces after ' + header)


def _fn_body(body, which):
    """text of the `Write` / `Read` member of a handler struct"""
    m = re.search(r'inline static (?:void|bool) %s\(' % which, body)
    if not m:
        raise ValueError('member %s not found' % which)
    i = body.index('{', m.end())
    depth, j = 0, i
    while j < len(body):
        if body[j] == '{':
            depth += 1
        elif body[j] == '}':
            depth -= 1
            if depth == 0:
                return body[i:j + 1]
        j += 1
    raise ValueError('unbalanced braces in ' + which)


def count_bytes(text):
    """every count variable `sz` of the vector/string handlers, and the type it is written/read as"""
    text = _strip(text)
    tys = set()
    n = 0
    for h in ('NativePODVectorHandler', 'ComposeVectorHandler', 'NativePODStringHandler'):
        body = _struct_body(text, r'struct %s\s*\{' % h)
        w, r = _fn_body(body, 'Write'), _fn_body(body, 'Read')
        m = re.search(r'(\w+) sz = static_cast<(\w+)>\(vec\.(?:size|length)\(\)\);\s*strm->Write<(\w+)>\(sz\);', w)
        if not m:
            raise ValueError('count write not found in ' + h)
        tys.update(m.groups())
        m = re.search(r'(\w+) sz;\s*if \(!strm->Read<(\w+)>\(&sz\)\)', r)
        if not m:
            raise ValueError('count read not found in ' + h)
        tys.update(m.groups())
        n += 1
    if len(tys) != 1:
        raise ValueError('count types differ: %s' % sorted(tys))
    t = tys.pop()
    if t not in WIDTH:
        raise ValueError('unknown count type ' + t)
    return 'def countBytes : Nat := %d  -- `%s sz` in %d handlers, written and read as `%s`' % (WIDTH[t], t, n, t)


# ---- handler-selection conditions --------------------------------------------------------------
COND_TOK = [
    (r'dmlc::is_arithmetic<T>::value', 'isArith'),
    (r'dmlc::has_saveload<T>::value', 'hasSL'),
    (r'dmlc::is_pod<T>::value', 'podT'),
    (r'dmlc::is_pod<TA>::value', 'podA'),
    (r'dmlc::is_pod<TB>::value', 'podB'),
    (r'DMLC_IO_NO_ENDIAN_SWAP', 'noSwap'),
    (r'sizeof\(std::pair<TA,\s*TB>\)', 'szP'),
    (r'sizeof\(TA\)', 'szA'),
    (r'sizeof\(TB\)', 'szB'),
    (r'sizeof\(T\)', 'szT'),
]


def _cond_to_lean(c):
    s = ' '.join(c.split())
    for pat, rep in COND_TOK:
        s = re.sub(pat, ' ' + rep + ' ', s)
    s = s.replace('!', ' ! ')
    toks = re.findall(r'[A-Za-z_]\w*|\d+|&&|\|\||==|!=|[()!+]', s)
    if ''.join(toks) != re.sub(r'\s+', '', s):
        raise ValueError('unsupported condition text: ' + c)
    allowed = {r for _, r in COND_TOK}
    for t in toks:
        if re.match(r'[A-Za-z_]', t) and t not in allowed:
            raise ValueError('unknown identifier %s in condition %s' % (t, c))
    # numeric comparisons are parenthesised so that Bool && / || bind outside them
    out = ' '.join(toks)
    out = re.sub(r'((?:sz\w|\d+)(?: \+ (?:sz\w|\d+))*) (==|!=) ((?:sz\w|\d+)(?: \+ (?:sz\w|\d+))*)', r'(\1 \2 \3)', out)
    return out


def _split_top(s):
    """split at commas outside <> and ()"""
    parts, depth, cur = [], 0, ''
    i = 0
    while i < len(s):
        ch = s[i]
        if ch in '<(':
            depth += 1
        elif ch in '>)':
            depth -= 1
        if ch == ',' and depth == 0:
            parts.append(cur)
            cur = ''
        else:
            cur += ch
        i += 1
    parts.append(cur)
    return [p.strip() for p in parts]


def _ite_args(s):
    """s = 'IfThenElse < cond, Then, Else, Ret > ...' -> [cond, Then, Else, Ret]"""
    s = s.strip()
    m = re.match(r'IfThenElse\s*<', s)
    if not m:
        raise ValueError('IfThenElse expected at: ' + s[:60])
    depth, j = 1, m.end()
    while j < len(s) and depth:
        if s[j] in '<(':
            depth += 1
        elif s[j] in '>)':
            depth -= 1
        j += 1
    inner = s[m.end():j - 1]
    # `a && b` contain no < >; `sizeof(T) == 1` neither
    return _split_top(inner)


def _chain(s):
    """nested IfThenElse -> [(cond, ThenName), ..., ('else', ElseName)]"""
    out = []
    while True:
        a = _ite_args(s)
        if len(a) != 4:
            raise ValueError('IfThenElse with %d arguments' % len(a))
        out.append((_cond_to_lean(a[0]), re.match(r'\w+', a[1]).group()))
        if a[2].startswith('IfThenElse'):
            s = a[2]
        else:
            out.append(('else', re.match(r'\w+', a[2]).group()))
            return out


def _body_ite(text, header, which):
    body = _fn_body(_struct_body(text, header), which)
    m = re.search(r'IfThenElse\s*<', body)
    if not m:
        raise ValueError('no IfThenElse in %s::%s' % (header, which))
    return body[m.start():]


GENERIC_IDS = {'ArithmeticHandler': 0, 'NativePODHandler': 1, 'SaveLoadClassHandler': 2, 'UndefinedSerializerFor': 3}


def selection(text):
    text = _strip(text)
    out = []
    for which in ('Write', 'Read'):
        sfx = 'W' if which == 'Write' else 'R'
        # generic Handler<T>: 0 arithmetic, 1 native POD, 2 Save/Load class, 3 undefined (does not compile)
        ch = _chain(_body_ite(text, r'template <typename T>\s*struct Handler\s*\{', which))
        e = ''
        for cond, name in ch:
            if name not in GENERIC_IDS:
                raise ValueError('unknown handler ' + name)
            e += ('%d' % GENERIC_IDS[name]) if cond == 'else' else 'if %s then %d else ' % (cond, GENERIC_IDS[name])
        out.append('/-- `Handler<T>::%s`: 0 = ArithmeticHandler, 1 = NativePODHandler, 2 = SaveLoadClassHandler, '
                   '3 = UndefinedSerializerFor -/\ndef generic%s (isArith podT hasSL noSwap : Bool) : Nat := %s' % (which, sfx, e))
        # vector
        ch = _chain(_body_ite(text, r'struct Handler<std::vector<T>>\s*\{', which))
        if [n for _, n in ch] != ['NativePODVectorHandler', 'ComposeVectorHandler']:
            raise ValueError('vector handler chain changed: %s' % ch)
        out.append('/-- `Handler<std::vector<T>>::%s` takes the raw-block path -/\n'
                   'def vecRaw%s (podT noSwap : Bool) : Bool := %s' % (which, sfx, ch[0][0]))
        # string
        ch = _chain(_body_ite(text, r'struct Handler<std::basic_string<T>>\s*\{', which))
        if [n for _, n in ch] != ['NativePODStringHandler', 'UndefinedSerializerFor']:
            raise ValueError('string handler chain changed: %s' % ch)
        out.append('/-- `Handler<std::basic_string<T>>::%s` is defined (raw characters) -/\n'
                   'def strRaw%s (podT noSwap : Bool) (szT : Nat) : Bool := %s' % (which, sfx, ch[0][0]))
        # pair
        ch = _chain(_body_ite(text, r'struct Handler<std::pair<TA, TB>>\s*\{', which))
        if [n for _, n in ch] != ['NativePODHandler', 'PairHandler']:
            raise ValueError('pair handler chain changed: %s' % ch)
        out.append('/-- `Handler<std::pair<TA, TB>>::%s` writes the raw memory of the pair object -/\n'
                   'def pairRaw%s (podA podB noSwap : Bool) (szA szB szP : Nat) : Bool := %s' % (which, sfx, ch[0][0]))
    return 'def selectionExtracted : Bool := true\n\nset_option linter.unusedVariables false\n\n' + '\n\n'.join(out)


def pair_order(text):
    """PairHandler: which member is written / read first (0 = first, 1 = second)"""
    text = _strip(text)
    body = _struct_body(text, r'struct PairHandler\s*\{')
    w, r = _fn_body(body, 'Write'), _fn_body(body, 'Read')
    mw = re.search(r'Handler<(TA|TB)>::Write\(strm, data\.(first|second)\);\s*Handler<(TA|TB)>::Write\(strm, data\.(first|second)\);', w)
    mr = re.search(r'return Handler<(TA|TB)>::Read\(strm, &\(data->(first|second)\)\) && Handler<(TA|TB)>::Read\(strm, &\(data->(first|second)\)\);', r)
    if not mw or not mr:
        raise ValueError('PairHandler body not recognised')
    for m in (mw, mr):
        if {(m.group(1), m.group(2)), (m.group(3), m.group(4))} != {('TA', 'first'), ('TB', 'second')}:
            raise ValueError('PairHandler members/handlers mismatched')
    fw = 0 if mw.group(2) == 'first' else 1
    fr = 0 if mr.group(2) == 'first' else 1
    return ('def pairFirstW : Nat := %d\n\n'
            '/-- member read first by `PairHandler::Read` -/\ndef pairFirstR : Nat := %d' % (fw, fr))


def arith_swap(text):
    """ArithmeticHandler: swap happens iff !DMLC_IO_NO_ENDIAN_SWAP, on both sides, with (sizeof(T), 1)"""
    text = _strip(text)
    body = _struct_body(text, r'struct ArithmeticHandler\s*\{')
    w, r = _fn_body(body, 'Write'), _fn_body(body, 'Read')
    mw = re.search(r'if \((!?)\s*DMLC_IO_NO_ENDIAN_SWAP\) \{\s*strm->Write\(&data, sizeof\(T\)\);\s*\} else \{\s*T copy = data;\s*'
                   r'ByteSwap\(&copy, sizeof\(T\), 1\);\s*strm->Write\(&copy, sizeof\(T\)\);', w)
    mr = re.search(r'bool ret = strm->Read\(\(void \*\)dptr, sizeof\(T\)\) == sizeof\(T\);\s*if \((!?)\s*DMLC_IO_NO_ENDIAN_SWAP\) \{\s*'
                   r'ByteSwap\(dptr, sizeof\(T\), 1\);\s*\}\s*return ret;', r)
    if not mw or not mr:
        raise ValueError('ArithmeticHandler body not recognised')
    sw = 'noSwap' if mw.group(1) == '!' else '!noSwap'   # Write: `if (NOSWAP) plain else swap`
    sr = '!noSwap' if mr.group(1) == '!' else 'noSwap'
    return ('def arithSwapW (noSwap : Bool) : Bool := %s\n\n'
            '/-- `ArithmeticHandler::Read` byte-swaps the value read -/\ndef arithSwapR (noSwap : Bool) : Bool := %s' % (sw, sr))


def byteswap_stores(text):
    """the two stores of the inner ByteSwap loop: bptr[<hi>] = bptr[j]; bptr[j] = v;"""
    text = _strip(text)
    m = re.search(r'uint8_t v = bptr\[([^\]]+)\];\s*bptr\[([^\]]+)\] = bptr\[j\];\s*bptr\[j\] = v;', text)
    if not m:
        raise ValueError('ByteSwap inner loop not recognised')
    if ' '.join(m.group(1).split()) != ' '.join(m.group(2).split()):
        raise ValueError('ByteSwap loads %s but stores %s' % (m.group(1), m.group(2)))
    return 'def swapExchanges : Bool := true  -- inner loop exchanges bptr[j] and bptr[swapIdx eb j]; load and store index agree'


ITEMS = [
    {'name': 'countBytes', 'file': F, 'custom': count_bytes},
    {'name': 'selection', 'file': F, 'custom': selection},
    {'name': 'pairOrder', 'file': F, 'custom': pair_order},
    {'name': 'arithSwap', 'file': F, 'custom': arith_swap},
    ('noSwap', E, r'whether serialize using little endian', r'#define DMLC_IO_NO_ENDIAN_SWAP ([^\n]+)',
     [P('DMLC_LITTLE_ENDIAN', 'hostLE'), P('DMLC_IO_USE_LITTLE_ENDIAN', 'ioLE')], 'Bool'),
    ('swapBase', E, r'inline void ByteSwap\(', r'reinterpret_cast<uint8_t \*>\(data\) \+ ([^;]+);',
     [P('elem_bytes', 'eb', 64), P('i', 'i', 64)], 'Nat'),
    ('swapHalf', E, r'inline void ByteSwap\(', r'for \(size_t j = 0; j < ([^;]+); \+\+j\)',
     [P('elem_bytes', 'eb', 64)], 'Nat'),
    ('swapIdx', E, r'inline void ByteSwap\(', r'uint8_t v = bptr\[([^\]]+)\];',
     [P('elem_bytes', 'eb', 64), P('j', 'j', 64)], 'Nat'),
    {'name': 'swapStores', 'file': E, 'custom': byteswap_stores},
]
