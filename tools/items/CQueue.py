"""Gen items for the CQueue subsystem (C18): wait predicates, notify conditions and flag values of
ConcurrentBlockingQueue (include/dmlc/concurrency.h) and ManualEvent (include/dmlc/thread_group.h)."""
import re

from translate import P

CH = 'include/dmlc/concurrency.h'
TG = 'include/dmlc/thread_group.h'
PUSH = r'void ConcurrentBlockingQueue<T, type>::Push\(E &&e, int priority\) \{'
PUSHF = r'void ConcurrentBlockingQueue<T, type>::PushFront\(E &&e, int priority\) \{'
POP = r'bool ConcurrentBlockingQueue<T, type>::Pop\(T \*rv\) \{'
KILL = r'void ConcurrentBlockingQueue<T, type>::SignalForKill\(\) \{'
ELSE = r'[\s\S]*?\} else \{'          # skip to the priority branch of the same function
NW = [P('nwait_consumer_', 'nwait')]
EMPTY_F = [P('fifo_queue_.empty()', 'empty', b=True), P('exit_now_.load()', 'exit', b=True)]
EMPTY_P = [P('priority_queue_.empty()', 'empty', b=True), P('exit_now_.load()', 'exit', b=True)]
EXIT = [P('exit_now_.load()', 'exit', b=True)]


def body_of(text, header):
    """text of the function whose header matches `header`, up to its closing brace (brace counting)"""
    m = re.search(header, text)
    if not m:
        raise ValueError('function not found: ' + header)
    i = text.index('{', m.end() - 1)
    depth = 0
    for j in range(i, len(text)):
        if text[j] == '{':
            depth += 1
        elif text[j] == '}':
            depth -= 1
            if depth == 0:
                return text[i:j + 1]
    raise ValueError('unbalanced braces after ' + header)


def push_front_place(text):
    """which end of the deque PushFront (FIFO branch) inserts at"""
    b = body_of(text, PUSHF)
    fifo = b.split('} else {')[0]
    front = len(re.findall(r'fifo_queue_\.(?:emplace_front|push_front)\(', fifo))
    back = len(re.findall(r'fifo_queue_\.(?:emplace_back|push_back)\(', fifo))
    if front + back != 1:
        raise ValueError('PushFront: expected exactly one deque insertion in the FIFO branch')
    return 'def pushFrontAtFront : Bool := %s' % ('true' if front else 'false')


def push_back_place(text):
    b = body_of(text, PUSH)
    fifo = b.split('} else {')[0]
    front = len(re.findall(r'fifo_queue_\.(?:emplace_front|push_front)\(', fifo))
    back = len(re.findall(r'fifo_queue_\.(?:emplace_back|push_back)\(', fifo))
    if front + back != 1:
        raise ValueError('Push: expected exactly one deque insertion in the FIFO branch')
    return 'def pushAtBack : Bool := %s' % ('true' if back else 'false')


def pop_takes_front(text):
    b = body_of(text, POP)
    ok = re.search(r'\*rv = std::move\(fifo_queue_\.front\(\)\);\s*fifo_queue_\.pop_front\(\);', b) is not None
    if not ok and not re.search(r'fifo_queue_\.(back|pop_back)\(', b):
        raise ValueError('Pop: cannot find the FIFO removal')
    return 'def popTakesFront : Bool := %s' % ('true' if ok else 'false')


def event_wait_loops(text):
    """does ManualEvent::wait re-check the flag after waking (while loop / wait with predicate)?"""
    b = body_of(text, r'void wait\(\) \{')
    if re.search(r'while \(!signaled_\) \{\s*condition_variable_\.wait\(lock\);', b) or \
       re.search(r'condition_variable_\.wait\(lock, \[this\]\s*\{\s*return signaled_(?:\.load\(\))?;\s*\}\)', b):
        return 'def evWaitLoops : Bool := true'
    if re.search(r'if \(!signaled_\) \{\s*condition_variable_\.wait\(lock\);', b):
        return 'def evWaitLoops : Bool := false'
    raise ValueError('ManualEvent::wait: unrecognised shape')


def event_wait_cond(text):
    """the blocking condition of ManualEvent::wait as a function of the flag"""
    b = body_of(text, r'void wait\(\) \{')
    if re.search(r'(?:if|while) \(!signaled_\) \{\s*condition_variable_\.wait\(lock\);', b):
        return 'def evWaitBlocks (signaled : Bool) : Bool := (!signaled)'
    if re.search(r'condition_variable_\.wait\(lock, \[this\]\s*\{\s*return signaled_(?:\.load\(\))?;\s*\}\)', b):
        return 'def evWaitBlocks (signaled : Bool) : Bool := (!signaled)'
    raise ValueError('ManualEvent::wait: unrecognised condition')


def event_signal_order(text):
    """signal(): the store precedes the lock (the flag is written outside the mutex)"""
    b = body_of(text, r'void signal\(\) \{')
    m = re.search(r'signaled_ = true;\s*std::unique_lock<std::mutex> lk\(mutex_\);\s*condition_variable_\.notify_all\(\);', b)
    if not m:
        raise ValueError('ManualEvent::signal: unrecognised shape')
    return 'def evSignalStoresBeforeLock : Bool := true'


ITEMS = [
    ('pushNotifyFifo', CH, PUSH, r'notify = ([^;]+);', NW, 'Bool'),
    ('pushNotifyPrio', CH, PUSH + ELSE, r'notify = ([^;]+);', NW, 'Bool'),
    ('pushFrontNotifyFifo', CH, PUSHF, r'notify = ([^;]+);', NW, 'Bool'),
    ('pushFrontNotifyPrio', CH, PUSHF + ELSE, r'notify = ([^;]+);', NW, 'Bool'),
    ('pushDoesNotify', CH, PUSH, r'\}\s*if \(([^)]+)\) \{\s*cv_\.notify_one\(\);', [P('notify', 'notify', b=True)], 'Bool'),
    ('pushFrontDoesNotify', CH, PUSHF, r'\}\s*if \(([^)]+)\) \{\s*cv_\.notify_one\(\);', [P('notify', 'notify', b=True)], 'Bool'),
    ('popPredFifo', CH, POP, r'\+\+nwait_consumer_;\s*cv_\.wait\(lock, \[this\] \{ return ([^;]+); \}\);\s*--nwait_consumer_;',
     EMPTY_F, 'Bool'),
    ('popPredPrio', CH, POP + ELSE, r'\+\+nwait_consumer_;\s*cv_\.wait\(lock, \[this\] \{ return ([^;]+); \}\);\s*--nwait_consumer_;',
     EMPTY_P, 'Bool'),
    ('popTakesFifo', CH, POP, r'if \((!exit_now_\.load\(\))\) \{\s*\*rv = std::move\(fifo_queue_\.front\(\)\);', EXIT, 'Bool'),
    ('popTakesPrio', CH, POP + ELSE, r'if \((!exit_now_\.load\(\))\) \{\s*std::pop_heap\(', EXIT, 'Bool'),
    ('killValue', CH, KILL, r'std::lock_guard<std::mutex> lock\{mutex_\};\s*exit_now_\.store\(([^)]+)\);\s*\}\s*cv_\.notify_all\(\);',
     [], 'Bool'),
    ('exitInit', CH, r'ConcurrentBlockingQueue<T, type>::ConcurrentBlockingQueue\(\)', r'exit_now_\{([^}]+)\}', [], 'Bool'),
    ('nwaitInit', CH, r'ConcurrentBlockingQueue<T, type>::ConcurrentBlockingQueue\(\)', r'nwait_consumer_\{([^}]+)\}', [], 'Nat'),
    {'name': 'pushAtBack', 'file': CH, 'custom': push_back_place},
    {'name': 'pushFrontAtFront', 'file': CH, 'custom': push_front_place},
    {'name': 'popTakesFront', 'file': CH, 'custom': pop_takes_front},
    ('evInit', TG, r'class ManualEvent \{', r'ManualEvent\(\) : signaled_\(([^)]+)\) \{\}', [], 'Bool'),
    {'name': 'evWaitBlocks', 'file': TG, 'custom': event_wait_cond},
    {'name': 'evWaitLoops', 'file': TG, 'custom': event_wait_loops},
    ('evSignalValue', TG, r'void signal\(\) \{', r'signaled_ = ([^;]+);', [], 'Bool'),
    {'name': 'evSignalStoresBeforeLock', 'file': TG, 'custom': event_signal_order},
    ('evResetValue', TG, r'void reset\(\) \{', r'std::unique_lock<std::mutex> lk\(mutex_\);\s*signaled_ = ([^;]+);', [], 'Bool'),
]
