"""Gen items for the TIter subsystem (C07 C08 C09): the wait predicates, notify conditions and branch
tests of include/dmlc/threadediter.h.

Every item is anchored on the statement that uses it (the lambda's return expression for the wait
predicates).  Before the expression is handed to cexpr the *accessors* are normalised textually:
`x.load(std::memory_order_acquire)` -> `x`, `q.size()` -> `q.size`, `next(&cell)` -> `next_ret`,
`NULL` -> 0.  Each item has a fixed Lean parameter list, whatever the expression mentions, so that the
hand-written model compiles against an edited expression and simply follows it.
"""
import re

import cexpr

F = 'include/dmlc/threadediter.h'

PRODUCER = r'auto producer_fun = \[this, next, beforefirst\]\(\) \{'
CATCH = r'\} catch \(std::exception &e\) \{'
NEXT = r'inline bool ThreadedIter<DType>::Next\(DType \*\*out_dptr\) \{'
RECYCLE = r'inline void ThreadedIter<DType>::Recycle\(DType \*\*inout_dptr\) \{'
BEFOREFIRST = r'virtual void BeforeFirst\(void\) override \{'
DESTROY = r'inline void ThreadedIter<DType>::Destroy\(void\) \{'

# C identifier -> (lean name, width, is_bool)
ENV = {
    'producer_sig_': ('sig', 32, False),
    'producer_sig_processed_': ('processed', 32, True),
    'produce_end_': ('produceEnd', 32, True),
    'queue_.size': ('qsize', 64, False),
    'free_cells_.size': ('fsize', 64, False),
    'max_capacity_': ('cap', 64, False),
    'nwait_consumer_': ('nwaitC', 32, False),
    'nwait_producer_': ('nwaitP', 32, False),
    'next_ret': ('nextRet', 32, True),
    'cell': ('cell', 64, False),
    'out_data_': ('out', 64, False),
    'NULL': ('0', 64, False),
    'kProduce': ('kProduce', 32, False),
    'kBeforeFirst': ('kBeforeFirst', 32, False),
    'kDestroy': ('kDestroy', 32, False),
}
TY = {'sig': 'Nat', 'processed': 'Bool', 'produceEnd': 'Bool', 'qsize': 'Nat', 'fsize': 'Nat', 'cap': 'Nat',
      'nwaitC': 'Nat', 'nwaitP': 'Nat', 'nextRet': 'Bool', 'cell': 'Nat', 'out': 'Nat'}


def normalise(src):
    s = ' '.join(src.split())
    s = re.sub(r'\.load\(\s*std::memory_order_\w+\s*\)', '', s)
    s = re.sub(r'\.load\(\s*\)', '', s)
    s = re.sub(r'\.size\(\)', '.size', s)
    s = re.sub(r'\bnext\(&cell\)', 'next_ret', s)
    s = re.sub(r'\bthis->', '', s)
    return s


def item(name, scope, expr, params, rty='Bool'):
    """params: Lean parameter names (subset of TY) in the fixed order of the definition"""
    def custom(text):
        m = re.search(scope, text)
        if not m:
            raise cexpr.ParseError('scope not found: ' + scope)
        m2 = re.compile(expr, re.S).search(text, m.end())
        if not m2:
            raise cexpr.ParseError('expression not found after scope: ' + expr)
        src = m2.group(1)
        line = text.count('\n', 0, m2.start(1)) + 1
        lean, isb = cexpr.to_lean(normalise(src), dict(ENV))
        if rty == 'Bool' and not isb:
            lean = '(%s != 0)' % lean
        sig = ' '.join('(%s : %s)' % (p, TY[p]) for p in params)
        used = set(re.findall(r'[A-Za-z_][A-Za-z_0-9]*', lean)) & set(TY)
        missing = used - set(params)
        if missing:
            raise cexpr.ParseError('%s mentions %s which the model does not pass' % (name, sorted(missing)))
        return '-- %s:%d  `%s`\ndef %s %s : %s := %s' % (F, line, ' '.join(src.split()), name, sig, rty, lean)
    return {'name': name, 'file': F, 'custom': custom}


def signals(text):
    m = re.search(r'enum Signal \{([^}]*)\};', text)
    if not m:
        raise cexpr.ParseError('enum Signal not found')
    names = [n.strip() for n in m.group(1).split(',') if n.strip()]
    if sorted(names) != ['kBeforeFirst', 'kDestroy', 'kProduce'] or any('=' in n for n in names):
        raise cexpr.ParseError('enum Signal changed: %r' % names)
    return '\n'.join('def %s : Nat := %d' % (n, i) for i, n in enumerate(names))


def bf_recheck(text):
    """does BeforeFirst look at the recorded exception again once it holds mutex_ (before it posts
    the command and waits)?  -- the repair of finding C09-F1"""
    m = re.search(BEFOREFIRST, text)
    if not m:
        raise cexpr.ParseError('BeforeFirst not found')
    a = re.compile(r'std::unique_lock<std::mutex> lock\(mutex_\);').search(text, m.end())
    b = re.compile(r'if \(out_data_ != NULL\)').search(text, m.end())
    if not a or not b or b.start() < a.end():
        raise cexpr.ParseError('BeforeFirst: lock / out_data_ test not found in the expected order')
    between = re.sub(r'//[^\n]*', '', text[a.end():b.start()]).strip()
    if between == '':
        val = 'false'
    elif re.fullmatch(r'(this->)?ThrowExceptionIfSet\(\);', between):
        val = 'true'
    else:
        raise cexpr.ParseError('BeforeFirst: unexpected statements after the lock: %r' % between[:80])
    return ('-- BeforeFirst re-checks the recorded exception under `mutex_` before posting the command\n'
            'def bfRecheck : Bool := %s' % val)


def catch_dcheck(text):
    """does the producer's catch block still assert `producer_sig_ != kDestroy` before it records the exception?
    (in builds where DCHECK is live this throws out of the thread function when a failure races with Destroy:
    finding C09-F2)"""
    m = re.search(CATCH, text)
    if not m:
        raise cexpr.ParseError('catch block not found')
    e = re.compile(r'std::lock_guard<std::mutex> lock\(mutex_exception_\);').search(text, m.end())
    if not e:
        raise cexpr.ParseError('catch block: lock of mutex_exception_ not found')
    between = re.sub(r'//[^\n]*', '', text[m.end():e.start()])
    val = 'true' if re.search(r'\bD?CHECK(_\w+)?\s*\(', between) else 'false'
    return ('-- the catch block of the producer thread CHECKs / DCHECKs something before recording the exception\n'
            'def catchDcheck : Bool := %s' % val)


INIT = r'inline void ThreadedIter<DType>::Init\(\s*std::function<bool\(DType \*\*\)> next, std::function<void\(\)> beforefirst\) \{'


def init_stores(text):
    """what `Init(next, beforefirst)` assigns before it starts the producer thread: the object must be back in its
    initial state also when Init follows a Destroy (second life of one object)"""
    m = re.search(INIT, text)
    if not m:
        raise cexpr.ParseError('Init(next, beforefirst) not found')
    e = text.find('auto producer_fun', m.end())
    if e < 0:
        raise cexpr.ParseError('Init: producer_fun not found')
    head = re.sub(r'//[^\n]*', '', text[m.end():e])

    def stored(member, kinds):
        hits = re.findall(member + r'\.store\((\w+)(?:, std::memory_order_\w+)?\);', head)
        if len(hits) > 1:
            raise cexpr.ParseError('Init stores %s more than once' % member)
        if not hits:
            return 'none'
        if hits[0] not in kinds:
            raise cexpr.ParseError('Init stores an unexpected value into %s: %s' % (member, hits[0]))
        return 'some ' + hits[0]
    sig = stored('producer_sig_', ('kProduce', 'kBeforeFirst', 'kDestroy'))
    proc = stored('producer_sig_processed_', ('true', 'false'))
    end = stored('produce_end_', ('true', 'false'))
    clr = 'true' if re.search(r'\bClearException\(\);', head) else 'false'
    return ('-- %s Init(next, beforefirst): the assignments in front of the producer thread\n'
            'def initSig : Option Nat := %s\ndef initProcessed : Option Bool := %s\n'
            'def initProduceEnd : Option Bool := %s\ndef initClearsExc : Bool := %s' % (F, sig, proc, end, clr))


ITEMS = [
    {'name': 'signals', 'file': F, 'custom': signals},
    # ---- producer loop -------------------------------------------------------------------------
    item('pWaitIsProduce', PRODUCER, r'producer_cond_\.wait\(lock, \[this\]\(\) \{\s*if \((.+?)\) \{', ['sig']),
    item('pWaitProduce', PRODUCER, r'bool ret = ([^;]+);\s*return ret;', ['produceEnd', 'qsize', 'cap', 'fsize']),
    item('pWaitOther', PRODUCER, r'return ret;\s*\} else \{\s*return ([^;]+);\s*\}\s*\}\);', []),
    item('pTakeIsProduce', PRODUCER, r'--this->nwait_producer_;\s*if \((.+?)\) \{', ['sig']),
    item('pTakeHasFree', PRODUCER, r'if \((free_cells_\.size\(\) != 0)\) \{\s*cell = free_cells_\.front\(\);', ['fsize']),
    item('pTakeIsRewind', PRODUCER, r'\} else if \((.+?)\) \{\s*// reset the producer\s*beforefirst\(\);', ['sig']),
    item('pFlushMore', PRODUCER, r'beforefirst\(\);\s*// cleanup the queue\s*while \((.+?)\) \{\s*free_cells_\.push\(queue_\.front\(\)\);',
         ['qsize']),
    item('pStoreEnd', PRODUCER, r'produce_end_\.store\((!next\(&cell\)), std::memory_order_release\);', ['nextRet']),
    item('pPublishIsItem', PRODUCER,
         r'std::lock_guard<std::mutex> lock\(mutex_\);\s*if \((.+?)\) \{\s*queue_\.push\(cell\);', ['produceEnd']),
    item('pPublishHasCell', PRODUCER, r'\} else \{\s*if \((cell != NULL)\) \{\s*free_cells_\.push\(cell\);', ['cell']),
    item('pPublishNotify', PRODUCER, r'// put things into queue\s*notify = ([^;]+);\s*\}\s*if \(notify\) \{\s*consumer_cond_\.notify_all\(\);',
         ['nwaitC']),
    # ---- producer catch block --------------------------------------------------------------------
    {'name': 'catchDcheck', 'file': F, 'custom': catch_dcheck},
    item('cIsRewind', CATCH, r'std::unique_lock<std::mutex> lock\(mutex_\);\s*if \((.+?)\) \{\s*while \(queue_\.size\(\) != 0\)', ['sig']),
    item('cIsProduce', CATCH, r'\} else if \((.+?)\) \{\s*produce_end_\.store\(true, std::memory_order_release\);\s*next_notify',
         ['sig']),
    item('cNotify', CATCH, r'next_notify = ([^;]+);\s*lock\.unlock\(\);\s*if \(next_notify\) \{\s*consumer_cond_\.notify_all\(\);',
         ['nwaitC']),
    # ---- Next(DType**) ----------------------------------------------------------------------------
    item('nIsDestroyed', NEXT, r'if \((.+?)\) \{\s*return false;\s*\}\s*ThrowExceptionIfSet\(\);', ['sig']),
    item('nSigOk', NEXT, r'std::unique_lock<std::mutex> lock\(mutex_\);\s*CHECK\((.+?)\)\s*<<', ['sig']),
    item('nWaitPred', NEXT, r'\+\+nwait_consumer_;\s*consumer_cond_\.wait\(lock,\s*\[this\]\(\) \{ return ([^;]+); \}\);\s*--nwait_consumer_;',
         ['qsize', 'produceEnd']),
    item('nHasItem', NEXT, r'--nwait_consumer_;\s*if \((.+?)\) \{\s*\*out_dptr = queue_\.front\(\);\s*queue_\.pop\(\);', ['qsize']),
    item('nNotify', NEXT, r'queue_\.pop\(\);\s*bool notify = ([^;]+);\s*lock\.unlock\(\);\s*if \(notify\) \{\s*producer_cond_\.notify_one\(\);',
         ['nwaitP', 'produceEnd']),
    item('nEndCheck', NEXT, r'\} else \{\s*CHECK\((.+?)\);\s*lock\.unlock\(\);', ['produceEnd']),
    # ---- Recycle ------------------------------------------------------------------------------------
    item('rNotify', RECYCLE,
         r'std::lock_guard<std::mutex> lock\(mutex_\);\s*free_cells_\.push\(\*inout_dptr\);\s*\*inout_dptr = NULL;\s*notify = ([^;]+);\s*\}\s*'
         r'if \(notify\) \{\s*producer_cond_\.notify_one\(\);', ['nwaitP', 'produceEnd']),
    # ---- BeforeFirst --------------------------------------------------------------------------------
    {'name': 'bfRecheck', 'file': F, 'custom': bf_recheck},
    item('bHasOut', BEFOREFIRST, r'if \((out_data_ != NULL)\) \{\s*free_cells_\.push\(out_data_\);', ['out']),
    item('bIsDestroyed', BEFOREFIRST, r'if \((producer_sig_[^{]+?)\) \{\s*return;\s*\}\s*producer_sig_\.store\(kBeforeFirst', ['sig']),
    item('bProcCheck', BEFOREFIRST, r'producer_sig_\.store\(kBeforeFirst, std::memory_order_release\);\s*CHECK\((.+?)\);', ['processed']),
    item('bPostNotify', BEFOREFIRST, r'if \((nwait_producer_[^{]+?)\) \{\s*producer_cond_\.notify_one\(\);\s*\}\s*CHECK\(', ['nwaitP']),
    item('bWaitPred', BEFOREFIRST, r'consumer_cond_\.wait\(\s*lock, \[this\]\(\) \{ return ([^;]+); \}\);\s*producer_sig_processed_\.store\(false',
         ['processed']),
    item('bNotify', BEFOREFIRST, r'bool notify = ([^;]+);\s*lock\.unlock\(\);', ['nwaitP', 'produceEnd']),
    # ---- Init (life cycle) ----------------------------------------------------------------------------
    {'name': 'initStores', 'file': F, 'custom': init_stores},
    # ---- Destroy ------------------------------------------------------------------------------------
    item('dNotify', DESTROY, r'producer_sig_\.store\(kDestroy, std::memory_order_release\);\s*if \((.+?)\) \{\s*producer_cond_\.notify_one\(\);',
         ['nwaitP']),
]
