"""Gen items for the Tracker subsystem (tracker/dmlc_tracker/tracker.py: get_neighbor, get_tree,
find_share_ring, get_ring, get_link_map).  Python source: unbounded integers (width 0, no wrap-around).

`parentI` is the one expression whose value can be negative (`(r + 1) // 2 - 1` is -1 for r = 0), so it is
emitted over `Int` by a small custom printer on top of the shared expression parser; everything else is
guarded by the code so that natural-number arithmetic is exact (spec lemmas in Tracker/Lemmas.lean).
"""
import re

from translate import P
import cexpr

F = 'tracker/dmlc_tracker/tracker.py'
NB = r'def get_neighbor\(rank, nslave\):'
RING = r'def get_ring\(self, tree_map, parent_map\):'
LINK = r'def get_link_map\(self, nslave\):'


def V(name, lean=None):
    return P(name, lean or name, 0)


def _int_emit(n, env):
    """Lean source of type Int for a Python integer expression (floor division / modulo as in Python)."""
    k = n.kind
    if k == 'lit':
        return '(%d : Int)' % n.args[0]
    if k == 'var':
        if n.args[0] not in env:
            raise cexpr.ParseError('unknown identifier %s' % n.args[0])
        return '(%s : Int)' % env[n.args[0]]
    if k == 'neg':
        return '(- %s)' % _int_emit(n.args[0], env)
    if k == 'bin' and n.args[0] in ('+', '-', '*'):
        return '(%s %s %s)' % (_int_emit(n.args[1], env), n.args[0], _int_emit(n.args[2], env))
    if k == 'bin' and n.args[0] in ('//', '%'):
        fn = 'Int.fdiv' if n.args[0] == '//' else 'Int.fmod'
        return '(%s %s %s)' % (fn, _int_emit(n.args[1], env), _int_emit(n.args[2], env))
    raise cexpr.ParseError('cannot emit %s over Int' % k)


def int_item(name, scope, expr, params):
    """custom item: `def name (params : Nat) : Int := <expr over Int>`"""
    def f(text):
        m = re.search(scope, text)
        if not m:
            raise cexpr.ParseError('scope not found: ' + scope)
        m2 = re.compile(expr, re.S).search(text, m.end())
        if not m2:
            raise cexpr.ParseError('expression not found after scope: ' + expr)
        src = ' '.join(m2.group(1).split())
        line = text.count('\n', 0, m2.start(1)) + 1
        body = _int_emit(cexpr.parse(src, True), dict(params))
        args = ' '.join('(%s : Nat)' % l for _, l in params)
        return '-- %s:%d  `%s` (Python integers, may be negative)\ndef %s %s: Int := %s' % (
            F, line, src, name, args + ' ' if args else '', body)
    return {'name': name, 'file': F, 'custom': f}


def len_item(name, scope, expr, params):
    """custom item: Bool expression in which `len(cset)` is the parameter `csetLen`"""
    def f(text):
        m = re.search(scope, text)
        if not m:
            raise cexpr.ParseError('scope not found: ' + scope)
        m2 = re.compile(expr, re.S).search(text, m.end())
        if not m2:
            raise cexpr.ParseError('expression not found after scope: ' + expr)
        src = ' '.join(m2.group(1).split())
        line = text.count('\n', 0, m2.start(1)) + 1
        lean, isb = cexpr.to_lean(src.replace('len(cset)', 'csetLen'), dict(params), True)
        if not isb:
            raise cexpr.ParseError('not a boolean expression: ' + src)
        args = ' '.join('(%s : Nat)' % v[0] for _, v in params)
        return '-- %s:%d  `%s`\ndef %s %s : Bool := %s' % (F, line, src, name, args, lean)
    return {'name': name, 'file': F, 'custom': f}


ITEMS = [
    # ---- get_neighbor ------------------------------------------------------------------------
    ('rank1', F, NB, r'\n\s*rank = ([^\n]+)', [V('rank')], 'Nat', True),
    ('hasParent', F, NB, r'if (rank > 1):', [V('rank')], 'Bool', True),
    ('nbParent', F, NB, r'if rank > 1:\s*ret\.append\(([^\n]+)\)\n', [V('rank')], 'Nat', True),
    ('hasLeft', F, NB, r'if (rank \* 2 - 1 < nslave):', [V('rank'), V('nslave', 'n')], 'Bool', True),
    ('nbLeft', F, NB, r'if rank \* 2 - 1 < nslave:\s*ret\.append\(([^\n]+)\)\n', [V('rank')], 'Nat', True),
    ('hasRight', F, NB, r'if (rank \* 2 < nslave):', [V('rank'), V('nslave', 'n')], 'Bool', True),
    ('nbRight', F, NB, r'if rank \* 2 < nslave:\s*ret\.append\(([^\n]+)\)\n', [V('rank')], 'Nat', True),
    # ---- get_tree ----------------------------------------------------------------------------
    int_item('parentI', r'def get_tree\(self, nslave\):', r'parent_map\[r\] = ([^\n]+)', [('r', 'r')]),
    # ---- find_share_ring: "this was the last child" test (len(cset) passed as a number) -------
    len_item('isLast', r'def find_share_ring\(self, tree_map, parent_map, r\):', r'\n\s*if (cnt [^:\n]+):\s*vlst\.reverse\(\)',
             [V('cnt'), V('csetLen')]),
    ('cntStep', F, r'def find_share_ring\(self, tree_map, parent_map, r\):', r'cnt \+= ([^\n]+)', [], 'Nat', True),
    # ---- get_ring ----------------------------------------------------------------------------
    int_item('rootParent', RING, r'assert parent_map\[0\] == ([^\n]+)', []),
    ('ringPrev', F, RING, r'rprev = ([^\n]+)', [V('r'), V('nslave', 'n')], 'Nat', True),
    ('ringNext', F, RING, r'rnext = ([^\n]+)', [V('r'), V('nslave', 'n')], 'Nat', True),
    # ---- get_link_map ------------------------------------------------------------------------
    ('relabelCount', F, LINK, r'for i in range\(([^\n]+)\):', [V('nslave', 'n')], 'Nat', True),
    ('relabelVal', F, LINK, r'rmap\[k\] = ([^\n]+)', [V('i')], 'Nat', True),
    ('relabelStart', F, LINK, r'\n\s*k = (\d+)\n', [], 'Nat', True),
    ('notRoot', F, LINK, r'for k, v in parent_map\.items\(\):\s*if (k != 0):', [V('k')], 'Bool', True),
    int_item('rootParentOut', LINK, r'else:\s*parent_map_\[rmap\[k\]\] = ([^\n]+)', []),
]
