"""Gen items for the Parse subsystem (C11, C12): the text parsers of src/data.

* character classes of include/dmlc/strtonum.h (isspace / isblank / isdigit / isdigitchars) and the
  end-of-line tests of every loop that looks for a line end (text_parser.h, libsvm/libfm/csv parser);
* FillData's thread-slice arithmetic (nstep / sbegin / send / last-thread test);
* the decisions of the three ParseBlock bodies that are plain expressions (return-code tests, offset
  push condition, qid prefix, the blank skipped in front of `qid:`, comment symbol, indexing-mode
  decrement condition, CSV delimiter loop / column routing / end-pointer clamp / "delimiter not found"
  test / strtoll base / BOM bytes, the CHECKs that close a block);
* `fix*` flags: whether the source carries the repairs of findings C11-F1..F4 (guard before converting
  at the end of the range, qid guard, blank CSV cell guard, leading end-of-line bytes skipped before the
  comment test) and of C12-F3 (`fixCsvDelimGuard`: the blank CSV cell guard also stops at the delimiter; `fixCsvBlankGuard`
  is true for the guard in either shape).  The hand-written model takes these flags as a parameter, so it follows the pinned and
  the repaired source alike; the theorems are stated for the repaired source and need every flag `true`.

All char parameters are the unsigned byte value (`c : Nat`, 0..255); none of the extracted tests
compares against a character >= 0x80, so signedness of `char` does not matter.
"""
import re

import cexpr
from translate import P

STN = 'include/dmlc/strtonum.h'
TXT = 'src/data/text_parser.h'
SVM = 'src/data/libsvm_parser.h'
FM = 'src/data/libfm_parser.h'
CSV = 'src/data/csv_parser.h'
ROW = 'src/data/row_block.h'
PARSER = 'src/data/parser.h'
DATACC = 'src/data.cc'

C = P('c', 'c', 32)


def _find(text, scope, expr):
    m = re.search(scope, text)
    if not m:
        raise cexpr.ParseError('scope not found: ' + scope)
    m2 = re.compile(expr, re.S).search(text, m.end())
    if not m2:
        raise cexpr.ParseError('expression not found after scope: ' + expr)
    return m2


def _sig(params):
    return ' '.join('(%s : %s)' % (v[0], 'Bool' if v[2] else 'Nat') for _, v in params)


def rewritten(name, f, scope, expr, subst, params, rty='Bool'):
    """expression item whose source text is first rewritten textually (`*p` -> `c`, ...): the C++
    dereferences / member accesses the tiny expression parser does not know"""
    def custom(text):
        m = _find(text, scope, expr)
        src = ' '.join(m.group(1).split())
        line = text.count('\n', 0, m.start(1)) + 1
        s = src
        for a, b in subst:
            s = s.replace(a, b)
        env = dict(params)
        env['isblank()'] = ('isblank', 32, True)
        env['isspace()'] = ('isspace', 32, True)
        env['isdigitchars()'] = ('isdigitchars', 32, True)
        lean, isb = cexpr.to_lean(s, env)
        if rty == 'Bool' and not isb:
            lean = '(%s != 0)' % lean
        return '-- %s:%d  `%s`\ndef %s %s : %s := %s' % (f, line, src.replace('-/', '- /'), name, _sig(params), rty, lean)
    return {'name': name, 'file': f, 'custom': custom}


def qid_prefix(text):
    m = _find(text, r'void LibSVMParser<IndexType, DType>::ParseBlock', r'strncmp\(p, "([^"]+)", (\d+)\) == 0\)\) \{\s*p \+= (\d+);')
    s, n, adv = m.group(1), int(m.group(2)), int(m.group(3))
    line = text.count('\n', 0, m.start(1)) + 1
    if '\\' in s:
        raise cexpr.ParseError('escape in qid prefix literal')
    return ('-- %s:%d  `strncmp(p, "%s", %d) == 0` then `p += %d`\n'
            'def qidPrefix : List Nat := %s\ndef qidCmpLen : Nat := %d\ndef qidAdvance : Nat := %d'
            % (SVM, line, s, n, adv, [ord(ch) for ch in s], n, adv))


def comment_symbol(text):
    m = _find(text, r'template <char kSymbol = ', r"('(?:\\.|[^'\\])')>\s*std::ptrdiff_t IgnoreCommentAndBlank")
    lean, _ = cexpr.to_lean(m.group(1), {})
    line = text.count('\n', 0, m.start(1)) + 1
    return '-- %s:%d  `template <char kSymbol = %s>`\ndef commentSymbol : Nat := %s' % (SVM, line, m.group(1), lean)


def bom_bytes(text):
    m = re.search(r'static inline void IgnoreUTF8BOM[\s\S]*?\n  \}\n', text)
    if not m:
        raise cexpr.ParseError('IgnoreUTF8BOM not found')
    body = m.group(0)
    lits = re.findall(r"\*\*begin != '\\x([0-9A-Fa-f]{2})' && count == (\d)", body)
    if [int(k) for _, k in lits] != [0, 1, 2]:
        raise cexpr.ParseError('unexpected shape of IgnoreUTF8BOM: %r' % (lits,))
    mm = re.search(r'count < (\d+); count\+\+', body)
    mm2 = re.search(r'if \(count < (\d+)\) \{\s*\*begin -= count;', body)
    if not mm or not mm2 or mm.group(1) != mm2.group(1):
        raise cexpr.ParseError('unexpected loop bound in IgnoreUTF8BOM')
    return ('-- %s  IgnoreUTF8BOM: byte expected at count 0,1,2; all %s must match or nothing is skipped\n'
            'def bomBytes : List Nat := %s\ndef bomLen : Nat := %s'
            % (TXT, mm.group(1), [int(h, 16) for h, _ in lits], mm.group(1)))


def _body_after(text, start_re):
    """text of the brace-balanced block that opens after the first match of start_re"""
    m = re.search(start_re, text)
    if not m:
        raise cexpr.ParseError('not found: ' + start_re)
    i = text.index('{', m.end() - 1) if text[m.end() - 1] != '{' else m.end() - 1
    depth, j = 0, i
    while j < len(text):
        if text[j] == '{':
            depth += 1
        elif text[j] == '}':
            depth -= 1
            if depth == 0:
                return text[i:j + 1]
        j += 1
    raise cexpr.ParseError('unbalanced braces after ' + start_re)


def threaded_next_shape(text):
    """where ThreadedParser::Next gives its cell back: number of `Recycle(` calls in the function, and whether the
    (only) one comes after the inner scan loop has run to its end and before `iter_.Next(` (so that the block just
    handed out still lies in the held cell when Next returns)"""
    cls = text[text.index('class ThreadedParser : public ParserImpl'):]
    body = _body_after(cls, r'virtual bool Next\(void\) \{')
    body = re.sub(r'//[^\n]*', '', body)
    n = body.count('Recycle(')
    inner = re.search(r'while \(data_ptr_ < data_end_\)', body)
    if not inner:
        raise cexpr.ParseError('ThreadedParser::Next: inner scan loop not found')
    inner_body = _body_after(body[inner.start():], r'while \(data_ptr_ < data_end_\) \{')
    inner_end = inner.start() + len('while (data_ptr_ < data_end_) ') + len(inner_body) - 1
    rec = body.find('Recycle(')
    nxt = body.find('iter_.Next(')
    after = rec > inner_end and nxt > rec and 'Recycle(' not in inner_body
    guarded = re.search(r'if \(tmp_ != NULL\) \{\s*iter_\.Recycle\(&tmp_\);\s*\}', body) is not None
    return ('-- %s ThreadedParser::Next: calls to Recycle, and is the only one placed after the scan loop, before iter_.Next,\n'
            '-- under `if (tmp_ != NULL)`\n'
            'def tpRecycleSites : Nat := %d\ndef tpRecycleAfterScan : Bool := %s\ndef tpRecycleGuarded : Bool := %s'
            % (PARSER, n, 'true' if after else 'false', 'true' if guarded else 'false'))


def factory_threads(text):
    """src/data.cc: the thread count the three factories pass to the parser constructors (must agree), and whether the
    libsvm / libfm factories wrap the parser in ThreadedParser while the csv factory returns it bare"""
    ns = re.findall(r'new (LibSVMParser|LibFMParser|CSVParser)<[^>]*>\(source, args, (\d+)\)', text)
    if sorted(k for k, _ in ns) != ['CSVParser', 'LibFMParser', 'LibSVMParser'] or len(set(n for _, n in ns)) != 1:
        raise cexpr.ParseError('data.cc: parser factories not found / disagree on the thread count: %r' % (ns,))
    wrapped = len(re.findall(r'parser = new ThreadedParser<IndexType>\(parser\);', text))
    text_splits = len(re.findall(r'InputSplit::Create\(path\.c_str\(\), part_index, num_parts, "text"\)', text))
    return ('-- %s: `new <Fmt>Parser<..>(source, args, N)` in the three factories; ThreadedParser wrappers; "text" splits\n'
            'def factoryThreads : Nat := %s\ndef factoryThreadedWrappers : Nat := %d\ndef factoryTextSplits : Nat := %d'
            % (DATACC, ns[0][1], wrapped, text_splits))


def flag(name, f, present_re, absent_re, doc):
    """Bool: does the source carry a given repair?  Exactly one of the two shapes must be found."""
    def custom(text):
        a = re.search(present_re, text) is not None
        b = re.search(absent_re, text) is not None
        if a == b:
            raise cexpr.ParseError('%s: cannot classify the source (repaired=%s, pinned=%s)' % (name, a, b))
        return '-- %s: %s\ndef %s : Bool := %s' % (f, doc, name, 'true' if a else 'false')
    return {'name': name, 'file': f, 'custom': custom}


def getblock_check(name, mention, params, doc):
    """a `CHECK(<expr mentioning `mention`>)` inside RowBlockContainer::GetBlock; absent = `true`"""
    def custom(text):
        m = re.search(r'RowBlockContainer<IndexType, DType>::GetBlock\(void\) const \{([\s\S]*?)\n\}', text)
        if not m:
            raise cexpr.ParseError('GetBlock not found')
        body = m.group(1)
        hits = [c for c in re.findall(r'CHECK\(((?:[^()]|\([^()]*\))+)\)', body) if mention in c]
        if not hits:
            return '-- %s GetBlock: no CHECK on %s in the source\ndef %s %s : Bool := true' % (ROW, mention, name, _sig(params))
        if len(hits) > 1:
            raise cexpr.ParseError('more than one CHECK mentions ' + mention)
        src = ' '.join(hits[0].split())
        lean, isb = cexpr.to_lean(src, dict(params))
        if not isb:
            lean = '(%s != 0)' % lean
        return '-- %s GetBlock: %s `CHECK(%s)`\ndef %s %s : Bool := %s' % (ROW, doc, src, name, _sig(params), lean)
    return {'name': name, 'file': ROW, 'custom': custom}


SKIPND = r'p\+\+;\s*while \(p != end && !isdigitchars\(\*p\)\) \{\s*\+\+p;\s*\}\s*'
PAIR = r'inline int ParsePair\((?:(?!inline int ParseTriple)[\s\S])*?'
TRI = r'inline int ParseTriple\([\s\S]*?'
GUARD = r'if \(p == end\) \{[^}]*?\*endptr = end;\s*return %d;\s*\}\s*q = p;'

SVM_PB = r'void LibSVMParser<IndexType, DType>::ParseBlock'
FM_PB = r'void LibFMParser<IndexType, DType>::ParseBlock'
CSV_PB = r'void CSVParser<IndexType, DType>::ParseBlock'

CSV_GUARD_SET = r"\s*\{\s*v = DType\(0\);\s*endptr = const_cast<char \*>\(p\);"
CSV_GUARD_LEND = (r"const char \*cell = p;\s*while \(cell != lend && \(isspace\(\*cell\) \|\| \*cell == '\\v'\)\) \{\s*\+\+cell;\s*\}\s*"
                  r"if \(cell == lend\)" + CSV_GUARD_SET)
CSV_GUARD_DELIM = (r"const char \*cell = p;\s*while \(cell != lend && \*cell != param_\.delimiter\[0\] && "
                   r"\(isspace\(\*cell\) \|\| \*cell == '\\v'\)\) \{\s*\+\+cell;\s*\}\s*"
                   r"if \(cell == lend \|\| \*cell == param_\.delimiter\[0\]\)" + CSV_GUARD_SET)
CSV_NO_GUARD = r'char \*endptr;\s*DType v;\s*// if DType is float32\s*if \(std::is_same<DType, real_t>::value\) \{\s*v = strtof'

SIZE = P('chunk.size', 'size', 64)
NTH = P('nthread', 'nthread', 32)
TID = P('tid', 'tid', 32)
NSTEP = P('nstep', 'nstep', 64)
R = P('r', 'r', 32)
NLABEL = P('out->label.size()', 'nlabel', 64)
NOFFSET = P('out->offset.size()', 'noffset', 64)
NWEIGHT = P('out->weight.size()', 'nweight', 64)
NFIELD = P('out->field.size()', 'nfield', 64)
NINDEX = P('out->index.size()', 'nindex', 64)

ITEMS = [
    # ---- character classes (strtonum.h) -------------------------------------------------------------
    ('isspace', STN, r'inline bool isspace\(char c\)', r'return ([^;]+);', [C], 'Bool'),
    ('isblank', STN, r'inline bool isblank\(char c\)', r'return ([^;]+);', [C], 'Bool'),
    ('isdigit', STN, r'inline bool isdigit\(char c\)', r'return ([^;]+);', [C], 'Bool'),
    ('isdigitchars', STN, r'inline bool isdigitchars\(char c\)', r'return ([^;]+);', [C], 'Bool'),
    # ---- end-of-line tests --------------------------------------------------------------------------
    rewritten('backIsEol', TXT, r'static inline const char \*BackFindEndLine', r'if \((\*bptr == [^{]+?)\) \{',
              [('*bptr', 'c')], [C]),
    rewritten('svmNotEol', SVM, SVM_PB, r'while \(lend != end && (\*lend != [^{]+?)\) \{', [('*lend', 'c')], [C]),
    rewritten('fmNotEol', FM, FM_PB, r'while \(lend != end && (\*lend != [^{]+?)\) \{', [('*lend', 'c')], [C]),
    rewritten('csvNotEol', CSV, CSV_PB, r'while \(lend != end && (\*lend != [^{]+?)\) \{', [('*lend', 'c')], [C]),
    rewritten('csvLeadIsEol', CSV, CSV_PB, r'while \(\(lbegin != end\) && \((\*lbegin == [^{]+?)\)\) \{',
              [('*lbegin', 'c')], [C]),
    rewritten('csvTrailIsEol', CSV, CSV_PB, r'while \(\((\*lend == [^{]+?)\) && lend != end\) \{', [('*lend', 'c')], [C]),
    # ---- FillData slices ----------------------------------------------------------------------------
    rewritten('fillNonEmpty', TXT, r'TextParserBase<IndexType, DType>::FillData\(', r'CHECK_NE\((chunk\.size, 0U)\);',
              [('chunk.size, 0U', 'chunk.size != 0U')], [SIZE]),
    ('nstep', TXT, r'TextParserBase<IndexType, DType>::FillData\(', r'size_t nstep = ([^;]+);', [SIZE, NTH], 'Nat'),
    ('sbegin', TXT, r'TextParserBase<IndexType, DType>::FillData\(', r'size_t sbegin = ([^;]+);', [TID, NSTEP, SIZE], 'Nat'),
    ('send', TXT, r'TextParserBase<IndexType, DType>::FillData\(', r'size_t send = ([^;]+);', [TID, NSTEP, SIZE], 'Nat'),
    ('lastThread', TXT, r'TextParserBase<IndexType, DType>::FillData\(', r'if \((tid \+ 1 == nthread)\)', [TID, NTH], 'Bool'),
    # ---- IgnoreCommentAndBlank ----------------------------------------------------------------------
    {'name': 'commentSymbol', 'file': SVM, 'custom': comment_symbol},
    rewritten('icbIsComment', SVM, r'std::ptrdiff_t IgnoreCommentAndBlank', r'if \((\*p == kSymbol)\)',
              [('*p', 'c'), ('kSymbol', 'sym')], [C, P('sym', 'sym', 32)]),
    rewritten('icbStops', SVM, r'std::ptrdiff_t IgnoreCommentAndBlank', r'if \((!isblank\(\*p\))\)', [('*p', 'c')], [C]),
    # ---- libsvm ParseBlock --------------------------------------------------------------------------
    ('svmEmptyLine', SVM, SVM_PB, r'if \((r < 1)\) \{\s*// empty line', [R], 'Bool'),
    ('svmHasWeight', SVM, SVM_PB, r'if \((r == 2)\) \{\s*// has weight', [R], 'Bool'),
    ('svmPushOffset', SVM, SVM_PB, r'if \((out->label\.size\(\) != 0)\) \{\s*out->offset\.push_back', [NLABEL], 'Bool'),
    rewritten('svmQidSkips', SVM, SVM_PB, r'p = q;\s*while \(p != end && ([^{]+?)\) \{\s*\+\+p;', [('*p', 'c')], [C]),
    {'name': 'qidPrefix', 'file': SVM, 'custom': qid_prefix},
    rewritten('svmQidDigit', SVM, SVM_PB, r'while \(p != lend && (isdigitchars\(\*p\))\) \{\s*\+\+p;\s*\}\s*out->qid',
              [('*p', 'c')], [C]),
    ('svmNoFeature', SVM, SVM_PB, r'ParsePair<IndexType, real_t>\([^;]+;\s*if \((r < 1)\)', [R], 'Bool'),
    ('svmHasValue', SVM, SVM_PB, r'if \((r == 2)\) \{\s*// has value', [R], 'Bool'),
    ('svmEndCheck', SVM, SVM_PB, r'CHECK\((out->label\.size\(\) \+ 1 == out->offset\.size\(\))\);', [NLABEL, NOFFSET], 'Bool'),
    rewritten('svmDecrement', SVM, SVM_PB, r'if \((param_\.indexing_mode > 0[^{]+?)\) \{\s*// convert from 1-based',
              [('param_.indexing_mode', 'mode'), ('!out->index.empty()', 'nonEmpty'), ('min_feat_id', 'minFeat')],
              [P('mode', 'mode', 32), P('nonEmpty', 'nonEmpty', 32, True), P('minFeat', 'minFeat', 64)]),
    # ---- libfm ParseBlock ---------------------------------------------------------------------------
    ('fmEmptyLine', FM, FM_PB, r'if \((r < 1)\) \{\s*// empty line', [R], 'Bool'),
    ('fmHasWeight', FM, FM_PB, r'if \((r == 2)\) \{\s*// has weight', [R], 'Bool'),
    ('fmPushOffset', FM, FM_PB, r'if \((out->label\.size\(\) != 0)\) \{\s*out->offset\.push_back', [NLABEL], 'Bool'),
    ('fmNoFeature', FM, FM_PB, r'ParseTriple<IndexType, IndexType, real_t>\([^;]+;\s*if \((r <= 1)\)', [R], 'Bool'),
    ('fmHasValue', FM, FM_PB, r'if \((r == 3)\) \{\s*// has value', [R], 'Bool'),
    ('fmFieldCheck', FM, FM_PB, r'CHECK\((out->field\.size\(\) == out->index\.size\(\))\);', [NFIELD, NINDEX], 'Bool'),
    ('fmEndCheck', FM, FM_PB, r'CHECK\((out->label\.size\(\) \+ 1 == out->offset\.size\(\))\);', [NLABEL, NOFFSET], 'Bool'),
    rewritten('fmDecrement', FM, FM_PB, r'if \((param_\.indexing_mode > 0[^{]+?)\) \{\s*// convert from 1-based',
              [('param_.indexing_mode', 'mode'), ('!out->index.empty()', 'idxNonEmpty'), ('min_feat_id', 'minFeat'),
               ('!out->field.empty()', 'fldNonEmpty'), ('min_field_id', 'minField')],
              [P('mode', 'mode', 32), P('idxNonEmpty', 'idxNonEmpty', 32, True), P('minFeat', 'minFeat', 64),
               P('fldNonEmpty', 'fldNonEmpty', 32, True), P('minField', 'minField', 64)]),
    # ---- CSV ParseBlock -----------------------------------------------------------------------------
    {'name': 'bomBytes', 'file': TXT, 'custom': bom_bytes},
    ('csvBase32', CSV, CSV_PB, r'static_cast<int32_t>\(strtoll\(p, &endptr, (\d+)\)\)', [], 'Nat'),
    ('csvBase64', CSV, CSV_PB, r'static_cast<int64_t>\(strtoll\(p, &endptr, (\d+)\)\)', [], 'Nat'),
    rewritten('csvIsLabel', CSV, CSV_PB, r'if \((column_index == param_\.label_column)\)',
              [('param_.label_column', 'labelCol')], [P('column_index', 'col', 32), P('labelCol', 'labelCol', 32)]),
    rewritten('csvIsWeight', CSV, CSV_PB, r'else if \(([^{]+?column_index == param_\.weight_column)\)',
              [('std::is_same<DType, real_t>::value', 'isReal'), ('param_.weight_column', 'weightCol')],
              [P('isReal', 'isReal', 32, True), P('column_index', 'col', 32), P('weightCol', 'weightCol', 32)]),
    rewritten('csvCellPresent', CSV, CSV_PB, r'if \((std::distance\(p, static_cast<const char \*>\(endptr\)\) != 0)\)',
              [('std::distance(p, static_cast<const char *>(endptr))', '(endptr - p)')],
              [P('p', 'p', 64), P('endptr', 'endptr', 64)]),
    ('csvClamp', CSV, CSV_PB, r'\n\s*p = (\(endptr >= lend\) \? lend : endptr);',
     [P('endptr', 'endptr', 64), P('lend', 'lend', 64)], 'Nat'),
    rewritten('csvNotDelim', CSV, CSV_PB, r'while \((\*p != param_\.delimiter\[0\]) && p != lend\) \{',
              [('*p', 'c'), ('param_.delimiter[0]', 'delim')], [C, P('delim', 'delim', 32)]),
    ('csvNoDelimiter', CSV, CSV_PB, r'if \((p == lend && idx == 0)\) \{\s*LOG\(FATAL\)',
     [P('p', 'p', 64), P('lend', 'lend', 64), P('idx', 'idx', 64)], 'Bool'),
    ('csvLabelCheck', CSV, CSV_PB, r'CHECK\((out->label\.size\(\) == 0 \|\| out->label\.size\(\) \+ 1 == out->offset\.size\(\))\);',
     [NLABEL, NOFFSET], 'Bool'),
    ('csvWeightCheck', CSV, CSV_PB, r'CHECK\((out->weight\.size\(\) == 0 \|\| out->weight\.size\(\) \+ 1 == out->offset\.size\(\))\);',
     [NWEIGHT, NOFFSET], 'Bool'),
    # ---- RowBlockContainer::GetBlock (row_block.h) -------------------------------------------------
    getblock_check('gbValueCheck', 'value.size()', [P('offset.back()', 'last', 64), P('value.size()', 'nvalue', 64)],
                   'values for all entries or for none'),
    getblock_check('gbWeightCheck', 'weight.size()', [P('weight.size()', 'nweight', 64), P('offset.size()', 'noffset', 64)],
                   'weights for all rows or for none'),
    getblock_check('gbQidCheck', 'qid.size()', [P('qid.size()', 'nqid', 64), P('offset.size()', 'noffset', 64)],
                   'qids for all rows or for none'),
    getblock_check('gbFieldCheck', 'field.size()', [P('field.size()', 'nfield', 64), P('index.size()', 'nindex', 64)],
                   'fields for all entries or for none'),
    # ---- the parser factories of src/data.cc -------------------------------------------------------
    {'name': 'factoryThreads', 'file': DATACC, 'custom': factory_threads},
    # ---- ThreadedParser::Next (parser.h): where the lent cell is given back -----------------------
    {'name': 'tpRecycleSites', 'file': PARSER, 'custom': threaded_next_shape},
    # ---- repairs present in the source? -------------------------------------------------------------
    flag('fixPairGuard', STN, PAIR + SKIPND + GUARD % 1, PAIR + SKIPND + r'q = p;',
         'ParsePair returns 1 instead of converting at `end` when nothing follows the colon'),
    flag('fixTripleGuard', STN, TRI + SKIPND + GUARD % 1 + r'[\s\S]*?' + SKIPND + GUARD % 2,
         TRI + SKIPND + r'q = p;[\s\S]*?' + SKIPND + r'q = p;',
         'ParseTriple returns 1 / 2 instead of converting at `end` when nothing follows a colon'),
    flag('fixQidGuard', SVM, r'qid = \(p != lend && isdigitchars\(\*p\)\) \? static_cast<uint64_t>\(atoll\(p\)\) : 0;',
         r'qid = static_cast<uint64_t>\(atoll\(p\)\);', 'atoll after "qid:" only when a number character follows'),
    flag('fixSvmEolSkip', SVM,
         r"while \(p != lend && \(\*p == '\\n' \|\| \*p == '\\r'\)\) \{\s*\+\+p;\s*\}\s*std::ptrdiff_t advanced = IgnoreCommentAndBlank\(p, lend\);\s*p \+= advanced;\s*int r = ParsePair<real_t, real_t>",
         r"real_t weight;\s*std::ptrdiff_t advanced = IgnoreCommentAndBlank\(p, lend\);\s*p \+= advanced;\s*int r = ParsePair<real_t, real_t>",
         'leading end-of-line bytes of a line skipped before the comment test'),
    # the guard exists in two shapes: CSV_GUARD_LEND (C11-3: blank up to the line end) and CSV_GUARD_DELIM (C12-3: the
    # skip loop also stops at the delimiter, and a cell that is blank up to the delimiter is missing as well)
    flag('fixCsvBlankGuard', CSV, r'(?:%s|%s)' % (CSV_GUARD_LEND, CSV_GUARD_DELIM), CSV_NO_GUARD,
         'a cell that is blank up to the line end is a missing value, no conversion'),
    flag('fixCsvDelimGuard', CSV, CSV_GUARD_DELIM, r'(?:%s|%s)' % (CSV_GUARD_LEND, CSV_NO_GUARD),
         'the blank-cell guard also stops at `param_.delimiter[0]`: a cell that is blank up to the delimiter is a '
         'missing value (a white-space delimiter is not skipped by strtof / strtoll)'),
    flag('fixCsvBomGuard', CSV,
         r"IgnoreUTF8BOM\(&lbegin, &end\);\s*if \(lbegin == end \|\| \*lbegin == '\\n' \|\| \*lbegin == '\\r'\) \{[^}]*?while \(\(lbegin != end\) && \(\*lbegin == '\\n' \|\| \*lbegin == '\\r'\)\) \{\s*\+\+lbegin;\s*\}\s*continue;",
         r"IgnoreUTF8BOM\(&lbegin, &end\);\s*lend = lbegin \+ 1;",
         'a line that holds nothing but a BOM is skipped like an empty line (no `lend = lbegin + 1` past the block end)'),
]
