"""Gen items for the Json subsystem (include/dmlc/json.h), all by custom extractors.

Extracted on every run (a change of the C++ text changes Gen/Json.lean, hence the spec lemmas in
DmlcModel/Json/Lemmas.lean and every theorem downstream):
  * writer escape table          (switch in JSONWriter::WriteString)
  * reader unescape table        (switch in JSONReader::ReadString) + its quote / backslash / fatal tests
  * whitespace set               (NextNonSpace / PeekNextNonSpace use the C library's isspace)
  * layout rules                 array multi-line rule, BeginObject(size > 1), default multi_line flags,
                                 the `any` array flag, indentation arithmetic, newline condition
  * separators                   ", " / ": " and whether the object key goes through WriteString
  * scope counter tests          writer and reader (`back() != 0`, `back() > 0`, `newline && nelem != 0`)
  * delimiters                   [ ] { } written and expected
"""
import re

import cexpr

F = 'include/dmlc/json.h'
ESC = {'n': 10, 'r': 13, 't': 9, '0': 0, '\\': 92, "'": 39, '"': 34, 'f': 12, 'v': 11, 'b': 8, 'a': 7}


def body(text, header):
    """text of the `{...}` block that follows the first match of regex `header`"""
    m = re.search(header, text)
    if not m:
        raise ValueError('function not found: ' + header)
    i = text.index('{', m.end())
    depth = 0
    j = i
    in_chr = in_str = False
    while j < len(text):
        c = text[j]
        if in_str or in_chr:
            if c == '\\':
                j += 2
                continue
            if in_str and c == '"':
                in_str = False
            elif in_chr and c == "'":
                in_chr = False
        elif c == '"':
            in_str = True
        elif c == "'":
            in_chr = True
        elif c == '{':
            depth += 1
        elif c == '}':
            depth -= 1
            if depth == 0:
                return text[i:j + 1]
        j += 1
    raise ValueError('unbalanced braces after ' + header)


def unesc(s):
    """bytes of the inside of a C string / char literal (only the escapes json.h uses)"""
    out = []
    i = 0
    while i < len(s):
        if s[i] == '\\':
            if s[i + 1] not in ESC:
                raise ValueError('escape \\%s not understood' % s[i + 1])
            out.append(ESC[s[i + 1]])
            i += 2
        else:
            out.append(ord(s[i]))
            i += 1
    return out


def lean_bytes(bs):
    return '[' + ', '.join(str(b) for b in bs) + ']'


def one(regex, text, what):
    ms = re.findall(regex, text, re.S)
    if len(ms) != 1:
        raise ValueError('%s: expected exactly one match of %s, found %d' % (what, regex, len(ms)))
    return ms[0]


CHR = r"'((?:\\.|[^'\\]))'"
STR = r'"((?:\\.|[^"\\])*)"'


def escape_table(text):
    b = body(text, r'inline void JSONWriter::WriteString\(const std::string &s\)')
    sw = body(b, r'switch \(ch\)')
    cases = re.findall(r'case ' + CHR + r':\s*Extend\(os_, ' + STR + r'\);\s*break;', sw)
    n_case = len(re.findall(r'\bcase\b', sw))
    if n_case != len(cases) or not cases:
        raise ValueError('WriteString switch: %d case labels, %d understood' % (n_case, len(cases)))
    if not re.search(r'default:\s*Extend\(os_, ch\);', sw):
        raise ValueError('WriteString switch: default is not `Extend(os_, ch)`')
    lines = ['def escape (c : UInt8) : List UInt8 :=', '  match c with']
    seen = set()
    for ch, s in cases:
        v = unesc(ch)[0]
        if v in seen:
            raise ValueError('duplicate case')
        seen.add(v)
        lines.append('  | %d => %s' % (v, lean_bytes(unesc(s))))
    lines.append('  | _ => [c]')
    # the quotes around the string
    q = re.findall(r"Extend\(os_, " + CHR + r"\);", b)
    if len(q) != 2:
        raise ValueError('WriteString: expected an opening and a closing quote')
    lines.append('def strOpen : UInt8 := %d' % unesc(q[0])[0])
    lines.append('def strClose : UInt8 := %d' % unesc(q[1])[0])
    return '\n'.join(lines)


def unescape_table(text):
    b = body(text, r'inline void JSONReader::ReadString\(std::string \*out_str\)')
    sw = body(b, r'switch \(sch\)')
    cases = re.findall(r'case ' + CHR + r':\s*Extend\(&output, ' + STR + r'\);\s*break;', sw)
    n_case = len(re.findall(r'\bcase\b', sw))
    if n_case != len(cases) or not cases:
        raise ValueError('ReadString switch: %d case labels, %d understood' % (n_case, len(cases)))
    if not re.search(r'default:\s*LOG\(FATAL\)', sw):
        raise ValueError('ReadString switch: default is not LOG(FATAL)')
    lines = ['def unescape (c : UInt8) : Option UInt8 :=', '  match c with']
    for ch, s in cases:
        bs = unesc(s)
        if len(bs) != 1:
            raise ValueError('unescape to %d bytes' % len(bs))
        lines.append('  | %d => some %d' % (unesc(ch)[0], bs[0]))
    lines.append('  | _ => none')
    env = {'ch': ('c', 32, False)}
    lead = one(r'ch = NextChar\(\);\s*if \((ch == [^)]+)\) \{\s*char sch', b, 'escape lead test')
    quote = one(r'\} else \{\s*if \((ch == [^)]+)\) \{\s*break;', b, 'closing quote test')
    fatal = one(r'if \((ch == EOF [^)]+)\) \{\s*LOG\(FATAL\)', b, 'end-of-line test')
    if not fatal.startswith('ch == EOF || '):
        raise ValueError('end-of-line test does not start with `ch == EOF ||`')
    first = one(r'int ch = NextNonSpace\(\);\s*CHECK_EQ\(ch, ' + CHR + r'\)', b, 'opening quote check')
    for name, src in (('strIsEscLead', lead), ('strIsClose', quote), ('strIsFatal', fatal[len('ch == EOF || '):])):
        lean, isb = cexpr.to_lean(src, env)
        lines.append('/-- `%s` (the EOF disjunct is the `none` case of the model) -/' % src)
        lines.append('def %s (c : Nat) : Bool := %s' % (name, lean))
    lines.append('def rStrOpen : UInt8 := %d' % unesc(first)[0])
    return '\n'.join(lines)


def space_set(text):
    for fn in ('NextNonSpace', 'PeekNextNonSpace'):
        b = body(text, r'inline int JSONReader::%s\(\)' % fn)
        if len(re.findall(r'isspace\(ch\)', b)) != 1:
            raise ValueError(fn + ' does not test `isspace(ch)` exactly once')
        if not re.search(r"if \(ch == '\\n'\) \{\s*\+\+line_count_n_;\s*\}\s*if \(ch == '\\r'\) \{\s*\+\+line_count_r_;", b):
            raise ValueError(fn + ': line counting changed')
    if not re.search(r'\} while \(isspace\(ch\)\);', body(text, r'inline int JSONReader::NextNonSpace\(\)')):
        raise ValueError('NextNonSpace loop shape changed')
    if not re.search(r'if \(!isspace\(ch\)\) \{\s*break;', body(text, r'inline int JSONReader::PeekNextNonSpace\(\)')):
        raise ValueError('PeekNextNonSpace loop shape changed')
    return ('-- `isspace` of the C locale (also the `ctype<char>::space` class `operator>>` skips)\n'
            'def isSpace (c : Nat) : Bool := c == 32 || (decide (9 ≤ c) && decide (c ≤ 13))\n'
            'def lineN : Nat := 10\ndef lineR : Nat := 13')


def layout(text):
    out = []
    arr = body(text, r'struct ArrayHandler')
    e = one(r'writer->BeginArray\(([^;]+)\);', arr, 'array multi-line rule')
    e = e.replace('array.size()', 'size').replace('dmlc::is_pod<ElemType>::value', 'isPod')
    lean, _ = cexpr.to_lean(e, {'size': ('size', 64, False), 'isPod': ('isPod', 32, True)})
    out.append('def arrayMultiLine (size : Nat) (isPod : Bool) : Bool := %s' % lean)
    mp = body(text, r'struct MapHandler')
    e = one(r'writer->BeginObject\(([^;]+)\);', mp, 'object multi-line rule').replace('map.size()', 'size')
    lean, _ = cexpr.to_lean(e, {'size': ('size', 64, False)})
    out.append('def objectMultiLine (size : Nat) : Bool := %s' % lean)
    d1 = one(r'inline void BeginArray\(bool multi_line = (\w+)\);', text, 'BeginArray default')
    d2 = one(r'inline void BeginObject\(bool multi_line = (\w+)\);', text, 'BeginObject default')
    out.append('def defaultArrayMultiLine : Bool := %s' % d1)
    out.append('def defaultObjectMultiLine : Bool := %s' % d2)
    pr = body(text, r'struct Handler<std::pair<K, V>>')
    one(r'(writer->BeginArray\(\);\s*writer->WriteArrayItem\(kv\.first\);\s*writer->WriteArrayItem\(kv\.second\);'
        r'\s*writer->EndArray\(\);)', pr, 'pair writer')
    an = body(text, r'struct Handler<any>')
    a = one(r'writer->BeginArray\((\w+)\);\s*writer->WriteArrayItem\(type_name\);\s*writer->WriteArraySeperator\(\);'
            r'\s*e\.write\(writer, data\);\s*writer->EndArray\(\);', an, 'any writer')
    out.append('def anyMultiLine : Bool := %s' % a)
    sep = body(text, r'inline void JSONWriter::WriteSeperator\(\)')
    cond = one(r'if \(([^{]+)\) \{', sep, 'WriteSeperator condition')
    cond = cond.replace('scope_multi_line_.size()', 'depth').replace('scope_multi_line_.back()', 'back')
    lean, _ = cexpr.to_lean(cond, {'depth': ('depth', 64, False), 'back': ('back', 32, True)})
    out.append('def sepNewline (depth : Nat) (back : Bool) : Bool := %s' % lean)
    nl = one(r'Extend\(os_, ' + CHR + r'\);\s*Extend\(os_, std::string', sep, 'newline char')
    ind = re.search(r'std::string\(([^,]+), ' + CHR + r'\)\);', sep)
    if not ind:
        raise ValueError('indentation expression not found')
    lean, _ = cexpr.to_lean(ind.group(1).replace('scope_multi_line_.size()', 'depth'), {'depth': ('depth', 64, False)})
    out.append('def sepChar : UInt8 := %d' % unesc(nl)[0])
    out.append('def indentWidth (depth : Nat) : Nat := %s' % lean)
    out.append('def indentChar : UInt8 := %d' % unesc(ind.group(2))[0])
    return '\n'.join(out)


def separators(text):
    out = []
    was = body(text, r'inline void JSONWriter::WriteArraySeperator\(\)')
    m = re.search(r'\{\s*if \(([^{]+)\) \{\s*Extend\(os_, ' + STR + r'\);\s*\}\s*scope_counter_\.back\(\) \+= 1;\s*'
                  r'WriteSeperator\(\);\s*\}$', was)
    if not m:
        raise ValueError('WriteArraySeperator shape changed')
    env = {'cnt': ('cnt', 64, False)}
    lean, _ = cexpr.to_lean(m.group(1).replace('scope_counter_.back()', 'cnt'), env)
    out.append('def wArrNeedSep (cnt : Nat) : Bool := %s' % lean)
    out.append('def arraySep : List UInt8 := %s' % lean_bytes(unesc(m.group(2))))
    kv = body(text, r'inline void JSONWriter::WriteObjectKeyValue\(const std::string &key, const ValueType &value\)')
    m = re.search(r'\{\s*if \(([^{]+)\) \{\s*Extend\(os_, ' + STR + r'\);\s*\}\s*WriteSeperator\(\);\s*(.*?)'
                  r'scope_counter_\.back\(\) \+= 1;\s*json::Handler<ValueType>::Write\(this, value\);\s*\}$', kv, re.S)
    if not m:
        raise ValueError('WriteObjectKeyValue shape changed')
    lean, _ = cexpr.to_lean(m.group(1).replace('scope_counter_.back()', 'cnt'), env)
    out.append('def wObjNeedSep (cnt : Nat) : Bool := %s' % lean)
    out.append('def objectSep : List UInt8 := %s' % lean_bytes(unesc(m.group(2))))
    key = ' '.join(m.group(3).split())
    raw = re.fullmatch(r"Extend\(os_, " + CHR + r"\); Extend\(os_, key\); Extend\(os_, " + STR + r"\);", key)
    esc = re.fullmatch(r'(?:this->)?WriteString\(key\); Extend\(os_, ' + STR + r'\);', key)
    if raw:
        tail = unesc(raw.group(2))
        out.append('/-- the key is copied between two quotes without escaping -/')
        out.append('def keyEscaped : Bool := false')
        out.append('def keyRawOpen : UInt8 := %d' % unesc(raw.group(1))[0])
        out.append('def keyRawClose : UInt8 := %d' % tail[0])
        out.append('def keyValueSep : List UInt8 := %s' % lean_bytes(tail[1:]))
    elif esc:
        out.append('/-- the key goes through `WriteString` -/')
        out.append('def keyEscaped : Bool := true')
        out.append('def keyRawOpen : UInt8 := 34')
        out.append('def keyRawClose : UInt8 := 34')
        out.append('def keyValueSep : List UInt8 := %s' % lean_bytes(unesc(esc.group(1))))
    else:
        raise ValueError('WriteObjectKeyValue: key emission not understood: ' + key)
    for fn, nm in (('EndArray', 'Arr'), ('EndObject', 'Obj')):
        b = body(text, r'inline void JSONWriter::%s\(\)' % fn)
        c = one(r'scope_counter_\.pop_back\(\);\s*if \(([^{]+)\) \{\s*WriteSeperator\(\);\s*\}\s*Extend\(os_, ' + CHR + r'\);',
                b, fn)
        lean, _ = cexpr.to_lean(c[0], {'newline': ('newline', 32, True), 'nelem': ('nelem', 64, False)})
        out.append('def wEnd%sNewline (newline : Bool) (nelem : Nat) : Bool := %s' % (nm, lean))
        out.append('def wClose%s : UInt8 := %d' % (nm, unesc(c[1])[0]))
        if not re.search(r'bool newline = scope_multi_line_\.back\(\);\s*size_t nelem = scope_counter_\.back\(\);', b):
            raise ValueError(fn + ': newline/nelem are not the tops of the two stacks')
    for fn, nm in (('BeginArray', 'Arr'), ('BeginObject', 'Obj')):
        b = body(text, r'inline void JSONWriter::%s\(bool multi_line\)' % fn)
        c = one(r'\{\s*Extend\(os_, ' + CHR + r'\);\s*scope_multi_line_\.push_back\(multi_line\);\s*'
                r'scope_counter_\.push_back\(0\);\s*\}', b, fn)
        out.append('def wOpen%s : UInt8 := %d' % (nm, unesc(c)[0]))
    return '\n'.join(out)


def reader_items(text):
    out = []
    env = {'cnt': ('cnt', 64, False)}
    for fn, nm, hdr in (('NextArrayItem', 'Arr', r'inline bool JSONReader::NextArrayItem\(\)'),
                        ('NextObjectItem', 'Obj', r'inline bool JSONReader::NextObjectItem\(std::string \*out_key\)')):
        b = body(text, hdr)
        m = re.search(r'bool next = true;\s*if \(([^{]+)\) \{\s*int ch = NextNonSpace\(\);\s*if \(ch == EOF\) \{\s*next = false;'
                      r'\s*\} else if \(ch == ' + CHR + r'\) \{\s*next = false;\s*\} else \{\s*CHECK_EQ\(ch, ' + CHR + r'\)'
                      r'.*?\} else \{\s*int ch = PeekNextNonSpace\(\);\s*if \(ch == ' + CHR + r'\) \{\s*NextChar\(\);\s*next = false;'
                      r'\s*\}\s*\}\s*if \(!next\) \{\s*scope_counter_\.pop_back\(\);\s*return false;\s*\} else \{\s*'
                      r'scope_counter_\.back\(\) \+= 1;', b, re.S)
        if not m:
            raise ValueError(fn + ' shape changed')
        lean, _ = cexpr.to_lean(m.group(1).replace('scope_counter_.back()', 'cnt'), env)
        out.append('def r%sNotFirst (cnt : Nat) : Bool := %s' % (nm, lean))
        out.append('def r%sClose : UInt8 := %d' % (nm, unesc(m.group(2))[0]))
        out.append('def r%sComma : UInt8 := %d' % (nm, unesc(m.group(3))[0]))
        out.append('def r%sCloseFirst : UInt8 := %d' % (nm, unesc(m.group(4))[0]))
    b = body(text, r'inline bool JSONReader::NextObjectItem\(std::string \*out_key\)')
    c = one(r'ReadString\(out_key\);\s*int ch = NextNonSpace\(\);\s*CHECK_EQ\(ch, ' + CHR + r'\)', b, 'colon check')
    out.append('def rColon : UInt8 := %d' % unesc(c)[0])
    for fn, nm in (('BeginArray', 'Arr'), ('BeginObject', 'Obj')):
        b = body(text, r'inline void JSONReader::%s\(\)' % fn)
        c = one(r'int ch = NextNonSpace\(\);\s*CHECK_EQ\(ch, ' + CHR + r'\).*?scope_counter_\.push_back\(0\);', b, fn)
        out.append('def rOpen%s : UInt8 := %d' % (nm, unesc(c)[0]))
    rn = body(text, r'inline void JSONReader::ReadNumber\(ValueType \*out_value\)')
    one(r'(\*is_ >> \*out_value;\s*CHECK\(!is_->fail\(\)\))', rn, 'ReadNumber')
    wn = body(text, r'inline void JSONWriter::WriteNumber\(const ValueType &v\)')
    one(r'(Extend\(os_, v\);)', wn, 'WriteNumber')
    return '\n'.join(out)


ITEMS = [
    {'name': 'escape', 'file': F, 'custom': escape_table},
    {'name': 'unescape', 'file': F, 'custom': unescape_table},
    {'name': 'isSpace', 'file': F, 'custom': space_set},
    {'name': 'layout', 'file': F, 'custom': layout},
    {'name': 'separators', 'file': F, 'custom': separators},
    {'name': 'reader', 'file': F, 'custom': reader_items},
]
