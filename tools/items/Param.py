"""Gen items for the Param subsystem (include/dmlc/parameter.h, include/dmlc/optional.h).

All items are custom extractions: the C++ fragments mention member calls (`it->first.length()`,
`it->first.find("__")`), template-typed comparisons (`v < begin_`) or literal tables, so the fragment is
located by a regular expression, the non-arithmetic sub-terms are replaced by named parameters, and the
remaining boolean/arithmetic skeleton goes through the shared expression parser (tools/cexpr.py).
"""
import re

import cexpr
from translate import P

PH = 'include/dmlc/parameter.h'
OH = 'include/dmlc/optional.h'


def _after(text, scope, expr, flags=re.S):
    m = re.search(scope, text)
    if not m:
        raise cexpr.ParseError('scope not found: ' + scope)
    m2 = re.compile(expr, flags).search(text, m.end())
    if not m2:
        raise cexpr.ParseError('expression not found after scope: ' + expr)
    return m2


def _bytes(s):
    return '[' + ', '.join(str(b) for b in s.encode('latin-1')) + ']'


def _cstr(lit):
    """value of a C string literal body without exotic escapes"""
    return lit.replace('\\"', '"').replace('\\\\', '\\')


# --- enum ParamInitOption ------------------------------------------------------------------------
def enum_values(text):
    m = _after(text, r'enum ParamInitOption \{', r'(.*?)\};')
    body = re.sub(r'/\*.*?\*/', '', m.group(1), flags=re.S)
    body = re.sub(r'//[^\n]*', '', body)
    names = [n.strip() for n in body.split(',') if n.strip()]
    if sorted(names) != ['kAllMatch', 'kAllowHidden', 'kAllowUnknown']:
        raise cexpr.ParseError('unexpected ParamInitOption enumerators %r' % names)
    for n in names:
        if '=' in n:
            raise cexpr.ParseError('explicit enumerator value not supported: ' + n)
    return '\n'.join('def %s : Nat := %d' % (n, i) for i, n in enumerate(names))


ENV_OPT = {'option': ('option', 32, False),
           'parameter::kAllowUnknown': ('kAllowUnknown', 32, False),
           'parameter::kAllowHidden': ('kAllowHidden', 32, False),
           'parameter::kAllMatch': ('kAllMatch', 32, False)}


def collect_test(text):
    """`if (unknown_args != NULL)`: the collecting mode is tested before the option"""
    m = _after(text, r'void RunUpdate\(void \*head', r'\} else \{\s*if \(([^)]*)\) \{\s*unknown_args->push_back')
    src = ' '.join(m.group(1).split())
    if src != 'unknown_args != NULL':
        raise cexpr.ParseError('unexpected collect test: ' + src)
    return '-- `%s`\ndef collects (hasUnknownArgs : Bool) : Bool := hasUnknownArgs' % src


def pol_rejects(text):
    m = _after(text, r'void RunUpdate\(void \*head', r'\} else \{\s*if \((option != [^)]*)\) \{\s*if \(option ==')
    lean, isb = cexpr.to_lean(' '.join(m.group(1).split()), ENV_OPT)
    return '-- `%s`\ndef polMayReject (option : Nat) : Bool := %s' % (' '.join(m.group(1).split()), lean)


def hidden_key(text):
    m = _after(text, r'void RunUpdate\(void \*head', r'if \((option == parameter::kAllowHidden.*?)\) \{\s*continue;')
    src = ' '.join(m.group(1).split())
    e = src.replace('it->first.length()', 'len').replace('it->first.find("__")', 'find').replace(
        'it->first.rfind("__")', 'rfind')
    if 'it->' in e or '"' in e:
        raise cexpr.ParseError('unexpected member call in hidden-key test: ' + e)
    env = dict(ENV_OPT)
    env.update({'len': ('len', 64, False), 'find': ('find', 64, False), 'rfind': ('rfind', 64, False)})
    lean, isb = cexpr.to_lean(e, env)
    pat = re.findall(r'find\("([^"]*)"\)', src)
    if len(set(pat)) != 1:
        raise cexpr.ParseError('hidden-key test searches for several patterns: %r' % pat)
    return ('-- `%s`; `find`/`rfind` = position of the first/last occurrence of the pattern, npos = 2^64-1\n'
            'def hiddenPattern : List UInt8 := %s\n'
            'def hiddenSkip (option len find rfind : Nat) : Bool := %s' % (src, _bytes(pat[0]), lean))


# --- FieldEntryNumeric::Check ----------------------------------------------------------------------
ENV_CHK = {'has_begin_': ('hasBegin', 32, True), 'has_end_': ('hasEnd', 32, True),
           'ltBegin': ('ltBegin', 32, True), 'gtEnd': ('gtEnd', 32, True)}


def _chk(src):
    e = ' '.join(src.split()).replace('v < begin_', 'ltBegin').replace('v > end_', 'gtEnd')
    lean, isb = cexpr.to_lean(e, ENV_CHK)
    if not isb:
        raise cexpr.ParseError('not boolean: ' + src)
    return lean


def range_check(text):
    scope = r'virtual void Check\(void \*head\) const \{\s*FieldEntryBase<TEntry, DType>::Check\(head\);'
    m1 = _after(text, scope, r'if \((has_begin_ && has_end_)\) \{\s*if \((v < begin_ \|\| v > end_)\) \{')
    m2 = _after(text, scope, r'\} else if \((has_begin_ && v < begin_)\) \{')
    m3 = _after(text, scope, r'\} else if \((has_end_ && v > end_)\) \{')
    if not (m1.start() < m2.start() < m3.start()):
        raise cexpr.ParseError('range-check branches out of order')
    args = '(hasBegin hasEnd ltBegin gtEnd : Bool)'
    return '\n'.join([
        '-- branch 1 guard `%s`' % m1.group(1),
        'def chkBoth %s : Bool := %s' % (args, _chk(m1.group(1))),
        '-- branch 1 failure `%s`' % m1.group(2),
        'def chkBothFail %s : Bool := %s' % (args, _chk(m1.group(2))),
        '-- branch 2 `%s`' % m2.group(1),
        'def chkLowerFail %s : Bool := %s' % (args, _chk(m2.group(1))),
        '-- branch 3 `%s`' % m3.group(1),
        'def chkUpperFail %s : Bool := %s' % (args, _chk(m3.group(1)))])


# --- FieldEntry<bool>::Set literal table ------------------------------------------------------------
def bool_table(text):
    m = _after(text, r'class FieldEntry<bool> :', r'bool &ref = this->Get\(head\);(.*?)\} else \{\s*std::ostringstream')
    rows = re.findall(r'if \(lower_case == "((?:[^"\\]|\\.)*)"\) \{\s*ref = (true|false);', m.group(1))
    if len(rows) < 1 or len(rows) != m.group(1).count('lower_case =='):
        raise cexpr.ParseError('cannot read the bool literal table')
    body = ', '.join('(%s, %s)' % (_bytes(_cstr(a)), b) for a, b in rows)
    lc = _after(text, r'class FieldEntry<bool> :', r'std::transform\(value.begin\(\), value.end\(\), lower_case.begin\(\), ::(\w+)\);')
    if lc.group(1) != 'tolower':
        raise cexpr.ParseError('bool Set no longer lower-cases with ::tolower')
    return ('-- literals of FieldEntry<bool>::Set, compared after `::tolower`, in source order\n'
            'def boolTable : List (List UInt8 × Bool) := [%s]' % body)


# --- optional<T> stream extraction --------------------------------------------------------------------
def none_probe(text):
    m = _after(text, r'std::istream &operator>>\(std::istream &is, optional<T> &t\) \{',
               r'char buf\[(\d+)\];.*?is\.read\(buf, (\d+)\);\s*if \(is\.fail\(\)((?: \|\| buf\[\d+\] != \'.\')+)\) \{')
    n1, n2 = int(m.group(1)), int(m.group(2))
    cs = re.findall(r"buf\[(\d+)\] != '(.)'", m.group(3))
    if n1 != n2 or [int(i) for i, _ in cs] != list(range(n1)):
        raise cexpr.ParseError('None probe: buffer size / read length / compared bytes disagree')
    lit = ''.join(c for _, c in cs)
    m2 = _after(text, r'std::istream &operator>>\(std::istream &is, optional<T> &t\) \{',
                r"if \(std::is_integral<T>::value && !is\.eof\(\) && is\.peek\(\) == '(.)'\) \{\s*is\.get\(\);")
    return ('-- optional<T>: `is.read(buf, %d)` compared byte-wise with the probe; on mismatch rewind and parse T\n'
            'def noneProbeLen : Nat := %d\n'
            'def noneProbe : List UInt8 := %s\n'
            '-- integral T: one trailing suffix byte is consumed after the number\n'
            'def optIntSuffix : UInt8 := %d' % (n1, n1, _bytes(lit), ord(m2.group(1))))


def optbool_table(text):
    m = _after(text, r'inline std::istream &operator>>\(std::istream &is, optional<bool> &t\) \{',
               r'std::transform\(s\.begin\(\), s\.end\(\), s\.begin\(\), ::tolower\);(.*?)\} else \{\s*is\.setstate')
    rows = []
    for cond, val in re.findall(r'if \(([^)]*)\) \{\s*t = (true|false|nullopt);', m.group(1)):
        for lit in re.findall(r's == "((?:[^"\\]|\\.)*)"', cond):
            rows.append((lit, {'true': 'some true', 'false': 'some false', 'nullopt': 'none'}[val]))
    if len(rows) != m.group(1).count('s =='):
        raise cexpr.ParseError('cannot read the optional<bool> literal table')
    body = ', '.join('(%s, %s)' % (_bytes(_cstr(a)), b) for a, b in rows)
    return ('-- literals of optional<bool> extraction (after `::tolower` of the alnum run), in source order\n'
            'def optBoolTable : List (List UInt8 × Option Bool) := [%s]' % body)


def enum_none_guard(text):
    m = _after(text, r'class FieldEntry<optional<int>> :', r'if \(is_enum_ && value != "((?:[^"\\]|\\.)*)"\) \{')
    return ('-- FieldEntry<optional<int>>::Set: `is_enum_ && value != "%s"` selects the enum lookup\n'
            'def optEnumNone : List UInt8 := %s' % (m.group(1), _bytes(_cstr(m.group(1)))))


ITEMS = [
    # `isspace(ch)` in FieldEntryBase::Set resolves to dmlc::isspace (strtonum.h), not to the libc function
    ('dmlcIsSpace', 'include/dmlc/strtonum.h', r'inline bool isspace\(char c\) \{', r'return ([^;]+);', [P('c')], 'Bool'),
    {'name': 'ParamInitOption', 'file': PH, 'custom': enum_values},
    {'name': 'collects', 'file': PH, 'custom': collect_test},
    {'name': 'polMayReject', 'file': PH, 'custom': pol_rejects},
    {'name': 'hiddenSkip', 'file': PH, 'custom': hidden_key},
    {'name': 'rangeCheck', 'file': PH, 'custom': range_check},
    {'name': 'boolTable', 'file': PH, 'custom': bool_table},
    {'name': 'optEnumNone', 'file': PH, 'custom': enum_none_guard},
    {'name': 'noneProbe', 'file': OH, 'custom': none_probe},
    {'name': 'optBoolTable', 'file': OH, 'custom': optbool_table},
]
